#!/bin/sh
# Offline setup: warm the Go build cache for the driver and parse every spec.
set -e
cd "$(dirname "$0")"
export GOFLAGS=-mod=mod GOPROXY=off GOSUMDB=off GOTOOLCHAIN=local CGO_ENABLED=0
cp /repo/src/go.sum harness/go.sum
mkdir -p .build evidence
(cd harness && go build -tags verif -o ../.build/vdrv ./cmd/vdrv)
tmp=$(mktemp -d)
cp spec/*.tla "$tmp"/
(cd "$tmp" && for f in *.tla; do timeout 120 tla-sany "$f" >/dev/null 2>&1 || { echo "SANY failed on $f"; tla-sany "$f" | tail -5; exit 1; }; done)
rm -rf "$tmp"
echo setup ok
