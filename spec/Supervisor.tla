----------------------------- MODULE Supervisor -----------------------------
(* C20: source re-discovery for a cluster shard (dbSync/slotsupervisor).
   A scenario fixes, for every retry round and every known node (in probe order: the configured
   source first, then the configured replicas), what the node answers: "master", "slave" or "err"
   (unreachable / command error / no role line - all tolerated and never chosen).
   The as-implemented loop (one action per probe, per end of round) is checked against the
   CONTRACT:
     found      => the chosen node reported master in the round it was chosen, in the FIRST round in
                   which any node reported master; every other known node is listed as replica, once
     not found  => no node reported master in any of the MaxRetries+1 rounds (then: error)
   and it always terminates after at most MaxRetries+1 rounds. *)
EXTENDS Integers, Sequences, FiniteSets, TLC
CONSTANTS N,             \* number of known nodes (1 = configured source, 2..N configured replicas)
          MaxRetries,
          DevLastMasterWins  \* deviation switch: a later master replaces an earlier one, which is then listed nowhere
Outcomes == {"master", "slave", "err"}
Rounds == 0..MaxRetries
VARIABLES scn, round, i, src, slaves, found, res
vars == <<scn, round, i, src, slaves, found, res>>

Init == /\ scn \in [Rounds -> [1..N -> Outcomes]]
        /\ round = 0 /\ i = 1 /\ src = 0 /\ slaves = <<>> /\ found = FALSE /\ res = [k |-> "running"]
Probe == /\ res.k = "running" /\ i <= N
         /\ IF scn[round][i] = "master" /\ (DevLastMasterWins \/ ~found)
              THEN found' = TRUE /\ src' = i /\ slaves' = slaves
              ELSE slaves' = Append(slaves, i) /\ UNCHANGED <<found, src>>
         /\ i' = i + 1 /\ UNCHANGED <<scn, round, res>>
EndRound == /\ res.k = "running" /\ i = N + 1
            /\ IF found THEN res' = [k |-> "ok", src |-> src, slaves |-> slaves, round |-> round] /\ UNCHANGED <<round, i, src, slaves, found>>
               ELSE IF round = MaxRetries THEN res' = [k |-> "error", round |-> round] /\ UNCHANGED <<round, i, src, slaves, found>>
               ELSE round' = round + 1 /\ i' = 1 /\ src' = 0 /\ slaves' = <<>> /\ UNCHANGED <<found, res>>
            /\ UNCHANGED scn
Next == Probe \/ EndRound
Spec == Init /\ [][Next]_vars /\ WF_vars(Next)

\* ---- the contract, as operators on a scenario ----
HasMaster(s, r) == \E n \in 1..N : s[r][n] = "master"
FirstMasterRound(s) == IF \E r \in Rounds : HasMaster(s, r)
                       THEN CHOOSE r \in Rounds : HasMaster(s, r) /\ \A q \in 0..(r - 1) : ~HasMaster(s, q)
                       ELSE -1
ResultOK(s, r) ==
  IF r.k = "ok" THEN /\ r.round = FirstMasterRound(s)
                     /\ s[r.round][r.src] = "master"
                     /\ {r.slaves[j] : j \in 1..Len(r.slaves)} = (1..N) \ {r.src}
                     /\ Len(r.slaves) = N - 1
  ELSE r.k = "error" => (FirstMasterRound(s) = -1 /\ r.round = MaxRetries)
Contract == res.k # "running" => ResultOK(scn, res)
Terminates == <>(res.k # "running")
=============================================================================
