CONSTANTS MaxLen = 5 Dbs = {0,1} FilteredDbs = {} KeyFilterOn = TRUE FilterLua = FALSE SenderCount = 2 BufCap = 2
  Resume = TRUE TargetDB = 1 MaxCrash = 1 Kinds = {"w","ping"}
SPECIFICATION GenSpec
CHECK_DEADLOCK FALSE
