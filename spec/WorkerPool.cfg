SPECIFICATION Spec
CONSTANTS
  Jobs = 4
  P = 2
  DevDoneBeforeWork = FALSE
INVARIANTS TypeOK AtMostP ExactlyOnce MainAfterAll NoJobTwice
PROPERTIES Terminates
CHECK_DEADLOCK FALSE
