CONSTANTS Cap = 2 MaxBytes = 4 Chunks = {0,1,2,3} DevNoSignal = FALSE DevNoReset = FALSE
SPECIFICATION Spec
INVARIANTS Fifo ParkedOnlyIfBlocked DrainBeforeError RingSane QueryOK
PROPERTY Refines
CHECK_DEADLOCK FALSE
