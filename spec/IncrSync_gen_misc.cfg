CONSTANTS MaxLen = 6 Dbs = {0,1} FilteredDbs = {} KeyFilterOn = FALSE FilterLua = TRUE SenderCount = 3 BufCap = 2
  Resume = FALSE TargetDB = 9 MaxCrash = 0 Kinds = {"w","wf","wm","eval","opinfo","hello","ping"}
SPECIFICATION GenSpec
CHECK_DEADLOCK FALSE
