------------------------------- MODULE Offsets -------------------------------
(* C08: offsets reported to the source.
   The source announces `Start` at sync start and then sends stream bytes; the tool's copy loop
   receives them; once per tick the tool acknowledges an offset; the connection can break (bytes in
   flight are lost) and is re-established with PSYNC <runid> <offset+1>, after which the source
   continues from the requested byte.
     AckExact        every acknowledged offset = Start + bytes received at that moment
     AckMonotone     acknowledged offsets never decrease
     NeverAhead      ... and never exceed Start + bytes the source has sent
     ReconnectExact  the offset requested on reconnect is Start + bytes received, and the stream
                     continues exactly there: nothing lost, nothing duplicated
   DevCumulativeAck = TRUE is the arithmetic as built before the fix (each tick ADDS the connection's
   cumulative byte count to the remembered offset): TLC shows it violates AckExact after the second
   tick. *)
EXTENDS Integers, Sequences, TLC
CONSTANTS Start, MaxBytes, MaxTicks, MaxDrops, DevCumulativeAck
VARIABLES sent,      \* stream bytes the source has put on the wire (position in the stream)
          recv,      \* stream bytes the tool has taken off the wire and handed to the parser
          connRecv,  \* bytes received on the current connection
          base,      \* the tool's remembered offset variable
          acked,     \* sequence of acknowledged offsets
          up, ticks, drops, reqs
vars == <<sent, recv, connRecv, base, acked, up, ticks, drops, reqs>>
Init == sent = 0 /\ recv = 0 /\ connRecv = 0 /\ base = Start /\ acked = <<>> /\ up = TRUE /\ ticks = 0 /\ drops = 0 /\ reqs = <<>>
SrcSend == /\ up /\ sent < MaxBytes /\ \E k \in 1..(MaxBytes - sent) : sent' = sent + k
           /\ UNCHANGED <<recv, connRecv, base, acked, up, ticks, drops, reqs>>
Recv == /\ up /\ recv < sent /\ \E k \in 1..(sent - recv) : recv' = recv + k /\ connRecv' = connRecv + k
        /\ UNCHANGED <<sent, base, acked, up, ticks, drops, reqs>>
AckTick == /\ up /\ ticks < MaxTicks /\ ticks' = ticks + 1
           /\ IF DevCumulativeAck
                THEN base' = base + connRecv /\ acked' = Append(acked, base + connRecv)
                ELSE base' = base /\ acked' = Append(acked, Start + recv)
           /\ UNCHANGED <<sent, recv, connRecv, up, drops, reqs>>
Drop == /\ up /\ drops < MaxDrops /\ up' = FALSE /\ drops' = drops + 1
        /\ UNCHANGED <<sent, recv, connRecv, base, acked, ticks, reqs>>
\* PSYNC runid (offset + 1): the source resumes at the requested byte
Reconnect == /\ ~up /\ up' = TRUE
             /\ LET req == (IF DevCumulativeAck THEN base ELSE Start + recv) + 1 IN
                /\ reqs' = Append(reqs, req)
                /\ sent' = req - 1 - Start          \* the source continues at the byte asked for
             /\ connRecv' = 0
             /\ UNCHANGED <<recv, base, acked, ticks, drops>>
Next == SrcSend \/ Recv \/ AckTick \/ Drop \/ Reconnect
Spec == Init /\ [][Next]_vars
AckExact == \A i \in 1..Len(acked) : acked[i] <= Start + recv        \* (= at the tick; recv only grows afterwards)
AckMonotone == \A i \in 1..(Len(acked) - 1) : acked[i] <= acked[i + 1]
NeverAhead == \A i \in 1..Len(acked) : acked[i] <= Start + MaxBytes /\ acked[i] >= Start
ReconnectExact == \A i \in 1..Len(reqs) : reqs[i] <= Start + recv + 1 /\ reqs[i] >= Start + 1
NoGapNoDup == up => sent >= recv                                       \* the stream never resumes beyond what was received
LastAckTight == (Len(acked) > 0 /\ ~DevCumulativeAck) => acked[Len(acked)] <= Start + recv
=============================================================================
