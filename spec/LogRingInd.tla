------------------------------- MODULE LogRingInd -------------------------------
(* The backlog's ring (C18) for an unbounded number of wrap-arounds: byte number n is stored in slot
   n % S, nothing is ever reset, and any offset o with w - S <= o < w (and o >= 0) may be read.
   Inductive invariant: every retained byte n (the last min(w, S) ones) sits in slot n % S.
   Safety: ReadAt(o) inside the reported range returns byte number o.                              *)
EXTENDS Integers
CONSTANTS
  \* @type: Int;
  S
VARIABLES
  \* @type: Int -> Int;
  ring,
  \* @type: Int;
  w,
  \* @type: Bool;
  readok
MaxS == 6
ConstInit == S \in 1..MaxS
Slots == 0..(MaxS - 1)
Lo == IF w > S THEN w - S ELSE 0
Init == ring = [i \in Slots |-> -1] /\ w = 0 /\ readok = TRUE
Write == ring' = [ring EXCEPT ![w % S] = w] /\ w' = w + 1 /\ UNCHANGED readok
ReadAt == \E i \in Slots : /\ i < w - Lo
                          /\ readok' = (readok /\ ring[(Lo + i) % S] = Lo + i)
                          /\ UNCHANGED <<ring, w>>
Next == Write \/ ReadAt
TypeOK == ring \in [Slots -> Int] /\ w \in Int /\ readok \in BOOLEAN
IndInv == /\ TypeOK /\ S >= 1 /\ S <= MaxS /\ w >= 0
          /\ \A i \in Slots : i < w - Lo => ring[(Lo + i) % S] = Lo + i
          /\ readok
IndInit == TypeOK /\ IndInv
Safety == readok
=============================================================================
