------------------------------- MODULE RdbTrace -------------------------------
(* Trace validation for C01: per generated file the recorder logs the abstract operation sequence
   ("file"), one "rec" per record the REAL loader delivered (attributes as numbers; whether key bytes,
   type byte and DUMP payload - type + exactly the value bytes of the file + version + CRC-64 - match
   what the independent writer put into the file is compared by the recorder) and how the parse ended
   ("end").  Expected records come from RdbFile!Expected. *)
EXTENDS RdbContract, TLC, Json
VARIABLES l, bad, want, seen
Trace == ndJsonDeserialize("trace.ndjson")
RecOK(ev) ==
  /\ ev.i <= Len(want)
  /\ LET w == want[ev.i] IN
     /\ ev.kind = w.kind /\ ev.db = w.db /\ ev.id = w.id /\ ev.part = w.part
     /\ ev.ex = w.ex /\ ev.idle = w.idle /\ ev.freq = w.freq                  \* attributes bound to the right key
     /\ ev.key_ok /\ ev.type_ok /\ ev.payload_ok                              \* name, type, byte-exact checksummed payload
  /\ ev.i = seen + 1                                                          \* in file order, none skipped
EndOK(ev) == ~ev.err /\ ev.records = Len(want) /\ seen = Len(want) /\ ev.footer_ok /\ ev.chunks_ok /\ ev.held_ok
EventOK(ev) == CASE ev.e = "rec" -> RecOK(ev) [] ev.e = "end" -> EndOK(ev) [] OTHER -> TRUE
TInit == l = 1 /\ bad = 0 /\ want = <<>> /\ seen = 0
TNext == /\ l <= Len(Trace) /\ l' = l + 1
         /\ LET ev == Trace[l] IN
            /\ want' = IF ev.e = "file" THEN Expected(ev.ops) ELSE want
            /\ seen' = IF ev.e = "file" THEN 0 ELSE IF ev.e = "rec" THEN ev.i ELSE seen
            /\ IF EventOK(ev) THEN bad' = bad ELSE PrintT(<<"REJECT", l>>) /\ bad' = bad + 1
TSpec == TInit /\ [][TNext]_<<l, bad, want, seen>>
Accepted == TLCGet("stats").diameter - 1 = Len(Trace)
=============================================================================
