------------------------------ MODULE Backlog ------------------------------
(* C18: pkg/libs/io/backlog - a ring log addressed by absolute offset.
   As-implemented model (one action per readSomeAt / writeSome critical section, ring
   arithmetic with wpos % Cap and the split at the ring end, Broadcast on write/close) with
   the CONTRACT stated as invariants over it:
     ReadCorrect     a successful read at offset o returns exactly the ids written at o, o+1, ...
     InvalidIff      invalid-offset is reported exactly when o is overwritten or beyond wpos
     ParkOnlyAtHead  a reader waits only while o = write position and the log is open
     RangeOK         DataRange = the most recent min(total, Cap) bytes
   Writers never block.  `last` drives the lock-step replay. *)
EXTENDS Integers, Sequences, FiniteSets, TLC
CONSTANTS Cap, MaxTotal, Chunks, Readers,
          DevNoBroadcast    \* deviation switch: a write does not wake waiting readers
VARIABLES store, wpos, closed, wst, wleft, wn, wret, rst, roff, rwant, last
vars == <<store, wpos, closed, wst, wleft, wn, wret, rst, roff, rwant, last>>

Min2(a, b) == IF a < b THEN a ELSE b
WakeAll(s) == [r \in Readers |-> IF s[r] = "parked" THEN "woken" ELSE s[r]]

Init == /\ store = [i \in 0..Cap-1 |-> 0] /\ wpos = 0 /\ closed = FALSE
        /\ wst = "idle" /\ wleft = 0 /\ wn = 0 /\ wret = [n |-> 0, err |-> "none"]
        /\ rst = [r \in Readers |-> "idle"] /\ roff = [r \in Readers |-> 0]
        /\ rwant = [r \in Readers |-> 0]
        /\ last = [a |-> "Init"]

WBegin(k) == /\ wst = "idle" /\ wpos + k <= MaxTotal
             /\ wst' = "call" /\ wleft' = k /\ wn' = 0 /\ wret' = [n |-> 0, err |-> "none"]
             /\ last' = [a |-> "WBegin", k |-> k]
             /\ UNCHANGED <<store, wpos, closed, rst, roff, rwant>>
\* one writeSome() critical section; a writer never parks
WStep ==
  /\ wst = "call"
  /\ IF wleft = 0 THEN      \* zero-length write: success, whether or not the log is closed (as built)
        /\ wret' = [n |-> wn, err |-> "nil"] /\ wst' = "idle"
        /\ last' = [a |-> "WStep", res |-> "ret", n |-> wn, err |-> "nil"]
        /\ UNCHANGED <<store, wpos, wleft, wn, rst>>
     ELSE IF closed THEN
        /\ wret' = [n |-> wn, err |-> "CLOSED"] /\ wst' = "idle" /\ wleft' = 0
        /\ last' = [a |-> "WStep", res |-> "ret", n |-> wn, err |-> "CLOSED"]
        /\ UNCHANGED <<store, wpos, wn, rst>>
     ELSE LET off == wpos % Cap
              n   == Min2(wleft, Min2(Cap, Cap - off)) IN
        /\ store' = [i \in 0..Cap-1 |-> IF i >= off /\ i < off + n THEN wpos + (i - off) + 1 ELSE store[i]]
        /\ wpos' = wpos + n /\ wleft' = wleft - n /\ wn' = wn + n
        /\ rst' = IF DevNoBroadcast THEN rst ELSE WakeAll(rst)
        /\ IF wleft - n = 0
             THEN /\ wst' = "idle" /\ wret' = [n |-> wn + n, err |-> "nil"]
                  /\ last' = [a |-> "WStep", res |-> "someret", n |-> n, tot |-> wn + n]
             ELSE /\ wst' = "call" /\ wret' = wret
                  /\ last' = [a |-> "WStep", res |-> "some", n |-> n]
  /\ UNCHANGED <<closed, roff, rwant>>

RBegin(r, o, k) == /\ rst[r] = "idle"
                   /\ rst' = [rst EXCEPT ![r] = "call"] /\ roff' = [roff EXCEPT ![r] = o]
                   /\ rwant' = [rwant EXCEPT ![r] = k]
                   /\ last' = [a |-> "RBegin", r |-> r, o |-> o, k |-> k]
                   /\ UNCHANGED <<store, wpos, closed, wst, wleft, wn, wret>>
Ret(r, n, err, ids) ==
    /\ rst' = [rst EXCEPT ![r] = "idle"]
    /\ last' = [a |-> "RStep", r |-> r, res |-> "ret", n |-> n, err |-> err, ids |-> ids,
                at |-> roff[r], tot |-> wpos, k |-> rwant[r]]
\* one readSomeAt() critical section
RStep(r) ==
  /\ rst[r] = "call"
  /\ LET o == roff[r] k == rwant[r] IN
     IF k = 0 THEN Ret(r, 0, "nil", <<>>)
     ELSE IF closed THEN Ret(r, 0, "CLOSED", <<>>)
     ELSE IF o > wpos \/ o + Cap < wpos THEN Ret(r, 0, "INVALID", <<>>)
     ELSE LET off == o % Cap
              n   == Min2(k, Min2(wpos - o, Cap - off)) IN
          IF n = 0 THEN /\ rst' = [rst EXCEPT ![r] = "parked"]
                        /\ last' = [a |-> "RStep", r |-> r, res |-> "park"]
          ELSE Ret(r, n, "nil", [i \in 1..n |-> store[off + i - 1]])
  /\ UNCHANGED <<store, wpos, closed, wst, wleft, wn, wret, roff, rwant>>
RWake(r) == /\ rst[r] = "woken" /\ rst' = [rst EXCEPT ![r] = "call"]
            /\ last' = [a |-> "RWake", r |-> r]
            /\ UNCHANGED <<store, wpos, closed, wst, wleft, wn, wret, roff, rwant>>
Close == /\ ~closed /\ closed' = TRUE /\ rst' = WakeAll(rst)
         /\ last' = [a |-> "Close"]
         /\ UNCHANGED <<store, wpos, wst, wleft, wn, wret, roff, rwant>>
\* DataRange() while open; the result is in `last`
QRange == /\ ~closed /\ last.a # "DataRange"
          /\ last' = [a |-> "DataRange", lo |-> IF wpos >= Cap THEN wpos - Cap ELSE 0, hi |-> wpos]
          /\ UNCHANGED <<store, wpos, closed, wst, wleft, wn, wret, rst, roff, rwant>>

Offsets == 0..(MaxTotal + 1)
Next == \/ \E k \in Chunks : WBegin(k)
        \/ WStep \/ Close \/ QRange
        \/ \E r \in Readers : RStep(r) \/ RWake(r) \/ \E o \in Offsets, k \in Chunks : RBegin(r, o, k)
Spec == Init /\ [][Next]_vars
\* behaviour generator for replay: same actions, read offsets restricted to the interesting ones
\* around the data range (filtering inside Next keeps the simulator's choices meaningful)
GenOffsets == {0, wpos, wpos + 1} \cup (IF wpos >= 1 THEN {wpos - 1} ELSE {})
              \cup (IF wpos >= Cap THEN {wpos - Cap} ELSE {}) \cup (IF wpos > Cap THEN {wpos - Cap - 1} ELSE {})
GenNext == \/ \E k \in Chunks : WBegin(k)
           \/ WStep \/ Close \/ QRange
           \/ \E r \in Readers : RStep(r) \/ RWake(r) \/ \E o \in GenOffsets, k \in Chunks : RBegin(r, o, k)
GenSpec == Init /\ [][GenNext]_vars
FairSpec == Spec /\ WF_vars(WStep) /\ \A r \in Readers : WF_vars(RStep(r)) /\ WF_vars(RWake(r))

\* ---------------- the contract ----------------
\* a successful read returned exactly the ids written at its offset (id of position p is p+1)
IsRet == last.a = "RStep" /\ last.res = "ret"
ReadCorrect == (IsRet /\ last.err = "nil" /\ last.n > 0) => last.ids = [i \in 1..last.n |-> last.at + i]
\* invalid-offset exactly when overwritten or beyond the write position (tot = wpos at decision time)
InvalidIff == (IsRet /\ last.err # "CLOSED" /\ last.k > 0) =>
    ((last.err = "INVALID") <=> (last.at > last.tot \/ last.at + Cap < last.tot))
ParkOnlyAtHead == \A r \in Readers : rst[r] = "parked" => (roff[r] = wpos /\ ~closed)
RangeOK == last.a = "DataRange" => /\ last.hi = wpos
                                   /\ last.hi - last.lo = Min2(wpos, Cap)
\* the ring really holds the most recent min(total, Cap) ids
RingHoldsTail == \A p \in 0..(wpos - 1) : p + Cap >= wpos => store[p % Cap] = p + 1
WriterNeverParks == wst # "parked"
Progress == \A r \in Readers : [](rst[r] \in {"call", "woken"} => <>(rst[r] \in {"idle", "parked"}))
=============================================================================
