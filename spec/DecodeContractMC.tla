--------------------------- MODULE DecodeContractMC ---------------------------
(* The one-pass completeness test agrees with the definition on every contiguous output (all sequences up to length 5 over
   the pairs of three entries with 2, 0 and 3 lines, plus out-of-range pairs). *)
EXTENDS DecodeContract, TLC
L0 == <<2, 0, 3>>
Pairs == {<<e, j>> : e \in 1..4, j \in 0..4}
CONSTANT MaxLen
VARIABLE o
Init == o \in UNION {[1..n -> Pairs] : n \in 0..MaxLen}
Next == UNCHANGED o
Spec == Init /\ [][Next]_o
Agree == ContiguousOut(o) => (FastCompleteL(o, L0) <=> CompleteOutL(o, L0))
=============================================================================
