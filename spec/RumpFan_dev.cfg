SPECIFICATION Spec
CONSTANTS
  Src <- MCSrc
  KeysOf <- MCKeysOf
  DevSharedRumper = TRUE
INVARIANTS TypeOK UnionCopied NeverTwice OwnSource
CHECK_DEADLOCK FALSE
