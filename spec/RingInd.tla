-------------------------------- MODULE RingInd --------------------------------
(* The ring arithmetic shared by the pipe (C09) and the backlog (C18), for an UNBOUNDED number of
   wrap-arounds: bytes are numbered 0, 1, 2, ... in stream order; byte number n written at ring
   position wp is stored in slot wp % S; the pipe reads at rp and resets both positions to 0 when it
   drains (as built); the backlog never resets and lets any retained offset be read.
   Inductive invariant (discharged by Apalache for every capacity 1..MaxS, any number of laps):
       the i-th unread byte sits in slot (rp + i) % S and is byte number r + i;  0 <= wp - rp <= S.
   Safety: every read returns the next byte of the stream (FIFO, nothing lost, nothing overwritten). *)
EXTENDS Integers
CONSTANTS
  \* @type: Int;
  S
VARIABLES
  \* @type: Int -> Int;
  ring,
  \* @type: Int;
  rp,
  \* @type: Int;
  wp,
  \* @type: Int;
  r,
  \* @type: Int;
  w,
  \* @type: Bool;
  fifo
MaxS == 6
ConstInit == S \in 1..MaxS
Slots == 0..(MaxS - 1)
Init == ring = [i \in Slots |-> -1] /\ rp = 0 /\ wp = 0 /\ r = 0 /\ w = 0 /\ fifo = TRUE
Write == /\ wp - rp < S
         /\ ring' = [ring EXCEPT ![wp % S] = w]
         /\ wp' = wp + 1 /\ w' = w + 1 /\ UNCHANGED <<rp, r, fifo>>
Read == /\ rp < wp
        /\ fifo' = (fifo /\ ring[rp % S] = r)                     \* the byte handed out is the next one of the stream
        /\ r' = r + 1
        /\ IF rp + 1 = wp THEN rp' = 0 /\ wp' = 0 ELSE rp' = rp + 1 /\ wp' = wp   \* drained: both positions start over
        /\ UNCHANGED <<ring, w>>
Next == Write \/ Read
TypeOK == ring \in [Slots -> Int] /\ rp \in Int /\ wp \in Int /\ r \in Int /\ w \in Int /\ fifo \in BOOLEAN
IndInv == /\ TypeOK /\ S >= 1 /\ S <= MaxS
          /\ 0 <= rp /\ rp <= wp /\ wp - rp <= S /\ 0 <= r /\ w - r = wp - rp
          /\ \A i \in Slots : i < wp - rp => ring[(rp + i) % S] = r + i
          /\ fifo
IndInit == TypeOK /\ IndInv
Safety == fifo /\ wp - rp <= S
=============================================================================
