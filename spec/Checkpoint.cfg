CONSTANTS Srcs = {"h:63", "h:6379", "x-1.y:1"} Dbs = {0, 1, 2} MaxSteps = 3 MaxDamage = 1
SPECIFICATION Spec
INVARIANTS OthersIgnored Newest NoneIffNoOwn UnknownRunIdForcesFullSync
CHECK_DEADLOCK FALSE
