-------------------------------- MODULE Decode --------------------------------
(* C17 - decode mode: loader -> ipipe -> N decoder workers -> opipe -> writer.

   Input: a sequence of entries (keys and script records) 1..NEntries, entry e rendering to Lines[e]
   output lines (0 for an empty collection).  The loader goroutine pushes entries into the bounded
   channel ipipe and closes it at end of file; each of the N workers repeatedly takes an entry,
   renders ALL its lines into one block and puts the block into the bounded channel opipe; when every
   worker has seen ipipe closed, opipe is closed; the writer appends blocks to the output in arrival
   order and the run ends when opipe is closed and drained.

   Contract (L1), for every interleaving and every N:
     Complete    at termination the output is a permutation of the entries' blocks: every line of
                 every entry exactly once (nothing omitted, nothing duplicated);
     Contiguous  the lines of an entry are adjacent and in element order (so no line can be attributed
                 to another key: a block is rendered by one worker from one entry);
     Terminates  the run ends (liveness under weak fairness of every goroutine).
   The output is modelled as the sequence of <<entry, line>> pairs.                                   *)
EXTENDS DecodeContract, TLC
CONSTANTS NEntries, NWorkers, ICap, OCap, Lines
ASSUME Lines \in [1..NEntries -> Nat]
VARIABLES next,      \* next entry the loader will push (NEntries + 1: all pushed)
          ipipe, iclosed,
          wst,       \* worker state: [w |-> "idle" | <<"have", e>> | "done"]
          opipe, oclosed,
          out, done
vars == <<next, ipipe, iclosed, wst, opipe, oclosed, out, done>>
Workers == 1..NWorkers
Block(e) == [j \in 1..Lines[e] |-> <<e, j>>]

Init == next = 1 /\ ipipe = <<>> /\ iclosed = FALSE /\ wst = [w \in Workers |-> <<"idle", 0>>]
        /\ opipe = <<>> /\ oclosed = FALSE /\ out = <<>> /\ done = FALSE

LoaderPush == next <= NEntries /\ Len(ipipe) < ICap /\ ipipe' = Append(ipipe, next) /\ next' = next + 1
              /\ UNCHANGED <<iclosed, wst, opipe, oclosed, out, done>>
LoaderClose == next = NEntries + 1 /\ ~iclosed /\ iclosed' = TRUE
               /\ UNCHANGED <<next, ipipe, wst, opipe, oclosed, out, done>>
Take(w) == wst[w][1] = "idle" /\ ipipe # <<>> /\ wst' = [wst EXCEPT ![w] = <<"have", Head(ipipe)>>] /\ ipipe' = Tail(ipipe)
           /\ UNCHANGED <<next, iclosed, opipe, oclosed, out, done>>
Emit(w) == wst[w][1] = "have" /\ Len(opipe) < OCap /\ opipe' = Append(opipe, Block(wst[w][2]))
           /\ wst' = [wst EXCEPT ![w] = <<"idle", 0>>]
           /\ UNCHANGED <<next, ipipe, iclosed, oclosed, out, done>>
Quit(w) == wst[w][1] = "idle" /\ ipipe = <<>> /\ iclosed /\ wst' = [wst EXCEPT ![w] = <<"done", 0>>]
           /\ UNCHANGED <<next, ipipe, iclosed, opipe, oclosed, out, done>>
CloseOut == ~oclosed /\ (\A w \in Workers : wst[w][1] = "done") /\ oclosed' = TRUE
            /\ UNCHANGED <<next, ipipe, iclosed, wst, opipe, out, done>>
Write == opipe # <<>> /\ out' = out \o Head(opipe) /\ opipe' = Tail(opipe)
         /\ UNCHANGED <<next, ipipe, iclosed, wst, oclosed, done>>
Finish == ~done /\ oclosed /\ opipe = <<>> /\ done' = TRUE
          /\ UNCHANGED <<next, ipipe, iclosed, wst, opipe, oclosed, out>>
Next == LoaderPush \/ LoaderClose \/ (\E w \in Workers : Take(w) \/ Emit(w) \/ Quit(w)) \/ CloseOut \/ Write \/ Finish
Spec == Init /\ [][Next]_vars /\ WF_vars(LoaderPush) /\ WF_vars(LoaderClose) /\ WF_vars(CloseOut) /\ WF_vars(Write) /\ WF_vars(Finish)
        /\ \A w \in Workers : WF_vars(Take(w)) /\ WF_vars(Emit(w)) /\ WF_vars(Quit(w))

\* ---- the contract (DecodeContract: operators over an output sequence, re-used by DecodeTrace on the real output)
CompleteOut(o) == CompleteOutL(o, [e \in 1..NEntries |-> Lines[e]])
Complete == done => CompleteOut(out)
Contiguous == ContiguousOut(out)
NoDup == \A e \in 1..NEntries : \A j \in 1..Lines[e] : Count(out, <<e, j>>) <= 1
Terminates == <>done
=============================================================================
