---------------------------- MODULE RdbValueTrace ----------------------------
(* Trace validation for C12.  Events recorded from the REAL codecs:

   val    (type, body bytes, want, got): a serialised value small enough to be judged here.
          src = "enc"/"enc-model": body was written by the tool's EncodeDump from `want`, `got` is what the
          tool's DecodeDump made of it;  src = "dec": body is a compact encoding of the known value `want`
          written by the independent writer.  Judged:  Materialise(type, body) = want  (a Redis server
          reads these bytes as `want`)  and  got = want (the tool's decoder agrees, same order).
          Finite scores are compared as the token Fin here; their numeric equality is the lifted
          oracle's verdict num_ok / oracle_num_ok.
   bulk   the same for large payloads, judged by the lifted Go reference only (verdict bits).
   efile / erec / eend   the tool's file encoder -> file -> the tool's loader: `ops` is what the
          independent reader found in the file; RdbContract!Expected(ops) must be the objects written,
          and so must the records the real loader delivered.
   load   compact encodings inside a file -> real Loader -> BinEntry.ObjEntry(): verdict bit.     *)
EXTENDS RdbValue, RdbContract, Json
VARIABLES l, bad, want, seen
Trace == ndJsonDeserialize("trace.ndjson")
Fin == <<-5>>
IsTok(x) == Len(x) = 1 /\ x[1] < 0
Norm(v) == IF v.kind # "zset" THEN v
           ELSE [v EXCEPT !.items = [i \in 1..Len(v.items) |-> IF i % 2 = 0 /\ ~IsTok(v.items[i]) THEN Fin ELSE v.items[i]]]
BitsOK(ev) == ev.decoded /\ ev.same /\ ev.num_ok /\ ev.oracle_same /\ ev.oracle_num_ok /\ ev.entry_ok /\ ev.footer_ok
ValOK(ev) ==
  LET w == Val(ev.kind, ev.want)
      m == Materialise(ev.t, ev.body) IN
  /\ BitsOK(ev)
  /\ ev.got_kind = ev.kind /\ ev.got = ev.want                    \* the tool's decoder: same value, same order
  /\ HasBig(m) \/ Norm(m) = w                                     \* what a server materialises from the bytes
FileWant(objs) == [i \in 1..Len(objs) |-> Rec("key", objs[i].db, objs[i].id, objs[i].ex, 0, 0, 1)]
EFileOK(ev) == ev.walk_err = "" /\ Expected(ev.ops) = FileWant(ev.objs)
ERecOK(ev) == /\ ev.i <= Len(want) /\ ev.i = seen + 1
              /\ LET w == want[ev.i] IN ev.db = w.db /\ ev.id = w.id /\ ev.ex = w.ex
              /\ ev.key_ok /\ ev.val_ok
EEndOK(ev) == ev.err = "" /\ ev.footer_ok /\ ev.records = Len(want) /\ seen = Len(want)
              /\ ev.late_ok                 \* the records still say the same after the loader has moved on to the end of the file
EventOK(ev) == CASE ev.e = "val" -> ValOK(ev) [] ev.e = "bulk" -> BitsOK(ev)
                 [] ev.e = "efile" -> EFileOK(ev) [] ev.e = "erec" -> ERecOK(ev) [] ev.e = "eend" -> EEndOK(ev)
                 [] ev.e = "load" -> ev.ok [] ev.e = "batch" -> ev.ok [] OTHER -> TRUE
TInit == l = 1 /\ bad = 0 /\ want = <<>> /\ seen = 0
TNext == /\ l <= Len(Trace) /\ l' = l + 1
         /\ LET ev == Trace[l] IN
            /\ want' = IF ev.e = "efile" THEN FileWant(ev.objs) ELSE want
            /\ seen' = IF ev.e = "efile" THEN 0 ELSE IF ev.e = "erec" THEN ev.i ELSE seen
            /\ IF EventOK(ev) THEN bad' = bad ELSE PrintT(<<"REJECT", l>>) /\ bad' = bad + 1
TSpec == TInit /\ [][TNext]_<<l, bad, want, seen>>
Accepted == TLCGet("stats").diameter - 1 = Len(Trace)
=============================================================================
