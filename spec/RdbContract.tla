----------------------------- MODULE RdbContract -----------------------------
(* The contract part of C01 (see RdbFile.tla): the records expected for an abstract operation sequence. *)
EXTENDS Integers, Sequences
Rec(kind, db, id, ex, idle, freq, part) == [kind |-> kind, db |-> db, id |-> id, ex |-> ex, idle |-> idle, freq |-> freq, part |-> part]
\* ---- the contract: records expected for an operation sequence ----
RECURSIVE Exp(_, _, _, _)
Exp(ops, i, st, acc) ==     \* st = [db, ex, idle, freq]
  IF i > Len(ops) THEN acc
  ELSE LET op == ops[i] IN
    CASE op.o = "sel"  -> Exp(ops, i + 1, [st EXCEPT !.db = op.v], acc)
      [] op.o = "exms" -> Exp(ops, i + 1, [st EXCEPT !.ex = op.v], acc)
      [] op.o = "exs"  -> Exp(ops, i + 1, [st EXCEPT !.ex = op.v * 1000], acc)
      [] op.o = "idle" -> Exp(ops, i + 1, [st EXCEPT !.idle = op.v], acc)
      [] op.o = "freq" -> Exp(ops, i + 1, [st EXCEPT !.freq = op.v], acc)
      [] op.o = "lua"  -> Exp(ops, i + 1, st, Append(acc, Rec("lua", st.db, 0, 0, 0, 0, 1)))
      [] op.o = "key"  -> Exp(ops, i + 1, [st EXCEPT !.ex = 0, !.idle = 0, !.freq = 0],
                              acc \o [p \in 1..op.parts |-> Rec("key", st.db, op.v, st.ex, st.idle, st.freq, p)])
      [] OTHER         -> Exp(ops, i + 1, st, acc)          \* aux, resize, modaux: skipped
Expected(ops) == Exp(ops, 1, [db |-> 0, ex |-> 0, idle |-> 0, freq |-> 0], <<>>)

=============================================================================
