------------------------------ MODULE KeyFilter ------------------------------
(* C13: rewriting of (multi-)key write commands under a key filter - the CONTRACT as an
   operator, with key positions from an independent table in Redis's own convention
   (COMMAND INFO: first key, last key, step; positions count the command name as 0, a
   negative last key counts from the end: -1 = last argument).
   Arguments are numbered 1..n (the command name is not included). *)
EXTENDS Integers, Sequences, FiniteSets, TLC

\* name |-> <<first, last, step, minimal number of arguments>>
Table == [
  set |-> <<1,1,1,2>>, setnx |-> <<1,1,1,2>>, setex |-> <<1,1,1,3>>, psetex |-> <<1,1,1,3>>, append |-> <<1,1,1,2>>,
  del |-> <<1,-1,1,1>>, unlink |-> <<1,-1,1,1>>, setbit |-> <<1,1,1,3>>, bitfield |-> <<1,1,1,1>>, setrange |-> <<1,1,1,3>>,
  incr |-> <<1,1,1,1>>, decr |-> <<1,1,1,1>>, rpush |-> <<1,1,1,2>>, lpush |-> <<1,1,1,2>>, rpushx |-> <<1,1,1,2>>,
  lpushx |-> <<1,1,1,2>>, linsert |-> <<1,1,1,4>>, rpop |-> <<1,1,1,1>>, lpop |-> <<1,1,1,1>>,
  brpop |-> <<1,-2,1,2>>, blpop |-> <<1,-2,1,2>>, brpoplpush |-> <<1,2,1,3>>, rpoplpush |-> <<1,2,1,2>>,
  lset |-> <<1,1,1,3>>, ltrim |-> <<1,1,1,3>>, lrem |-> <<1,1,1,3>>, sadd |-> <<1,1,1,2>>, srem |-> <<1,1,1,2>>,
  smove |-> <<1,2,1,3>>, spop |-> <<1,1,1,1>>, sinterstore |-> <<1,-1,1,2>>, sunionstore |-> <<1,-1,1,2>>,
  sdiffstore |-> <<1,-1,1,2>>, zadd |-> <<1,1,1,3>>, zincrby |-> <<1,1,1,3>>, zrem |-> <<1,1,1,2>>,
  zremrangebyscore |-> <<1,1,1,3>>, zremrangebyrank |-> <<1,1,1,3>>, zremrangebylex |-> <<1,1,1,3>>,
  hset |-> <<1,1,1,3>>, hsetnx |-> <<1,1,1,3>>, hmset |-> <<1,1,1,3>>, hincrby |-> <<1,1,1,3>>,
  hincrbyfloat |-> <<1,1,1,3>>, hdel |-> <<1,1,1,2>>, incrby |-> <<1,1,1,2>>, decrby |-> <<1,1,1,2>>,
  incrbyfloat |-> <<1,1,1,2>>, getset |-> <<1,1,1,2>>, mset |-> <<1,-1,2,2>>, msetnx |-> <<1,-1,2,2>>,
  move |-> <<1,1,1,2>>, rename |-> <<1,2,1,2>>, renamenx |-> <<1,2,1,2>>, expire |-> <<1,1,1,2>>,
  expireat |-> <<1,1,1,2>>, pexpire |-> <<1,1,1,2>>, pexpireat |-> <<1,1,1,2>>, persist |-> <<1,1,1,1>>,
  restore |-> <<1,1,1,3>>, bitop |-> <<2,-1,1,3>>, geoadd |-> <<1,1,1,4>>, pfadd |-> <<1,1,1,1>>,
  pfmerge |-> <<1,-1,1,1>> ]

Names == DOMAIN Table
Classes == {Table[c] : c \in Names}

\* positions (1-based) of the keys of a command of class cls with n arguments
LastPos(cls, n) == IF cls[2] < 0 THEN n + 1 + cls[2] ELSE cls[2]
KeyPos(cls, n) == {p \in 1..n : p >= cls[1] /\ p <= LastPos(cls, n) /\ (p - cls[1]) % cls[3] = 0}
\* a key's companions: the step-1 arguments that follow it
Owner(cls, n, p) == IF p < cls[1] \/ p > LastPos(cls, n) + cls[3] - 1 THEN 0
                    ELSE p - ((p - cls[1]) % cls[3])

\* the contract: indices of the arguments that are forwarded, in the original order.
\* pass[p] is meaningful for key positions only.
Kept(cls, n, pass) == {p \in 1..n : Owner(cls, n, p) = 0 \/ pass[Owner(cls, n, p)]}
SetToSeq(S) == LET RECURSIVE F(_, _)
                   F(T, acc) == IF T = {} THEN acc
                                ELSE LET m == CHOOSE x \in T : \A y \in T : x <= y IN F(T \ {m}, Append(acc, m))
               IN F(S, <<>>)
Rewrite(cls, n, pass) == [drop |-> \A p \in KeyPos(cls, n) : ~pass[p],
                          keep |-> SetToSeq(Kept(cls, n, pass))]

\* ---- case enumeration: one initial state per (class, arity, pass vector) ----
CONSTANT MaxArgs
VARIABLE c
ValidN(cls) == {n \in cls[4]..MaxArgs : (cls[3] = 2 => n % 2 = 0) /\ (cls[2] > 0 => n >= cls[2])}
Init == \E cls \in Classes : \E n \in ValidN(cls) :
          \E pv \in [KeyPos(cls, n) -> BOOLEAN] :
             LET pass == [p \in 1..n |-> IF p \in KeyPos(cls, n) THEN pv[p] ELSE FALSE] IN
             c = [cls |-> cls, n |-> n, keys |-> SetToSeq(KeyPos(cls, n)), pass |-> pass,
                  cmds |-> {x \in Names : Table[x] = cls /\ Table[x][4] <= n},
                  out |-> Rewrite(cls, n, pass)]
Next == UNCHANGED c
Spec == Init /\ [][Next]_c

\* ---- what the contract implies (checked on every case) ----
AllPassUnchanged == (\A p \in 1..Len(c.keys) : c.pass[c.keys[p]]) => (c.out.keep = [i \in 1..c.n |-> i] /\ ~c.out.drop)
OnlyPassingKeys  == \A i \in 1..Len(c.out.keep) : (c.out.keep[i] \in KeyPos(c.cls, c.n)) => c.pass[c.out.keep[i]]
EveryPassingKeyKept == \A p \in KeyPos(c.cls, c.n) : c.pass[p] =>
                          \A q \in p..(p + c.cls[3] - 1) : \E i \in 1..Len(c.out.keep) : c.out.keep[i] = q
NonKeysKeepPlace == \A p \in 1..c.n : Owner(c.cls, c.n, p) = 0 => \E i \in 1..Len(c.out.keep) : c.out.keep[i] = p
OrderKept == \A i \in 1..(Len(c.out.keep) - 1) : c.out.keep[i] < c.out.keep[i + 1]
DropIffNone == c.out.drop <=> (\A p \in KeyPos(c.cls, c.n) : ~c.pass[p])
=============================================================================
