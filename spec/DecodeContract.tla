--------------------------- MODULE DecodeContract ---------------------------
(* The output contract of decode mode (C17), over an output abstracted to the sequence of
   <<entry, line>> pairs; L[e] = number of lines entry e renders to. *)
EXTENDS Integers, Sequences, FiniteSets
Count(o, p) == Cardinality({i \in 1..Len(o) : o[i] = p})
\* every line of every entry exactly once, nothing else
CompleteOutL(o, L) == /\ \A e \in 1..Len(L) : \A j \in 1..L[e] : Count(o, <<e, j>>) = 1
                      /\ \A i \in 1..Len(o) : o[i][1] \in 1..Len(L) /\ o[i][2] \in 1..L[o[i][1]]
\* the lines of an entry are adjacent and in element order
ContiguousOut(o) == \A i \in 1..Len(o) : LET e == o[i][1] j == o[i][2] IN
                       IF j = 1 THEN TRUE ELSE i > 1 /\ o[i - 1] = <<e, j - 1>>
=============================================================================
