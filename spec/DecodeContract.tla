--------------------------- MODULE DecodeContract ---------------------------
(* The output contract of decode mode (C17), over an output abstracted to the sequence of
   <<entry, line>> pairs; L[e] = number of lines entry e renders to. *)
EXTENDS Integers, Sequences, FiniteSets
Count(o, p) == Cardinality({i \in 1..Len(o) : o[i] = p})
\* every line of every entry exactly once, nothing else
CompleteOutL(o, L) == /\ \A e \in 1..Len(L) : \A j \in 1..L[e] : Count(o, <<e, j>>) = 1
                      /\ \A i \in 1..Len(o) : o[i][1] \in 1..Len(L) /\ o[i][2] \in 1..L[o[i][1]]
\* the same statement in one pass for an output whose blocks are adjacent and ordered (ContiguousOut): every pair in range,
\* every block starts a different entry, every block runs to its entry's last line, and every non-empty entry has a block.
\* (CompleteOutL counts every pair against every line: quadratic, which matters for outputs of 10^5 lines.  DecodeContractMC
\* checks that the two agree on every contiguous output over a small domain.)
FastCompleteL(o, L) ==
  LET starts == {i \in 1..Len(o) : o[i][2] = 1} IN
  /\ \A i \in 1..Len(o) : o[i][1] \in 1..Len(L) /\ o[i][2] \in 1..L[o[i][1]]
  /\ Cardinality({o[i][1] : i \in starts}) = Cardinality(starts)
  /\ \A i \in 1..Len(o) : (i = Len(o) \/ o[i + 1][2] = 1) => o[i][2] = L[o[i][1]]
  /\ Cardinality(starts) = Cardinality({e \in 1..Len(L) : L[e] > 0})
\* the lines of an entry are adjacent and in element order
ContiguousOut(o) == \A i \in 1..Len(o) : LET e == o[i][1] j == o[i][2] IN
                       IF j = 1 THEN TRUE ELSE i > 1 /\ o[i - 1] = <<e, j - 1>>
CompleteChk(o, L) == IF ContiguousOut(o) THEN FastCompleteL(o, L) ELSE CompleteOutL(o, L)
=============================================================================
