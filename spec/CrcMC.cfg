CONSTANTS Msgs <- MCMsgs MaxLen = 9
SPECIFICATION Spec
INVARIANT ChunkingIndependent
CHECK_DEADLOCK FALSE
