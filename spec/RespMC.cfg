CONSTANTS Atoms <- MCAtoms
SPECIFICATION Spec
INVARIANTS RoundTrip PrefixNeverValue StreamOffsets
CHECK_DEADLOCK FALSE
