---------------------------- MODULE HandoffTrace ----------------------------
(* One observation per scripted hand-off of the real code (handoff driver): what the source
   announced and sent versus what came out of the tool.  *_diff is the first differing position
   of the byte-wise comparison done by the recorder (-1 = identical). *)
EXTENDS Integers, Sequences, TLC, Json
VARIABLES l, bad
Trace == ndJsonDeserialize("trace.ndjson")
OK(ev) ==
  /\ ~ev.abort /\ ev.panic = "" /\ ~ev.hung
  /\ ev.full /\ ev.n_reported = ev.n /\ ev.runid_ok /\ ev.offset_used = ev.announced_offset    \* the announced values are the ones used ...
  /\ ev.re_runid_ok /\ ev.re_off_ok                                      \* ... also afterwards: a re-PSYNC (source hung up) carries the announced run id
                                                                         \*     and asks for the byte after what has been received
  /\ IF ev.mode = "psync"
       THEN ev.out_len = ev.want_len /\ ev.out_diff = -1                  \* exactly RDB ++ commands came out of the pipe
       ELSE /\ ev.file_len = ev.n /\ ev.file_diff = -1                    \* dump file = the n RDB bytes
            /\ (ev.rest_diff = -1 \/ ev.rest_diff = ev.rest_len)          \* what can still be read is the start of the command stream: nothing of it was consumed
EventOK(ev) == IF ev.e = "handoff" THEN OK(ev) ELSE TRUE
TInit == l = 1 /\ bad = 0
TNext == /\ l <= Len(Trace) /\ l' = l + 1
         /\ IF EventOK(Trace[l]) THEN bad' = bad ELSE PrintT(<<"REJECT", l>>) /\ bad' = bad + 1
TSpec == TInit /\ [][TNext]_<<l, bad>>
Accepted == TLCGet("stats").diameter - 1 = Len(Trace)
=============================================================================
