------------------------------- MODULE Handoff -------------------------------
(* C05: the hand-off between the RDB and the command stream.
   The source's reply is one byte sequence: keep-alive newlines, a status line, more newlines,
   "$n CR LF", n RDB bytes, then the live command stream.  It arrives in arbitrary fragments
   (Net), is read through a buffered reader of capacity B, and is consumed by three consumers in
   turn: the header parser (byte-wise), a bounded copy that must never read past the RDB
   (at most min(8, remaining) per step), and the unbounded stream copy; both copies feed a
   pipe of capacity P that a reader drains.  Bytes are identified by their position.
   Contract: what leaves the pipe is always a prefix of payload = RDB ++ commands, in order,
   nothing lost, duplicated or reordered at the boundary; the announced n is the n used. *)
EXTENDS Integers, Sequences, SequencesExt, TLC
CONSTANTS HeadLen,  \* bytes of the header part (newlines, status line, $n line)
          N,        \* RDB size
          CmdLen,   \* command bytes that follow
          B, P,     \* bufio and pipe capacities
          Chunk     \* copy buffer (the real one is 8 KiB)
Total == HeadLen + N + CmdLen
VARIABLES wire,      \* next position the source has not yet delivered (1..Total+1)
          buf,       \* bufio content: sequence of positions
          phase,     \* "head" | "rdb" | "cmd"
          parsed,    \* header bytes consumed
          remain,    \* RDB bytes still to copy
          pipe, out
vars == <<wire, buf, phase, parsed, remain, pipe, out>>
Min2(a, b) == IF a < b THEN a ELSE b
Init == wire = 1 /\ buf = <<>> /\ phase = "head" /\ parsed = 0 /\ remain = N /\ pipe = <<>> /\ out = <<>>
\* a TCP segment of any size arrives and the buffered reader takes what fits
Net == /\ wire <= Total /\ Len(buf) < B
       /\ \E k \in 1..Min2(Total - wire + 1, B - Len(buf)) :
            /\ buf' = buf \o [i \in 1..k |-> wire + i - 1] /\ wire' = wire + k
       /\ UNCHANGED <<phase, parsed, remain, pipe, out>>
HdrByte == /\ phase = "head" /\ buf # <<>>
           /\ buf' = Tail(buf) /\ parsed' = parsed + 1
           /\ phase' = IF parsed + 1 = HeadLen THEN (IF N > 0 THEN "rdb" ELSE "cmd") ELSE "head"
           /\ UNCHANGED <<wire, remain, pipe, out>>
\* bounded copy: reads at most min(Chunk, remaining) - never past the RDB
CopyRdb == /\ phase = "rdb" /\ buf # <<>>
           /\ \E k \in 1..Min2(Min2(Chunk, remain), Len(buf)) :
                /\ Len(pipe) + k <= P
                /\ pipe' = pipe \o SubSeq(buf, 1, k) /\ buf' = SubSeq(buf, k + 1, Len(buf))
                /\ remain' = remain - k /\ phase' = IF remain - k = 0 THEN "cmd" ELSE "rdb"
           /\ UNCHANGED <<wire, parsed, out>>
CopyCmd == /\ phase = "cmd" /\ buf # <<>>
           /\ \E k \in 1..Min2(Chunk, Len(buf)) :
                /\ Len(pipe) + k <= P
                /\ pipe' = pipe \o SubSeq(buf, 1, k) /\ buf' = SubSeq(buf, k + 1, Len(buf))
           /\ UNCHANGED <<wire, phase, parsed, remain, out>>
Drain == /\ pipe # <<>> /\ \E k \in 1..Len(pipe) : out' = out \o SubSeq(pipe, 1, k) /\ pipe' = SubSeq(pipe, k + 1, Len(pipe))
         /\ UNCHANGED <<wire, buf, phase, parsed, remain>>
Next == Net \/ HdrByte \/ CopyRdb \/ CopyCmd \/ Drain
Spec == Init /\ [][Next]_vars /\ WF_vars(Next)
Payload == [i \in 1..(N + CmdLen) |-> HeadLen + i]
NoLossNoDup == IsPrefix(out, Payload)
RemainSane == remain >= 0 /\ (phase = "cmd" => remain = 0)
\* the RDB consumer (first N bytes out) never sees a command byte and vice versa: implied by NoLossNoDup + positions
Complete == <>(out = Payload)
=============================================================================
