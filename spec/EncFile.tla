------------------------------- MODULE EncFile -------------------------------
(* C12, file level: the tool's file encoder (rdb.NewEncoder: EncodeHeader, EncodeObject(db, key,
   expireat, obj)*, EncodeFooter) composed with the loader contract of C01 (RdbContract!Expected, which
   RdbFile.tla checks against the loader's opcode loop).

   The encoder keeps one piece of state - the database of the last object written (none at first) - and
   writes a database selector only when it changes, an expiry record (millisecond form) only when the
   expiry is not zero, then the object.  Loading what it wrote must give back exactly the objects, in
   order, each with its database and expiry:   Expected(ops) = Want(objs).                       *)
EXTENDS RdbContract, TLC
CONSTANTS MaxObjs, Dbs, Expiries
VARIABLES objs, ops, edb, closed
vars == <<objs, ops, edb, closed>>
Init == objs = <<>> /\ ops = <<>> /\ edb = -1 /\ closed = FALSE
EncodeObject(db, ex) ==
  /\ ~closed /\ Len(objs) < MaxObjs
  /\ LET id == Len(objs) + 1
         sel == IF edb = -1 \/ edb # db THEN <<[o |-> "sel", v |-> db, parts |-> 0]>> ELSE <<>>
         exr == IF ex # 0 THEN <<[o |-> "exms", v |-> ex, parts |-> 0]>> ELSE <<>>
     IN /\ ops' = ops \o sel \o exr \o <<[o |-> "key", v |-> id, parts |-> 1]>>
        /\ objs' = Append(objs, [db |-> db, id |-> id, ex |-> ex])
  /\ edb' = db /\ UNCHANGED closed
Footer == ~closed /\ closed' = TRUE /\ UNCHANGED <<objs, ops, edb>>
Next == (\E db \in Dbs, ex \in Expiries : EncodeObject(db, ex)) \/ Footer
Spec == Init /\ [][Next]_vars
Want(os) == [i \in 1..Len(os) |-> Rec("key", os[i].db, os[i].id, os[i].ex, 0, 0, 1)]
RoundTrip == Expected(ops) = Want(objs)
\* a selector is never repeated and never missing: the stream is the shortest the loader reads back correctly
Minimal == \A i \in 1..Len(ops) - 1 : ~(ops[i].o = "sel" /\ ops[i + 1].o = "sel")
=============================================================================
