------------------------------- MODULE Pipe -------------------------------
(* L1 contract of pkg/libs/io/pipe (property C09).

   One writer, one reader, a bounded FIFO of byte ids.  The contract is permissive about
   HOW MANY bytes one internal step moves (any positive amount that fits) and strict about
   everything the property states:
     - Fifo: what the reader got is always a prefix of what the writer wrote;
     - a side parks ONLY when it is blocked (writer: buffer full, reader: buffer empty, and
       no close has happened) and every park is followed by a wake obligation ("woken") as
       soon as the other side makes progress or either side closes;
     - exact return values: n and the error identity of Write / Read / Buffered / Available
       for every combination of closes.
   Error names: "nil"; writer side close error "EOF" (default) or "WE" (CloseWithError);
   reader side close error "CLOSED" (default io.ErrClosedPipe) or "RE" (CloseWithError). *)
EXTENDS Integers, Sequences, SequencesExt
CONSTANTS Cap,        \* capacity in units
          MaxBytes,   \* bound on the total written (model checking only)
          Chunks      \* sizes a call may ask for (model checking only)
VARIABLES buf,        \* FIFO content: sequence of byte ids
          werr, rerr, \* close state of the writer / reader side
          wst, wleft, wn,   \* writer: "idle" | "call" | "parked" | "woken"; bytes left; bytes done in this call
          rst, rwant,       \* reader likewise; bytes asked for
          wret, rret,       \* last return value of Write / Read: [n, err]
          wrote, got        \* histories (ids)
v1 == <<buf, werr, rerr, wst, wleft, wn, rst, rwant, wret, rret, wrote, got>>

Min2(a, b) == IF a < b THEN a ELSE b
NoRet == [n |-> 0, err |-> "none"]
Wake(s) == IF s = "parked" THEN "woken" ELSE s

Init1 == /\ buf = <<>> /\ werr = "nil" /\ rerr = "nil"
         /\ wst = "idle" /\ wleft = 0 /\ wn = 0 /\ rst = "idle" /\ rwant = 0
         /\ wret = NoRet /\ rret = NoRet /\ wrote = <<>> /\ got = <<>>

\* ---- writer ----
WBegin(k) == /\ wst = "idle" /\ Len(wrote) + k <= MaxBytes
             /\ wst' = "call" /\ wleft' = k /\ wn' = 0 /\ wret' = NoRet
             /\ UNCHANGED <<buf, werr, rerr, rst, rwant, rret, wrote, got>>
\* progress: ANY positive amount that fits
WSome(n) == /\ wst = "call" /\ werr = "nil" /\ rerr = "nil" /\ n >= 1 /\ n <= Min2(wleft, Cap - Len(buf))
            /\ LET ids == [i \in 1..n |-> Len(wrote) + i] IN
                 buf' = buf \o ids /\ wrote' = wrote \o ids
            /\ wleft' = wleft - n /\ wn' = wn + n
            /\ IF wleft - n = 0 THEN wst' = "idle" /\ wret' = [n |-> wn + n, err |-> "nil"]
                                ELSE wst' = "call" /\ wret' = wret
            /\ rst' = Wake(rst)
            /\ UNCHANGED <<werr, rerr, rwant, rret, got>>
\* the call returns: error states first (writer-closed beats reader-closed), success only when nothing is left
WRet == /\ wst = "call"
        /\ \/ werr # "nil" /\ wret' = [n |-> wn, err |-> "CLOSED"]
           \/ werr = "nil" /\ rerr # "nil" /\ wret' = [n |-> wn, err |-> rerr]
           \/ werr = "nil" /\ rerr = "nil" /\ wleft = 0 /\ wn = 0 /\ wret' = [n |-> 0, err |-> "nil"]
        /\ wst' = "idle" /\ wleft' = 0
        /\ UNCHANGED <<buf, werr, rerr, wn, rst, rwant, rret, wrote, got>>
\* may park ONLY when full and nothing is closed
WPark == /\ wst = "call" /\ werr = "nil" /\ rerr = "nil" /\ wleft > 0 /\ Len(buf) = Cap
         /\ wst' = "parked"
         /\ UNCHANGED <<buf, werr, rerr, wleft, wn, rst, rwant, wret, rret, wrote, got>>
WWake == /\ wst = "woken" /\ wst' = "call"
         /\ UNCHANGED <<buf, werr, rerr, wleft, wn, rst, rwant, wret, rret, wrote, got>>

\* ---- reader ----
RBegin(k) == /\ rst = "idle" /\ rst' = "call" /\ rwant' = k /\ rret' = NoRet
             /\ UNCHANGED <<buf, werr, rerr, wst, wleft, wn, wret, wrote, got>>
\* a read returns after its first progress
RSome(n) == /\ rst = "call" /\ rerr = "nil" /\ rwant > 0 /\ n >= 1 /\ n <= Min2(rwant, Len(buf))
            /\ got' = got \o SubSeq(buf, 1, n) /\ buf' = SubSeq(buf, n + 1, Len(buf))
            /\ rret' = [n |-> n, err |-> "nil"] /\ rst' = "idle" /\ rwant' = 0
            /\ wst' = Wake(wst)
            /\ UNCHANGED <<werr, rerr, wleft, wn, wret, wrote>>
RRet == /\ rst = "call"
        /\ \/ rerr # "nil" /\ rret' = [n |-> 0, err |-> "CLOSED"]
           \/ rerr = "nil" /\ rwant = 0 /\ buf # <<>> /\ rret' = [n |-> 0, err |-> "nil"]
           \/ rerr = "nil" /\ buf = <<>> /\ (rwant = 0 \/ werr # "nil") /\ rret' = [n |-> 0, err |-> werr]
        /\ rst' = "idle" /\ rwant' = 0
        /\ UNCHANGED <<buf, werr, rerr, wst, wleft, wn, wret, wrote, got>>
RPark == /\ rst = "call" /\ rerr = "nil" /\ rwant > 0 /\ buf = <<>> /\ werr = "nil"
         /\ rst' = "parked"
         /\ UNCHANGED <<buf, werr, rerr, wst, wleft, wn, rwant, wret, rret, wrote, got>>
RWake == /\ rst = "woken" /\ rst' = "call"
         /\ UNCHANGED <<buf, werr, rerr, wst, wleft, wn, rwant, wret, rret, wrote, got>>

\* ---- closes: first close wins, every close wakes both sides ----
WClose(e) == /\ werr' = (IF werr = "nil" THEN e ELSE werr)
             /\ rst' = Wake(rst) /\ wst' = Wake(wst)
             /\ UNCHANGED <<buf, rerr, wleft, wn, rwant, wret, rret, wrote, got>>
RClose(e) == /\ rerr' = (IF rerr = "nil" THEN e ELSE rerr) /\ buf' = <<>>
             /\ rst' = Wake(rst) /\ wst' = Wake(wst)
             /\ UNCHANGED <<werr, wleft, wn, rwant, wret, rret, wrote, got>>

\* ---- pure queries (results as operators; they do not change the state) ----
BufferedRes  == IF rerr # "nil" THEN [n |-> 0, err |-> rerr]
                ELSE IF buf # <<>> THEN [n |-> Len(buf), err |-> "nil"] ELSE [n |-> 0, err |-> werr]
AvailableRes == IF werr # "nil" THEN [n |-> 0, err |-> werr]
                ELSE IF rerr # "nil" THEN [n |-> 0, err |-> rerr] ELSE [n |-> Cap - Len(buf), err |-> "nil"]

Next1 == \/ \E k \in Chunks : WBegin(k) \/ RBegin(k)
         \/ \E n \in 1..Cap : WSome(n) \/ RSome(n)
         \/ WRet \/ WPark \/ WWake \/ RRet \/ RPark \/ RWake
         \/ \E e \in {"EOF", "WE"} : WClose(e)
         \/ \E e \in {"CLOSED", "RE"} : RClose(e)
Spec1 == Init1 /\ [][Next1]_v1

\* ---- the property ----
Fifo == IsPrefix(got, wrote)
\* no lost wake-up: whoever is (still) parked is genuinely blocked
ParkedOnlyIfBlocked ==
    /\ (rst = "parked" => buf = <<>> /\ werr = "nil" /\ rerr = "nil")
    /\ (wst = "parked" => Len(buf) = Cap /\ werr = "nil" /\ rerr = "nil")
\* after the writer closed, the reader drains everything before it sees the error
DrainBeforeError == (rret.err \notin {"nil", "none", "CLOSED"}) => (rerr = "nil" => got = wrote)
Bounded == Len(buf) <= Cap
=============================================================================
