------------------------------ MODULE PipeAbs ------------------------------
(* Counter abstraction of the Pipe contract: the FIFO content is replaced by its length
   (byte content is compared by the recorder against the deterministic stream it wrote, see
   PipeTrace).  Pipe.tla refines this module under blen <- Len(buf) (checked by TLC,
   Pipe_abs.cfg), so validating a real trace against these actions validates it against the
   contract.  Used with the REAL capacities (4096 .. 8 MiB). *)
EXTENDS Integers
CONSTANTS Cap
VARIABLES blen, werr, rerr, wst, wleft, wn, rst, rwant, wret, rret
va == <<blen, werr, rerr, wst, wleft, wn, rst, rwant, wret, rret>>

Min2(a, b) == IF a < b THEN a ELSE b
NoRet == [n |-> 0, err |-> "none"]
Wake(s) == IF s = "parked" THEN "woken" ELSE s

InitA == /\ blen = 0 /\ werr = "nil" /\ rerr = "nil" /\ wst = "idle" /\ wleft = 0 /\ wn = 0
         /\ rst = "idle" /\ rwant = 0 /\ wret = NoRet /\ rret = NoRet

AWBegin(k) == /\ wst = "idle" /\ wst' = "call" /\ wleft' = k /\ wn' = 0 /\ wret' = NoRet
              /\ UNCHANGED <<blen, werr, rerr, rst, rwant, rret>>
AWSome(n) == /\ wst = "call" /\ werr = "nil" /\ rerr = "nil" /\ n >= 1 /\ n <= Min2(wleft, Cap - blen)
             /\ blen' = blen + n /\ wleft' = wleft - n /\ wn' = wn + n
             /\ IF wleft - n = 0 THEN wst' = "idle" /\ wret' = [n |-> wn + n, err |-> "nil"]
                                 ELSE wst' = "call" /\ wret' = wret
             /\ rst' = Wake(rst)
             /\ UNCHANGED <<werr, rerr, rwant, rret>>
AWRet == /\ wst = "call"
         /\ \/ werr # "nil" /\ wret' = [n |-> wn, err |-> "CLOSED"]
            \/ werr = "nil" /\ rerr # "nil" /\ wret' = [n |-> wn, err |-> rerr]
            \/ werr = "nil" /\ rerr = "nil" /\ wleft = 0 /\ wn = 0 /\ wret' = [n |-> 0, err |-> "nil"]
         /\ wst' = "idle" /\ wleft' = 0
         /\ UNCHANGED <<blen, werr, rerr, wn, rst, rwant, rret>>
AWPark == /\ wst = "call" /\ werr = "nil" /\ rerr = "nil" /\ wleft > 0 /\ blen = Cap
          /\ wst' = "parked" /\ UNCHANGED <<blen, werr, rerr, wleft, wn, rst, rwant, wret, rret>>
AWWake == /\ wst = "woken" /\ wst' = "call"
          /\ UNCHANGED <<blen, werr, rerr, wleft, wn, rst, rwant, wret, rret>>
ARBegin(k) == /\ rst = "idle" /\ rst' = "call" /\ rwant' = k /\ rret' = NoRet
              /\ UNCHANGED <<blen, werr, rerr, wst, wleft, wn, wret>>
ARSome(n) == /\ rst = "call" /\ rerr = "nil" /\ rwant > 0 /\ n >= 1 /\ n <= Min2(rwant, blen)
             /\ blen' = blen - n /\ rret' = [n |-> n, err |-> "nil"] /\ rst' = "idle" /\ rwant' = 0
             /\ wst' = Wake(wst)
             /\ UNCHANGED <<werr, rerr, wleft, wn, wret>>
ARRet == /\ rst = "call"
         /\ \/ rerr # "nil" /\ rret' = [n |-> 0, err |-> "CLOSED"]
            \/ rerr = "nil" /\ rwant = 0 /\ blen # 0 /\ rret' = [n |-> 0, err |-> "nil"]
            \/ rerr = "nil" /\ blen = 0 /\ (rwant = 0 \/ werr # "nil") /\ rret' = [n |-> 0, err |-> werr]
         /\ rst' = "idle" /\ rwant' = 0
         /\ UNCHANGED <<blen, werr, rerr, wst, wleft, wn, wret>>
ARPark == /\ rst = "call" /\ rerr = "nil" /\ rwant > 0 /\ blen = 0 /\ werr = "nil"
          /\ rst' = "parked" /\ UNCHANGED <<blen, werr, rerr, wst, wleft, wn, rwant, wret, rret>>
ARWake == /\ rst = "woken" /\ rst' = "call"
          /\ UNCHANGED <<blen, werr, rerr, wst, wleft, wn, rwant, wret, rret>>
AWClose(e) == /\ werr' = (IF werr = "nil" THEN e ELSE werr) /\ rst' = Wake(rst) /\ wst' = Wake(wst)
              /\ UNCHANGED <<blen, rerr, wleft, wn, rwant, wret, rret>>
ARClose(e) == /\ rerr' = (IF rerr = "nil" THEN e ELSE rerr) /\ blen' = 0 /\ rst' = Wake(rst) /\ wst' = Wake(wst)
              /\ UNCHANGED <<werr, wleft, wn, rwant, wret, rret>>
ABufferedRes  == IF rerr # "nil" THEN [n |-> 0, err |-> rerr]
                 ELSE IF blen # 0 THEN [n |-> blen, err |-> "nil"] ELSE [n |-> 0, err |-> werr]
AAvailableRes == IF werr # "nil" THEN [n |-> 0, err |-> werr]
                 ELSE IF rerr # "nil" THEN [n |-> 0, err |-> rerr] ELSE [n |-> Cap - blen, err |-> "nil"]

NextA == \/ \E k \in 0..(2 * Cap + 2) : AWBegin(k) \/ ARBegin(k)
         \/ \E n \in 1..Cap : AWSome(n) \/ ARSome(n)
         \/ AWRet \/ AWPark \/ AWWake \/ ARRet \/ ARPark \/ ARWake
         \/ \E e \in {"EOF", "WE"} : AWClose(e)
         \/ \E e \in {"CLOSED", "RE"} : ARClose(e)
SpecA == InitA /\ [][NextA]_va

AParkedOnlyIfBlocked ==
    /\ (rst = "parked" => blen = 0 /\ werr = "nil" /\ rerr = "nil")
    /\ (wst = "parked" => blen = Cap /\ werr = "nil" /\ rerr = "nil")
=============================================================================
