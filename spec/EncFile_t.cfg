SPECIFICATION Spec
CONSTANTS MaxObjs = 6
 Dbs = {0, 1, 2}
 Expiries = {0, 1, 2}
INVARIANTS RoundTrip Minimal
CHECK_DEADLOCK FALSE
