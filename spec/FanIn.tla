-------------------------------- MODULE FanIn --------------------------------
(* Several sources into one target: the body of CmdSync.Main (sync.go) and the first half of DbSyncer.Sync()
   (dbSyncer.go).  Every source has one DbSyncer; all of them share ONE counting semaphore of weight P
   (source.rdb.parallel) that is held from before the PSYNC until the full synchronisation - or the decision that
   none is needed - is over.  One action per code section:

     Begin(i)          incrementRetryCounter (the 4th start within the hour aborts the tool: log.Panic = exit),
                       updateSlotTopology, LoadCheckpoint
     Acquire(i)        MaxParallelFullSyncs.Acquire
     PsyncRefused(i)   sendPSyncCmd fails (-LOADING, connection refused): Release, `go ds.Sync()`
     PsyncFull(i)      +FULLRESYNC: syncRDBFile starts
     PsyncContinue(i)  +CONTINUE (the target held a usable checkpoint): Release, incremental phase
     FullDone(i)       syncRDBFile returned nil: Release, close(WaitFull), incremental phase
     FullFailed(i)     syncRDBFile returned an error (a worker's restore failed): Release, `go ds.Sync()`

   Deviation switches (each must make TLC report a violation - the invariants are not vacuous):
     DevLeakOnRefuse   the error path of sendPSyncCmd forgets the Release
     DevDoubleRelease  FullDone releases twice                                                      *)
EXTENDS Integers, FiniteSets, TLC

CONSTANTS Src,          \* the sources
          P,            \* weight of the semaphore
          MaxRefusals,  \* bounds of the environment chosen in the initial state (see Init)
          MaxFullFails,
          MaxTries,     \* 3
          DevLeakOnRefuse, DevDoubleRelease

VARIABLES env,          \* the environment, fixed in the initial state: [refusals : [Src -> Nat]  PSYNC attempts the source refuses before it
                        \*   accepts one, fails : [Src -> Nat]  full synchronisations that fail at the target, resumable : SUBSET Src  the
                        \*   target holds a usable checkpoint of the source]
          pc,           \* [Src -> {"start","wait","held","full","incr"}]
          tries,        \* [Src -> Nat]   fullSyncRetryCounter
          left,         \* [Src -> Nat]   refusals the source still has in store
          fleft,        \* [Src -> Nat]   failing full synchronisations still in store
          sem,          \* permits taken
          dead          \* the tool aborted (process exit: nothing moves any more)
vars == <<env, pc, tries, left, fleft, sem, dead>>

InitWith(e) == /\ env = e /\ pc = [i \in Src |-> "start"] /\ tries = [i \in Src |-> 0] /\ left = e.refusals /\ fleft = e.fails
               /\ sem = 0 /\ dead = FALSE
Init == \E e \in [refusals : [Src -> 0..MaxRefusals], fails : [Src -> 0..MaxFullFails], resumable : SUBSET Src] : InitWith(e)

Begin(i) == /\ ~dead /\ pc[i] = "start"
            /\ tries' = [tries EXCEPT ![i] = @ + 1]
            /\ IF tries[i] + 1 > MaxTries THEN dead' = TRUE /\ UNCHANGED pc
                                          ELSE pc' = [pc EXCEPT ![i] = "wait"] /\ UNCHANGED dead
            /\ UNCHANGED <<env, left, fleft, sem>>

Acquire(i) == /\ ~dead /\ pc[i] = "wait" /\ sem < P
              /\ sem' = sem + 1 /\ pc' = [pc EXCEPT ![i] = "held"]
              /\ UNCHANGED <<env, tries, left, fleft, dead>>

PsyncRefused(i) == /\ ~dead /\ pc[i] = "held" /\ left[i] > 0
                   /\ left' = [left EXCEPT ![i] = @ - 1]
                   /\ sem' = IF DevLeakOnRefuse THEN sem ELSE sem - 1
                   /\ pc' = [pc EXCEPT ![i] = "start"]
                   /\ UNCHANGED <<env, tries, fleft, dead>>

PsyncFull(i) == /\ ~dead /\ pc[i] = "held" /\ left[i] = 0 /\ i \notin env.resumable
                /\ pc' = [pc EXCEPT ![i] = "full"]
                /\ UNCHANGED <<env, tries, left, fleft, sem, dead>>

PsyncContinue(i) == /\ ~dead /\ pc[i] = "held" /\ left[i] = 0 /\ i \in env.resumable
                    /\ sem' = sem - 1 /\ pc' = [pc EXCEPT ![i] = "incr"]
                    /\ UNCHANGED <<env, tries, left, fleft, dead>>

FullDone(i) == /\ ~dead /\ pc[i] = "full" /\ fleft[i] = 0
               /\ sem' = IF DevDoubleRelease THEN sem - 2 ELSE sem - 1
               /\ pc' = [pc EXCEPT ![i] = "incr"]
               /\ UNCHANGED <<env, tries, left, fleft, dead>>

FullFailed(i) == /\ ~dead /\ pc[i] = "full" /\ fleft[i] > 0
                 /\ fleft' = [fleft EXCEPT ![i] = @ - 1]
                 /\ sem' = sem - 1 /\ pc' = [pc EXCEPT ![i] = "start"]
                 /\ UNCHANGED <<env, tries, left, dead>>

Next == \E i \in Src : Begin(i) \/ Acquire(i) \/ PsyncRefused(i) \/ PsyncFull(i) \/ PsyncContinue(i) \/ FullDone(i) \/ FullFailed(i)

\* the semaphore of golang.org/x/sync is first-come-first-served: a waiting syncer gets its turn (strong fairness on Acquire)
Spec == /\ Init /\ [][Next]_vars
        /\ \A i \in Src : /\ WF_vars(Begin(i)) /\ SF_vars(Acquire(i)) /\ WF_vars(PsyncRefused(i)) /\ WF_vars(PsyncFull(i))
                          /\ WF_vars(PsyncContinue(i)) /\ WF_vars(FullDone(i)) /\ WF_vars(FullFailed(i))

Holders == {i \in Src : pc[i] \in {"held", "full"}}
TypeOK  == /\ pc \in [Src -> {"start", "wait", "held", "full", "incr"}] /\ sem \in Int /\ dead \in BOOLEAN
\* the permits taken are exactly the syncers between Acquire and their Release: never more than P full synchronisations,
\* no permit leaked, none released twice (x/sync panics on "released more than held")
SemExact == sem = Cardinality(Holders)
SemBound == sem >= 0 /\ sem <= P
\* the tool gives up exactly when one source made it start a 4th time
DeadOnlyByRetries == dead => \E i \in Src : tries[i] > MaxTries
NoRestartAfterIncr == \A i \in Src : pc[i] = "incr" => left[i] = 0 /\ (i \notin env.resumable => fleft[i] = 0)
Doomed == \E i \in Src : env.refusals[i] + (IF i \in env.resumable THEN 0 ELSE env.fails[i]) >= MaxTries
\* every source reaches its incremental phase, unless one of them exhausts the retries (then the tool stops)
AllServed == <>(dead \/ \A i \in Src : pc[i] = "incr")
DeadIffDoomed == (~Doomed => [] ~dead) /\ (Doomed => <> dead)
\* once in the incremental phase a syncer never goes back (Sync() restarts itself only before that point)
IncrStable == [][\A i \in Src : pc[i] = "incr" => pc'[i] = "incr"]_vars
=============================================================================
