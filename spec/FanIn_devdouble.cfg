SPECIFICATION Spec
CONSTANTS
  Src = {1, 2, 3}
  P = 2
  MaxRefusals = 3
  MaxFullFails = 1
  MaxTries = 3
  DevLeakOnRefuse = FALSE
  DevDoubleRelease = TRUE
INVARIANTS TypeOK SemExact SemBound DeadOnlyByRetries NoRestartAfterIncr
CHECK_DEADLOCK FALSE
