CONSTANTS Cap = 3 MaxBytes = 4 Chunks = {1,3} DevNoSignal = FALSE DevNoReset = FALSE
SPECIFICATION Spec
INVARIANTS Fifo ParkedOnlyIfBlocked RingSane QueryOK
VIEW View
CHECK_DEADLOCK FALSE
