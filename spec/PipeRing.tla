----------------------------- MODULE PipeRing -----------------------------
(* L2, as implemented: pkg/libs/io/pipe/pipe.go + buff.go/file.go.
   One action per critical section (one iteration of the Read / Write loop = readSome /
   writeSome under mu), the ring with rpos/wpos and the reset-to-zero on drain, the two
   condition variables with explicit Signal.  `last` records the action just taken together
   with what the implementation is expected to show; it drives the lock-step replay.
   TLC checks PipeRing => Pipe (refinement) plus the L1 invariants through the mapping. *)
EXTENDS Integers, Sequences, SequencesExt, TLC
CONSTANTS Cap, MaxBytes, Chunks,
          DevNoSignal,   \* deviation switch (off = as built): progress does not signal the other side
          DevNoReset     \* deviation switch: no rpos/wpos reset on drain (harmless; shows the reset is not load-bearing)
VARIABLES store, rpos, wpos, werr, rerr, wst, wleft, wn, rst, rwant, wret, rret, wrote, got, last
vars == <<store, rpos, wpos, werr, rerr, wst, wleft, wn, rst, rwant, wret, rret, wrote, got, last>>

Min2(a, b) == IF a < b THEN a ELSE b
NoRet == [n |-> 0, err |-> "none"]
Wake(s) == IF s = "parked" THEN "woken" ELSE s

Init == /\ store = [i \in 0..Cap-1 |-> 0] /\ rpos = 0 /\ wpos = 0 /\ werr = "nil" /\ rerr = "nil"
        /\ wst = "idle" /\ wleft = 0 /\ wn = 0 /\ rst = "idle" /\ rwant = 0
        /\ wret = NoRet /\ rret = NoRet /\ wrote = <<>> /\ got = <<>>
        /\ last = [a |-> "Init"]

WBegin(k) == /\ wst = "idle" /\ Len(wrote) + k <= MaxBytes
             /\ wst' = "call" /\ wleft' = k /\ wn' = 0 /\ wret' = NoRet
             /\ last' = [a |-> "WBegin", k |-> k]
             /\ UNCHANGED <<store, rpos, wpos, werr, rerr, rst, rwant, rret, wrote, got>>

\* one writeSome() critical section
WStep ==
  /\ wst = "call"
  /\ IF werr # "nil" THEN
        /\ wret' = [n |-> wn, err |-> "CLOSED"] /\ wst' = "idle" /\ wleft' = 0
        /\ last' = [a |-> "WStep", res |-> "ret", n |-> wn, err |-> "CLOSED"]
        /\ UNCHANGED <<store, rpos, wpos, wn, rst, wrote>>
     ELSE IF rerr # "nil" THEN
        /\ wret' = [n |-> wn, err |-> rerr] /\ wst' = "idle" /\ wleft' = 0
        /\ last' = [a |-> "WStep", res |-> "ret", n |-> wn, err |-> rerr]
        /\ UNCHANGED <<store, rpos, wpos, wn, rst, wrote>>
     ELSE IF wleft = 0 THEN
        /\ wret' = [n |-> wn, err |-> "nil"] /\ wst' = "idle"
        /\ last' = [a |-> "WStep", res |-> "ret", n |-> wn, err |-> "nil"]
        /\ UNCHANGED <<store, rpos, wpos, wleft, wn, rst, wrote>>
     ELSE LET off == wpos % Cap
              n   == Min2(wleft, Min2(Cap + rpos - wpos, Cap - off)) IN
          IF n = 0 THEN
             /\ wst' = "parked" /\ last' = [a |-> "WStep", res |-> "park"]
             /\ UNCHANGED <<store, rpos, wpos, wleft, wn, wret, rst, wrote>>
          ELSE
             /\ store' = [i \in 0..Cap-1 |-> IF i >= off /\ i < off + n THEN Len(wrote) + (i - off) + 1 ELSE store[i]]
             /\ wrote' = wrote \o [i \in 1..n |-> Len(wrote) + i]
             /\ wpos' = wpos + n /\ wleft' = wleft - n /\ wn' = wn + n
             /\ rst' = IF DevNoSignal THEN rst ELSE Wake(rst)
             /\ IF wleft - n = 0
                  THEN /\ wst' = "idle" /\ wret' = [n |-> wn + n, err |-> "nil"]
                       /\ last' = [a |-> "WStep", res |-> "someret", n |-> n, tot |-> wn + n]
                  ELSE /\ wst' = "call" /\ wret' = wret
                       /\ last' = [a |-> "WStep", res |-> "some", n |-> n]
             /\ UNCHANGED rpos
  /\ UNCHANGED <<werr, rerr, rwant, rret, got>>
WWake == /\ wst = "woken" /\ wst' = "call" /\ last' = [a |-> "WWake"]
         /\ UNCHANGED <<store, rpos, wpos, werr, rerr, wleft, wn, rst, rwant, wret, rret, wrote, got>>

RBegin(k) == /\ rst = "idle" /\ rst' = "call" /\ rwant' = k /\ rret' = NoRet
             /\ last' = [a |-> "RBegin", k |-> k]
             /\ UNCHANGED <<store, rpos, wpos, werr, rerr, wst, wleft, wn, wret, wrote, got>>

Buffered == wpos - rpos
\* one readSome() critical section
RStep ==
  /\ rst = "call"
  /\ IF rerr # "nil" THEN
        /\ rret' = [n |-> 0, err |-> "CLOSED"] /\ rst' = "idle" /\ rwant' = 0
        /\ last' = [a |-> "RStep", res |-> "ret", n |-> 0, err |-> "CLOSED"]
        /\ UNCHANGED <<rpos, wpos, wst, got>>
     ELSE IF rwant = 0 THEN
        /\ rret' = [n |-> 0, err |-> IF Buffered # 0 THEN "nil" ELSE werr] /\ rst' = "idle"
        /\ last' = [a |-> "RStep", res |-> "ret", n |-> 0, err |-> IF Buffered # 0 THEN "nil" ELSE werr]
        /\ UNCHANGED <<rpos, wpos, wst, got, rwant>>
     ELSE LET off == rpos % Cap
              n   == Min2(rwant, Min2(wpos - rpos, Cap - off)) IN
          IF n = 0 THEN
             IF werr # "nil" THEN
                /\ rret' = [n |-> 0, err |-> werr] /\ rst' = "idle" /\ rwant' = 0
                /\ last' = [a |-> "RStep", res |-> "ret", n |-> 0, err |-> werr]
                /\ UNCHANGED <<rpos, wpos, wst, got>>
             ELSE
                /\ rst' = "parked" /\ last' = [a |-> "RStep", res |-> "park"]
                /\ UNCHANGED <<rpos, wpos, wst, got, rwant, rret>>
          ELSE
             /\ got' = got \o [i \in 1..n |-> store[off + i - 1]]
             /\ IF rpos + n = wpos /\ ~DevNoReset THEN rpos' = 0 /\ wpos' = 0
                                                 ELSE rpos' = rpos + n /\ wpos' = wpos
             /\ rret' = [n |-> n, err |-> "nil"] /\ rst' = "idle" /\ rwant' = 0
             /\ wst' = IF DevNoSignal THEN wst ELSE Wake(wst)
             /\ last' = [a |-> "RStep", res |-> "ret", n |-> n, err |-> "nil",
                         ids |-> [i \in 1..n |-> store[off + i - 1]]]
  /\ UNCHANGED <<store, werr, rerr, wleft, wn, wret, wrote>>
RWake == /\ rst = "woken" /\ rst' = "call" /\ last' = [a |-> "RWake"]
         /\ UNCHANGED <<store, rpos, wpos, werr, rerr, wst, wleft, wn, rwant, wret, rret, wrote, got>>

WClose(e) == /\ werr' = (IF werr = "nil" THEN e ELSE werr)
             /\ rst' = Wake(rst) /\ wst' = Wake(wst)
             /\ last' = [a |-> "WClose", e |-> e]
             /\ UNCHANGED <<store, rpos, wpos, rerr, wleft, wn, rwant, wret, rret, wrote, got>>
RClose(e) == /\ rerr' = (IF rerr = "nil" THEN e ELSE rerr) /\ rpos' = wpos
             /\ rst' = Wake(rst) /\ wst' = Wake(wst)
             /\ last' = [a |-> "RClose", e |-> e]
             /\ UNCHANGED <<store, wpos, werr, wleft, wn, rwant, wret, rret, wrote, got>>

\* queries, as stuttering-on-state actions that only set `last` (their result is what replay compares)
QBuffered == /\ last' = [a |-> "Buffered",
                         n |-> IF rerr # "nil" THEN 0 ELSE Buffered,
                         err |-> IF rerr # "nil" THEN rerr ELSE IF Buffered # 0 THEN "nil" ELSE werr]
             /\ UNCHANGED <<store, rpos, wpos, werr, rerr, wst, wleft, wn, rst, rwant, wret, rret, wrote, got>>
QAvailable == /\ last' = [a |-> "Available",
                          n |-> IF werr # "nil" \/ rerr # "nil" THEN 0 ELSE Cap + rpos - wpos,
                          err |-> IF werr # "nil" THEN werr ELSE rerr]
              /\ UNCHANGED <<store, rpos, wpos, werr, rerr, wst, wleft, wn, rst, rwant, wret, rret, wrote, got>>

Next == \/ \E k \in Chunks : WBegin(k) \/ RBegin(k)
        \/ WStep \/ RStep \/ WWake \/ RWake
        \/ \E e \in {"EOF", "WE"} : WClose(e)
        \/ \E e \in {"CLOSED", "RE"} : RClose(e)
        \/ (last.a \notin {"Buffered", "Available"} /\ (QBuffered \/ QAvailable))
Spec == Init /\ [][Next]_vars
FairSpec == Spec /\ WF_vars(WStep) /\ WF_vars(RStep) /\ WF_vars(WWake) /\ WF_vars(RWake)

\* ---- refinement ----
bufMap == IF rerr # "nil" THEN <<>> ELSE [i \in 1..(wpos - rpos) |-> store[(rpos + i - 1) % Cap]]
L1 == INSTANCE Pipe WITH buf <- bufMap
Refines == L1!Spec1
Fifo == L1!Fifo
ParkedOnlyIfBlocked == L1!ParkedOnlyIfBlocked
DrainBeforeError == L1!DrainBeforeError
RingSane == /\ rpos <= wpos /\ wpos - rpos <= Cap
\* query results agree with the contract's
QueryOK == /\ (last.a = "Buffered"  => [n |-> last.n, err |-> last.err] = L1!BufferedRes)
           /\ (last.a = "Available" => [n |-> last.n, err |-> last.err] = L1!AvailableRes)
\* liveness (FairSpec): a call in progress eventually returns or is legitimately parked
Progress == /\ [](rst \in {"call", "woken"} => <>(rst \in {"idle", "parked"}))
            /\ [](wst \in {"call", "woken"} => <>(wst \in {"idle", "parked"}))
\* history is output only
View == <<store, rpos, wpos, werr, rerr, wst, wleft, wn, rst, rwant, wret, rret, Len(wrote), Len(got), last>>
=============================================================================
