SPECIFICATION Spec
CONSTANTS NCmds = 3
 CmdLen = 2
 MaxDrops = 2
 MaxCrashes = 1
 DevCkptAfterData = TRUE
INVARIANTS ExactlyOnce CkptAtomic NeverAhead SentCoversRecv ResumeExact

CHECK_DEADLOCK FALSE
