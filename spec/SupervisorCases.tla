-------------------------- MODULE SupervisorCases --------------------------
(* Scenario enumeration for replay: one initial state per scenario, carrying the contract's
   expectation (first round with a master, the set of nodes reporting master in it). *)
EXTENDS Integers, Sequences, FiniteSets, TLC
CONSTANTS N, MaxRetries
S == INSTANCE Supervisor WITH DevLastMasterWins <- FALSE, scn <- 0, round <- 0, i <- 0, src <- 0, slaves <- 0, found <- 0, res <- 0
VARIABLE c
\* scenarios are cut after the first round with a master: later rounds are never observed
Canon(s) == LET f == S!FirstMasterRound(s) IN
            \A r \in 0..MaxRetries : (f # -1 /\ r > f) => \A n \in 1..N : s[r][n] = "slave"
Init == \E s \in [0..MaxRetries -> [1..N -> S!Outcomes]] :
          /\ Canon(s)
          /\ c = [scn |-> [r \in 0..MaxRetries |-> s[r]],
                  first |-> S!FirstMasterRound(s),
                  masters |-> IF S!FirstMasterRound(s) = -1 THEN {}
                              ELSE {n \in 1..N : s[S!FirstMasterRound(s)][n] = "master"}]
Next == UNCHANGED c
Spec == Init /\ [][Next]_c
=============================================================================
