------------------------------ MODULE FanInInd ------------------------------
(* FanIn.tla without the retry bookkeeping (a refusal or a failing full synchronisation may happen any number of times):
   small enough for Apalache to discharge an INDUCTIVE invariant of the permit accounting for every number of sources
   N <= 8, every weight P and unboundedly many restarts:
        Init => IndInv,   IndInv /\ Next => IndInv',   IndInv => Safety.                                         *)
EXTENDS Integers, FiniteSets
CONSTANTS
  \* @type: Int;
  N,
  \* @type: Int;
  P
VARIABLES
  \* @type: Int -> Str;
  pc,
  \* @type: Int;
  sem
Src == {i \in 1..8 : i <= N}
ConstInit == N \in 1..8 /\ P \in 1..8
Init == pc = [i \in Src |-> "start"] /\ sem = 0
Begin(i) == pc[i] = "start" /\ pc' = [pc EXCEPT ![i] = "wait"] /\ UNCHANGED sem
Acquire(i) == pc[i] = "wait" /\ sem < P /\ sem' = sem + 1 /\ pc' = [pc EXCEPT ![i] = "held"]
PsyncRefused(i) == pc[i] = "held" /\ sem' = sem - 1 /\ pc' = [pc EXCEPT ![i] = "start"]
PsyncFull(i) == pc[i] = "held" /\ pc' = [pc EXCEPT ![i] = "full"] /\ UNCHANGED sem
PsyncContinue(i) == pc[i] = "held" /\ sem' = sem - 1 /\ pc' = [pc EXCEPT ![i] = "incr"]
FullDone(i) == pc[i] = "full" /\ sem' = sem - 1 /\ pc' = [pc EXCEPT ![i] = "incr"]
FullFailed(i) == pc[i] = "full" /\ sem' = sem - 1 /\ pc' = [pc EXCEPT ![i] = "start"]
Next == \E i \in Src : Begin(i) \/ Acquire(i) \/ PsyncRefused(i) \/ PsyncFull(i) \/ PsyncContinue(i) \/ FullDone(i) \/ FullFailed(i)
Holders == {i \in Src : pc[i] \in {"held", "full"}}
TypeOK == pc \in [Src -> {"start", "wait", "held", "full", "incr"}] /\ sem \in Int
IndInv == TypeOK /\ sem = Cardinality(Holders) /\ sem <= P
IndInit == TypeOK /\ IndInv
\* never more than P syncers between Acquire and Release; a Release always has a permit to give back
Safety == Cardinality(Holders) <= P /\ sem >= 0 /\ sem = Cardinality(Holders)
=============================================================================
