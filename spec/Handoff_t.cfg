CONSTANTS HeadLen = 3 N = 5 CmdLen = 5 B = 4 P = 3 Chunk = 3
SPECIFICATION Spec
INVARIANTS NoLossNoDup RemainSane
PROPERTY Complete
CHECK_DEADLOCK FALSE
