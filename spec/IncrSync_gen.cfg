CONSTANTS MaxLen = 5 Dbs = {0,1} FilteredDbs = {} KeyFilterOn = TRUE FilterLua = FALSE SenderCount = 2 BufCap = 2
  Resume = TRUE TargetDB = 9 MaxCrash = 1 Kinds = {"w", "wm", "ping", "multi"}
SPECIFICATION GenSpec

CHECK_DEADLOCK FALSE
