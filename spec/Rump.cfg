SPECIFICATION Spec
CONSTANTS DbSeq <- MCDbSeq
 Pages <- MCPages
 Big = {2, 4}
 N = 2
 TargetDB <- MCNoTdb
 MaxVanish = 2
INVARIANTS Copied NoGhost ReplySkew NeverStuckOnReplies
PROPERTIES Terminates
CHECK_DEADLOCK FALSE
