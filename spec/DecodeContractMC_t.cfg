SPECIFICATION Spec
CONSTANT MaxLen = 5
INVARIANT Agree
