------------------------------- MODULE Restore -------------------------------
(* C02: restoring one parsed entry - the case space and the CONTRACT of the outcome.
   A case fixes the entry (value kind + RDB encoding, element-count class, expiry, LRU/LFU hints),
   the configuration (big-key threshold below/above the payload, key_exists policy, REPLACE
   supported or not, target version string, time shift, hash-tag replacement) and the target
   (key absent / present with the same kind / present with another kind; accepts the payload
   format or answers "Bad data format").
   Outcome(case) is what the property demands:
     "value"            the destination key equals the source's logical value, TTL = expiry - now
     "error_untouched"  the restore reports an error and the target key is untouched   (policy none)
     "untouched"        no error, the target key is untouched                          (policy ignore)
   and nothing in the case space makes the restore abort. *)
EXTENDS Integers, FiniteSets, TLC
Encodings == { <<"string", 0>>, <<"list", 1>>, <<"list", 10>>, <<"list", 14>>, <<"set", 2>>, <<"set:int", 11>>,
               <<"zset", 3>>, <<"zset", 5>>, <<"zset", 12>>, <<"hash", 4>>, <<"hash", 9>>, <<"hash", 13>> }
Sizes == {1, 99, 100, 101, 250}
Policies == {"rewrite", "none", "ignore"}
Pres == {"absent", "same", "other"}
Versions == {"5", "5.0", "4.0.1", "6.2.1", "", "2.8"}
Expiries == {"none", "future", "past"}
Outcome(c) == IF c.pre = "absent" THEN "value"
              ELSE CASE c.policy = "rewrite" -> "value"
                     [] c.policy = "none"    -> "error_untouched"
                     [] c.policy = "ignore"  -> "untouched"
\* which road the tool is expected to take (informational: evidence / coverage bookkeeping only)
Route(c) == IF c.enc[2] = 14 THEN "quicklist"
            ELSE IF c.big THEN "elements"
            ELSE IF c.reject THEN "restore-then-elements" ELSE "restore"
VARIABLE c
Init == \E enc \in Encodings, n \in Sizes, big \in BOOLEAN, ex \in Expiries, hints \in BOOLEAN, pol \in Policies, pre \in Pres,
           rep \in BOOLEAN, ver \in Versions, rej \in BOOLEAN, tag \in BOOLEAN :
          /\ (enc[1] = "string" => n = 1)
          /\ (rej => ~big /\ enc[2] \in {14, 5})            \* formats an older target does not know: quicklist, zset2
          /\ (hints => ver \in {"5", "5.0", "6.2.1"})
          /\ c = [enc |-> enc, n |-> n, big |-> big, expire |-> ex, hints |-> hints, policy |-> pol, pre |-> pre,
                  replace |-> rep, ver |-> ver, reject |-> rej, hashtag |-> tag,
                  outcome |-> Outcome([pre |-> pre, policy |-> pol]),
                  route |-> Route([enc |-> enc, big |-> big, reject |-> rej])]
Next == UNCHANGED c
Spec == Init /\ [][Next]_c
\* consequences
NeverLoseAPassingRestore == (c.pre = "absent") => c.outcome = "value"
PolicyDecides == c.pre # "absent" => (c.outcome = "value" <=> c.policy = "rewrite")
=============================================================================
