------------------------------- MODULE RumpFan -------------------------------
(* C16, several sources: CmdRump.Main() starts one dbRumper goroutine per source address and waits for all of them
   (sync.WaitGroup).  Every rumper is taken at its CONTRACT, which Rump.tla establishes for one executor (every scanned
   key that still exists is copied into its - mapped - database, nothing else is written, the executor terminates):
   here a rumper copies its own keys one at a time, in any order, interleaved with the others, and then finishes.
   What the composition adds: each goroutine works on ITS source (the loop variable handed to the goroutine), the
   command ends when - and only when - all rumpers have ended, and the target then holds the union of the sources.

   Deviation switch (must make TLC report a violation): DevSharedRumper - the goroutines share one rumper variable,
   so a goroutine started for source i may run the rumper of a later source.                                        *)
EXTENDS Integers, FiniteSets, TLC
CONSTANTS Src,            \* source ids, 1..N
          KeysOf,         \* [Src -> set of keys]   (disjoint: the contract of the command presupposes distinct names per target db)
          DevSharedRumper
VARIABLES assigned,       \* [Src -> Src \cup {0}]: which source's rumper goroutine i runs (0: not started yet)
          started,        \* number of goroutines started by the loop of Main (they start in source order)
          copied,         \* [Src -> set of keys] what goroutine i has written so far
          fin,            \* set of goroutines that have ended
          tgt,            \* bag of writes: [key -> number of times written]
          mainDone
vars == <<assigned, started, copied, fin, tgt, mainDone>>
N == Cardinality(Src)
AllKeys == UNION {KeysOf[s] : s \in Src}
Init == /\ assigned = [i \in Src |-> 0] /\ started = 0 /\ copied = [i \in Src |-> {}] /\ fin = {}
        /\ tgt = [k \in AllKeys |-> 0] /\ mainDone = FALSE
\* the loop of Main: `dr := &dbRumper{id: i, address: address}; go func() { dr.run() }()`
Start == /\ started < N /\ started' = started + 1 /\ UNCHANGED <<assigned, copied, fin, tgt, mainDone>>
\* the goroutine reads the rumper variable when it begins to run: its own (declared inside the loop body), or - deviation - whatever the
\* shared variable holds at that moment (any source started so far, at least its own)
Bind(i) == /\ assigned[i] = 0 /\ i <= started
           /\ \E s \in Src : /\ IF DevSharedRumper THEN s >= i /\ s <= started ELSE s = i
                             /\ assigned' = [assigned EXCEPT ![i] = s]
           /\ UNCHANGED <<started, copied, fin, tgt, mainDone>>
Copy(i) == /\ assigned[i] # 0 /\ i \notin fin
           /\ \E k \in KeysOf[assigned[i]] \ copied[i] :
                 /\ copied' = [copied EXCEPT ![i] = @ \cup {k}]
                 /\ tgt' = [tgt EXCEPT ![k] = @ + 1]
           /\ UNCHANGED <<assigned, started, fin, mainDone>>
Finish(i) == /\ assigned[i] # 0 /\ i \notin fin /\ copied[i] = KeysOf[assigned[i]]
             /\ fin' = fin \cup {i} /\ UNCHANGED <<assigned, started, copied, tgt, mainDone>>
\* wg.Wait()
MainEnd == /\ ~mainDone /\ started = N /\ fin = Src /\ mainDone' = TRUE /\ UNCHANGED <<assigned, started, copied, fin, tgt>>
Next == Start \/ MainEnd \/ \E i \in Src : Bind(i) \/ Copy(i) \/ Finish(i)
Spec == Init /\ [][Next]_vars /\ WF_vars(Start) /\ WF_vars(MainEnd) /\ \A i \in Src : WF_vars(Bind(i)) /\ WF_vars(Copy(i)) /\ WF_vars(Finish(i))
TypeOK == started \in 0..N /\ fin \subseteq Src /\ mainDone \in BOOLEAN
\* when the command ends every key of every source has been written exactly once
UnionCopied == mainDone => \A k \in AllKeys : tgt[k] = 1
\* never twice, at any time (a second RESTORE of the same key answers BUSY under key_exists = none)
NeverTwice == \A k \in AllKeys : tgt[k] <= 1
OwnSource == \A i \in Src : assigned[i] \in {0, i}
Terminates == <>mainDone
=============================================================================
