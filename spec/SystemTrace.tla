----------------------------- MODULE SystemTrace -----------------------------
(* Trace validation of complete DbSyncer.Sync() runs against System.tla's contract, with the real
   command boundaries (`ends`, relative to the announced start offset) in place of the model's fixed
   command length.  Events (one shared sequence, see offsets.go):
     cfg          ends of all stream commands, which of them are the numbered list pushes
     resume-from  the target already holds a checkpoint at this offset (a restart of the tool)
     tool-recv    n more stream bytes handed to the parser
     src-psync    the offset a (re)PSYNC asked for
     tgt-exec     one transaction executed by the target: the pushes it applied (as command indices)
                  and the checkpoint offset it stored (-1: none / a write outside any transaction)
     restart      the tool PROCESS was killed (SIGKILL) and is started again; n = the checkpoint the
                  target holds at that moment (-1: none, the next PSYNC must ask for a full sync)
     e2e-end      final state of a run with kills: every push applied exactly once, the stored
                  checkpoint is the end of the stream
   Judged per transaction, i.e. at every moment a crash could leave the target in:
     CkptAtomic + ExactlyOnce   the pushes of the transaction are exactly the push commands whose end
                                lies in (previous checkpoint, new checkpoint], in stream order;
     NeverAhead                 the new checkpoint is a command boundary within what the source has sent;
     ResumeExact                (re)PSYNC asks for the byte after what is held / stored.             *)
EXTENDS Integers, Sequences, FiniteSets, TLC, Json
VARIABLES l, bad, ends, pushIdx, recv, sending, ckpt, conns, resumed
vars == <<l, bad, ends, pushIdx, recv, sending, ckpt, conns, resumed>>
Trace == ndJsonDeserialize("trace.ndjson")
SetOf(seq) == {seq[i] : i \in 1..Len(seq)}
\* the push commands (as command indices) whose end offset lies in (a, b]
RECURSIVE Between(_, _, _, _)
Between(i, a, b, acc) == IF i > Len(ends) THEN acc
                         ELSE Between(i + 1, a, b, IF ends[i] > a /\ ends[i] <= b /\ i \in SetOf(pushIdx) THEN Append(acc, i) ELSE acc)
ExecOK(ev) == /\ ev.ckpt \in SetOf(ends)                       \* an exact command boundary ...
              /\ (ev.ckpt > ckpt \/ (ev.ckpt = ckpt /\ ev.pushes = <<>>))   \* ... beyond the previous one (or the same one stored again by a
                                                               \*     transaction without data: the opening SELECT of a resumed run flushed alone) ...
              /\ ev.ckpt <= sending                            \* ... within what the source has put on the wire ("src-sending" is logged BEFORE the
                                                               \*     write; "tool-recv" only after the bytes are already in the pipe, so it may trail)
              /\ ev.pushes = Between(1, ckpt, ev.ckpt, <<>>)   \* data and checkpoint move together, nothing twice, nothing skipped
EventOK(ev) ==
  CASE ev.e = "tgt-exec" -> ExecOK(ev)
    [] ev.e = "src-psync" -> IF conns = 0 /\ ~resumed THEN ev.off = -1000000          \* nothing stored: a full resynchronisation is asked for
                             ELSE ev.runid_ok /\ ev.off = recv + 1                      \* continue at the next byte (a wrong run id makes the scripted
                                                                                         \*  source answer with a new full sync, as a real master does)
    [] ev.e = "restart" -> ev.n = ckpt \/ (ev.n = -1 /\ ckpt = 0)        \* what the target holds is the checkpoint of its last transaction
    [] ev.e = "e2e-end" -> ev.missing = 0 /\ ev.dup = 0 /\ ev.sent = ev.stream_len /\ ev.stored = ends[Len(ends)] /\ ckpt = ev.stored
    [] OTHER -> TRUE
TInit == l = 1 /\ bad = 0 /\ ends = <<>> /\ pushIdx = <<>> /\ recv = 0 /\ sending = 0 /\ ckpt = 0 /\ conns = 0 /\ resumed = FALSE
TNext == /\ l <= Len(Trace) /\ l' = l + 1
         /\ LET ev == Trace[l] IN
            /\ ends' = IF ev.e = "cfg" THEN ev.ends ELSE ends
            /\ pushIdx' = IF ev.e = "cfg" THEN ev.push_idx ELSE pushIdx
            /\ recv' = IF ev.e = "tool-recv" THEN recv + ev.n ELSE IF ev.e = "resume-from" THEN ev.n ELSE IF ev.e = "cfg" THEN 0
                       ELSE IF ev.e = "restart" THEN (IF ev.n = -1 THEN 0 ELSE ev.n) ELSE recv
            /\ sending' = IF ev.e \in {"src-sending", "resume-from"} /\ ev.n > sending THEN ev.n ELSE IF ev.e = "cfg" THEN 0 ELSE sending
            /\ ckpt' = IF ev.e = "tgt-exec" /\ ev.ckpt > ckpt THEN ev.ckpt ELSE IF ev.e = "resume-from" THEN ev.n ELSE IF ev.e = "cfg" THEN 0 ELSE ckpt
            /\ conns' = IF ev.e = "src-psync" THEN conns + 1 ELSE IF ev.e \in {"cfg", "restart"} THEN 0 ELSE conns
            /\ resumed' = IF ev.e = "cfg" THEN FALSE ELSE IF ev.e = "restart" THEN ev.n # -1 ELSE (resumed \/ ev.e = "resume-from")
            /\ IF EventOK(ev) THEN bad' = bad ELSE PrintT(<<"REJECT", l>>) /\ bad' = bad + 1
TSpec == TInit /\ [][TNext]_vars
Accepted == TLCGet("stats").diameter - 1 = Len(Trace)
=============================================================================
