------------------------------- MODULE RdbFile -------------------------------
(* C01: the RDB parser at opcode level (pkg/rdb/loader.go NextBinEntry).
   An abstract file is a sequence of operations
     [o |-> "aux"] [o |-> "lua"] [o |-> "resize"] [o |-> "modaux"]      metadata
     [o |-> "exms", v] [o |-> "exs", v] [o |-> "idle", v] [o |-> "freq", v]   attributes of the NEXT key
     [o |-> "sel", v]                                                     database selector
     [o |-> "key", v |-> id, parts |-> n]                                 a key (parts > 1: a hash above the chunk limit)
   followed by EOF + checksum.  Expiry values are small numbers: the recorder subtracts a fixed base
   (TLC integers are 32 bit); "exs" values are seconds, reported in milliseconds like "exms".
   Contract: one record per key in file order (parts records for a chunked hash, consecutive), each
   with the database selected at that point and the attributes seen since the previous key; Lua aux
   fields become script records; every other metadata operation produces nothing and disturbs
   nothing; after the last key the end-of-file checksum verifies.
   Loader == the loop as implemented (one action per operation consumed); TLC checks Loader's output
   against the contract for every operation sequence. *)
EXTENDS RdbContract, TLC
CONSTANTS MaxOps, Dbs, Vals
\* ---- the loader loop as implemented ----
VARIABLES ops, pos, db, pend, remain, lastKey, out
vars == <<ops, pos, db, pend, remain, lastKey, out>>
OpSet == {[o |-> x] : x \in {"aux", "lua", "resize", "modaux"}}
         \cup {[o |-> x, v |-> v] : x \in {"exms", "exs", "idle", "freq"}, v \in Vals}
         \cup {[o |-> "sel", v |-> d] : d \in Dbs}
         \cup {[o |-> "key", v |-> 0, parts |-> p] : p \in {1, 2, 3}}                 \* (the id is the position, see Init)
NoPend == [ex |-> 0, idle |-> 0, freq |-> 0]
Renumber(raw) == [i \in 1..Len(raw) |-> IF raw[i].o = "key" THEN [raw[i] EXCEPT !.v = i] ELSE raw[i]]   \* key ids = position: distinct
Init == /\ ops \in {Renumber(raw) : raw \in UNION {[1..n -> OpSet] : n \in 0..MaxOps}}
        \* attribute opcodes directly precede a key, as a Redis server writes them (expire, idle, freq, then the key)
        /\ \A i \in 1..Len(ops) : ops[i].o \in {"exms", "exs", "idle", "freq"} => (i < Len(ops) /\ ops[i+1].o \in {"exms", "exs", "idle", "freq", "key"})
        /\ pos = 1 /\ db = 0 /\ pend = NoPend /\ remain = 0 /\ lastKey = Rec("none", 0, 0, 0, 0, 0, 0) /\ out = <<>>
\* one NextBinEntry-loop iteration
Step ==
  /\ pos <= Len(ops) \/ remain > 0
  /\ IF remain > 0
       THEN \* continuation record of a chunked hash: same key, attributes of the key
            /\ out' = Append(out, [lastKey EXCEPT !.part = lastKey.part + 1])
            /\ lastKey' = [lastKey EXCEPT !.part = lastKey.part + 1]
            /\ remain' = remain - 1 /\ UNCHANGED <<pos, db, pend>>
       ELSE LET op == ops[pos] IN
            /\ pos' = pos + 1
            /\ CASE op.o = "sel"  -> db' = op.v /\ UNCHANGED <<pend, remain, lastKey, out>>
                 [] op.o = "exms" -> pend' = [pend EXCEPT !.ex = op.v] /\ UNCHANGED <<db, remain, lastKey, out>>
                 [] op.o = "exs"  -> pend' = [pend EXCEPT !.ex = op.v * 1000] /\ UNCHANGED <<db, remain, lastKey, out>>
                 [] op.o = "idle" -> pend' = [pend EXCEPT !.idle = op.v] /\ UNCHANGED <<db, remain, lastKey, out>>
                 [] op.o = "freq" -> pend' = [pend EXCEPT !.freq = op.v] /\ UNCHANGED <<db, remain, lastKey, out>>
                 [] op.o = "lua"  -> out' = Append(out, Rec("lua", db, 0, pend.ex, pend.idle, pend.freq, 1)) /\ pend' = NoPend /\ UNCHANGED <<db, remain, lastKey>>
                 [] op.o = "key"  -> LET r == Rec("key", db, op.v, pend.ex, pend.idle, pend.freq, 1) IN
                                     out' = Append(out, r) /\ lastKey' = r /\ remain' = op.parts - 1 /\ pend' = NoPend /\ UNCHANGED db
                 [] OTHER         -> UNCHANGED <<db, pend, remain, lastKey, out>>
  /\ UNCHANGED ops
Done == pos > Len(ops) /\ remain = 0
Next == Step
Spec == Init /\ [][Next]_vars
Conforms == Done => out = Expected(ops)
PrefixConforms == \E n \in 0..Len(Expected(ops)) : out = SubSeq(Expected(ops), 1, n)
=============================================================================
