SPECIFICATION Spec
CONSTANTS
  Src = {1, 2, 3}
  P = 2
  MaxRefusals = 3
  MaxFullFails = 0
  MaxTries = 3
  DevLeakOnRefuse = FALSE
  DevDoubleRelease = FALSE
INVARIANTS TypeOK SemExact SemBound DeadOnlyByRetries NoRestartAfterIncr
PROPERTIES AllServed DeadIffDoomed IncrStable
CHECK_DEADLOCK FALSE
