-------------------------------- MODULE Filter --------------------------------
(* C06: the filter predicates as definitions.  Keys and prefixes are byte sequences; db lists
   are sets of integers; cfg = [fdb_white, fdb_black, fkey_white, fkey_black, fslot, filter_lua].
   TRUE means "filtered = must NOT reach the target". *)
EXTENDS Slot, FiniteSets
CkptPrefixBytes == <<114,101,100,105,115,45,115,104,97,107,101,45,99,104,101,99,107,112,111,105,110,116>>  \* "redis-shake-checkpoint"
HasPrefix(s, p) == Len(s) >= Len(p) /\ SubSeq(s, 1, Len(p)) = p
AnyPrefix(key, ps) == \E p \in ps : HasPrefix(key, p)
\* database lists match database numbers exactly; a blacklist wins over a whitelist
FilterDB(cfg, db) == IF cfg.fdb_black # {} THEN db \in cfg.fdb_black
                     ELSE IF cfg.fdb_white # {} THEN db \notin cfg.fdb_white ELSE FALSE
\* user key filter: blacklist excludes keys starting with a listed prefix, whitelist passes only such keys
UserKeyFilter(cfg, key) == IF cfg.fkey_black # {} THEN AnyPrefix(key, cfg.fkey_black)
                           ELSE IF cfg.fkey_white # {} THEN ~AnyPrefix(key, cfg.fkey_white) ELSE FALSE
KeyFilterConfigured(cfg) == cfg.fkey_black # {} \/ cfg.fkey_white # {}
IsCheckpointKey(key) == HasPrefix(key, CkptPrefixBytes)
\* full sync and restore never copy the tool's own checkpoint keys
FilterKeyFull(cfg, key) == IsCheckpointKey(key) \/ UserKeyFilter(cfg, key)
\* incremental sync and rump drop checkpoint keys once a key filter is configured
FilterKeyIncr(cfg, key) == KeyFilterConfigured(cfg) /\ (IsCheckpointKey(key) \/ UserKeyFilter(cfg, key))
FilterSlot(cfg, key) == cfg.fslot # {} /\ Slot(key) \notin cfg.fslot
\* does a key of database db reach the target?  (per data path)
ReachSync(cfg, db, key)    == ~FilterDB(cfg, db) /\ ~FilterKeyFull(cfg, key) /\ ~FilterSlot(cfg, key)
ReachRestore(cfg, db, key) == ~FilterDB(cfg, db) /\ ~FilterKeyFull(cfg, key)
ReachIncr(cfg, db, key)    == ~FilterDB(cfg, db) /\ ~FilterKeyIncr(cfg, key)
ReachRump(cfg, db, key)    == ~FilterDB(cfg, db) /\ ~FilterKeyIncr(cfg, key)
\* Lua scripts (RDB aux records, script commands) are excluded exactly when filter.lua is set
ScriptsReach(cfg) == ~cfg.filter_lua
=============================================================================
