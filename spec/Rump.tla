--------------------------------- MODULE Rump ---------------------------------
(* C16 - scan-based migration ("rump"): one executor = fetcher -> keyChan -> writer -> resultChan ->
   receiver, as built in redis-shake/rump.go.

   Source: per database a scripted scan (a sequence of pages, each a sequence of keys, pages may be
   empty; the cursor returns to 0 after the last page).  A key may VANISH from the source at any
   moment (expired / deleted by a client): environment action Vanish.  The fetcher, per database in
   DbSeq, per page: SCAN, one pipelined round of DUMP, one pipelined round of PTTL, then pushes one
   node (key, payload or none, pttl or "gone", db) per key into the bounded keyChan.

   Writer: per node - "gone" (PTTL -2) => skip; fixed target db => overrides the node's db; big payload
   => flush the pending batch, then restore the key element by element over the SECOND target
   connection, which tracks its own selected database (preBigDb); otherwise SELECT on the first
   connection when the db differs from the tracked one (preDb), RESTORE, and after ScanKeyNumber
   restores: flush and hand the batch to resultChan.  At end of keyChan: flush the remainder, close
   resultChan.  Receiver: one reply per node; at end of resultChan the executor is done.

   Named deviation (as built, harmless for the property): a SELECT sent on the first connection also
   produces a reply which the receiver consumes as if it were a key's reply, so at the end as many
   replies as SELECTs were sent stay unread (ReplySkew).

   Contract (L1), at termination, for every interleaving, pagination, batch size and vanish history:
     Copied     every scanned key that still exists is in the target, in its database (or the fixed one);
     NoGhost    the target holds nothing but scanned keys, each in its (mapped) database;
     Terminates the executor finishes (weak fairness of the three goroutines).
   Values and TTLs travel with the key inside one node (KeyNode) and are bound by trace validation. *)
EXTENDS Integers, Sequences, FiniteSets, TLC
CONSTANTS DbSeq,        \* sequence of source databases to visit (those with keys, unfiltered)
          Pages,        \* [db -> sequence of pages]; a page is a sequence of keys
          Big,          \* keys whose payload is at or above the big-key threshold
          N,            \* scan.key_number: page-size hint, batch size, half the channel capacity
          TargetDB,     \* -1: keep the source database number
          MaxVanish
VARIABLES live, vanished,
          di, pi, stage, cur, dumped, gone, pushi,      \* fetcher
          keyChan, kclosed,
          batch, count, preDb, preBigDb, sendbuf, conndb, bigconndb, wdone,   \* writer + connections
          resultChan, rclosed, replies, unread, selects,
          tgt, done
vars == <<live, vanished, di, pi, stage, cur, dumped, gone, pushi, keyChan, kclosed, batch, count, preDb, preBigDb,
          sendbuf, conndb, bigconndb, wdone, resultChan, rclosed, replies, unread, selects, tgt, done>>
Range(s) == {s[i] : i \in 1..Len(s)}
Scanned(d) == UNION {Range(Pages[d][p]) : p \in 1..Len(Pages[d])}
AllKeys == UNION {Scanned(d) : d \in Range(DbSeq)}
T(d) == IF TargetDB = -1 THEN d ELSE TargetDB
Cap == 2 * N

Init == /\ live = AllKeys /\ vanished = 0
        /\ di = 1 /\ pi = 1 /\ stage = "scan" /\ cur = <<>> /\ dumped = {} /\ gone = {} /\ pushi = 1
        /\ keyChan = <<>> /\ kclosed = FALSE
        /\ batch = <<>> /\ count = 0 /\ preDb = 0 /\ preBigDb = 0 /\ sendbuf = <<>> /\ conndb = 0 /\ bigconndb = 0 /\ wdone = FALSE
        /\ resultChan = <<>> /\ rclosed = FALSE /\ replies = 0 /\ unread = 0 /\ selects = 0
        /\ tgt = {} /\ done = FALSE

Vanish(k) == /\ k \in live /\ vanished < MaxVanish /\ live' = live \ {k} /\ vanished' = vanished + 1
             /\ UNCHANGED <<di, pi, stage, cur, dumped, gone, pushi, keyChan, kclosed, batch, count, preDb, preBigDb,
                            sendbuf, conndb, bigconndb, wdone, resultChan, rclosed, replies, unread, selects, tgt, done>>

\* ---------------------------------------------------------------- fetcher
FUnch == UNCHANGED <<live, vanished, batch, count, preDb, preBigDb, sendbuf, conndb, bigconndb, wdone, resultChan, rclosed, replies, unread, selects, tgt, done>>
CurDb == DbSeq[di]
FScan == /\ di <= Len(DbSeq) /\ stage = "scan"
         /\ IF pi > Len(Pages[CurDb])                   \* a database whose scan has no page at all: one empty reply, cursor 0
            THEN cur' = <<>> ELSE cur' = Pages[CurDb][pi]
         /\ stage' = "dump" /\ UNCHANGED <<di, pi, dumped, gone, pushi, keyChan, kclosed>> /\ FUnch
FDump == /\ stage = "dump" /\ dumped' = Range(cur) \cap live /\ stage' = "pttl"
         /\ UNCHANGED <<di, pi, cur, gone, pushi, keyChan, kclosed>> /\ FUnch
FPttl == /\ stage = "pttl" /\ gone' = Range(cur) \ live /\ stage' = "push" /\ pushi' = 1
         /\ UNCHANGED <<di, pi, cur, dumped, keyChan, kclosed>> /\ FUnch
FPush == /\ stage = "push" /\ pushi <= Len(cur) /\ Len(keyChan) < Cap
         /\ LET k == cur[pushi] IN keyChan' = Append(keyChan, [k |-> k, db |-> CurDb, val |-> k \in dumped, gone |-> k \in gone])
         /\ pushi' = pushi + 1 /\ UNCHANGED <<di, pi, stage, cur, dumped, gone, kclosed>> /\ FUnch
FNextPage == /\ stage = "push" /\ pushi > Len(cur)
             /\ IF pi >= Len(Pages[CurDb]) THEN di' = di + 1 /\ pi' = 1 ELSE pi' = pi + 1 /\ di' = di     \* cursor 0: next database
             /\ stage' = "scan" /\ UNCHANGED <<cur, dumped, gone, pushi, keyChan, kclosed>> /\ FUnch
FClose == /\ di > Len(DbSeq) /\ stage = "scan" /\ ~kclosed /\ kclosed' = TRUE
          /\ UNCHANGED <<di, pi, stage, cur, dumped, gone, pushi, keyChan>> /\ FUnch

\* ---------------------------------------------------------------- writer
\* executing the buffered commands of the first connection, in order
RECURSIVE Exec(_, _, _)
Exec(buf, db, t) == IF buf = <<>> THEN [db |-> db, t |-> t]
                    ELSE IF Head(buf)[1] = "select" THEN Exec(Tail(buf), Head(buf)[2], t)
                    ELSE Exec(Tail(buf), db, t \cup {<<db, Head(buf)[2]>>})
WUnchF == UNCHANGED <<live, vanished, di, pi, stage, cur, dumped, gone, pushi, kclosed, done>>
\* writeSend: flush, hand the batch over (resultChan must have room for the whole batch: the real loop blocks element by element;
\* modelled as one step when there is room - the receiver drains independently)
FlushOK == Len(resultChan) + Len(batch) <= Cap
DoFlush == LET r == Exec(sendbuf, conndb, tgt) IN
           /\ conndb' = r.db /\ tgt' = r.t /\ sendbuf' = <<>>
           /\ replies' = replies + Len(sendbuf)
           /\ resultChan' = resultChan \o batch /\ batch' = <<>> /\ count' = 0
WSkip == /\ keyChan # <<>> /\ Head(keyChan).gone /\ keyChan' = Tail(keyChan)
         /\ UNCHANGED <<batch, count, preDb, preBigDb, sendbuf, conndb, bigconndb, wdone, resultChan, rclosed, replies, unread, selects, tgt>> /\ WUnchF
WBig == /\ keyChan # <<>> /\ ~Head(keyChan).gone /\ Head(keyChan).k \in Big /\ Head(keyChan).val
        /\ (batch = <<>> \/ FlushOK)
        /\ LET n == Head(keyChan) db == T(n.db)
               r == Exec(sendbuf, conndb, tgt) IN
           /\ conndb' = r.db /\ sendbuf' = <<>> /\ replies' = replies + Len(sendbuf)
           /\ resultChan' = resultChan \o batch /\ batch' = <<>> /\ count' = 0
           /\ bigconndb' = db /\ preBigDb' = db                     \* select on the second connection when it differs
           /\ tgt' = r.t \cup {<<db, n.k>>}
        /\ keyChan' = Tail(keyChan)
        /\ UNCHANGED <<preDb, wdone, rclosed, unread, selects>> /\ WUnchF
WSend == /\ keyChan # <<>> /\ ~Head(keyChan).gone /\ ~(Head(keyChan).k \in Big /\ Head(keyChan).val)
         /\ LET n == Head(keyChan) db == T(n.db)
                sel == IF db # preDb THEN <<<<"select", db>>>> ELSE <<>> IN
            /\ sendbuf' = sendbuf \o sel \o <<<<"restore", n.k>>>>
            /\ selects' = selects + Len(sel) /\ preDb' = db
            /\ batch' = Append(batch, n.k) /\ count' = count + 1
         /\ keyChan' = Tail(keyChan)
         /\ UNCHANGED <<preBigDb, conndb, bigconndb, wdone, resultChan, rclosed, replies, unread, tgt>> /\ WUnchF
WFull == count >= N
WFlush == /\ WFull /\ FlushOK /\ DoFlush
          /\ UNCHANGED <<keyChan, preDb, preBigDb, bigconndb, wdone, rclosed, unread, selects>> /\ WUnchF
WEnd == /\ keyChan = <<>> /\ kclosed /\ ~wdone /\ FlushOK /\ DoFlush /\ wdone' = TRUE /\ rclosed' = TRUE
        /\ UNCHANGED <<keyChan, preDb, preBigDb, bigconndb, unread, selects>> /\ WUnchF
Writer == (~WFull /\ (WSkip \/ WBig \/ WSend)) \/ WFlush \/ (~WFull /\ WEnd)

\* ---------------------------------------------------------------- receiver
Recv == /\ resultChan # <<>> /\ replies > 0 /\ resultChan' = Tail(resultChan) /\ replies' = replies - 1
        /\ UNCHANGED <<live, vanished, di, pi, stage, cur, dumped, gone, pushi, keyChan, kclosed, batch, count, preDb, preBigDb,
                       sendbuf, conndb, bigconndb, wdone, rclosed, unread, selects, tgt, done>>
RDone == /\ resultChan = <<>> /\ rclosed /\ ~done /\ done' = TRUE /\ unread' = replies
         /\ UNCHANGED <<live, vanished, di, pi, stage, cur, dumped, gone, pushi, keyChan, kclosed, batch, count, preDb, preBigDb,
                        sendbuf, conndb, bigconndb, wdone, resultChan, rclosed, replies, selects, tgt>>

Fetcher == FScan \/ FDump \/ FPttl \/ FPush \/ FNextPage \/ FClose
Next == (\E k \in AllKeys : Vanish(k)) \/ Fetcher \/ Writer \/ Recv \/ RDone
Spec == Init /\ [][Next]_vars /\ WF_vars(Fetcher) /\ WF_vars(Writer) /\ WF_vars(Recv) /\ WF_vars(RDone)

\* ---------------------------------------------------------------- contract
Copied == done => \A d \in Range(DbSeq) : \A k \in Scanned(d) : k \in live => <<T(d), k>> \in tgt
NoGhost == \A e \in tgt : \E d \in Range(DbSeq) : e[1] = T(d) /\ e[2] \in Scanned(d)
ReplySkew == done => unread = selects            \* the named deviation
NeverStuckOnReplies == resultChan # <<>> /\ batch = <<>> /\ sendbuf = <<>> => replies >= Len(resultChan)
Terminates == <>done
=============================================================================
