---------------------------- MODULE IncrContract ----------------------------
(* L1 contract of incremental sync (C03, C04), as operators over a source stream and a filter
   configuration - shared by the as-implemented model (IncrSync) and by trace validation
   (IncrTrace).
   Stream items: [t, d, id]
     t = "sel" (SELECT d) | "w" (write, key passes the key filter) | "wf" (write to a key the
     key filter rejects) | "wm" (two-key MSET: one passing, one rejected key) | "ping" | "multi" |
     "exec" | "eval" (script command) | "opinfo" (internal bookkeeping) | "hello" (sentinel publish)
   cfg = [fdbs: filtered dbs, kf: key filter configured, lua: filter.lua, tdb: target.db or 9 (none)]
   An applied entry is [id, db, form]: form tells how the command reached the target
   ("w", "wf", "wm" unchanged, "wmp" rewritten to the passing key only, "eval"). *)
EXTENDS Integers, Sequences, SequencesExt
NoTargetDb == 9
Form(cfg, t) == CASE t = "w" -> "w"
                  [] t = "wf" -> IF cfg.kf THEN "drop" ELSE "wf"
                  [] t = "wm" -> IF cfg.kf THEN "wmp" ELSE "wm"
                  [] t = "eval" -> IF cfg.lua THEN "drop" ELSE "eval"
                  [] OTHER -> "drop"            \* sel, ping, multi, exec, opinfo, hello: never data on the target
RECURSIVE F(_, _, _, _)
F(cfg, s, db, acc) ==
  IF s = <<>> THEN acc
  ELSE LET c == Head(s) IN
       IF c.t = "sel" THEN F(cfg, Tail(s), c.d, acc)
       ELSE IF Form(cfg, c.t) # "drop" /\ db \notin cfg.fdbs
            THEN F(cfg, Tail(s), db, Append(acc, [id |-> c.id, db |-> IF cfg.tdb # NoTargetDb THEN cfg.tdb ELSE db, form |-> Form(cfg, c.t)]))
            ELSE F(cfg, Tail(s), db, acc)
\* what the target must have applied once the first n stream items are fully reflected; startDb = database
\* selected on the source before the first item (0 for a fresh replica)
Expected(cfg, stream, n) == F(cfg, SubSeq(stream, 1, n), 0, <<>>)
=============================================================================
