SPECIFICATION Spec
CONSTANTS DbSeq <- MCDbSeq2
 Pages <- MCPages2
 Big = {1, 4}
 N = 1
 TargetDB = 1
 MaxVanish = 2
INVARIANTS Copied NoGhost ReplySkew NeverStuckOnReplies
PROPERTIES Terminates
CHECK_DEADLOCK FALSE
