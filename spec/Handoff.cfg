CONSTANTS HeadLen = 3 N = 4 CmdLen = 4 B = 3 P = 2 Chunk = 3
SPECIFICATION Spec
INVARIANTS NoLossNoDup RemainSane
PROPERTY Complete
CHECK_DEADLOCK FALSE
