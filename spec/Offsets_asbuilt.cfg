CONSTANTS Start = 100 MaxBytes = 5 MaxTicks = 3 MaxDrops = 1 DevCumulativeAck = TRUE
SPECIFICATION Spec
INVARIANTS AckExact AckMonotone NeverAhead ReconnectExact NoGapNoDup
CHECK_DEADLOCK FALSE
