SPECIFICATION Spec
CONSTANTS NEntries = 4
 NWorkers = 3
 ICap = 2
 OCap = 1
 Lines <- MCLines
INVARIANTS Complete Contiguous NoDup
PROPERTIES Terminates
CHECK_DEADLOCK FALSE
