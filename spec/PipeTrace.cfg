CONSTANTS Cap = 4096
SPECIFICATION TSpec
INVARIANTS ParkedOnlyIfBlocked NoLostWake
POSTCONDITION Accepted
CHECK_DEADLOCK FALSE
