-------------------------------- MODULE Resp --------------------------------
(* C10: the RESP codec as a reference definition over byte sequences (0..255).
   Values are uniform records [t, nil, b, a] (b = bytes, a = sub-values; uniform so that TLC can compare them):
     t = "str" | "err"   b = bytes (no CR LF inside)
     t = "int"           b = the canonical decimal digits (TLC integers are 32 bit)
     t = "bulk"          nil = TRUE (null bulk) or b = bytes (arbitrary binary)
     t = "arr"           nil = TRUE (null array) or a = sequence of values
   Dec is TOTAL: on every byte string and position it answers
     "ok" (value + next position) | "bad" (malformed: must be an error, never a value)
     | "more" (truncated: must not yield a value) | "unspec" (input outside what the property
     constrains: sign-prefixed / zero-padded numbers, a newline where an element type is
     expected inside an array).
   At top level the decoder skips keep-alive '\n' bytes (they count as consumed) and accepts
   inline (space separated) command lines. *)
EXTENDS Integers, Sequences
CR == 13  LF == 10  SP == 32
Plus == 43  Minus == 45  Colon == 58  Dollar == 36  Star == 42
Digit(b) == b >= 48 /\ b <= 57
V(t, nil, b, a) == [t |-> t, nil |-> nil, b |-> b, a |-> a]

\* ------------------------------------------------------------------ encoder
CRLF == <<CR, LF>>
RECURSIVE NatDigits(_)
NatDigits(n) == IF n < 10 THEN <<48 + n>> ELSE Append(NatDigits(n \div 10), 48 + (n % 10))
RECURSIVE Enc(_)
RECURSIVE EncAll(_, _)
EncAll(vs, i) == IF i > Len(vs) THEN <<>> ELSE Enc(vs[i]) \o EncAll(vs, i + 1)
Enc(x) == CASE x.t = "str"  -> <<Plus>> \o x.b \o CRLF
            [] x.t = "err"  -> <<Minus>> \o x.b \o CRLF
            [] x.t = "int"  -> <<Colon>> \o x.b \o CRLF
            [] x.t = "bulk" -> IF x.nil THEN <<Dollar, Minus, 49>> \o CRLF
                               ELSE <<Dollar>> \o NatDigits(Len(x.b)) \o CRLF \o x.b \o CRLF
            [] x.t = "arr"  -> IF x.nil THEN <<Star, Minus, 49>> \o CRLF
                               ELSE <<Star>> \o NatDigits(Len(x.a)) \o CRLF \o EncAll(x.a, 1)

\* ------------------------------------------------------------------ decoder
RECURSIVE FindLF(_, _)
FindLF(s, p) == IF p > Len(s) THEN 0 ELSE IF s[p] = LF THEN p ELSE FindLF(s, p + 1)

\* number syntax of a line content d (bytes): "canon" | "lenient" | "bad"
AllDigits(d, from) == from <= Len(d) /\ \A i \in from..Len(d) : Digit(d[i])
Max63 == <<57,50,50,51,51,55,50,48,51,54,56,53,52,55,55,53,56,48,55>>   \* 9223372036854775807
Min63 == <<57,50,50,51,51,55,50,48,51,54,56,53,52,55,55,53,56,48,56>>   \* 9223372036854775808
RECURSIVE LexLE(_, _, _)
LexLE(a, b, i) == IF i > Len(a) THEN TRUE ELSE IF a[i] < b[i] THEN TRUE ELSE IF a[i] > b[i] THEN FALSE ELSE LexLE(a, b, i + 1)
InRange(digits, neg) == \/ Len(digits) < 19
                        \/ Len(digits) = 19 /\ LexLE(digits, IF neg THEN Min63 ELSE Max63, 1)
NumClass(d) ==
  IF Len(d) = 0 THEN "bad"
  ELSE LET neg == d[1] = Minus
           sgn == d[1] = Minus \/ d[1] = Plus
           ds  == IF sgn THEN SubSeq(d, 2, Len(d)) ELSE d IN
       IF ~AllDigits(ds, 1) THEN "bad"
       ELSE LET nz == CHOOSE k \in 1..Len(ds) : (k = Len(ds) \/ ds[k] # 48) /\ \A j \in 1..(k-1) : ds[j] = 48
                sig == SubSeq(ds, nz, Len(ds)) IN          \* digits without leading zeros
            IF ~InRange(sig, neg) THEN "bad"
            ELSE IF d[1] = Plus \/ nz > 1 \/ (neg /\ sig = <<48>>) THEN "lenient" ELSE "canon"
RECURSIVE ToNat(_, _, _)
ToNat(d, i, acc) == IF i > Len(d) THEN acc ELSE ToNat(d, i + 1, acc * 10 + (d[i] - 48))

\* a CRLF-terminated line starting at p: [k, c (content without CR LF), nx]
Line(s, p) == LET e == FindLF(s, p) IN
              IF e = 0 THEN [k |-> "more"]
              ELSE IF e - p < 1 \/ s[e - 1] # CR THEN [k |-> "bad"]
              ELSE [k |-> "ok", c |-> SubSeq(s, p, e - 2), nx |-> e + 1]

\* split an inline line into words
RECURSIVE Words(_, _, _, _)
Words(c, i, cur, acc) ==
  IF i > Len(c) THEN (IF cur = <<>> THEN acc ELSE Append(acc, V("bulk", FALSE, cur, <<>>)))
  ELSE IF c[i] = SP THEN Words(c, i + 1, <<>>, IF cur = <<>> THEN acc ELSE Append(acc, V("bulk", FALSE, cur, <<>>)))
  ELSE Words(c, i + 1, Append(cur, c[i]), acc)

RECURSIVE DecAt(_, _, _)
RECURSIVE DecElems(_, _, _, _, _)
DecElems(s, p, depth, n, acc) ==
  IF n = 0 THEN [k |-> "ok", v |-> V("arr", FALSE, <<>>, acc), nx |-> p]
  ELSE LET r == DecAt(s, p, depth) IN
       IF r.k # "ok" THEN r ELSE DecElems(s, r.nx, depth, n - 1, Append(acc, r.v))
DecAt(s, p, depth) ==
  IF p > Len(s) THEN [k |-> "more"]
  ELSE IF s[p] = LF THEN (IF depth = 0 THEN DecAt(s, p + 1, depth) ELSE [k |-> "unspec"])
  ELSE LET t == s[p] IN
  IF t \in {Plus, Minus} THEN
     LET ln == Line(s, p + 1) IN
     IF ln.k # "ok" THEN ln ELSE [k |-> "ok", v |-> V(IF t = Plus THEN "str" ELSE "err", FALSE, ln.c, <<>>), nx |-> ln.nx]
  ELSE IF t = Colon THEN
     LET ln == Line(s, p + 1) IN
     IF ln.k # "ok" THEN ln
     ELSE LET nc == NumClass(ln.c) IN
          IF nc = "bad" THEN [k |-> "bad"] ELSE IF nc = "lenient" THEN [k |-> "unspec"]
          ELSE [k |-> "ok", v |-> V("int", FALSE, ln.c, <<>>), nx |-> ln.nx]
  ELSE IF t \in {Dollar, Star} THEN
     LET ln == Line(s, p + 1) IN
     IF ln.k # "ok" THEN ln
     ELSE LET nc == NumClass(ln.c) IN
          IF nc = "bad" THEN [k |-> "bad"] ELSE IF nc = "lenient" THEN [k |-> "unspec"]
          ELSE IF ln.c[1] = Minus THEN
               (IF ln.c = <<Minus, 49>> THEN [k |-> "ok", v |-> V(IF t = Dollar THEN "bulk" ELSE "arr", TRUE, <<>>, <<>>), nx |-> ln.nx]
                ELSE [k |-> "bad"])                                   \* length below -1
          ELSE IF Len(ln.c) > 7 THEN [k |-> "more"]                  \* longer than any stream we look at
          ELSE LET n == ToNat(ln.c, 1, 0) IN
               IF t = Dollar THEN
                  IF ln.nx + n + 1 > Len(s) THEN [k |-> "more"]
                  ELSE IF s[ln.nx + n] # CR \/ s[ln.nx + n + 1] # LF THEN [k |-> "bad"]
                  ELSE [k |-> "ok", v |-> V("bulk", FALSE, SubSeq(s, ln.nx, ln.nx + n - 1), <<>>), nx |-> ln.nx + n + 2]
               ELSE DecElems(s, ln.nx, depth + 1, n, <<>>)
  ELSE IF depth > 0 THEN [k |-> "bad"]                                \* unknown type inside an array
  ELSE LET ln == Line(s, p) IN                                        \* inline command line
       IF ln.k # "ok" THEN ln
       ELSE LET ws == Words(ln.c, 1, <<>>, <<>>) IN
            [k |-> "ok", v |-> V("arr", ws = <<>>, <<>>, ws), nx |-> ln.nx]

\* decode a whole stream: the values with the decoder position after each, and why it stopped
RECURSIVE DecodeAll(_, _, _)
DecodeAll(s, p, acc) ==
  LET r == DecAt(s, p, 0) IN
  IF r.k = "ok" THEN DecodeAll(s, r.nx, Append(acc, [val |-> r.v, off |-> r.nx - 1]))
  ELSE [vals |-> acc, stop |-> r.k]

Lower(bs) == [i \in 1..Len(bs) |-> IF bs[i] >= 65 /\ bs[i] <= 90 THEN bs[i] + 32 ELSE bs[i]]
=============================================================================
