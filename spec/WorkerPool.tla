------------------------------ MODULE WorkerPool ------------------------------
(* The job pool of the file-oriented commands: CmdDump.Main (one job per source address -> <output>.<i>) and CmdRestore.Main (one job
   per input file), as built: all jobs are put into a channel first, P worker goroutines (source.rdb.parallel) take one job at a
   time, work on it and count it off a WaitGroup; Main waits for the count to reach zero and then closes the channel, which ends
   the workers.  A job is taken at its CONTRACT (C05: the RDB of source i ends up, byte for byte, in output i; C07: the keys of
   file i are restored) - here it is one step that writes "i" into output slot i.
     ExactlyOnce    every job is done once, by one worker, into its own slot
     AtMostP        never more than P jobs under way
     MainAfterAll   Main returns only when every job is done
     Terminates     Main returns; afterwards every worker ends
   Deviation switch (TLC must refute it): DevDoneBeforeWork - the job is counted off before it has been worked on, so Main may
   return while a job is still under way.                                                                              *)
EXTENDS Integers, FiniteSets, Sequences, TLC
CONSTANTS Jobs,      \* number of jobs (sources / input files)
          P,         \* number of workers
          DevDoneBeforeWork
VARIABLES chan,      \* the job channel (a sequence of job ids)
          closed,
          wpc,       \* [1..P -> "idle" | "work" | "end"]
          wjob,      \* [1..P -> job id or 0]
          slot,      \* [1..Jobs -> how many times output i was written]
          owner,     \* [1..Jobs -> set of workers that wrote it]
          wg,        \* WaitGroup counter
          mainDone
vars == <<chan, closed, wpc, wjob, slot, owner, wg, mainDone>>
W == 1..P
J == 1..Jobs
Init == /\ chan = [i \in J |-> i] /\ closed = FALSE /\ wpc = [w \in W |-> "idle"] /\ wjob = [w \in W |-> 0]
        /\ slot = [i \in J |-> 0] /\ owner = [i \in J |-> {}] /\ wg = Jobs /\ mainDone = FALSE
Take(w) == /\ wpc[w] = "idle" /\ chan # <<>>
           /\ wjob' = [wjob EXCEPT ![w] = Head(chan)] /\ chan' = Tail(chan) /\ wpc' = [wpc EXCEPT ![w] = "work"]
           /\ wg' = IF DevDoneBeforeWork THEN wg - 1 ELSE wg
           /\ UNCHANGED <<closed, slot, owner, mainDone>>
Work(w) == /\ wpc[w] = "work"
           /\ slot' = [slot EXCEPT ![wjob[w]] = @ + 1] /\ owner' = [owner EXCEPT ![wjob[w]] = @ \cup {w}]
           /\ wg' = IF DevDoneBeforeWork THEN wg ELSE wg - 1
           /\ wpc' = [wpc EXCEPT ![w] = "idle"] /\ wjob' = [wjob EXCEPT ![w] = 0]
           /\ UNCHANGED <<chan, closed, mainDone>>
End(w) == /\ wpc[w] = "idle" /\ chan = <<>> /\ closed /\ wpc' = [wpc EXCEPT ![w] = "end"]
          /\ UNCHANGED <<chan, closed, wjob, slot, owner, wg, mainDone>>
MainWait == /\ ~mainDone /\ wg = 0 /\ mainDone' = TRUE /\ closed' = TRUE /\ UNCHANGED <<chan, wpc, wjob, slot, owner, wg>>
Next == MainWait \/ \E w \in W : Take(w) \/ Work(w) \/ End(w)
Spec == Init /\ [][Next]_vars /\ WF_vars(MainWait) /\ \A w \in W : WF_vars(Take(w)) /\ WF_vars(Work(w)) /\ WF_vars(End(w))
TypeOK == wg \in 0..Jobs /\ mainDone \in BOOLEAN /\ closed \in BOOLEAN
AtMostP == Cardinality({w \in W : wpc[w] = "work"}) <= P
ExactlyOnce == \A i \in J : slot[i] <= 1 /\ Cardinality(owner[i]) <= 1
MainAfterAll == mainDone => \A i \in J : slot[i] = 1
NoJobTwice == \A w1, w2 \in W : (w1 # w2 /\ wjob[w1] # 0) => wjob[w1] # wjob[w2]
Terminates == <>(mainDone /\ \A w \in W : wpc[w] = "end")
=============================================================================
