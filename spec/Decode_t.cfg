SPECIFICATION Spec
CONSTANTS NEntries = 5
 NWorkers = 4
 ICap = 2
 OCap = 2
 Lines <- MCLines
INVARIANTS Complete Contiguous NoDup
PROPERTIES Terminates
CHECK_DEADLOCK FALSE
