------------------------------ MODULE RumpTrace ------------------------------
(* Trace validation for C16.  Per scenario: "rcase" (the keys of the source with what the scenario
   generator knows about each: database, whether the scan returns it in a visited database, whether it
   passes the key filter, when it vanishes) and "rend" (how the REAL CmdRump.Main() ended and the final
   target keyspace, each target key identified with a source key by name and mapped database, value and
   expiry compared by the recorder against the source's).  Judged against Rump.tla's contract:
     Copied   every scanned, unfiltered key that never vanished is in the target, in its (mapped)
              database, with the same value and the same expiry (none stays none);
     NoGhost  nothing else is there: no key that vanished before DUMP or before PTTL, no filtered or
              unscanned key, no foreign name - apart from what the target held before;
     the run finished by itself (no abort, no hang).                                                  *)
EXTENDS Integers, Sequences, FiniteSets, TLC, Json
VARIABLES l, bad, keys, tdb, policy
Trace == ndJsonDeserialize("trace.ndjson")
\* key_exists = ignore: a key the target already holds is left alone (not copied, not touched)
Kept(k) == policy = "ignore" /\ k.pre /\ k.scanned /\ k.passes
Must(k) == k.scanned /\ k.passes /\ k.vanish = "never" /\ ~Kept(k)
T(d) == IF tdb = -1 THEN d ELSE tdb
Idx(s) == 1..Len(s)
EndOK0(ev) ==
  /\ ev.finished /\ ~ev.hung /\ ev.err = "" /\ ev.foreign = 0
  /\ \A i \in Idx(ev.target) : LET t == ev.target[i] IN
        t.pre \/ \E j \in Idx(keys) : keys[j].id = t.id /\ Must(keys[j]) /\ t.db = T(keys[j].db) /\ t.val_ok /\ t.ttl_ok
  /\ \A j \in Idx(keys) : Must(keys[j]) => \E i \in Idx(ev.target) : ev.target[i].id = keys[j].id /\ ~ev.target[i].pre
  /\ \A j \in Idx(keys) : Kept(keys[j]) => \E i \in Idx(ev.target) : ev.target[i].pre /\ ev.target[i].pre_of = keys[j].id
  /\ \A i, i2 \in Idx(ev.target) : (i # i2 /\ ~ev.target[i].pre /\ ~ev.target[i2].pre) => ev.target[i].id # ev.target[i2].id
\* a fault at the target (one RESTORE refused): the run reports it - nothing else is promised about that run
EndOK(ev) == IF ev.fault_fired THEN ev.err # "" ELSE EndOK0(ev)
EventOK(ev) == CASE ev.e = "rend" -> EndOK(ev) [] OTHER -> TRUE
TInit == l = 1 /\ bad = 0 /\ keys = <<>> /\ tdb = -1 /\ policy = "none"
TNext == /\ l <= Len(Trace) /\ l' = l + 1
         /\ LET ev == Trace[l] IN
            /\ keys' = IF ev.e = "rcase" THEN ev.keys ELSE keys
            /\ tdb' = IF ev.e = "rcase" THEN ev.tdb ELSE tdb
            /\ policy' = IF ev.e = "rcase" THEN ev.key_exists ELSE policy
            /\ IF EventOK(ev) THEN bad' = bad ELSE PrintT(<<"REJECT", l>>) /\ bad' = bad + 1
TSpec == TInit /\ [][TNext]_<<l, bad, keys, tdb, policy>>
Accepted == TLCGet("stats").diameter - 1 = Len(Trace)
=============================================================================
