CONSTANTS MaxLen = 7 Dbs = {0,1} FilteredDbs = {1} KeyFilterOn = FALSE FilterLua = FALSE SenderCount = 2 BufCap = 2
  Resume = FALSE TargetDB = 9 MaxCrash = 0 Kinds = {"w","multi"}
SPECIFICATION GenSpec
CHECK_DEADLOCK FALSE
