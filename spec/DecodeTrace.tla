----------------------------- MODULE DecodeTrace -----------------------------
(* Trace validation for C17.  Per input file: "dfile" (lines per entry, in file order), one "line" per
   line of the REAL output file, attributed by the recorder to <<entry, element>> through its base64
   fields (0, 0 when it belongs to no entry) with content_ok = database, type, expiry and every base64
   field decode to the known bytes / score numerically equal, and "dend" (the command returned).  The
   output of each file must satisfy Decode.tla's contract (completeness; adjacency is observed as drift). *)
EXTENDS DecodeContract, TLC, Json
VARIABLES l, bad, L, out
Trace == ndJsonDeserialize("trace.ndjson")
LineOK(ev) == ev.entry >= 1 /\ ev.j >= 1 /\ ev.content_ok
EndOK(ev) == ev.finished /\ ~ev.hung /\ ev.err = "" /\ ev.lines = Len(out) /\ CompleteChk(out, L) /\ ev.second_ok
\* adjacency / element order of a key's lines is how the implementation behaves (one block per record), not part of
\* the property (a list line carries its index): a departure is reported as drift, not as a violation
Drift(ev) == ev.e = "dend" /\ ~ContiguousOut(out)
EventOK(ev) == CASE ev.e = "line" -> LineOK(ev) [] ev.e = "dend" -> EndOK(ev) [] OTHER -> TRUE
TInit == l = 1 /\ bad = 0 /\ L = <<>> /\ out = <<>>
TNext == /\ l <= Len(Trace) /\ l' = l + 1
         /\ LET ev == Trace[l] IN
            /\ L' = IF ev.e = "dfile" THEN ev.lines ELSE L
            /\ out' = IF ev.e = "dfile" THEN <<>> ELSE IF ev.e = "line" THEN Append(out, <<ev.entry, ev.j>>) ELSE out
            /\ IF Drift(ev) THEN PrintT(<<"DRIFT", l>>) ELSE TRUE
            /\ IF EventOK(ev) THEN bad' = bad ELSE PrintT(<<"REJECT", l>>) /\ bad' = bad + 1
TSpec == TInit /\ [][TNext]_<<l, bad, L, out>>
Accepted == TLCGet("stats").diameter - 1 = Len(Trace)
=============================================================================
