CONSTANTS Workers = {1,2,3} MaxEntries = 4 Dbs = {0,1} Keys = {1,2} TargetDB = 9 Rewrite = FALSE DevChunkAnyWorker = TRUE ReportErrors = TRUE
SPECIFICATION Spec
INVARIANTS RightContent ExactlyOnce AllProcessed FailureReported
PROPERTY Terminates
CHECK_DEADLOCK FALSE
