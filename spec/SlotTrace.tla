------------------------------ MODULE SlotTrace ------------------------------
(* Every line of trace.ndjson is one observation of the real code, judged by Slot.tla:
     {e:"slot",  k:[bytes], slot, lmcrc, lib}   utils.KeyToSlot, latencymonitor's crc16, cluster library GetSlot
     {e:"range", kind, lo, hi, k:[bytes], filtered}  key chosen for slot range [lo,hi] by ChoseSlotInRange /
                                                     findKeyInRange; filtered = real filter.FilterKey(key) *)
EXTENDS Slot, TLC, Json
CONSTANTS CkptPrefix       \* bytes of "redis-shake-checkpoint"
VARIABLES l, bad
Trace == ndJsonDeserialize("trace.ndjson")

HasPrefix(s, p) == Len(s) >= Len(p) /\ SubSeq(s, 1, Len(p)) = p
SlotOK(ev) == /\ ev.slot = Slot(ev.k)
              /\ ev.lmcrc = Crc16(ev.k)
              /\ ev.lib = Slot(ev.k)
RangeOK(ev) == /\ Len(ev.k) > 0
               /\ Slot(ev.k) >= ev.lo /\ Slot(ev.k) <= ev.hi
               /\ (ev.kind = "ckpt" => HasPrefix(ev.k, CkptPrefix) /\ ev.filtered = TRUE)
EventOK(ev) == IF ev.e = "slot" THEN SlotOK(ev) ELSE RangeOK(ev)

\* independent observations: a failing one is reported (REJECT line) and counted, the rest is still judged
TInit == l = 1 /\ bad = 0
TNext == /\ l <= Len(Trace) /\ l' = l + 1
         /\ IF EventOK(Trace[l]) THEN bad' = bad ELSE PrintT(<<"REJECT", l>>) /\ bad' = bad + 1
TSpec == TInit /\ [][TNext]_<<l, bad>>
Accepted == TLCGet("stats").diameter - 1 = Len(Trace)
=============================================================================
