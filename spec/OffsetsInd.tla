------------------------------ MODULE OffsetsInd ------------------------------
(* Offsets.tla with the sequences of acknowledged / requested offsets replaced by the last one of each
   (plus flags that remember whether every one so far satisfied its law): small enough for Apalache to
   discharge an INDUCTIVE invariant for ALL start offsets, stream lengths, numbers of ticks and drops:
        Init => IndInv,   IndInv /\ Next => IndInv',   IndInv => Safety.                              *)
EXTENDS Integers
CONSTANTS
  \* @type: Int;
  Start,
  \* @type: Int;
  MaxBytes
VARIABLES
  \* @type: Int;
  sent,
  \* @type: Int;
  recv,
  \* @type: Int;
  lastAck,
  \* @type: Bool;
  acksOk,
  \* @type: Bool;
  reqsOk,
  \* @type: Bool;
  up
ConstInit == Start \in Nat /\ MaxBytes \in Nat
Init == sent = 0 /\ recv = 0 /\ lastAck = Start /\ acksOk = TRUE /\ reqsOk = TRUE /\ up = TRUE
SrcSend == /\ up /\ sent < MaxBytes /\ \E k \in 1..MaxBytes : sent + k <= MaxBytes /\ sent' = sent + k
           /\ UNCHANGED <<recv, lastAck, acksOk, reqsOk, up>>
Recv == /\ up /\ recv < sent /\ \E k \in 1..MaxBytes : recv + k <= sent /\ recv' = recv + k
        /\ UNCHANGED <<sent, lastAck, acksOk, reqsOk, up>>
\* once per tick the tool acknowledges start + bytes received; every acknowledgement must be exact and never go back
AckTick == /\ up /\ lastAck' = Start + recv /\ acksOk' = (acksOk /\ Start + recv >= lastAck)
           /\ UNCHANGED <<sent, recv, reqsOk, up>>
Drop == /\ up /\ up' = FALSE /\ UNCHANGED <<sent, recv, lastAck, acksOk, reqsOk>>
\* PSYNC runid (start + received + 1): the source resumes at the requested byte
Reconnect == /\ ~up /\ up' = TRUE /\ sent' = recv /\ reqsOk' = (reqsOk /\ Start + recv + 1 >= Start + 1 /\ recv <= MaxBytes)
             /\ UNCHANGED <<recv, lastAck, acksOk>>
Next == SrcSend \/ Recv \/ AckTick \/ Drop \/ Reconnect
TypeOK == sent \in Int /\ recv \in Int /\ lastAck \in Int /\ acksOk \in BOOLEAN /\ reqsOk \in BOOLEAN /\ up \in BOOLEAN
IndInv == /\ TypeOK /\ Start >= 0 /\ MaxBytes >= 0
          /\ 0 <= recv /\ recv <= MaxBytes /\ 0 <= sent /\ sent <= MaxBytes
          /\ (up => recv <= sent)                       \* the stream never resumes beyond what was received, nothing is skipped
          /\ Start <= lastAck /\ lastAck <= Start + recv \* AckExact / NeverAhead
          /\ acksOk /\ reqsOk                            \* AckMonotone, ReconnectExact held at every step so far
IndInit == TypeOK /\ IndInv
Safety == acksOk /\ reqsOk /\ lastAck <= Start + recv /\ (up => recv <= sent)
=============================================================================
