CONSTANTS Start = 100 MaxBytes = 7 MaxTicks = 4 MaxDrops = 2 DevCumulativeAck = FALSE
SPECIFICATION Spec
INVARIANTS AckExact AckMonotone NeverAhead ReconnectExact NoGapNoDup
CHECK_DEADLOCK FALSE
