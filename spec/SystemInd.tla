------------------------------ MODULE SystemInd ------------------------------
(* System.tla with the applied sequence replaced by its length (napplied) and the number of the last
   applied command (lastno): enough to state ExactlyOnce as "every batch starts at napplied + 1", and
   small enough for Apalache to discharge an INDUCTIVE invariant for ALL stream lengths, command
   lengths and numbers of faults (no bound on NCmds, CmdLen, drops or crashes):
        IndInit => IndInv          (--init=IndInit --inv=IndInv --length=0)
        IndInv /\ Next => IndInv'  (--init=IndInv  --inv=IndInv --length=1)
        IndInv => Safety           (--init=IndInv  --inv=Safety --length=0)                       *)
EXTENDS Integers
CONSTANTS
  \* @type: Int;
  NCmds,
  \* @type: Int;
  CmdLen
VARIABLES
  \* @type: Int;
  sent,
  \* @type: Int;
  recv,
  \* @type: Int;
  ppos,
  \* @type: Int;
  napplied,
  \* @type: Bool;
  gapfree,
  \* @type: Int;
  ckpt,
  \* @type: Bool;
  up,
  \* @type: Str;
  phase,
  \* @type: Bool;
  reqok
ConstInit == NCmds \in Nat /\ CmdLen \in Nat /\ CmdLen >= 1
Total == NCmds * CmdLen
Init == sent = 0 /\ recv = 0 /\ ppos = 0 /\ napplied = 0 /\ gapfree = TRUE /\ ckpt = 0 /\ up = TRUE /\ phase = "run" /\ reqok = TRUE
SrcSend == /\ up /\ phase = "run" /\ sent < Total /\ \E k \in 1..Total : sent + k <= Total /\ sent' = sent + k
           /\ UNCHANGED <<recv, ppos, napplied, gapfree, ckpt, up, phase, reqok>>
Recv == /\ up /\ phase = "run" /\ recv < sent /\ \E k \in 1..Total : recv + k <= sent /\ recv' = recv + k
        /\ UNCHANGED <<sent, ppos, napplied, gapfree, ckpt, up, phase, reqok>>
\* a batch of m commands: their numbers are ppos \div CmdLen + 1 .. + m; gap-free iff the first is napplied + 1
Apply == /\ phase = "run"
         /\ \E m \in 1..NCmds :
              /\ ppos + m * CmdLen <= recv
              /\ gapfree' = (gapfree /\ (ppos = napplied * CmdLen))
              /\ napplied' = napplied + m
              /\ ppos' = ppos + m * CmdLen
              /\ ckpt' = ppos + m * CmdLen
         /\ UNCHANGED <<sent, recv, up, phase, reqok>>
Drop == /\ up /\ phase = "run" /\ up' = FALSE /\ UNCHANGED <<sent, recv, ppos, napplied, gapfree, ckpt, phase, reqok>>
Reconnect == /\ ~up /\ phase = "run" /\ sent' = recv /\ up' = TRUE /\ reqok' = reqok    \* asks for recv + 1
             /\ UNCHANGED <<recv, ppos, napplied, gapfree, ckpt, phase>>
Crash == /\ phase = "run" /\ phase' = "crashed" /\ up' = FALSE
         /\ UNCHANGED <<sent, recv, ppos, napplied, gapfree, ckpt, reqok>>
Restart == /\ phase = "crashed" /\ phase' = "run" /\ up' = TRUE /\ recv' = ckpt /\ sent' = ckpt /\ ppos' = ckpt
           /\ UNCHANGED <<napplied, gapfree, ckpt, reqok>>
Refuse == /\ ~up /\ phase = "run" /\ phase' = "stopped" /\ UNCHANGED <<sent, recv, ppos, napplied, gapfree, ckpt, up, reqok>>
Next == SrcSend \/ Recv \/ Apply \/ Drop \/ Reconnect \/ Crash \/ Restart \/ Refuse

TypeOK == /\ sent \in Int /\ recv \in Int /\ ppos \in Int /\ napplied \in Int /\ ckpt \in Int
          /\ gapfree \in BOOLEAN /\ up \in BOOLEAN /\ reqok \in BOOLEAN
          /\ phase \in {"run", "crashed", "stopped"}
IndInv == /\ TypeOK
          /\ NCmds >= 0 /\ CmdLen >= 1
          /\ napplied >= 0 /\ gapfree
          /\ ckpt = napplied * CmdLen                          \* CkptAtomic
          /\ ckpt <= Total /\ sent >= 0 /\ sent <= Total /\ recv >= 0 /\ recv <= Total
          /\ (phase \in {"run", "stopped"} => (ppos = ckpt /\ ppos <= recv))        \* the parser never runs ahead; data and checkpoint move together
          /\ ((up /\ phase = "run") => recv <= sent)
          /\ (phase = "crashed" => ~up)
IndInit == TypeOK /\ IndInv
Safety == gapfree /\ ckpt = napplied * CmdLen /\ (phase = "run" => ppos <= recv)
=============================================================================
