SPECIFICATION Spec
INVARIANTS NeverLoseAPassingRestore PolicyDecides
CHECK_DEADLOCK FALSE
