CONSTANTS MaxOps = 4 Dbs = {0, 1} Vals = {1, 2}
SPECIFICATION Spec
INVARIANTS Conforms PrefixConforms
CHECK_DEADLOCK FALSE
