SPECIFICATION Spec
CONSTANTS
  Jobs = 4
  P = 2
  DevDoneBeforeWork = TRUE
INVARIANTS TypeOK AtMostP ExactlyOnce MainAfterAll NoJobTwice
CHECK_DEADLOCK FALSE
