SPECIFICATION Spec
CONSTANTS
  Jobs = 3
  P = 3
  DevDoneBeforeWork = FALSE
INVARIANTS TypeOK AtMostP ExactlyOnce MainAfterAll NoJobTwice
PROPERTIES Terminates
CHECK_DEADLOCK FALSE
