--------------------------------- MODULE Crc ---------------------------------
(* C11: Redis CRC-64 ("Jones": poly 0xad93d23594c935a9, reflected in/out, init 0, no xorout)
   as a bit-serial LFSR.  TLC integers are 32 bit, so the register is four 16-bit limbs
   <<bits 0-15, 16-31, 32-47, 48-63>>.  Messages are sequences of bytes. *)
EXTENDS Integers, Sequences, Bitwise
Zero64 == <<0, 0, 0, 0>>
PolyRefl == <<51637, 44107, 37673, 38316>>     \* 0x95AC9329AC4BC9B5 = bit-reversed polynomial
ShiftR1(c) == << (c[1] \div 2) + (c[2] % 2) * 32768, (c[2] \div 2) + (c[3] % 2) * 32768,
                 (c[3] \div 2) + (c[4] % 2) * 32768, c[4] \div 2 >>
XorL(a, b) == << a[1] ^^ b[1], a[2] ^^ b[2], a[3] ^^ b[3], a[4] ^^ b[4] >>
RECURSIVE BitSteps(_, _)
BitSteps(c, n) == IF n = 0 THEN c
                  ELSE BitSteps(IF c[1] % 2 = 1 THEN XorL(ShiftR1(c), PolyRefl) ELSE ShiftR1(c), n - 1)
UpdByte(c, b) == BitSteps(<< c[1] ^^ b, c[2], c[3], c[4] >>, 8)
RECURSIVE UpdFrom(_, _, _)
UpdFrom(c, s, i) == IF i > Len(s) THEN c ELSE UpdFrom(UpdByte(c, s[i]), s, i + 1)
\* the running digest: continue register c over the bytes s
Upd(c, s) == UpdFrom(c, s, 1)
Crc64(s) == Upd(Zero64, s)

\* published check value: CRC-64/REDIS("123456789") = 0xe9c6d914c4b8d9ca
ASSUME Crc64(<<49, 50, 51, 52, 53, 54, 55, 56, 57>>) = <<55754, 50360, 55572, 59846>>

\* ---- verdict table for the three verifiers over fault classes ----
\* footer = end-of-file check of an RDB stream; verifyDump = payload check of the decoder;
\* checkVersion = payload check used by rump diagnostics
Expected(verifier, class) ==
    CASE class = "none" -> "accept"
      [] class \in {"data", "crc", "crc_zeroed", "trunc", "version_above_valid"} -> "reject"
      [] class = "version_byte" -> "reject"       \* the version is covered by the CRC
=============================================================================
