------------------------------- MODULE MCPipe -------------------------------
(* Pipe (contract with content) refines PipeAbs (counter abstraction used for traces). *)
EXTENDS Pipe
Abs == INSTANCE PipeAbs WITH blen <- Len(buf)
RefinesAbs == Abs!SpecA
View1 == <<buf, werr, rerr, wst, wleft, wn, rst, rwant, wret, rret, Len(wrote), got>>
=============================================================================
