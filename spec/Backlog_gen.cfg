CONSTANTS Cap = 2 MaxTotal = 7 Chunks = {0,1,2,3} Readers = {1,2} DevNoBroadcast = FALSE
SPECIFICATION GenSpec
INVARIANTS ReadCorrect InvalidIff ParkOnlyAtHead RangeOK RingHoldsTail WriterNeverParks
CHECK_DEADLOCK FALSE
