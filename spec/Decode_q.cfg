SPECIFICATION Spec
CONSTANTS NEntries = 3
 NWorkers = 2
 ICap = 2
 OCap = 1
 Lines <- MCLines
INVARIANTS Complete Contiguous NoDup
PROPERTIES Terminates
CHECK_DEADLOCK FALSE
