---------------------------- MODULE OffsetsTrace ----------------------------
(* (All offsets in the trace are relative to the announced start offset: TLC integers are 32 bit, the
   recorder subtracts in int64 and maps anything absurd to the sentinel -999999.)
   Trace validation for C08 (and the end-to-end side of C04): one complete Sync() run per trace.
   Source-side events (src-*: what the scripted master sent / received), the tool's linearisation
   events (tool-recv n: n more stream bytes handed to the parser; tool-ack x: offset x acknowledged)
   and the target's checkpoints share one sequence.  "src-sending n" is logged BEFORE the write that
   makes the source's cumulative stream count n, "src-sent n" after it. *)
EXTENDS Integers, Sequences, FiniteSets, TLC, Json
VARIABLES l, bad, start, ends, slen, sending, recv, lastAck, lastSrcAck, conns, resumed
vars == <<l, bad, start, ends, slen, sending, recv, lastAck, lastSrcAck, conns, resumed>>
Trace == ndJsonDeserialize("trace.ndjson")
SetOf(seq) == {seq[i] : i \in 1..Len(seq)}
Increasing(seq) == \A i \in 1..(Len(seq) - 1) : seq[i] < seq[i + 1]
EventOK(ev) ==
  CASE ev.e = "tool-ack" ->        \* start + bytes received so far <= x <= start + bytes the source has (begun to) send; monotone
         /\ ev.n >= lastAck /\ ev.n >= start + recv /\ ev.n <= start + sending
    [] ev.e = "src-ack" ->         \* what the master sees: 0 while the RDB is transferred, then the same law
         ev.zero \/ (ev.off >= lastSrcAck /\ ev.off >= start /\ ev.off <= start + sending)
    [] ev.e = "src-psync" ->       \* the first PSYNC asks for a full sync; every later one for exactly the next byte
         IF conns = 0 THEN (IF resumed THEN ev.runid_ok /\ ev.off = start + recv + 1 ELSE ev.off = -1000000)
         ELSE ev.runid_ok /\ ev.off = start + recv + 1
    [] ev.e = "quiet" ->           \* idle for more than two ACK periods: everything received exactly once and acknowledged
         ev.complete /\ recv = slen /\ lastAck = start + slen
    [] ev.e = "target" ->          \* checkpoints are exact stream positions, strictly increasing; nothing lost or applied twice
         /\ ~ev.abort /\ ev.missing = 0 /\ ev.dup = 0
         /\ SetOf(ev.ckpts) \subseteq ends /\ Increasing(ev.ckpts)
    [] OTHER -> TRUE
TInit == l = 1 /\ bad = 0 /\ start = 0 /\ ends = {} /\ slen = 0 /\ sending = 0 /\ recv = 0 /\ lastAck = 0 /\ lastSrcAck = 0 /\ conns = 0 /\ resumed = FALSE
TNext == /\ l <= Len(Trace) /\ l' = l + 1
         /\ LET ev == Trace[l] IN
            /\ start' = IF ev.e = "cfg" THEN ev.start ELSE start
            /\ ends' = IF ev.e = "cfg" THEN SetOf(ev.ends) ELSE ends
            /\ slen' = IF ev.e = "cfg" THEN ev.stream_len ELSE slen
            \* (a run that starts from a stored checkpoint: the source has, in effect, sent the stream up to it)
            /\ sending' = IF ev.e \in {"src-sending", "resume-from"} /\ ev.n > sending THEN ev.n ELSE sending
            \* a run that starts from a stored checkpoint has, in effect, already received the stream up to it
            /\ recv' = IF ev.e = "tool-recv" THEN recv + ev.n ELSE IF ev.e = "resume-from" THEN ev.n ELSE recv
            /\ resumed' = (resumed \/ ev.e = "resume-from")
            /\ lastAck' = IF ev.e = "tool-ack" THEN ev.n ELSE lastAck
            /\ lastSrcAck' = IF ev.e = "src-ack" /\ ~ev.zero THEN ev.off ELSE lastSrcAck
            /\ conns' = IF ev.e = "src-psync" THEN conns + 1 ELSE conns
            /\ IF EventOK(ev) THEN bad' = bad ELSE PrintT(<<"REJECT", l>>) /\ bad' = bad + 1
TSpec == TInit /\ [][TNext]_vars
Accepted == TLCGet("stats").diameter - 1 = Len(Trace)
=============================================================================
