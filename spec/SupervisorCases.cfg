CONSTANTS N = 3 MaxRetries = 2
SPECIFICATION Spec
CHECK_DEADLOCK FALSE
