----------------------------- MODULE FanInTrace -----------------------------
(* Trace validation of several real DbSyncer.Sync() runs sharing one full-sync semaphore and one target (driver
   `vdrv fanin`) against FanIn.tla: every recorded event has to be explained by FanIn's own actions.
     cfg       number of sources, weight of the semaphore, refusals per source, sources with a stored checkpoint
     psync     a source received a PSYNC and refused it / answered +FULLRESYNC (logged before the first RDB byte) /
               answered +CONTINUE: the syncer has been through Begin and Acquire               -> Begin . Acquire . Psync*
     rdb-end   the source is about to write the last part of its RDB (logged BEFORE the write: the syncer still holds
               its permit at this moment); from here on its FullDone may happen at any time      -> (silent FullDone later)
     settle    the driver saw no change for a while: which sources sit in the middle of their RDB
     abort     the tool gave up (log.Panic)                                                       -> Begin with tries > MaxTries
     final     what the target holds per source
   The semaphore is not logged by the tool: Acquire is inferred from the PSYNC it precedes, Release from the events that
   bracket it.  The observed holding interval [psync full, rdb-end] lies inside the real one, so a trace in which more
   than P sources are observed holding cannot be explained (SemBound), and neither can a `settle` with fewer sources
   in their RDB than the semaphore admits (a leaked permit).                                                         *)
EXTENDS FanIn, Sequences, Json
Trace == ndJsonDeserialize("trace.ndjson")
TSrc == 1..Trace[1].n
TP == Trace[1].p
TMaxTries == Trace[1].max_tries
VARIABLES l,       \* next line of the trace
          ended    \* sources whose rdb-end has been seen and whose FullDone has not been taken yet
tvars == <<vars, l, ended>>
SetOf(seq) == {seq[k] : k \in 1..Len(seq)}
Min(a, b) == IF a < b THEN a ELSE b
Ev == Trace[l]

TInit == /\ InitWith([refusals |-> [i \in TSrc |-> Trace[1].refusals[i]], fails |-> [i \in TSrc |-> 0],
                      resumable |-> {i \in TSrc : Trace[1].resumable[i]}])
         /\ l = 2 /\ ended = {} /\ TLCSet(1, 2)

\* FullDone of a source whose RDB has been sent: not logged, may happen any time after rdb-end
SilentDone == \E j \in ended : FullDone(j) /\ ended' = ended \ {j} /\ UNCHANGED l

\* a PSYNC seen by source i: the syncer went through Begin and Acquire (unlogged: taken as steps of their own), then the answer
TPsync == /\ l <= Len(Trace) /\ Ev.e = "psync"
          /\ LET i == Ev.src + 1 IN
             \/ Begin(i) /\ ~dead' /\ UNCHANGED <<l, ended>>
             \/ Acquire(i) /\ UNCHANGED <<l, ended>>
             \/ /\ CASE Ev.kind = "refused" -> PsyncRefused(i)
                     [] Ev.kind = "full" -> PsyncFull(i)
                     [] Ev.kind = "continue" -> PsyncContinue(i)
                /\ l' = l + 1 /\ UNCHANGED ended

TRdbEnd == /\ l <= Len(Trace) /\ Ev.e = "rdb-end"
           /\ pc[Ev.src + 1] = "full" /\ Ev.src + 1 \notin ended
           /\ ended' = ended \cup {Ev.src + 1} /\ l' = l + 1 /\ UNCHANGED vars

InRdb == {i \in TSrc : pc[i] = "full" /\ i \notin ended}
Pending == {i \in TSrc : pc[i] \in {"start", "wait", "held"}} \cup InRdb
TSettle == /\ l <= Len(Trace) /\ Ev.e = "settle"
           /\ {h + 1 : h \in SetOf(Ev.held)} = InRdb
           /\ Cardinality(InRdb) = Min(TP, Cardinality(Pending))     \* the semaphore is used to its full weight: no permit leaked
           /\ ~Ev.timed_out
           /\ l' = l + 1 /\ UNCHANGED <<vars, ended>>

TAbort == /\ l <= Len(Trace) /\ Ev.e = "abort" /\ Ev.max_failures
          /\ \E i \in TSrc : Begin(i) /\ dead'
          /\ l' = l + 1 /\ UNCHANGED ended

TFinal == /\ l <= Len(Trace) /\ Ev.e = "final"
          /\ Ev.aborted = dead /\ ~Ev.hang
          /\ ~dead => /\ \A i \in TSrc : pc[i] = "incr"
                      /\ ~Ev.late_abort
                      /\ \A k \in 1..Len(Ev.per) : LET r == Ev.per[k] IN
                            r.rdb_ok /\ r.list_ok /\ r.ckpt_ok /\ r.psyncs = tries[r.src + 1]   \* one PSYNC per start, no further one
          /\ l' = l + 1 /\ UNCHANGED <<vars, ended>>

TNext == SilentDone \/ TPsync \/ TRdbEnd \/ TSettle \/ TAbort \/ TFinal
TSpec == TInit /\ [][TNext]_tvars
\* the longest explained prefix (single worker): register 1 holds the highest line reached
HighWater == TLCSet(1, IF l > TLCGet(1) THEN l ELSE TLCGet(1))
Accepted == IF TLCGet(1) = Len(Trace) + 1 THEN TRUE ELSE PrintT(<<"REJECT", TLCGet(1)>>)
TraceSemBound == SemBound /\ SemExact
=============================================================================
