CONSTANTS Cap = 3 MaxTotal = 7 Chunks = {0,1,2,4} Readers = {1,2} DevNoBroadcast = FALSE
SPECIFICATION Spec
INVARIANTS ReadCorrect InvalidIff ParkOnlyAtHead RangeOK RingHoldsTail WriterNeverParks
CHECK_DEADLOCK FALSE
