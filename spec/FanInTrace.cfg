SPECIFICATION TSpec
CONSTANTS
  Src <- TSrc
  P <- TP
  MaxTries <- TMaxTries
  MaxRefusals = 3
  MaxFullFails = 0
  DevLeakOnRefuse = FALSE
  DevDoubleRelease = FALSE
INVARIANTS TraceSemBound DeadOnlyByRetries
CONSTRAINT HighWater
POSTCONDITION Accepted
CHECK_DEADLOCK FALSE
