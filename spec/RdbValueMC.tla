------------------------------ MODULE RdbValueMC ------------------------------
(* Exhaustive check of the round trip Materialise(Encode(v)) = v over the boundary strings, and of the
   individual readers on hand-checked vectors (ASSUMEs).  One state per value: the model "steps" through
   the value set so that TLC reports each failing value as a counterexample state. *)
EXTENDS RdbValue
T(str) == str   \* strings are written as byte tuples below
\* "" "0" "-0" "00" "-1" "+1" " 1" "1 " "127" "128" "-128" "-129" "32767" "32768" "-32768" "-32769" "2147483647" "2147483648"
\* "-2147483648" "-2147483649" "99999999999" "012" "-012" "1e3" "a" <0,255,13,10> "-" "--1" "4294967295" "12345678901234567890" (20 digits)
Boundary == {
  <<>>, <<48>>, <<45, 48>>, <<48, 48>>, <<45, 49>>, <<43, 49>>, <<32, 49>>, <<49, 32>>,
  <<49, 50, 55>>, <<49, 50, 56>>, <<45, 49, 50, 56>>, <<45, 49, 50, 57>>,
  <<51, 50, 55, 54, 55>>, <<51, 50, 55, 54, 56>>, <<45, 51, 50, 55, 54, 56>>, <<45, 51, 50, 55, 54, 57>>,
  <<50, 49, 52, 55, 52, 56, 51, 54, 52, 55>>, <<50, 49, 52, 55, 52, 56, 51, 54, 52, 56>>,
  <<45, 50, 49, 52, 55, 52, 56, 51, 54, 52, 56>>, <<45, 50, 49, 52, 55, 52, 56, 51, 54, 52, 57>>,
  <<57, 57, 57, 57, 57, 57, 57, 57, 57, 57, 57>>, <<48, 49, 50>>, <<45, 48, 49, 50>>, <<49, 101, 51>>, <<97>>, <<0, 255, 13, 10>>,
  <<45>>, <<45, 45, 49>>, <<52, 50, 57, 52, 57, 54, 55, 50, 57, 53>>,
  <<49, 50, 51, 52, 53, 54, 55, 56, 57, 48, 49, 50, 51, 52, 53, 54, 55, 56, 57, 48>>,
  [i \in 1..63 |-> 120], [i \in 1..64 |-> 121]}
Scores == {NaN, PInf, NInf, NegZero, <<48>>, <<49, 46, 53>>, <<45, 49, 101, 43, 51, 48, 56>>, <<51, 46, 49, 52, 49, 53, 57, 50, 54, 53, 51, 53, 56, 57, 55, 57, 51, 49>>}
Values == {Val("string", <<s>>) : s \in Boundary}
          \cup {Val(k, <<>>) : k \in {"list", "set", "hash", "zset"}}
          \cup {Val(k, <<a>>) : k \in {"list", "set"}, a \in Boundary}
          \cup {Val(k, <<a, b>>) : k \in {"list", "set", "hash"}, a \in Boundary, b \in Boundary}
          \cup {Val("zset", <<a, s>>) : a \in Boundary, s \in Scores}
          \cup {Val("zset", <<a, s, <<98>>, t>>) : a \in {<<>>, <<45, 49, 50, 57>>, <<97>>}, s \in Scores, t \in Scores}
VARIABLE v
Init == v \in Values
Next == UNCHANGED v
Spec == Init /\ [][Next]_v
RoundTripInv == RoundTrip(v)
\* the integer string form is chosen exactly for canonical integers within 32 bits (else Redis would materialise another string)
IntFormInv == v.kind = "string" => LET s == v.items[1] e == EncString(s) IN
                 (e[1] \in {192, 193, 194}) <=> (s \in {IntText(n) : n \in {0, -1, 127, 128, -128, -129, 32767, 32768, -32768, -32769, 2147483647, -2147483647 - 1}})
\* ---- hand-checked vectors for the compact encodings
ASSUME IntText(0) = <<48>> /\ IntText(-129) = <<45, 49, 50, 57>> /\ IntText(2147483647) = <<50, 49, 52, 55, 52, 56, 51, 54, 52, 55>>
ASSUME ReadLen(<<63>>, 1).v = 63 /\ ReadLen(<<64, 64>>, 1).v = 64 /\ ReadLen(<<127, 255>>, 1).v = 16383 /\ ReadLen(<<128, 0, 0, 64, 0>>, 1).v = 16384
       /\ ReadLen(<<129, 0, 0, 0, 0, 0, 0, 0, 7>>, 1) = [k |-> "len", v |-> 7, p |-> 10] /\ ReadLen(<<129, 0, 0, 0, 1, 0, 0, 0, 7>>, 1).k = "big"
ASSUME EncLen(16384) = <<128, 0, 0, 64, 0>> /\ EncLen(16383) = <<127, 255>> /\ EncLen(64) = <<64, 64>>
\* LZF: literal "ab", then back reference offset 1 (two back) length 6+2 -> "abababababab"... "ab" + 8 bytes
ASSUME Lzf(<<1, 97, 98, 192, 1>>, 1, <<>>) = <<97, 98, 97, 98, 97, 98, 97, 98, 97, 98>>
ASSUME Lzf(<<0, 97, 224, 3, 0>>, 1, <<>>) = [i \in 1..13 |-> 97]          \* long form: 7+3+2 = 12 copies of the previous byte
\* ziplist with entries "a", 5 (4-bit), -1 (int8), 300 (int16), -70000 (int24), 100000 (int32)
ASSUME Ziplist(<<0, 0, 0, 0, 0, 0, 0, 0, 6, 0,  0, 1, 97,  3, 246,  1, 254, 255,  2, 192, 44, 1,  4, 240, 144, 238, 254,  4, 208, 160, 134, 1, 0,  255>>)
       = <<<<97>>, <<53>>, <<45, 49>>, <<51, 48, 48>>, <<45, 55, 48, 48, 48, 48>>, <<49, 48, 48, 48, 48, 48>>>>
\* 5-byte prevlen and a 14-bit string header
ASSUME Ziplist(<<0, 0, 0, 0, 0, 0, 0, 0, 1, 0,  254, 0, 0, 0, 0, 64, 2, 104, 105,  255>>) = <<<<104, 105>>>>
\* intset width 2 {-2, 5}; width 8 {-1} fits, {2^40} does not
ASSUME Intset(<<2, 0, 0, 0, 2, 0, 0, 0, 254, 255, 5, 0>>) = <<<<45, 50>>, <<53>>>>
ASSUME Intset(<<8, 0, 0, 0, 2, 0, 0, 0, 255, 255, 255, 255, 255, 255, 255, 255, 0, 0, 0, 0, 0, 1, 0, 0>>) = <<<<45, 49>>, Big>>
\* zipmap {"a": "bc" (+1 free)}, then {"": ""}
ASSUME Zipmap(<<2, 1, 97, 2, 1, 98, 99, 0, 0, 0, 0, 255>>) = <<<<97>>, <<98, 99>>, <<>>, <<>>>>
\* binary scores: +inf, -0, NaN, 1.0
ASSUME BinScore(<<0, 0, 0, 0, 0, 0, 240, 127>>, 1) = PInf /\ BinScore(<<0, 0, 0, 0, 0, 0, 0, 128>>, 1) = NegZero
       /\ BinScore(<<1, 0, 0, 0, 0, 0, 248, 127>>, 1) = NaN /\ BinScore(<<0, 0, 0, 0, 0, 0, 240, 63>>, 1) = <<0, 0, 0, 0, 0, 0, 240, 63>>
=============================================================================
