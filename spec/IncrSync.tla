------------------------------ MODULE IncrSync ------------------------------
(* As-implemented model of incremental sync: dbSync/syncIncrease.go (parseSourceCommand,
   sendTargetCommand with its barrier automaton syncUtils.go, sendFunc with MULTI ... checkpoint
   HSETs ... EXEC), the target executing what it receives, a connection cut anywhere (Crash)
   and the restart from the newest checkpoint.  One action per loop iteration:
     SrcEmit    the master appends a command to the replication stream
     Parse      one iteration of the parser loop (filter, tag with db/offset, enqueue)
     Deq        the sender dequeues one item (barrier automaton, count threshold, flush)
     Tick       the 500 ms ticker fires (flush iff queue empty and something cached)
     TargetRecv the target processes the next command it has received
     Crash      connection/process cut: unprocessed bytes, an open MULTI and all tool state vanish;
                restart = load newest checkpoint, PSYNC offset+1, SELECT the recorded db
   `last` names the action just taken (drives the lock-step replay). *)
EXTENDS IncrContract, FiniteSets, TLC
CONSTANTS MaxLen, Dbs, FilteredDbs, KeyFilterOn, FilterLua, SenderCount, BufCap, Resume, TargetDB, MaxCrash,
          Kinds            \* which item kinds the source may emit (besides sel)
VARIABLES stream, inTxn,                    \* source
          pos, lastDb, bypass, tgtSel,      \* parser
          sendBuf,                          \* channel parser -> sender
          cached, bs,                       \* sender
          ridDbs,                           \* dbs whose run id the sender already wrote in this run
          wire,                             \* flushed to the target, not yet processed
          curDb, inMulti, queue, applied, ckpt, rid, markers,   \* target
          crashes, dead, last
vars == <<stream, inTxn, pos, lastDb, bypass, tgtSel, sendBuf, cached, bs, ridDbs, wire,
          curDb, inMulti, queue, applied, ckpt, rid, markers, crashes, dead, last>>
Cfg == [fdbs |-> FilteredDbs, kf |-> KeyFilterOn, lua |-> FilterLua, tdb |-> TargetDB]

It(t, d, id) == [t |-> t, d |-> d, id |-> id]
\* ---------- source ----------
SrcEmit ==
  /\ Len(stream) < MaxLen /\ ~dead
  /\ \E c \in ( {It("sel", d, 0) : d \in Dbs} \cup {It(k, -1, Len(stream) + 1) : k \in Kinds \ {"multi", "exec", "ping"}}
               \cup (IF "ping" \in Kinds /\ ~inTxn THEN {It("ping", -1, 0)} ELSE {})
               \cup (IF "multi" \in Kinds THEN (IF inTxn THEN {It("exec", -1, 0)} ELSE {It("multi", -1, 0)}) ELSE {}) ) :
       /\ (stream = <<>> => c.t = "sel")            \* a fresh replica is always sent SELECT first
       /\ stream' = Append(stream, c)
       /\ inTxn' = IF c.t = "multi" THEN TRUE ELSE IF c.t = "exec" THEN FALSE ELSE inTxn
       /\ last' = [a |-> "SrcEmit", item |-> c]
  /\ UNCHANGED <<pos, lastDb, bypass, tgtSel, sendBuf, cached, bs, ridDbs, wire, curDb, inMulti, queue,
                 applied, ckpt, rid, markers, crashes, dead>>

\* ---------- parser ----------
Q(cmd, arg, id, off, form, db) == [cmd |-> cmd, arg |-> arg, id |-> id, off |-> off, form |-> form, db |-> db]
Parse ==
  /\ pos <= Len(stream) /\ ~dead
  /\ LET c == stream[pos] off == pos IN
     \/ /\ c.t = "sel"
        /\ LET byp == c.d \in FilteredDbs IN
           /\ bypass' = byp
           /\ IF byp THEN lastDb' = c.d /\ UNCHANGED <<sendBuf, tgtSel>>
              ELSE IF TargetDB # NoTargetDb
                   THEN \* target.db: forward SELECT <target.db> unless the target is known to be there already
                        IF TargetDB # c.d \/ ~tgtSel
                        THEN /\ Len(sendBuf) < BufCap /\ sendBuf' = Append(sendBuf, Q("SELECT", TargetDB, 0, off, "sel", TargetDB))
                             /\ tgtSel' = TRUE /\ lastDb' = TargetDB
                        ELSE lastDb' = c.d /\ UNCHANGED <<sendBuf, tgtSel>>
                   ELSE /\ Len(sendBuf) < BufCap /\ sendBuf' = Append(sendBuf, Q("select", c.d, 0, off, "sel", c.d))
                        /\ lastDb' = c.d /\ UNCHANGED tgtSel
     \/ /\ c.t # "sel"
        /\ UNCHANGED <<bypass, lastDb, tgtSel>>
        /\ IF c.t = "ping" /\ ~bypass THEN Len(sendBuf) < BufCap /\ sendBuf' = Append(sendBuf, Q("ping", 0, 0, off, "ping", lastDb))
           ELSE IF c.t = "ping" THEN UNCHANGED sendBuf        \* a ping while a filtered db is selected is dropped
           ELSE IF (bypass /\ c.t \notin {"multi", "exec"})     \* markers always reach the sender (they are never forwarded)
                   \/ c.t \in {"opinfo", "hello"} \/ (c.t \in {"w", "wf", "wm", "eval"} /\ Form(Cfg, c.t) = "drop")
                THEN UNCHANGED sendBuf
           ELSE /\ Len(sendBuf) < BufCap
                /\ sendBuf' = Append(sendBuf, Q(c.t, 0, c.id, off, IF c.t \in {"multi", "exec"} THEN c.t ELSE Form(Cfg, c.t), lastDb))
  /\ pos' = pos + 1 /\ last' = [a |-> "Parse"]
  /\ UNCHANGED <<stream, inTxn, cached, bs, ridDbs, wire, curDb, inMulti, queue, applied, ckpt, rid,
                 markers, crashes, dead>>

\* ---------- sender ----------
\* barrierMap + barrierStatus(): <<new status, flush the cache first?>>; only the lower-case commands
\* coming from the source are barriers (the injected "SELECT" is not)
Barrier(cmd, prev) ==
  LET m == IF cmd = "select" THEN "add" ELSE IF cmd = "multi" THEN "start" ELSE IF cmd = "exec" THEN "end" ELSE "" IN
  IF prev \in {"", "add", "end"} THEN IF m = "" THEN <<"", FALSE>> ELSE <<m, TRUE>>
  ELSE IF m = "end" THEN <<"end", TRUE>> ELSE <<"holding", FALSE>>
\* what sendFunc() writes for the cached items c (rdbs = ridDbs, db = database the batch runs in)
W(k, a, id, form) == [k |-> k, a |-> a, id |-> id, form |-> form]
NeedBatch(c) == Resume /\ ~(Len(c) = 1 /\ c[Len(c)].cmd = "ping")
Batch(c, firstInDb) ==
  IF c = <<>> THEN <<>>
  ELSE LET body == [i \in 1..Len(c) |-> W(c[i].cmd, c[i].arg, c[i].id, c[i].form)] IN
       IF NeedBatch(c)
       THEN <<W("MULTI", 0, 0, "")>> \o body
            \o (IF firstInDb THEN <<W("RID", 0, 0, ""), W("VER", 0, 0, "")>> ELSE <<>>)
            \o <<W("CKPT", c[Len(c)].off, 0, ""), W("EXEC", 0, 0, "")>>
       ELSE body
\* database tag of the batch = Db of its last item (lastDb at parse time); the sender keys its run-id map with it
BatchDb(c) == IF c = <<>> THEN -1 ELSE c[Len(c)].db
Flush(c, w, rd) == IF c = <<>> THEN <<w, rd>>
                   ELSE <<w \o Batch(c, BatchDb(c) \notin rd), IF NeedBatch(c) THEN rd \cup {BatchDb(c)} ELSE rd>>
Deq ==
  /\ sendBuf # <<>> /\ ~dead
  /\ LET it == Head(sendBuf)
         b  == Barrier(it.cmd, bs)
         f1 == IF b[2] THEN Flush(cached, wire, ridDbs) ELSE <<wire, ridDbs>>
         c1 == IF b[2] THEN <<>> ELSE cached
         c2 == IF b[1] \in {"start", "end"} THEN c1 ELSE Append(c1, it)
         full == Len(c2) >= SenderCount
         f2 == IF full THEN Flush(c2, f1[1], f1[2]) ELSE f1 IN
     /\ bs' = b[1] /\ cached' = IF full THEN <<>> ELSE c2
     /\ wire' = f2[1] /\ ridDbs' = f2[2]
     /\ sendBuf' = Tail(sendBuf)
  /\ last' = [a |-> "Deq"]
  /\ UNCHANGED <<stream, inTxn, pos, lastDb, bypass, tgtSel, curDb, inMulti, queue, applied, ckpt, rid, markers, crashes, dead>>
Tick ==
  /\ sendBuf = <<>> /\ cached # <<>> /\ ~dead
  /\ LET f == Flush(cached, wire, ridDbs) IN wire' = f[1] /\ ridDbs' = f[2]
  /\ cached' = <<>> /\ last' = [a |-> "Tick"]
  /\ UNCHANGED <<stream, inTxn, pos, lastDb, bypass, tgtSel, sendBuf, bs, curDb, inMulti, queue,
                 applied, ckpt, rid, markers, crashes, dead>>

\* ---------- target ----------
RECURSIVE Exec(_, _)
Exec(q, st) ==    \* st = [db, ap, ck, rd, mk]
  IF q = <<>> THEN st
  ELSE LET c == Head(q)
           st1 == CASE c.k \in {"select", "SELECT"} -> [st EXCEPT !.db = c.a]
                    [] c.k \in {"w", "wf", "wm", "eval"} -> [st EXCEPT !.ap = Append(st.ap, [id |-> c.id, db |-> st.db, form |-> c.form])]
                    [] c.k = "CKPT" -> [st EXCEPT !.ck = [st.ck EXCEPT ![st.db] = c.a]]
                    [] c.k = "RID" -> [st EXCEPT !.rd = st.rd \cup {st.db}]
                    [] c.k \in {"multi", "exec"} -> [st EXCEPT !.mk = st.mk + 1]      \* a source marker reached the target
                    [] OTHER -> st
       IN Exec(Tail(q), st1)
TargetRecv ==
  /\ wire # <<>>
  /\ LET c == Head(wire)
         st0 == [db |-> curDb, ap |-> applied, ck |-> ckpt, rd |-> rid, mk |-> markers] IN
     /\ wire' = Tail(wire)
     /\ IF c.k = "MULTI" THEN inMulti' = TRUE /\ UNCHANGED <<queue, curDb, applied, ckpt, rid, markers>>
        ELSE IF c.k = "EXEC" THEN
             LET st == Exec(queue, st0) IN
             /\ inMulti' = FALSE /\ queue' = <<>> /\ curDb' = st.db /\ applied' = st.ap /\ ckpt' = st.ck
             /\ rid' = st.rd /\ markers' = st.mk
        ELSE IF inMulti THEN queue' = Append(queue, c) /\ UNCHANGED <<inMulti, curDb, applied, ckpt, rid, markers>>
        ELSE LET st == Exec(<<c>>, st0) IN
             /\ curDb' = st.db /\ applied' = st.ap /\ ckpt' = st.ck /\ rid' = st.rd /\ markers' = st.mk
             /\ UNCHANGED <<inMulti, queue>>
  /\ last' = [a |-> "TargetRecv"]
  /\ UNCHANGED <<stream, inTxn, pos, lastDb, bypass, tgtSel, sendBuf, cached, bs, ridDbs, crashes, dead>>

\* ---------- crash + restart ----------
MaxOff == CHOOSE o \in {ckpt[d] : d \in Dbs} : \A d \in Dbs : ckpt[d] <= o
CkDb == CHOOSE d \in Dbs : ckpt[d] = MaxOff
Crash ==
  /\ Resume /\ crashes < MaxCrash /\ ~dead
  /\ crashes' = crashes + 1
  /\ wire' = <<>> /\ queue' = <<>> /\ inMulti' = FALSE /\ curDb' = 0
  /\ cached' = <<>> /\ bs' = "" /\ ridDbs' = {} /\ bypass' = FALSE /\ lastDb' = -1 /\ tgtSel' = FALSE
  /\ IF MaxOff < 0 \/ CkDb \notin rid
       THEN dead' = TRUE /\ UNCHANGED <<pos, sendBuf>>      \* no usable checkpoint: full resync (outside this module)
       ELSE /\ pos' = MaxOff + 1 /\ dead' = FALSE
            /\ sendBuf' = IF CkDb # 0 THEN <<Q("select", CkDb, 0, MaxOff, "sel", CkDb)>> ELSE <<>>
  /\ last' = [a |-> "Crash", off |-> MaxOff, db |-> IF MaxOff < 0 THEN -1 ELSE CkDb]
  /\ UNCHANGED <<stream, inTxn, applied, ckpt, rid, markers>>

Init ==
  /\ stream = <<>> /\ inTxn = FALSE
  /\ pos = 1 /\ lastDb = -1 /\ bypass = FALSE /\ tgtSel = FALSE /\ sendBuf = <<>>
  /\ cached = <<>> /\ bs = "" /\ ridDbs = {} /\ wire = <<>>
  /\ curDb = 0 /\ inMulti = FALSE /\ queue = <<>> /\ applied = <<>> /\ ckpt = [d \in Dbs |-> -1] /\ rid = {}
  /\ markers = 0 /\ crashes = 0 /\ dead = FALSE /\ last = [a |-> "Init"]
Next == SrcEmit \/ Parse \/ Deq \/ Tick \/ TargetRecv \/ Crash
Spec == Init /\ [][Next]_vars
\* behaviour generator for the replay: a cut is only interesting once a usable checkpoint exists
GenNext == SrcEmit \/ Parse \/ Deq \/ Tick \/ TargetRecv \/ (MaxOff >= 0 /\ CkDb \in rid /\ Crash)
GenSpec == Init /\ [][GenNext]_vars
FairSpec == Spec /\ WF_vars(SrcEmit) /\ WF_vars(Parse) /\ WF_vars(Deq) /\ WF_vars(Tick) /\ WF_vars(TargetRecv)

\* ---------- the properties ----------
Exp(n) == Expected(Cfg, stream, n)
InOrderExactlyOnce == IsPrefix(applied, Exp(Len(stream)))                          \* C03
NoMarkers == markers = 0                                                           \* C03
CkptAtomic == Resume => applied = Exp(IF MaxOff < 0 THEN 0 ELSE MaxOff)            \* C04, in EVERY state
CkptHasRunId == \A d \in Dbs : ckpt[d] >= 0 => d \in rid                           \* C04/C14: what the loader needs
Quiet == pos > Len(stream) /\ sendBuf = <<>> /\ cached = <<>> /\ wire = <<>> /\ Len(stream) = MaxLen
Complete == (Quiet /\ ~dead) => applied = Exp(Len(stream))                         \* C03/C04: nothing lost
EventuallyApplied == <>[](~dead => (Len(stream) = MaxLen /\ applied = Exp(MaxLen)))   \* bounded-time forwarding under fairness
=============================================================================
