------------------------------- MODULE CrcTrace -------------------------------
(* Observations of the real code judged by Crc.tla:
     crc    {msg, cuts, impl, partial:[limbs...], sum}   a digest fed msg in chunks ending at `cuts`; the register after
                                                         every chunk and at the end
     ref    {msg, sum}                                   the harness's own bit-serial Go CRC (lifted oracle) on msg
     bigcrc {impl, n, cuts, ok}                          an n-byte message (up to 1 MiB) fed in the given chunks: ok = the register equals
                                                         the lifted oracle after every write
     fault  {verifier, class, accepted}                  a verifier's answer for an artefact with a fault of that class  *)
EXTENDS Crc, TLC, Json
VARIABLES l, bad
Trace == ndJsonDeserialize("trace.ndjson")
CrcOK(ev) == /\ ev.sum = Crc64(ev.msg)
             /\ \A i \in 1..Len(ev.cuts) : ev.partial[i] = Crc64(SubSeq(ev.msg, 1, ev.cuts[i]))
EventOK(ev) == CASE ev.e = "crc"   -> CrcOK(ev)
                 [] ev.e = "ref"   -> ev.sum = Crc64(ev.msg)
                 [] ev.e = "bigcrc" -> ev.ok          \* long messages / large single writes: register = the lifted reference after every write
                 [] ev.e = "conc"  -> ev.bad = 0 /\ ev.payloads = ev.expected   \* several loaders at once: every payload trailer verifies
                 [] ev.e = "fault" -> (IF ev.accepted THEN "accept" ELSE "reject") = Expected(ev.verifier, ev.class)
                 [] ev.e = "note"  -> TRUE
TInit == l = 1 /\ bad = 0
TNext == /\ l <= Len(Trace) /\ l' = l + 1
         /\ IF EventOK(Trace[l]) THEN bad' = bad ELSE PrintT(<<"REJECT", l>>) /\ bad' = bad + 1
TSpec == TInit /\ [][TNext]_<<l, bad>>
Accepted == TLCGet("stats").diameter - 1 = Len(Trace)
=============================================================================
