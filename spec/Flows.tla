-------------------------------- MODULE Flows --------------------------------
(* C19: configured passwords never appear in logs or status output - an information-flow policy.
   Sinks: what the tool prints or serves.  Every emission recorded from a real run is reduced by the
   recorder to (sink, set of configuration fields whose sentinel value occurs in the emitted text);
   the policy says which fields a sink may carry.  The four password fields are allowed nowhere. *)
EXTENDS Integers, FiniteSets, Sequences, TLC, Json
Sinks == {"log", "config-echo", "rest-metric", "syncer-status"}
Secrets == {"source.password_raw", "target.password_raw", "source.password_encoding", "target.password_encoding"}
Allowed(sink) == {"source.address", "target.address", "id", "log.file", "source.rdb.input", "target.rdb.output"}   \* addresses and names are fine everywhere
VARIABLES l, bad
Trace == ndJsonDeserialize("trace.ndjson")
SetOf(seq) == {seq[i] : i \in 1..Len(seq)}
EmitOK(ev) == /\ ev.sink \in Sinks
              /\ SetOf(ev.fields) \cap Secrets = {}
              /\ SetOf(ev.fields) \subseteq Allowed(ev.sink)
\* where a configuration object is shown, the password fields are masked
MaskOK(ev) == ev.e = "config" => (ev.source_password_shown = "***" /\ ev.target_password_shown = "***")
EventOK(ev) == CASE ev.e = "emit" -> EmitOK(ev) [] ev.e = "config" -> MaskOK(ev) [] OTHER -> TRUE
TInit == l = 1 /\ bad = 0
TNext == /\ l <= Len(Trace) /\ l' = l + 1
         /\ IF EventOK(Trace[l]) THEN bad' = bad ELSE PrintT(<<"REJECT", l>>) /\ bad' = bad + 1
TSpec == TInit /\ [][TNext]_<<l, bad>>
Accepted == TLCGet("stats").diameter - 1 = Len(Trace)
=============================================================================
