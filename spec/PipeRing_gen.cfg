CONSTANTS Cap = 2 MaxBytes = 3 Chunks = {0,1,2,3} DevNoSignal = FALSE DevNoReset = FALSE
SPECIFICATION Spec
INVARIANTS Fifo ParkedOnlyIfBlocked RingSane QueryOK
VIEW View
CHECK_DEADLOCK FALSE
