SPECIFICATION Spec
INVARIANTS RoundTripInv IntFormInv
