----------------------------- MODULE PipeTrace -----------------------------
(* Trace validation for C09: every line of trace.ndjson (recorded from the REAL pipe: hook
   events under mu, API events by the driver, one global sequence) must be explained by an
   action of the contract (PipeAbs, which Pipe refines).  Invariants are evaluated after
   every event.  Many runs are concatenated; "Reset" starts a fresh pipe. *)
EXTENDS PipeAbs, Sequences, TLC, Json
VARIABLES l,          \* next line of the trace
          cap,        \* capacity of the current pipe (from the Reset line)
          wce, rce,   \* error passed to the pending writer / reader close call
          hung,       \* the driver's watchdog fired for this run
          w0, r0      \* zero-length call in progress: the results that were legal at some moment since it began (see TNext)
vars == <<va, l, cap, wce, rce, hung, w0, r0>>
Trace == ndJsonDeserialize("trace.ndjson")

Ev(e) == l <= Len(Trace) /\ Trace[l].e = e /\ l' = l + 1
Keep == UNCHANGED <<cap, wce, rce, hung>>

TInit == InitA /\ l = 1 /\ cap = Cap /\ wce = "EOF" /\ rce = "CLOSED" /\ hung = FALSE /\ w0 = {} /\ r0 = {}

TReset == /\ Ev("Reset") /\ Trace[l].cap = Cap
          /\ blen' = 0 /\ werr' = "nil" /\ rerr' = "nil" /\ wst' = "idle" /\ wleft' = 0 /\ wn' = 0
          /\ rst' = "idle" /\ rwant' = 0 /\ wret' = NoRet /\ rret' = NoRet
          /\ cap' = Trace[l].cap /\ wce' = "EOF" /\ rce' = "CLOSED" /\ hung' = FALSE
TWBegin == Ev("WBegin") /\ AWBegin(Trace[l].k) /\ Keep
Twsome  == Ev("wsome") /\ AWSome(Trace[l].n) /\ Keep
Twpark  == Ev("wpark") /\ AWPark /\ Keep
Twwake  == Ev("wwake") /\ AWWake /\ Keep
\* the API-level return: either the call returns now (error / zero-length) or it already
\* returned inside the last wsome; in both cases the logged (n, err) must be the contract's
TWRet   == /\ Ev("WRet") /\ Keep
           /\ \/ wst = "call" /\ AWRet /\ wret' = [n |-> Trace[l].n, err |-> Trace[l].err]
              \/ wst = "idle" /\ wret = [n |-> Trace[l].n, err |-> Trace[l].err] /\ UNCHANGED va
              \* a zero-length Write decides under the lock without a hook event and is logged only after it returned:
              \* its result must have been the contract's answer at SOME moment between its begin and its return
              \/ /\ wst = "call" /\ wleft = 0 /\ wn = 0 /\ [n |-> Trace[l].n, err |-> Trace[l].err] \in w0
                 /\ wret' = [n |-> Trace[l].n, err |-> Trace[l].err] /\ wst' = "idle" /\ wleft' = 0
                 /\ UNCHANGED <<blen, werr, rerr, wn, rst, rwant, rret>>
TRBegin == Ev("RBegin") /\ ARBegin(Trace[l].k) /\ Keep
Trsome  == Ev("rsome") /\ ARSome(Trace[l].n) /\ Keep
Trpark  == Ev("rpark") /\ ARPark /\ Keep
Trwake  == Ev("rwake") /\ ARWake /\ Keep
TRRet   == /\ Ev("RRet") /\ Keep /\ Trace[l].match = TRUE      \* content = next bytes of the stream
           /\ \/ rst = "call" /\ ARRet /\ rret' = [n |-> Trace[l].n, err |-> Trace[l].err]
              \/ rst = "idle" /\ rret = [n |-> Trace[l].n, err |-> Trace[l].err] /\ UNCHANGED va
              \/ /\ rst = "call" /\ rwant = 0 /\ [n |-> Trace[l].n, err |-> Trace[l].err] \in r0      \* zero-length Read: as for Write
                 /\ rret' = [n |-> Trace[l].n, err |-> Trace[l].err] /\ rst' = "idle" /\ rwant' = 0
                 /\ UNCHANGED <<blen, werr, rerr, wst, wleft, wn, wret>>
TWCloseCall == Ev("WCloseCall") /\ wce' = Trace[l].err /\ UNCHANGED <<va, cap, rce, hung>>
TRCloseCall == Ev("RCloseCall") /\ rce' = Trace[l].err /\ UNCHANGED <<va, cap, wce, hung>>
Twclose == Ev("wclose") /\ AWClose(wce) /\ Keep
Trclose == Ev("rclose") /\ ARClose(rce) /\ Keep
TBuffered  == Ev("Buffered")  /\ [n |-> Trace[l].n, err |-> Trace[l].err] = ABufferedRes  /\ UNCHANGED va /\ Keep
TAvailable == Ev("Available") /\ [n |-> Trace[l].n, err |-> Trace[l].err] = AAvailableRes /\ UNCHANGED va /\ Keep
TEnd == Ev("End") /\ hung' = Trace[l].hung /\ UNCHANGED <<va, cap, wce, rce>>

TNext == \/ TReset \/ TWBegin \/ Twsome \/ Twpark \/ Twwake \/ TWRet
         \/ TRBegin \/ Trsome \/ Trpark \/ Trwake \/ TRRet
         \/ TWCloseCall \/ TRCloseCall \/ Twclose \/ Trclose \/ TBuffered \/ TAvailable \/ TEnd
\* the contract's answer to a zero-length call in the state AFTER this event
LegalW0N == IF werr' # "nil" THEN [n |-> 0, err |-> "CLOSED"] ELSE IF rerr' # "nil" THEN [n |-> 0, err |-> rerr'] ELSE [n |-> 0, err |-> "nil"]
LegalR0N == IF rerr' # "nil" THEN [n |-> 0, err |-> "CLOSED"] ELSE IF blen' # 0 THEN [n |-> 0, err |-> "nil"] ELSE [n |-> 0, err |-> werr']
TNextZ == /\ TNext
          /\ w0' = IF wst' = "call" /\ wleft' = 0 /\ wn' = 0 THEN (IF wst = "call" THEN w0 ELSE {}) \cup {LegalW0N} ELSE {}
          /\ r0' = IF rst' = "call" /\ rwant' = 0 THEN (IF rst = "call" THEN r0 ELSE {}) \cup {LegalR0N} ELSE {}
TSpec == TInit /\ [][TNextZ]_vars

\* evaluated after every event of every run
ParkedOnlyIfBlocked == AParkedOnlyIfBlocked
\* a run that hung while the contract says a wake-up is owed = lost wake-up
NoLostWake == ~(hung /\ (rst = "woken" \/ wst = "woken"))
Accepted == TLCGet("stats").diameter - 1 = Len(Trace)
=============================================================================
