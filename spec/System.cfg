SPECIFICATION Spec
CONSTANTS NCmds = 3
 CmdLen = 2
 MaxDrops = 2
 MaxCrashes = 1
 DevCkptAfterData = FALSE
INVARIANTS ExactlyOnce CkptAtomic NeverAhead SentCoversRecv ResumeExact
PROPERTIES Completes
CHECK_DEADLOCK FALSE
