------------------------------- MODULE MCFilter -------------------------------
EXTENDS FilterMC
A == <<97>>  AB == <<97, 98>>  B == <<98>>
MCKeys == {<<>>, A, AB, <<97, 98, 99>>, B, <<98, 97>>, CkptPrefixBytes, CkptPrefixBytes \o <<45, 120>>, <<123, 97, 98, 125, 99>>, <<125, 120, 123, 97, 125>>}   \* ... "{ab}c", "}x{a}" (a closing brace before the tag: same slot as "a")
MCPrefixes == {A, AB, B}
=============================================================================
