------------------------------ MODULE FullSync ------------------------------
(* C07: parallel full sync / restore.  A single producer (the RDB loader) feeds a queue of parsed
   entries; N workers, each with its own target connection and its own idea of the selected
   database (lastdb), take entries and issue commands one at a time; the target executes them in
   whatever order they arrive.  One action per command a worker issues:
     Take(w)     dequeue the next entry (filtered entries are dropped here)
     Select(w)   SELECT the destination database if it differs from lastdb[w]
     Restore(w)  plain entry: one atomic RESTORE;  big entry / hash chunk: first an optional DEL
                 (policy rewrite, first chunk only), then ...
     Elems(w)    ... the element commands of that entry / chunk
     Fail(w)     the restore of a "bad" entry fails: the worker stops, the run must report an error
   Entry kinds: plain, first + cont (the two chunks of one big hash), filt (filtered key), bad.
   Contract at Finish: every unfiltered key holds exactly the source's content in its destination
   database, written once; a failed restore is reported.
   DevChunkAnyWorker = TRUE is the code as built: the continuation chunk can be taken by another
   worker than the first chunk (with policy rewrite its elements can then be wiped by the first
   chunk's DEL).  With FALSE the two chunks are handled by one worker in order. *)
EXTENDS Integers, Sequences, FiniteSets, TLC
CONSTANTS Workers, MaxEntries, Dbs, Keys, TargetDB, Rewrite, DevChunkAnyWorker, ReportErrors
NoTargetDb == 9
VARIABLES entries, queue, pc, held, lastdb, conndb, store, writes, failed, res
vars == <<entries, queue, pc, held, lastdb, conndb, store, writes, failed, res>>
NoEntry == [db |-> 0, key |-> 0, kind |-> "none"]
Kinds == {"plain", "first", "cont", "filt", "bad"}
WellFormed(es) ==
  /\ \A i \in 1..Len(es) : es[i].kind = "cont" => (i > 1 /\ es[i-1].kind = "first" /\ es[i-1].key = es[i].key /\ es[i-1].db = es[i].db)
  /\ \A i \in 1..Len(es) : es[i].kind = "first" => (i < Len(es) /\ es[i+1].kind = "cont")
  \* a key occurs once per database (once at all when everything goes to one target.db), except the chunk pair
  /\ \A i, j \in 1..Len(es) : (i < j /\ es[i].key = es[j].key /\ (es[i].db = es[j].db \/ TargetDB # NoTargetDb))
                                  => (j = i + 1 /\ es[j].kind = "cont")
Init == /\ entries \in UNION {[1..n -> [db : Dbs, key : Keys, kind : Kinds]] : n \in 1..MaxEntries}
        /\ WellFormed(entries)
        /\ queue = entries /\ pc = [w \in Workers |-> "idle"] /\ held = [w \in Workers |-> NoEntry]
        /\ lastdb = [w \in Workers |-> 0] /\ conndb = [w \in Workers |-> 0]
        /\ store = [d \in Dbs \cup {TargetDB} |-> [k \in Keys |-> {}]]
        /\ writes = [d \in Dbs \cup {TargetDB} |-> [k \in Keys |-> 0]]
        /\ failed = FALSE /\ res = "running"
Dest(e) == IF TargetDB # NoTargetDb THEN TargetDB ELSE e.db
\* the worker that holds (or last held) the first chunk, if chunks are pinned
Take(w) == /\ pc[w] = "idle" /\ queue # <<>> /\ res = "running"
           /\ LET e == Head(queue) IN
              /\ (e.kind = "cont" /\ ~DevChunkAnyWorker) => held[w].kind = "first" /\ held[w].key = e.key
              /\ queue' = Tail(queue)
              /\ IF e.kind = "filt" THEN UNCHANGED <<held, pc>>      \* dropped by a filter (a SELECT may still be sent: not modelled)
                 ELSE /\ held' = [held EXCEPT ![w] = e]
                      /\ pc' = [pc EXCEPT ![w] = IF Dest(e) # lastdb[w] THEN "select" ELSE "restore"]
           /\ UNCHANGED <<entries, lastdb, conndb, store, writes, failed, res>>
Select(w) == /\ pc[w] = "select"
             /\ lastdb' = [lastdb EXCEPT ![w] = Dest(held[w])] /\ conndb' = [conndb EXCEPT ![w] = Dest(held[w])]
             /\ pc' = [pc EXCEPT ![w] = "restore"] /\ UNCHANGED <<entries, queue, held, store, writes, failed, res>>
Restore(w) == /\ pc[w] = "restore"
              /\ LET e == held[w] d == conndb[w] IN
                 CASE e.kind = "plain" -> /\ store' = [store EXCEPT ![d][e.key] = {0}]
                                          /\ writes' = [writes EXCEPT ![d][e.key] = @ + 1]
                                          /\ pc' = [pc EXCEPT ![w] = "idle"] /\ UNCHANGED failed
                   [] e.kind = "first" -> /\ IF Rewrite THEN store' = [store EXCEPT ![d][e.key] = {}] ELSE UNCHANGED store
                                          /\ UNCHANGED <<writes, failed>> /\ pc' = [pc EXCEPT ![w] = "elems"]
                   [] e.kind = "cont"  -> /\ UNCHANGED <<store, writes, failed>> /\ pc' = [pc EXCEPT ![w] = "elems"]
                   [] e.kind = "bad"   -> /\ failed' = TRUE /\ pc' = [pc EXCEPT ![w] = "dead"] /\ UNCHANGED <<store, writes>>
              /\ UNCHANGED <<entries, queue, held, lastdb, conndb, res>>
Elems(w) == /\ pc[w] = "elems"
            /\ LET e == held[w] d == conndb[w] el == IF e.kind = "first" THEN 1 ELSE 2 IN
               /\ store' = [store EXCEPT ![d][e.key] = @ \cup {el}]
               /\ writes' = [writes EXCEPT ![d][e.key] = @ + (IF e.kind = "first" THEN 1 ELSE 0)]
            /\ pc' = [pc EXCEPT ![w] = "idle"] /\ UNCHANGED <<entries, queue, held, lastdb, conndb, failed, res>>
\* the run returns when every worker has stopped (queue drained, or every worker dead)
Finish == /\ res = "running"
          /\ \A w \in Workers : pc[w] \in {"idle", "dead"}
          /\ (queue = <<>> \/ \A w \in Workers : pc[w] = "dead")
          /\ res' = IF failed /\ ReportErrors THEN "error" ELSE "ok"
          /\ UNCHANGED <<entries, queue, pc, held, lastdb, conndb, store, writes, failed>>
Next == (\E w \in Workers : Take(w) \/ Select(w) \/ Restore(w) \/ Elems(w)) \/ Finish
Spec == Init /\ [][Next]_vars /\ WF_vars(Next)
\* ---- contract ----
ExpectedContent(d, k) ==
  LET es == {i \in 1..Len(entries) : entries[i].key = k /\ Dest(entries[i]) = d /\ entries[i].kind \in {"plain", "first", "cont"}} IN
  UNION {IF entries[i].kind = "plain" THEN {0} ELSE IF entries[i].kind = "first" THEN {1} ELSE {2} : i \in es}
AnyBad == \E i \in 1..Len(entries) : entries[i].kind = "bad"
RightContent == res = "ok" => \A d \in Dbs \cup {TargetDB}, k \in Keys : store[d][k] = ExpectedContent(d, k)
ExactlyOnce == res = "ok" => \A d \in Dbs \cup {TargetDB}, k \in Keys : writes[d][k] = (IF ExpectedContent(d, k) = {} THEN 0 ELSE 1)
AllProcessed == res = "ok" => queue = <<>>
FailureReported == (res # "running" /\ failed) => res = "error"
Terminates == <>(res # "running")
=============================================================================
