SPECIFICATION Spec
CONSTANTS NCmds = 4
 CmdLen = 2
 MaxDrops = 2
 MaxCrashes = 2
 DevCkptAfterData = FALSE
INVARIANTS ExactlyOnce CkptAtomic NeverAhead SentCoversRecv ResumeExact
PROPERTIES Completes
CHECK_DEADLOCK FALSE
