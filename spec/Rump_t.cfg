SPECIFICATION Spec
CONSTANTS DbSeq <- MCDbSeq3
 Pages <- MCPages3
 Big = {2, 5}
 N = 2
 TargetDB <- MCNoTdb
 MaxVanish = 3
INVARIANTS Copied NoGhost ReplySkew NeverStuckOnReplies
PROPERTIES Terminates
CHECK_DEADLOCK FALSE
