---------------------------- MODULE BacklogTrace ----------------------------
(* Trace validation for C18 with the REAL capacities.  Counter abstraction of Backlog.tla's
   contract: content is compared by the recorder against the deterministic stream (`match`),
   offsets / lengths / errors / parking by the spec.  Hook events (wsome, rsome, rpark, rwake,
   close) are taken under the backlog mutex; API events by the driver; one global sequence. *)
EXTENDS Integers, Sequences, TLC, Json
CONSTANTS Cap, Readers
VARIABLES total, closed, wst, wleft, wn, rst, roff, rwant, rret, hung, l
vars == <<total, closed, wst, wleft, wn, rst, roff, rwant, rret, hung, l>>
Trace == ndJsonDeserialize("trace.ndjson")

Min2(a, b) == IF a < b THEN a ELSE b
NoRet == [n |-> 0, err |-> "none"]
WakeAll(s) == [r \in Readers |-> IF s[r] = "parked" THEN "woken" ELSE s[r]]
Valid(o) == ~(o > total \/ o + Cap < total)
Ev(e) == l <= Len(Trace) /\ Trace[l].e = e /\ l' = l + 1

Fresh == /\ total' = 0 /\ closed' = FALSE /\ wst' = "idle" /\ wleft' = 0 /\ wn' = 0
         /\ rst' = [r \in Readers |-> "idle"] /\ roff' = [r \in Readers |-> 0]
         /\ rwant' = [r \in Readers |-> 0] /\ rret' = [r \in Readers |-> NoRet] /\ hung' = FALSE
TInit == /\ total = 0 /\ closed = FALSE /\ wst = "idle" /\ wleft = 0 /\ wn = 0
         /\ rst = [r \in Readers |-> "idle"] /\ roff = [r \in Readers |-> 0]
         /\ rwant = [r \in Readers |-> 0] /\ rret = [r \in Readers |-> NoRet] /\ hung = FALSE /\ l = 1

TReset == Ev("Reset") /\ Trace[l].cap = Cap /\ Fresh
TWBegin == /\ Ev("WBegin") /\ wst = "idle" /\ wst' = "call" /\ wleft' = Trace[l].k /\ wn' = 0
           /\ UNCHANGED <<total, closed, rst, roff, rwant, rret, hung>>
\* a write step never waits: it moves 1..min(left, Cap) bytes and wakes every waiting reader;
\* n = 0 is reported only together with the closed error
Twsome == /\ Ev("wsome") /\ wst = "call"
          /\ LET n == Trace[l].n IN
             IF n = 0 THEN closed /\ UNCHANGED <<total, wleft, wn, rst>>
             ELSE /\ ~closed /\ n <= Min2(wleft, Cap)
                  /\ total' = total + n /\ wleft' = wleft - n /\ wn' = wn + n /\ rst' = WakeAll(rst)
          /\ UNCHANGED <<closed, wst, roff, rwant, rret, hung>>
TWRet == /\ Ev("WRet") /\ wst = "call" /\ Trace[l].n = wn
         /\ \/ Trace[l].err = "nil" /\ wleft = 0
            \/ Trace[l].err = "CLOSED" /\ closed
         /\ wst' = "idle" /\ UNCHANGED <<total, closed, wleft, wn, rst, roff, rwant, rret, hung>>
TRBegin == /\ Ev("RBegin") /\ LET r == Trace[l].r IN
              /\ rst[r] = "idle" /\ rst' = [rst EXCEPT ![r] = "call"]
              /\ roff' = [roff EXCEPT ![r] = Trace[l].o] /\ rwant' = [rwant EXCEPT ![r] = Trace[l].k]
              /\ rret' = [rret EXCEPT ![r] = NoRet]
           /\ UNCHANGED <<total, closed, wst, wleft, wn, hung>>
\* the decisive read step, under the mutex
Trsome == /\ Ev("rsome") /\ LET r == Trace[l].r  n == Trace[l].n IN
             /\ rst[r] = "call" /\ roff[r] = Trace[l].pos /\ rwant[r] > 0
             /\ IF n = 0
                  THEN \/ closed /\ rret' = [rret EXCEPT ![r] = [n |-> 0, err |-> "CLOSED"]]
                       \/ ~closed /\ ~Valid(roff[r]) /\ rret' = [rret EXCEPT ![r] = [n |-> 0, err |-> "INVALID"]]
                  ELSE /\ ~closed /\ Valid(roff[r]) /\ n <= Min2(rwant[r], total - roff[r])
                       /\ rret' = [rret EXCEPT ![r] = [n |-> n, err |-> "nil"]]
             /\ rst' = [rst EXCEPT ![r] = "idle"]
          /\ UNCHANGED <<total, closed, wst, wleft, wn, roff, rwant, hung>>
\* a reader may wait ONLY at the write position of an open log
Trpark == /\ Ev("rpark") /\ LET r == Trace[l].r IN
             /\ rst[r] = "call" /\ roff[r] = Trace[l].pos /\ rwant[r] > 0
             /\ ~closed /\ roff[r] = total
             /\ rst' = [rst EXCEPT ![r] = "parked"]
          /\ UNCHANGED <<total, closed, wst, wleft, wn, roff, rwant, rret, hung>>
Trwake == /\ Ev("rwake") /\ LET r == Trace[l].r IN rst[r] = "woken" /\ rst' = [rst EXCEPT ![r] = "call"]
          /\ UNCHANGED <<total, closed, wst, wleft, wn, roff, rwant, rret, hung>>
TRRet == /\ Ev("RRet") /\ Trace[l].match = TRUE
         /\ LET r == Trace[l].r IN
            \/ /\ rst[r] = "call" /\ rwant[r] = 0 /\ Trace[l].n = 0 /\ Trace[l].err = "nil"
               /\ rst' = [rst EXCEPT ![r] = "idle"]
            \/ /\ rst[r] = "idle" /\ rret[r] = [n |-> Trace[l].n, err |-> Trace[l].err] /\ UNCHANGED rst
         /\ UNCHANGED <<total, closed, wst, wleft, wn, roff, rwant, rret, hung>>
TCloseCall == Ev("CloseCall") /\ UNCHANGED <<total, closed, wst, wleft, wn, rst, roff, rwant, rret, hung>>
Tclose == /\ Ev("close") /\ closed' = TRUE /\ rst' = WakeAll(rst)
          /\ UNCHANGED <<total, wst, wleft, wn, roff, rwant, rret, hung>>
TRange == /\ Ev("DataRange")
          /\ (~closed => /\ Trace[l].err = "nil" /\ Trace[l].hi = total
                         /\ Trace[l].lo = (IF total >= Cap THEN total - Cap ELSE 0))
          /\ UNCHANGED <<total, closed, wst, wleft, wn, rst, roff, rwant, rret, hung>>
TEnd == Ev("End") /\ hung' = Trace[l].hung /\ UNCHANGED <<total, closed, wst, wleft, wn, rst, roff, rwant, rret>>

TNext == TReset \/ TWBegin \/ Twsome \/ TWRet \/ TRBegin \/ Trsome \/ Trpark \/ Trwake \/ TRRet
         \/ TCloseCall \/ Tclose \/ TRange \/ TEnd
TSpec == TInit /\ [][TNext]_vars

ParkOnlyAtHead == \A r \in Readers : rst[r] = "parked" => (roff[r] = total /\ ~closed)
NoLostWake == ~(hung /\ \E r \in Readers : rst[r] = "woken")
Accepted == TLCGet("stats").diameter - 1 = Len(Trace)
=============================================================================
