CONSTANTS Cap = 2 MaxTotal = 3 Chunks = {0,1,3} Readers = {1,2} DevNoBroadcast = FALSE
SPECIFICATION FairSpec
PROPERTY Progress
CHECK_DEADLOCK FALSE
