SPECIFICATION TSpec
POSTCONDITION Accepted
CHECK_DEADLOCK FALSE
