CONSTANTS Cap = 2 MaxTotal = 4 Chunks = {0,1,3} Readers = {1,2} DevNoBroadcast = FALSE
SPECIFICATION Spec
INVARIANTS ReadCorrect InvalidIff ParkOnlyAtHead RangeOK RingHoldsTail WriterNeverParks
CHECK_DEADLOCK FALSE
