------------------------------ MODULE IncrTrace ------------------------------
(* Trace validation for C03 / C04: the recorder logs, for every scenario ("cfg"), the source
   commands as they are emitted ("emit") and after EVERY step of the real parser / sender / target
   a snapshot of what the target has applied and which checkpoints it holds ("snap"); "restart"
   records what the real loader returned after a cut.  The contract (IncrContract) is evaluated
   on every snapshot - i.e. at every point at which the target connection could be cut. *)
EXTENDS IncrContract, TLC, Json
VARIABLES l, bad, cfg, stream
Trace == ndJsonDeserialize("trace.ndjson")

SetOf(seq) == {seq[i] : i \in 1..Len(seq)}
C(c) == [fdbs |-> SetOf(c.fdbs), kf |-> c.kf, lua |-> c.lua, tdb |-> c.tdb]
MaxOf(seq) == IF Len(seq) = 0 THEN -1 ELSE CHOOSE o \in SetOf(seq) : \A p \in SetOf(seq) : p <= o
SnapOK(ev) ==
  LET exp == Expected(cfg, stream, Len(stream))
      mo  == MaxOf(ev.ckpt) IN
  /\ IsPrefix(ev.applied, exp)                                   \* in order, exactly once, right db, right form (C03)
  /\ ev.markers = 0 /\ ev.errors = 0                             \* no source MULTI/EXEC, no target error (C03)
  /\ (ev.quiet => ev.applied = exp)                              \* everything forwarded once the stream is idle (C03)
  /\ (\A i \in 1..Len(ev.ckpt) : ev.ckpt[i] # -2)                \* a stored offset is the end of a source command (C04)
  /\ (ev.resume => /\ mo >= 0 => ev.applied = Expected(cfg, stream, mo)       \* dataset = history up to the stored offset (C04)
                   /\ mo < 0 => ev.applied = <<>>
                   /\ \A i \in 1..Len(ev.ckpt) : ev.ckpt[i] >= 0 => (i - 1) \in SetOf(ev.rid))   \* run id stored with it
EventOK(ev) == CASE ev.e = "snap" -> SnapOK(ev) [] OTHER -> TRUE

TInit == l = 1 /\ bad = 0 /\ cfg = [fdbs |-> {}, kf |-> FALSE, lua |-> FALSE, tdb |-> NoTargetDb] /\ stream = <<>>
TNext == /\ l <= Len(Trace) /\ l' = l + 1
         /\ LET ev == Trace[l] IN
            /\ cfg' = IF ev.e = "cfg" THEN C(ev.cfg) ELSE cfg
            /\ stream' = IF ev.e = "cfg" THEN <<>> ELSE IF ev.e = "emit" THEN Append(stream, ev.item) ELSE stream
            /\ IF EventOK(ev) THEN bad' = bad ELSE PrintT(<<"REJECT", l>>) /\ bad' = bad + 1
TSpec == TInit /\ [][TNext]_<<l, bad, cfg, stream>>
Accepted == TLCGet("stats").diameter - 1 = Len(Trace)
=============================================================================
