-------------------------------- MODULE Slot --------------------------------
(* C15: Redis Cluster key -> slot mapping, as a definition (the reference oracle).
   Keys are sequences of bytes (0..255).  CRC16/XMODEM is computed bit-serially
   (poly 0x1021, init 0, no reflection, no final xor). *)
EXTENDS Integers, Sequences, Bitwise
LBrace == 123
RBrace == 125

\* one byte into the CRC register, most significant bit first
RECURSIVE Bits(_, _)
Bits(crc, n) == IF n = 0 THEN crc
                ELSE LET sh == (crc * 2) % 65536 IN
                     Bits(IF crc >= 32768 THEN sh ^^ 4129 ELSE sh, n - 1)
RECURSIVE Crc16From(_, _, _)
Crc16From(s, i, crc) == IF i > Len(s) THEN crc
                        ELSE Crc16From(s, i + 1, Bits(crc ^^ (s[i] * 256), 8))
Crc16(s) == Crc16From(s, 1, 0)

\* position of the first occurrence of byte b at index >= from, or 0
RECURSIVE Find(_, _, _)
Find(s, b, from) == IF from > Len(s) THEN 0 ELSE IF s[from] = b THEN from ELSE Find(s, b, from + 1)

\* the hash tag: between the FIRST '{' and the FIRST '}' after it, if non-empty; else the whole key
Tag(key) == LET o == Find(key, LBrace, 1) IN
            IF o = 0 THEN key
            ELSE LET c == Find(key, RBrace, o + 1) IN
                 IF c = 0 \/ c = o + 1 THEN key ELSE SubSeq(key, o + 1, c - 1)
Slot(key) == Crc16(Tag(key)) % 16384

\* published check values
ASSUME Crc16(<<49, 50, 51, 52, 53, 54, 55, 56, 57>>) = 12739        \* "123456789" -> 0x31C3
ASSUME Slot(<<102, 111, 111>>) = 12182                              \* "foo"
ASSUME Slot(<<123, 102, 111, 111, 125, 120>>) = 12182               \* "{foo}x"
ASSUME Slot(<<123, 125, 123, 102, 111, 111, 125>>) = Crc16(<<123, 125, 123, 102, 111, 111, 125>>) % 16384
=============================================================================
