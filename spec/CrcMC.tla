-------------------------------- MODULE CrcMC --------------------------------
(* Chunking independence of the digest state machine, model-checked: writing a message in any
   chunking leaves the register at Crc64(all bytes written so far). *)
EXTENDS Crc, TLC
CONSTANTS Msgs, MaxLen
VARIABLES reg, written
Init == reg = Zero64 /\ written = <<>>
Write(chunk) == /\ Len(written) + Len(chunk) <= MaxLen
                /\ reg' = Upd(reg, chunk) /\ written' = written \o chunk
Next == \E m \in Msgs : Write(m)
Spec == Init /\ [][Next]_<<reg, written>>
ChunkingIndependent == reg = Crc64(written)
=============================================================================
