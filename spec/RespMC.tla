------------------------------- MODULE RespMC -------------------------------
(* Round-trip theorem on all small value trees: Dec(Enc(v)) = v consuming exactly Len(Enc(v)),
   with arbitrary bytes following; and every proper prefix of an encoding is "more" or "bad",
   never a value of that length. *)
EXTENDS Resp, TLC
CONSTANTS Atoms      \* byte strings used as payloads
VARIABLE v
Leaf == {V("str", FALSE, a, <<>>) : a \in {x \in Atoms : \A i \in 1..Len(x) : x[i] \notin {CR, LF}}}
        \cup {V("err", FALSE, <<69>>, <<>>)}
        \cup {V("int", FALSE, d, <<>>) : d \in {<<48>>, <<45, 49>>, <<49, 48, 50, 52>>, Max63, <<45>> \o Min63}}
        \cup {V("bulk", FALSE, a, <<>>) : a \in Atoms}
        \cup {V("bulk", TRUE, <<>>, <<>>), V("arr", TRUE, <<>>, <<>>), V("arr", FALSE, <<>>, <<>>)}
Arr1 == {V("arr", FALSE, <<>>, <<a>>) : a \in Leaf} \cup {V("arr", FALSE, <<>>, <<a, b>>) : a \in Leaf, b \in Leaf}
Init == v \in Leaf \cup Arr1 \cup {V("arr", FALSE, <<>>, <<a, b>>) : a \in Arr1, b \in {V("bulk", FALSE, <<>>, <<>>), V("arr", TRUE, <<>>, <<>>)}}
Next == UNCHANGED v
Spec == Init /\ [][Next]_v
RoundTrip == LET e == Enc(v) r == DecAt(e \o <<Star, 51>>, 1, 0) IN r.k = "ok" /\ r.v = v /\ r.nx = Len(e) + 1
PrefixNeverValue == LET e == Enc(v) IN
    \A n \in 0..(Len(e) - 1) : LET r == DecAt(SubSeq(e, 1, n), 1, 0) IN r.k \in {"more", "bad"}
StreamOffsets == LET e == Enc(v) s == <<LF>> \o e \o <<LF, LF>> \o e r == DecodeAll(s, 1, <<>>) IN
    /\ Len(r.vals) = 2 /\ r.vals[1].off = Len(e) + 1 /\ r.vals[2].off = 2 * Len(e) + 3 /\ r.stop = "more"
=============================================================================
