CONSTANTS N = 3 MaxRetries = 2 DevLastMasterWins = FALSE
SPECIFICATION Spec
INVARIANT Contract
PROPERTY Terminates
CHECK_DEADLOCK FALSE
