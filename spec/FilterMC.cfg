CONSTANTS KeyPool <- MCKeys PrefixPool <- MCPrefixes DbPool = {0, 1, 2}
SPECIFICATION Spec
INVARIANTS SameUserDecision SlotOnlyNarrowsSync CheckpointNeverCopiedByFull CheckpointDroppedOnceKeyFilter BlacklistExcludesPrefix WhitelistPassesOnlyPrefix DbExact
CHECK_DEADLOCK FALSE
