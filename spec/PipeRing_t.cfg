CONSTANTS Cap = 3 MaxBytes = 6 Chunks = {0,1,2,3,4} DevNoSignal = FALSE DevNoReset = FALSE
SPECIFICATION Spec
INVARIANTS Fifo ParkedOnlyIfBlocked DrainBeforeError RingSane QueryOK
PROPERTY Refines
CHECK_DEADLOCK FALSE
