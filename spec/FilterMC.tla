------------------------------ MODULE FilterMC ------------------------------
(* Consistency of the filter decisions across the four data paths, checked by TLC over every
   configuration built from a small pool of prefixes / databases / slots and every key of a pool. *)
EXTENDS Filter, TLC
CONSTANTS KeyPool, PrefixPool, DbPool
VARIABLES cfg, key, db
Init == /\ \E w \in SUBSET PrefixPool, b \in SUBSET PrefixPool, dw \in SUBSET DbPool, dbl \in SUBSET DbPool,
              sl \in {{}, {Slot(<<97>>)}}, lua \in BOOLEAN :
              /\ (w = {} \/ b = {}) /\ (dw = {} \/ dbl = {})
              /\ cfg = [fdb_white |-> dw, fdb_black |-> dbl, fkey_white |-> w, fkey_black |-> b, fslot |-> sl, filter_lua |-> lua]
        /\ key \in KeyPool /\ db \in DbPool
Next == UNCHANGED <<cfg, key, db>>
Spec == Init /\ [][Next]_<<cfg, key, db>>
\* same decision for the same key in every path, with the stated exceptions only
SameUserDecision == (~IsCheckpointKey(key) /\ cfg.fslot = {}) =>
    /\ ReachSync(cfg, db, key) = ReachRestore(cfg, db, key)
    /\ ReachRestore(cfg, db, key) = ReachIncr(cfg, db, key)
    /\ ReachIncr(cfg, db, key) = ReachRump(cfg, db, key)
SlotOnlyNarrowsSync == ReachSync(cfg, db, key) => ReachRestore(cfg, db, key)
CheckpointNeverCopiedByFull == IsCheckpointKey(key) => ~ReachSync(cfg, db, key) /\ ~ReachRestore(cfg, db, key)
CheckpointDroppedOnceKeyFilter == (IsCheckpointKey(key) /\ KeyFilterConfigured(cfg)) => ~ReachIncr(cfg, db, key) /\ ~ReachRump(cfg, db, key)
BlacklistExcludesPrefix == (cfg.fkey_black # {} /\ AnyPrefix(key, cfg.fkey_black)) => ~ReachIncr(cfg, db, key) /\ ~ReachSync(cfg, db, key)
WhitelistPassesOnlyPrefix == (cfg.fkey_white # {} /\ ~AnyPrefix(key, cfg.fkey_white)) => ~ReachIncr(cfg, db, key) /\ ~ReachSync(cfg, db, key)
DbExact == (cfg.fdb_black # {} /\ db \in cfg.fdb_black) => ~ReachSync(cfg, db, key) /\ ~ReachIncr(cfg, db, key)
=============================================================================
