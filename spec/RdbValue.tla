------------------------------- MODULE RdbValue -------------------------------
(* C12 - the value layer of the RDB format, byte by byte.

   Materialise(type, body)  the logical value a Redis server builds from a serialised body, for every
                            classic encoding: the three length forms (+ the 64-bit form), the string
                            forms (raw, int8/16/32, LZF), plain list/set/hash/zset (text scores) and
                            zset2 (binary scores), ziplist (every entry header incl. 4-bit, 8, 16, 24,
                            32, 64-bit integers and 1/5-byte prevlen), intset (16/32/64), zipmap
                            (1/5-byte lengths, free bytes), quicklist.
   Encode(v)                the body the tool's encoder writes for a logical value (plain types,
                            shortest length form, int8/16/32 string form for canonical integers that
                            fit 32 bits, raw otherwise).

   A logical value is  [kind, items]:  items is a sequence of byte strings (string: one item; list and
   set: the elements in order; hash: field, value, field, value, ...; zset: member, score, member,
   score, ...).  A score is kept as the class TLA+ can decide exactly from the bytes - NaN, PInf,
   NInf, NegZero (negative zero), or the text / the eight raw bytes of a finite score; the numeric
   reading of a finite score's text is the lifted oracle's business (DESIGN.md, oracle lifting).

   TLC's integers are 32-bit: 64-bit integers (ziplist 0xE0 entries, intset width 8, the 0x81 length
   form) are materialised when they fit and reported as Big otherwise; such payloads are judged by
   the lifted Go reference only.

   Checked here (RdbValueMC): Materialise(Encode(v)) = v for every value over the boundary strings
   (integer-encoding limits +-1, signs, leading zeros, spaces, empty, binary), and that the integer form
   is chosen exactly for canonical integers in the 32-bit range.  *)
EXTENDS Integers, Sequences, FiniteSets, TLC

Byte == 0..255
\* tokens that are not byte strings (integers outside 0..255, so that they compare with byte strings)
NaN == <<-1>>  PInf == <<-2>>  NInf == <<-3>>  NegZero == <<-4>>  Big == <<-9>>  Bad == <<-10>>

\* ------------------------------------------------------------------ integers <-> decimal text
RECURSIVE DigitsOf(_)
DigitsOf(n) == IF n < 10 THEN <<48 + n>> ELSE DigitsOf(n \div 10) \o <<48 + (n % 10)>>
MinInt32Text == <<45, 50, 49, 52, 55, 52, 56, 51, 54, 52, 56>>            \* "-2147483648"
IntText(n) == IF n >= 0 THEN DigitsOf(n) ELSE IF n = -2147483647 - 1 THEN MinInt32Text ELSE <<45>> \o DigitsOf(0 - n)

S8(b)  == IF b >= 128 THEN b - 256 ELSE b
LE16(bs, p) == bs[p] + 256 * bs[p + 1]
S16(bs, p) == LET u == LE16(bs, p) IN IF u >= 32768 THEN u - 65536 ELSE u
S24(bs, p) == bs[p] + 256 * bs[p + 1] + 65536 * S8(bs[p + 2])
S32(bs, p) == bs[p] + 256 * bs[p + 1] + 65536 * bs[p + 2] + 16777216 * S8(bs[p + 3])
\* unsigned 32-bit little endian, when it fits a TLC integer
U32fits(bs, p) == bs[p + 3] < 128
U32(bs, p) == bs[p] + 256 * bs[p + 1] + 65536 * bs[p + 2] + 16777216 * bs[p + 3]
BE32fits(bs, p) == bs[p] < 128
BE32(bs, p) == bs[p + 3] + 256 * bs[p + 2] + 65536 * bs[p + 1] + 16777216 * bs[p]
\* signed 64-bit little endian fits 32 bits iff the upper four bytes are the sign extension of the lower four
S64fits(bs, p) == LET hi == IF bs[p + 3] >= 128 THEN 255 ELSE 0 IN \A i \in 4..7 : bs[p + i] = hi

\* ------------------------------------------------------------------ lengths
\* [k |-> "len" | "enc" | "big", v, p]  (p = position after the length)
ReadLen(bs, p) ==
  LET b == bs[p] tag == b \div 64 IN
  CASE tag = 0 -> [k |-> "len", v |-> b % 64, p |-> p + 1]
    [] tag = 1 -> [k |-> "len", v |-> (b % 64) * 256 + bs[p + 1], p |-> p + 2]
    [] tag = 3 -> [k |-> "enc", v |-> b % 64, p |-> p + 1]
    [] b = 128 -> IF BE32fits(bs, p + 1) THEN [k |-> "len", v |-> BE32(bs, p + 1), p |-> p + 5] ELSE [k |-> "big", v |-> 0, p |-> p + 5]
    [] b = 129 -> IF (\A i \in 1..4 : bs[p + i] = 0) /\ BE32fits(bs, p + 5) THEN [k |-> "len", v |-> BE32(bs, p + 5), p |-> p + 9]
                  ELSE [k |-> "big", v |-> 0, p |-> p + 9]
    [] OTHER -> [k |-> "bad", v |-> 0, p |-> p + 1]

\* ------------------------------------------------------------------ LZF
RECURSIVE CopyBack(_, _, _)
CopyBack(out, from, n) == IF n = 0 THEN out ELSE CopyBack(Append(out, out[from]), from + 1, n - 1)   \* byte by byte: the regions may overlap
RECURSIVE Lzf(_, _, _)
Lzf(in, i, out) ==
  IF i > Len(in) THEN out
  ELSE LET c == in[i] IN
       IF c < 32 THEN Lzf(in, i + c + 2, out \o SubSeq(in, i + 1, i + c + 1))                          \* literal run of c+1 bytes
       ELSE LET l0 == c \div 32
                j  == IF l0 = 7 THEN i + 2 ELSE i + 1
                l  == IF l0 = 7 THEN 7 + in[i + 1] ELSE l0
                off == (c % 32) * 256 + in[j]
            IN Lzf(in, j + 1, CopyBack(out, Len(out) - off, l + 2))                                      \* back reference: l+2 bytes from off+1 back

\* ------------------------------------------------------------------ strings
\* [s, p]
ReadString(bs, p) ==
  LET h == ReadLen(bs, p) IN
  CASE h.k = "len" -> [s |-> SubSeq(bs, h.p, h.p + h.v - 1), p |-> h.p + h.v]
    [] h.k = "enc" /\ h.v = 0 -> [s |-> IntText(S8(bs[h.p])), p |-> h.p + 1]
    [] h.k = "enc" /\ h.v = 1 -> [s |-> IntText(S16(bs, h.p)), p |-> h.p + 2]
    [] h.k = "enc" /\ h.v = 2 -> [s |-> IntText(S32(bs, h.p)), p |-> h.p + 4]
    [] h.k = "enc" /\ h.v = 3 -> LET cl == ReadLen(bs, h.p) ul == ReadLen(bs, cl.p) IN
                                 [s |-> Lzf(SubSeq(bs, ul.p, ul.p + cl.v - 1), 1, <<>>), p |-> ul.p + cl.v]
    [] OTHER -> [s |-> Big, p |-> h.p]

RECURSIVE ReadStrs(_, _, _, _)
ReadStrs(bs, p, n, acc) == IF n = 0 THEN [items |-> acc, p |-> p]
                           ELSE LET r == ReadString(bs, p) IN ReadStrs(bs, r.p, n - 1, Append(acc, r.s))

\* ------------------------------------------------------------------ scores
NegZeroText == <<45, 48>>                                                   \* "-0"
TextScore(bs, p) ==                                                         \* [s, p] : type-3 score
  LET l == bs[p] IN
  CASE l = 253 -> [s |-> NaN, p |-> p + 1]
    [] l = 254 -> [s |-> PInf, p |-> p + 1]
    [] l = 255 -> [s |-> NInf, p |-> p + 1]
    [] OTHER   -> LET t == SubSeq(bs, p + 1, p + l) IN [s |-> IF t = NegZeroText THEN NegZero ELSE t, p |-> p + 1 + l]
BinScore(bs, p) ==                                                          \* type-5 score: IEEE-754 little endian
  LET e11 == (bs[p + 7] % 128) * 16 + bs[p + 6] \div 16                    \* the 11 exponent bits
      mant0 == (bs[p + 6] % 16 = 0) /\ \A i \in 0..5 : bs[p + i] = 0
      neg == bs[p + 7] >= 128
  IN CASE e11 = 2047 /\ ~mant0 -> NaN
       [] e11 = 2047 /\ mant0 -> IF neg THEN NInf ELSE PInf
       [] e11 = 0 /\ mant0 /\ neg -> NegZero
       [] OTHER -> SubSeq(bs, p, p + 7)
\* the class of a score given as text inside a ziplist (strtod: "inf", "-inf", "nan", "-0" are all legal spellings)
ZipScore(t) == IF t = NegZeroText THEN NegZero ELSE IF t = <<105, 110, 102>> THEN PInf ELSE IF t = <<45, 105, 110, 102>> THEN NInf
               ELSE IF t = <<110, 97, 110>> THEN NaN ELSE t

RECURSIVE ReadZSet(_, _, _, _, _)
ReadZSet(bs, p, n, bin, acc) ==
  IF n = 0 THEN acc
  ELSE LET m == ReadString(bs, p) IN
       IF bin THEN ReadZSet(bs, m.p + 8, n - 1, bin, acc \o <<m.s, BinScore(bs, m.p)>>)
       ELSE LET sc == TextScore(bs, m.p) IN ReadZSet(bs, sc.p, n - 1, bin, acc \o <<m.s, sc.s>>)

\* ------------------------------------------------------------------ ziplist
\* entries of the ziplist blob zl (a byte string): header zlbytes(4) zltail(4) zllen(2), entries, 0xFF
RECURSIVE ZipEntries(_, _, _)
ZipEntries(zl, p, acc) ==
  IF zl[p] = 255 THEN acc
  ELSE LET q == IF zl[p] = 254 THEN p + 5 ELSE p + 1                         \* prevlen: 1 byte, or 0xFE + 4 bytes
           e == zl[q] IN
       CASE e < 64  -> ZipEntries(zl, q + 1 + e, Append(acc, SubSeq(zl, q + 1, q + e)))
         [] e < 128 -> LET n == (e % 64) * 256 + zl[q + 1] IN ZipEntries(zl, q + 2 + n, Append(acc, SubSeq(zl, q + 2, q + 1 + n)))
         [] e = 128 -> IF BE32fits(zl, q + 1) THEN LET n == BE32(zl, q + 1) IN ZipEntries(zl, q + 5 + n, Append(acc, SubSeq(zl, q + 5, q + 4 + n)))
                       ELSE Append(acc, Big)
         [] e = 192 -> ZipEntries(zl, q + 3, Append(acc, IntText(S16(zl, q + 1))))            \* 0xC0 int16
         [] e = 208 -> ZipEntries(zl, q + 5, Append(acc, IntText(S32(zl, q + 1))))            \* 0xD0 int32
         [] e = 224 -> ZipEntries(zl, q + 9, Append(acc, IF S64fits(zl, q + 1) THEN IntText(S32(zl, q + 1)) ELSE Big))  \* 0xE0 int64
         [] e = 240 -> ZipEntries(zl, q + 4, Append(acc, IntText(S24(zl, q + 1))))            \* 0xF0 int24
         [] e = 254 -> ZipEntries(zl, q + 2, Append(acc, IntText(S8(zl[q + 1]))))             \* 0xFE int8
         [] e > 240 /\ e < 254 -> ZipEntries(zl, q + 1, Append(acc, IntText((e % 16) - 1)))   \* 0xF1..0xFD: 0..12
         [] OTHER -> Append(acc, Bad)
Ziplist(zl) == ZipEntries(zl, 11, <<>>)
ScoresAt(items) == [i \in 1..Len(items) |-> IF i % 2 = 0 THEN ZipScore(items[i]) ELSE items[i]]

\* ------------------------------------------------------------------ intset
RECURSIVE IntsetItems(_, _, _, _, _)
IntsetItems(b, p, w, n, acc) ==
  IF n = 0 THEN acc
  ELSE LET t == CASE w = 2 -> IntText(S16(b, p)) [] w = 4 -> IntText(S32(b, p))
                  [] OTHER -> IF S64fits(b, p) THEN IntText(S32(b, p)) ELSE Big
       IN IntsetItems(b, p + w, w, n - 1, Append(acc, t))
Intset(b) == IntsetItems(b, 9, U32(b, 1), U32(b, 5), <<>>)

\* ------------------------------------------------------------------ zipmap
ZmLen(b, p) == IF b[p] < 254 THEN [v |-> b[p], p |-> p + 1] ELSE [v |-> U32(b, p + 1), p |-> p + 5]
RECURSIVE ZipmapItems(_, _, _)
ZipmapItems(b, p, acc) ==
  IF b[p] = 255 THEN acc
  ELSE LET kl == ZmLen(b, p)
           vl == ZmLen(b, kl.p + kl.v)
           free == b[vl.p]
           vs == vl.p + 1
       IN ZipmapItems(b, vs + vl.v + free, acc \o <<SubSeq(b, kl.p, kl.p + kl.v - 1), SubSeq(b, vs, vs + vl.v - 1)>>)
Zipmap(b) == ZipmapItems(b, 2, <<>>)

\* ------------------------------------------------------------------ quicklist
RECURSIVE QuickNodes(_, _, _, _)
QuickNodes(bs, p, n, acc) == IF n = 0 THEN acc ELSE LET z == ReadString(bs, p) IN QuickNodes(bs, z.p, n - 1, acc \o Ziplist(z.s))

\* ------------------------------------------------------------------ the value
Val(kind, items) == [kind |-> kind, items |-> items]
Materialise(t, bs) ==
  CASE t = 0  -> Val("string", <<ReadString(bs, 1).s>>)
    [] t = 1  -> LET n == ReadLen(bs, 1) IN Val("list", ReadStrs(bs, n.p, n.v, <<>>).items)
    [] t = 2  -> LET n == ReadLen(bs, 1) IN Val("set", ReadStrs(bs, n.p, n.v, <<>>).items)
    [] t = 3  -> LET n == ReadLen(bs, 1) IN Val("zset", ReadZSet(bs, n.p, n.v, FALSE, <<>>))
    [] t = 5  -> LET n == ReadLen(bs, 1) IN Val("zset", ReadZSet(bs, n.p, n.v, TRUE, <<>>))
    [] t = 4  -> LET n == ReadLen(bs, 1) IN Val("hash", ReadStrs(bs, n.p, 2 * n.v, <<>>).items)
    [] t = 9  -> Val("hash", Zipmap(ReadString(bs, 1).s))
    [] t = 10 -> Val("list", Ziplist(ReadString(bs, 1).s))
    [] t = 11 -> Val("set", Intset(ReadString(bs, 1).s))
    [] t = 12 -> Val("zset", ScoresAt(Ziplist(ReadString(bs, 1).s)))
    [] t = 13 -> Val("hash", Ziplist(ReadString(bs, 1).s))
    [] t = 14 -> LET n == ReadLen(bs, 1) IN Val("list", QuickNodes(bs, n.p, n.v, <<>>))
    [] OTHER  -> Val("unsupported", <<>>)
HasBig(v) == \E i \in 1..Len(v.items) : v.items[i] = Big

\* ------------------------------------------------------------------ the tool's encoder (plain types)
EncLen(n) == IF n < 64 THEN <<n>> ELSE IF n < 16384 THEN <<64 + n \div 256, n % 256>>
             ELSE <<128, n \div 16777216, (n \div 65536) % 256, (n \div 256) % 256, n % 256>>
IsDigit(b) == b >= 48 /\ b <= 57
\* the numeric value of a canonical integer text, or "no": canonical = optional '-', no leading zeros, no "-0", at most 10 digits
RECURSIVE DigitsVal(_, _, _)
DigitsVal(s, i, acc) == IF i > Len(s) THEN acc ELSE DigitsVal(s, i + 1, acc * 10 + (s[i] - 48))
CanonInt(s) ==
  LET neg == Len(s) > 0 /\ s[1] = 45
      d == IF neg THEN Tail(s) ELSE s IN
  IF Len(d) = 0 \/ Len(d) > 10 \/ (\E i \in 1..Len(d) : ~IsDigit(d[i])) \/ (Len(d) > 1 /\ d[1] = 48) \/ (neg /\ d = <<48>>) THEN [ok |-> FALSE, v |-> 0]
  ELSE IF Len(d) = 10 /\ (d[1] > 50 \/ (d[1] = 50 /\ DigitsVal(Tail(d), 1, 0) > (IF neg THEN 147483648 ELSE 147483647))) THEN [ok |-> FALSE, v |-> 0]
  ELSE IF neg /\ d = Tail(MinInt32Text) THEN [ok |-> TRUE, v |-> -2147483647 - 1]
  ELSE [ok |-> TRUE, v |-> IF neg THEN 0 - DigitsVal(d, 1, 0) ELSE DigitsVal(d, 1, 0)]
U8(n) == n % 256                                                   \* (\div is floor division, % is non-negative: two's complement bytes)
Pow256(i) == CASE i = 0 -> 1 [] i = 1 -> 256 [] i = 2 -> 65536 [] OTHER -> 16777216
LE(n, bytes) == [i \in 1..bytes |-> (n \div Pow256(i - 1)) % 256]
ASSUME LE(-200, 2) = <<56, 255>> /\ LE(-1, 4) = <<255, 255, 255, 255>> /\ LE(-2147483647 - 1, 4) = <<0, 0, 0, 128>> /\ U8(-128) = 128
EncString(s) ==
  LET c == CanonInt(s) IN
  IF ~c.ok THEN EncLen(Len(s)) \o s
  ELSE IF c.v >= -128 /\ c.v <= 127 THEN <<192, U8(c.v)>>
  ELSE IF c.v >= -32768 /\ c.v <= 32767 THEN <<193>> \o LE(c.v, 2)
  ELSE <<194>> \o LE(c.v, 4)
RECURSIVE EncStrs(_, _)
EncStrs(items, i) == IF i > Len(items) THEN <<>> ELSE EncString(items[i]) \o EncStrs(items, i + 1)
EncScore(sc) == CASE sc = NaN -> <<253>> [] sc = PInf -> <<254>> [] sc = NInf -> <<255>>
                  [] sc = NegZero -> <<2>> \o NegZeroText [] OTHER -> <<Len(sc)>> \o sc
RECURSIVE EncZSet(_, _)
EncZSet(items, i) == IF i > Len(items) THEN <<>> ELSE EncString(items[i]) \o EncScore(items[i + 1]) \o EncZSet(items, i + 2)
TypeOf(kind) == CASE kind = "string" -> 0 [] kind = "list" -> 1 [] kind = "set" -> 2 [] kind = "zset" -> 3 [] kind = "hash" -> 4
Encode(v) == CASE v.kind = "string" -> EncString(v.items[1])
               [] v.kind \in {"list", "set"} -> EncLen(Len(v.items)) \o EncStrs(v.items, 1)
               [] v.kind = "hash" -> EncLen(Len(v.items) \div 2) \o EncStrs(v.items, 1)
               [] v.kind = "zset" -> EncLen(Len(v.items) \div 2) \o EncZSet(v.items, 1)
RoundTrip(v) == Materialise(TypeOf(v.kind), Encode(v)) = v
=============================================================================
