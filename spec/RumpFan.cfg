SPECIFICATION Spec
CONSTANTS
  Src <- MCSrc
  KeysOf <- MCKeysOf
  DevSharedRumper = FALSE
INVARIANTS TypeOK UnionCopied NeverTwice OwnSource
PROPERTIES Terminates
CHECK_DEADLOCK FALSE
