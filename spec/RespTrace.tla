------------------------------ MODULE RespTrace ------------------------------
(* Every line of trace.ndjson is one observation of the real RESP codec, judged by Resp.tla:
     enc   {val, out}            redis.Encode(val) produced bytes out
     dec   {in, vals:[{val,off}]} values and decoder positions the real Decoder delivered for the byte
                                 stream `in` (through a fragmenting reader / small bufio) before its first error
     args  {val, ok, cmd, args}  redis.ParseArgs on a command-shaped value
     chg   {val, out}            Encode(ChangeArgsToResp(cmd, args)) for val = array(cmd, args...)            *)
EXTENDS Resp, TLC, Json
VARIABLES l, bad
Trace == ndJsonDeserialize("trace.ndjson")

IsPrefixOf(a, b) == Len(a) <= Len(b) /\ SubSeq(b, 1, Len(a)) = a
DecOK(ev) == LET r == DecodeAll(ev.in, 1, <<>>) IN
             IF r.stop = "unspec" THEN IsPrefixOf(r.vals, ev.vals) ELSE ev.vals = r.vals
ArgsOK(ev) == LET a == ev.val.a IN
              /\ ev.ok = (Len(a) > 0 /\ Len(a[1].b) > 0)
              /\ ev.ok => /\ ev.cmd = Lower(a[1].b)
                          /\ ev.args = [i \in 1..(Len(a) - 1) |-> a[i + 1].b]
EventOK(ev) == CASE ev.e = "enc"  -> ev.out = Enc(ev.val)
                 [] ev.e = "dec"  -> DecOK(ev)
                 [] ev.e = "args" -> ArgsOK(ev)
                 [] ev.e = "chg"  -> ev.out = Enc(ev.val)

TInit == l = 1 /\ bad = 0
TNext == /\ l <= Len(Trace) /\ l' = l + 1
         /\ IF EventOK(Trace[l]) THEN bad' = bad ELSE PrintT(<<"REJECT", l>>) /\ bad' = bad + 1
TSpec == TInit /\ [][TNext]_<<l, bad>>
Accepted == TLCGet("stats").diameter - 1 = Len(Trace)
=============================================================================
