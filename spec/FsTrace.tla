------------------------------- MODULE FsTrace -------------------------------
(* Trace validation for full sync / restore (C07, C06, and the outcome side of C02).
   Per scenario the recorder logs
     case   configuration, the source entries (db, key bytes, destination db/key, chunked?) and pre-existing keys
     cmd    every command the model target executed: connection, database selected on it, name, key bytes
     done   how the run ended (error returned / aborted / scripts loaded)
     final  per source entry: is the destination key present, equal to the source's logical value
            (compared by the harness's independent decoder), TTL class, copies elsewhere
   and the contract below is evaluated per scenario when its `done`/`final` lines arrive. *)
EXTENDS Filter, TLC, Json
VARIABLES l, bad, cs, cmds, faulted
Trace == ndJsonDeserialize("trace.ndjson")
SetOf(seq) == {seq[i] : i \in 1..Len(seq)}
Cfg(c) == [fdb_white |-> SetOf(c.fdb_white), fdb_black |-> SetOf(c.fdb_black),
           fkey_white |-> SetOf(c.fkey_white), fkey_black |-> SetOf(c.fkey_black),
           fslot |-> SetOf(c.fslot), filter_lua |-> c.filter_lua]
Reach(c, e) == CASE c.cfg.mode = "sync"    -> ReachSync(Cfg(c.cfg), e.db, e.keyb)
                 [] c.cfg.mode = "incr"    -> ReachIncr(Cfg(c.cfg), e.db, e.keyb)
                 [] c.cfg.mode = "rump"    -> ReachRump(Cfg(c.cfg), e.db, e.keyb)
                 [] OTHER                  -> ReachRestore(Cfg(c.cfg), e.db, e.keyb)
Entry(c, id) == CHOOSE e \in SetOf(c.entries) : e.id = id
DataCmds == {"RESTORE", "DEL", "HSET", "RPUSH", "SADD", "ZADD", "SET", "PEXPIRE", "EXISTS"}

\* ---- per command: right database, never a filtered key (C07, C06) ----
CmdOK(c, ev) ==
  /\ ev.cmd \notin {"OPINFO"}                                  \* internal bookkeeping commands are never forwarded
  /\ (ev.cmd = "DEL" => c.cfg.key_exists = "rewrite")           \* an existing key may only be removed under policy rewrite
  /\ ev.cmd \in DataCmds =>
    \/ \E e \in SetOf(c.entries) : e.dest_keyb = ev.keyb /\ Reach(c, e) /\ ev.db = e.dest_db
    \/ FALSE
\* ---- at the end of the run ----
\* a non-chunked key is written by exactly one worker connection, a successful RESTORE happens at most once per key
WritersOf(d, k) == {cmds[i].conn : i \in {j \in 1..Len(cmds) : cmds[j].keyb = k /\ cmds[j].db = d /\ cmds[j].cmd \in DataCmds /\ cmds[j].cmd # "EXISTS"}}
GoodRestores(d, k) == Cardinality({j \in 1..Len(cmds) : cmds[j].keyb = k /\ cmds[j].db = d /\ cmds[j].cmd = "RESTORE" /\ ~cmds[j].err})
\* a destination (db, key) that some reachable entry maps to
Wanted(c, d, k) == \E e \in SetOf(c.entries) : e.dest_db = d /\ e.dest_keyb = k /\ Reach(c, e)
\* a restore must fail (and the run report it) when a reachable key already exists on the target under policy "none"
ExpectError(c) == c.cfg.key_exists = "none" /\ \E e \in SetOf(c.entries), p \in SetOf(c.pre) :
                     Reach(c, e) /\ p.db = e.dest_db /\ p.keyb = e.dest_keyb
DoneOK(c, ev) ==
  /\ ev.panic = ""
  /\ ((ExpectError(c) \/ ev.fault_fired) <=> (ev.err \/ ev.abort))                         \* a failed restore is reported (error or abort); otherwise the run neither fails nor aborts                                       \* a failed restore is reported, success is success
  \* scripts: exactly when filter.lua is off (in the incremental path a script command is, like any command, also
  \* subject to the db filter of the database selected when it is issued)
  /\ (~(ev.err \/ ev.abort) => ev.scripts_loaded =
        (IF ScriptsReach(Cfg(c.cfg)) /\ (c.cfg.mode = "incr" => ~FilterDB(Cfg(c.cfg), ev.script_db)) THEN c.scripts ELSE 0))
  /\ \A e \in SetOf(c.entries) :
        /\ GoodRestores(e.dest_db, e.dest_keyb) <= 1
        /\ (~e.chunk => Cardinality(WritersOf(e.dest_db, e.dest_keyb)) <= 1)
        /\ (~Wanted(c, e.dest_db, e.dest_keyb) => WritersOf(e.dest_db, e.dest_keyb) = {})
FinalOK(c, ev) ==
  LET e == Entry(c, ev.id)
      pol == c.cfg.key_exists
      valueOK == /\ ev.elsewhere = 0
                 /\ IF ev.expired_at_source THEN (ev.present => ev.match /\ ev.ttl = "ok")
                    ELSE ev.present /\ ev.match /\ ev.ttl = (IF ev.src_expire = 0 THEN "none" ELSE "ok") IN
  IF ~Wanted(c, e.dest_db, e.dest_keyb) THEN (ev.had_pre => ev.untouched) /\ (~ev.had_pre => ~ev.present)
  ELSE IF ~Reach(c, e) THEN TRUE        \* another entry legitimately owns this destination (several source dbs into one target.db)
  ELSE IF ev.had_pre /\ pol \in {"none", "ignore"} THEN ev.untouched      \* policy none / ignore: the existing key is left alone
  ELSE IF ExpectError(c) \/ faulted THEN TRUE                            \* nothing is promised about the other keys of a failed run
  ELSE valueOK                                                           \* absent before, or policy rewrite: ends with the source value
EventOK(ev) == CASE ev.e = "cmd" -> CmdOK(cs, ev)
                 [] ev.e = "done" -> DoneOK(cs, ev)
                 [] ev.e = "final" -> FinalOK(cs, ev)
                 [] OTHER -> TRUE
TInit == l = 1 /\ bad = 0 /\ cs = [id |-> -1] /\ cmds = <<>> /\ faulted = FALSE
TNext == /\ l <= Len(Trace) /\ l' = l + 1
         /\ LET ev == Trace[l] IN
            /\ cs' = IF ev.e = "case" THEN ev ELSE cs
            /\ faulted' = IF ev.e = "case" THEN FALSE ELSE IF ev.e = "done" THEN ev.fault_fired ELSE faulted   \* the target refused one RESTORE with an unrelated error
            /\ cmds' = IF ev.e = "case" THEN <<>> ELSE IF ev.e = "cmd" THEN Append(cmds, ev) ELSE cmds
            /\ IF EventOK(ev) THEN bad' = bad ELSE PrintT(<<"REJECT", l>>) /\ bad' = bad + 1
TSpec == TInit /\ [][TNext]_<<l, bad, cs, cmds, faulted>>
Accepted == TLCGet("stats").diameter - 1 = Len(Trace)
=============================================================================
