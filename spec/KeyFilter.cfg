CONSTANTS MaxArgs = 6
SPECIFICATION Spec
INVARIANTS AllPassUnchanged OnlyPassingKeys EveryPassingKeyKept NonKeysKeepPlace OrderKept DropIffNone
CHECK_DEADLOCK FALSE
