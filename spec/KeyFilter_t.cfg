CONSTANTS MaxArgs = 9
SPECIFICATION Spec
INVARIANTS AllPassUnchanged OnlyPassingKeys EveryPassingKeyKept NonKeysKeepPlace OrderKept DropIffNone
CHECK_DEADLOCK FALSE
