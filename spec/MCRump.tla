-------------------------------- MODULE MCRump --------------------------------
EXTENDS Rump
MCNoTdb == -1
MCDbSeq == <<0, 1>>
MCPages == [d \in {0, 1} |-> IF d = 0 THEN << <<1, 2>>, <<>>, <<3>> >> ELSE << <<4, 5>> >>]
\* key count a multiple of the page size, a database with a single empty page
MCDbSeq2 == <<1, 0, 2>>
MCPages2 == [d \in {0, 1, 2} |-> CASE d = 0 -> << <<1>>, <<2>> >> [] d = 1 -> << <<>> >> [] OTHER -> << <<3, 4>>, <<>> >>]
MCDbSeq3 == <<2, 0>>
MCPages3 == [d \in {0, 2} |-> IF d = 0 THEN << <<>>, <<1, 2, 3>>, <<4>> >> ELSE << <<5, 6>>, <<7>>, <<>> >>]
=============================================================================
