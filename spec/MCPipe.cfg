CONSTANTS Cap = 2 MaxBytes = 4 Chunks = {0,1,2,3}
SPECIFICATION Spec1
INVARIANTS Fifo ParkedOnlyIfBlocked DrainBeforeError Bounded
PROPERTY RefinesAbs
VIEW View1
CHECK_DEADLOCK FALSE
