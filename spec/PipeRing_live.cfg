CONSTANTS Cap = 2 MaxBytes = 3 Chunks = {0,1,3} DevNoSignal = FALSE DevNoReset = FALSE
SPECIFICATION FairSpec
PROPERTY Progress
CHECK_DEADLOCK FALSE
