SPECIFICATION Spec
CONSTANT MaxLen = 4
INVARIANT Agree
