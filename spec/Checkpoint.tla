----------------------------- MODULE Checkpoint -----------------------------
(* C14: resume picks its own source's newest checkpoint.
   The target holds, per logical database, one hash "redis-shake-checkpoint" whose fields are
   "<source>-offset", "<source>-runid", "<source>-version" (written by the incremental sender,
   see IncrSync) next to ordinary data.  This module generates every target state reachable by a
   few writes / partial damages from several sources - including source addresses that are
   prefixes of one another - and states the CONTRACT of LoadCheckpoint(source) as an operator;
   `exp` always holds the contract's answer for every source in the current state. *)
EXTENDS Integers, FiniteSets, TLC
CONSTANTS Srcs, Dbs, MaxSteps, MaxDamage
VARIABLES off,    \* off[d][s]  : stored offset of source s in db d, -1 = field absent
          rid,    \* rid[d][s]  : run-id field present
          ver,    \* ver[d][s]  : version field value, -1 = absent
          data,   \* data[d]    : the db holds ordinary keys
          t, dmg, exp
vars == <<off, rid, ver, data, t, dmg, exp>>

InKeyspace(o, r, v, dt, d) == dt[d] \/ \E s \in Srcs : o[d][s] >= 0 \/ r[d][s] \/ v[d][s] >= 0

\* ---- the contract of Load(s) on a target state ----
LoadExp(o, r, v, dt, s) ==
  LET cand == {d \in Dbs : InKeyspace(o, r, v, dt, d) /\ o[d][s] >= 0} IN
  IF cand = {} THEN [kind |-> "none"]                               \* offset -1: a full sync follows
  ELSE LET best == CHOOSE d \in cand : \A e \in cand : o[e][s] <= o[d][s]
           vv   == IF v[best][s] = -1 THEN 0 ELSE v[best][s] IN
       IF vv < 1 THEN [kind |-> "refused"]                          \* written by an incompatible older version
       ELSE [kind |-> "ok", offset |-> o[best][s], runid |-> r[best][s],      \* runid FALSE = "?" (unknown)
             db |-> IF r[best][s] THEN best ELSE -1,
             \* own stale entries removed everywhere except the chosen db (everywhere if the run id is unknown)
             cleared |-> {d \in Dbs : InKeyspace(o, r, v, dt, d) /\ (d # best \/ ~r[best][s])}]
ExpAll(o, r, v, dt) == [s \in Srcs |-> LoadExp(o, r, v, dt, s)]

Init == /\ off = [d \in Dbs |-> [s \in Srcs |-> -1]] /\ rid = [d \in Dbs |-> [s \in Srcs |-> FALSE]]
        /\ ver = [d \in Dbs |-> [s \in Srcs |-> -1]] /\ data = [d \in Dbs |-> FALSE]
        /\ t = 0 /\ dmg = 0 /\ exp = ExpAll(off, rid, ver, data)

Upd == exp' = ExpAll(off', rid', ver', data')
\* what the incremental sender emits with a batch: offset always; run id + version the first time it
\* touches the db in this run
SenderWrite(s, d, first) ==
  /\ t < MaxSteps /\ t' = t + 1
  /\ off' = [off EXCEPT ![d][s] = 100 * (t + 1)]
  /\ rid' = IF first THEN [rid EXCEPT ![d][s] = TRUE] ELSE rid
  /\ ver' = IF first THEN [ver EXCEPT ![d][s] = 1] ELSE ver
  /\ UNCHANGED <<data, dmg>> /\ Upd
DataWrite(d) == /\ ~data[d] /\ data' = [data EXCEPT ![d] = TRUE] /\ UNCHANGED <<off, rid, ver, t, dmg>> /\ Upd
\* partial / damaged / legacy checkpoints
Damage(s, d, k) ==
  /\ dmg < MaxDamage /\ dmg' = dmg + 1 /\ (off[d][s] >= 0 \/ rid[d][s])
  /\ CASE k = "clear"    -> off' = [off EXCEPT ![d][s] = -1] /\ rid' = [rid EXCEPT ![d][s] = FALSE] /\ ver' = ver
       [] k = "norunid"  -> rid' = [rid EXCEPT ![d][s] = FALSE] /\ off' = off /\ ver' = ver
       [] k = "nover"    -> ver' = [ver EXCEPT ![d][s] = -1] /\ off' = off /\ rid' = rid
       [] k = "ver0"     -> ver' = [ver EXCEPT ![d][s] = 0] /\ off' = off /\ rid' = rid
  /\ UNCHANGED <<data, t>> /\ Upd
Next == \/ \E s \in Srcs, d \in Dbs, f \in BOOLEAN : SenderWrite(s, d, f)
        \/ \E d \in Dbs : DataWrite(d)
        \/ \E s \in Srcs, d \in Dbs, k \in {"clear", "norunid", "nover", "ver0"} : Damage(s, d, k)
Spec == Init /\ [][Next]_vars

\* ---- consequences of the contract, checked in every generated state ----
OthersIgnored == \A s \in Srcs : exp[s].kind = "ok" => \E d \in Dbs : off[d][s] = exp[s].offset
Newest == \A s \in Srcs : exp[s].kind = "ok" => \A d \in Dbs : InKeyspace(off, rid, ver, data, d) => off[d][s] <= exp[s].offset
NoneIffNoOwn == \A s \in Srcs : exp[s].kind = "none" <=> \A d \in Dbs : ~(InKeyspace(off, rid, ver, data, d) /\ off[d][s] >= 0)
UnknownRunIdForcesFullSync == \A s \in Srcs : exp[s].kind = "ok" /\ ~exp[s].runid => exp[s].db = -1
=============================================================================
