-------------------------------- MODULE System --------------------------------
(* The life cycle of one sync-mode syncer (DbSyncer.Sync) end to end, composing what C04 (checkpoint
   atomic with the data), C05 (hand-off), C07 (full sync) and C08 (offsets) each state for their own
   stage:  checkpoint load -> PSYNC (full or continue) -> [RDB restore] -> incremental sync with
   checkpointed batches -> connection drops with re-PSYNC at the next byte -> process restarts that
   resume from the stored checkpoint.

   The stream is NCmds commands of CmdLen bytes each (so a connection can break INSIDE a command).
   The source sends bytes; the tool's copy loop receives them into a pipe that survives reconnects;
   whole commands are parsed and applied to the target in batches, each batch in one transaction
   together with the checkpoint (offset of the end of its last command).

     Drop / Reconnect   bytes in flight are lost; the tool asks for byte recv+1; the partial command in
                        the pipe is completed by the new connection.
     Crash / Restart    everything volatile is lost (bytes received but not applied); the restarted
                        tool reads the checkpoint and asks for byte ckpt+1.
     Refuse             the source cannot continue at the requested byte (backlog gone): the tool stops
                        (it must not silently continue from elsewhere).

   Contract:
     ExactlyOnce   the commands applied to the target are 1, 2, 3, ... in order, no gap, no repeat;
     CkptAtomic    the stored checkpoint is always the end offset of the last applied command;
     NeverAhead    nothing is applied that was not received, nothing received that was not sent;
     ResumeExact   every (re)PSYNC asks for exactly the byte after what is held (pipe) or stored (checkpoint);
     Completes     with finitely many faults everything is eventually applied (weak fairness).

   Deviation switch (makes TLC produce a counter-example; off for the tool as built):
     DevCkptAfterData      the checkpoint is written in a separate step after the data: a crash in
                           between re-applies the batch after the restart                             *)
EXTENDS Integers, Sequences, TLC
CONSTANTS NCmds, CmdLen, MaxDrops, MaxCrashes, DevCkptAfterData
VARIABLES sent,        \* stream position the source has written up to (bytes)
          recv,        \* stream position the tool holds up to (bytes handed to the pipe / parser)
          ppos,        \* stream position the parser has consumed up to (always a command boundary)
          applied,     \* sequence of command numbers applied to the target, in order
          ckpt,        \* checkpoint offset stored on the target (0: none)
          pendingCk,   \* DevCkptAfterData: checkpoint still to be written (0: nothing pending)
          up, phase,   \* connection state; "run" | "crashed" | "stopped"
          reqs,        \* offsets asked for by (re)PSYNC, with what was held at that moment
          drops, crashes
vars == <<sent, recv, ppos, applied, ckpt, pendingCk, up, phase, reqs, drops, crashes>>
Total == NCmds * CmdLen
EndOf(c) == c * CmdLen
Init == sent = 0 /\ recv = 0 /\ ppos = 0 /\ applied = <<>> /\ ckpt = 0 /\ pendingCk = 0 /\ up = TRUE /\ phase = "run"
        /\ reqs = <<>> /\ drops = 0 /\ crashes = 0
SrcSend == /\ up /\ phase = "run" /\ sent < Total /\ \E k \in 1..(Total - sent) : sent' = sent + k
           /\ UNCHANGED <<recv, ppos, applied, ckpt, pendingCk, up, phase, reqs, drops, crashes>>
Recv == /\ up /\ phase = "run" /\ recv < sent /\ \E k \in 1..(sent - recv) : recv' = recv + k
        /\ UNCHANGED <<sent, ppos, applied, ckpt, pendingCk, up, phase, reqs, drops, crashes>>
\* one target transaction: the next m whole commands held, plus the checkpoint
Apply == /\ phase = "run" /\ pendingCk = 0
         /\ \E m \in 1..NCmds :
              /\ ppos + m * CmdLen <= recv
              /\ applied' = applied \o [i \in 1..m |-> (ppos \div CmdLen) + i]
              /\ ppos' = ppos + m * CmdLen
              /\ IF DevCkptAfterData THEN pendingCk' = ppos + m * CmdLen /\ ckpt' = ckpt
                 ELSE ckpt' = ppos + m * CmdLen /\ pendingCk' = 0
         /\ UNCHANGED <<sent, recv, up, phase, reqs, drops, crashes>>
WriteCkpt == /\ phase = "run" /\ pendingCk # 0 /\ ckpt' = pendingCk /\ pendingCk' = 0
             /\ UNCHANGED <<sent, recv, ppos, applied, up, phase, reqs, drops, crashes>>
Drop == /\ up /\ phase = "run" /\ drops < MaxDrops /\ up' = FALSE /\ drops' = drops + 1
        /\ UNCHANGED <<sent, recv, ppos, applied, ckpt, pendingCk, phase, reqs, crashes>>
Reconnect == /\ ~up /\ phase = "run"
             /\ reqs' = Append(reqs, [req |-> recv + 1, held |-> recv])
             /\ sent' = recv /\ up' = TRUE
             /\ UNCHANGED <<recv, ppos, applied, ckpt, pendingCk, phase, drops, crashes>>
Crash == /\ phase = "run" /\ crashes < MaxCrashes /\ phase' = "crashed" /\ up' = FALSE /\ crashes' = crashes + 1
         /\ pendingCk' = 0                                           \* a checkpoint not yet written is lost
         /\ UNCHANGED <<sent, recv, ppos, applied, ckpt, reqs, drops>>
Restart == /\ phase = "crashed" /\ phase' = "run" /\ up' = TRUE
           /\ recv' = ckpt /\ sent' = ckpt /\ ppos' = ckpt             \* resume: PSYNC runid ckpt+1
           /\ reqs' = Append(reqs, [req |-> ckpt + 1, held |-> ckpt])
           /\ applied' = applied                                     \* the target keeps its data
           /\ UNCHANGED <<ckpt, pendingCk, drops, crashes>>
Refuse == /\ ~up /\ phase = "run" /\ phase' = "stopped"
          /\ UNCHANGED <<sent, recv, ppos, applied, ckpt, pendingCk, up, reqs, drops, crashes>>
Next == SrcSend \/ Recv \/ Apply \/ WriteCkpt \/ Drop \/ Reconnect \/ Crash \/ Restart \/ Refuse
Spec == Init /\ [][Next]_vars /\ WF_vars(SrcSend) /\ WF_vars(Recv) /\ WF_vars(Apply) /\ WF_vars(WriteCkpt) /\ WF_vars(Reconnect) /\ WF_vars(Restart)

ExactlyOnce == \A i \in 1..Len(applied) : applied[i] = i
CkptAtomic == ckpt = EndOf(Len(applied))
NeverAhead == phase = "run" => (ppos <= recv /\ ppos % CmdLen = 0)
SentCoversRecv == (up /\ phase = "run") => recv <= sent
ResumeExact == \A i \in 1..Len(reqs) : reqs[i].req = reqs[i].held + 1
Completes == <>(phase = "stopped" \/ Len(applied) = NCmds)
=============================================================================
