"""Shared machinery for the /verif checks: building the Go driver from /repo's working tree,
running TLC in a scratch directory, parsing TLC output / state graphs, path covers for
spec->code replay, known-findings handling, evidence and replay files.

Exit-code convention used by every check (see DESIGN.md 3.3):
  0  property held on everything explored (KNOWN-FINDING lines allowed)
  1  a violation observed on the REAL code that known_findings.json does not list
  2  the machinery itself failed (build error, TLC error, timeout, dead driver) -- never a verdict
"""
import hashlib
import json
import os
import re
import shutil
import subprocess
import sys
import tempfile
import time

ROOT = os.path.dirname(os.path.dirname(os.path.abspath(__file__)))
REPO = os.environ.get("VERIF_REPO", "/repo")
SPEC = os.path.join(ROOT, "spec")
HARNESS = os.path.join(ROOT, "harness")
BUILD = os.path.join(ROOT, ".build")
VDRV = os.path.join(BUILD, "vdrv")
NCPU = os.cpu_count() or 4

GOENV = dict(os.environ, GOFLAGS="-mod=mod", GOPROXY="off", GOSUMDB="off", GOTOOLCHAIN="local",
             CGO_ENABLED="0")


class Infra(Exception):
    """The machinery failed; maps to exit 2."""


def log(*a):
    print(*a, file=sys.stderr, flush=True)


# ------------------------------------------------------------------ building the driver

def build_vdrv():
    """Rebuild the driver against /repo/src as it is right now (hooks on: -tags verif)."""
    os.makedirs(BUILD, exist_ok=True)
    src = os.path.join(REPO, "src")
    shutil.copyfile(os.path.join(src, "go.sum"), os.path.join(HARNESS, "go.sum"))
    gomod = os.path.join(HARNESS, "go.mod")
    txt = open(gomod).read()
    want = "replace github.com/alibaba/RedisShake => %s" % src
    new = re.sub(r"replace github.com/alibaba/RedisShake => \S+", want, txt)
    if new != txt:
        open(gomod, "w").write(new)
    t0 = time.time()
    p = subprocess.run(["go", "build", "-tags", "verif", "-o", VDRV, "./cmd/vdrv"], cwd=HARNESS,
                       env=GOENV, stdout=subprocess.PIPE, stderr=subprocess.STDOUT, text=True)
    if p.returncode != 0:
        raise Infra("building vdrv from %s failed:\n%s" % (src, p.stdout[-4000:]))
    log("[build] vdrv built from %s in %.1fs" % (src, time.time() - t0))
    return VDRV


def run_vdrv(args, stdin=None, timeout=600, env=None):
    """Run the driver; returns (rc, stdout, stderr)."""
    e = dict(GOENV)
    if env:
        e.update(env)
    try:
        p = subprocess.run([VDRV] + list(args), input=stdin, stdout=subprocess.PIPE,
                           stderr=subprocess.PIPE, text=True, errors="replace", timeout=timeout, env=e)
    except subprocess.TimeoutExpired:
        raise Infra("vdrv %s timed out after %ss" % (" ".join(args[:3]), timeout))
    return p.returncode, p.stdout, p.stderr


def tool_panic(stderr_text):
    """If the driver process died of a Go runtime panic raised inside the TOOL's own code (a goroutine the tool started, which
    no harness recover() can reach), return 'message @ file:line' of the first tool frame; None when the first non-runtime frame
    belongs to the harness (then it is our bug: exit 2)."""
    m = re.search(r"^panic: (.*)$", stderr_text, re.M)
    if not m:
        return None
    tail = stderr_text[m.end():]
    for fm in re.finditer(r"^\s+(/\S+\.go):(\d+)", tail, re.M):
        path = fm.group(1)
        if "/go-" in path or path.startswith("/usr/lib/go") or "/opt/veriftools/go" in path or "/pkg/mod/" in path:
            continue
        src = os.path.join(REPO, "src") + os.sep
        if path.startswith(src):
            return "%s @ %s:%s" % (m.group(1)[:160], path[len(src):], fm.group(2))
        return None
    return None


# ------------------------------------------------------------------ scratch directories

class Scratch:
    def __init__(self, tag):
        self.dir = tempfile.mkdtemp(prefix="verif-%s-" % tag)

    def path(self, *p):
        return os.path.join(self.dir, *p)

    def cleanup(self):
        shutil.rmtree(self.dir, ignore_errors=True)

    def __enter__(self):
        return self

    def __exit__(self, *a):
        if os.environ.get("VERIF_KEEP"):
            log("[scratch] kept", self.dir)
        else:
            self.cleanup()


# ------------------------------------------------------------------ TLC

class TLCResult:
    def __init__(self):
        self.rc = None
        self.out = ""
        self.generated = 0
        self.distinct = 0
        self.depth = 0
        self.violated = None      # name of violated invariant / property, if any
        self.error_trace = []     # list of parsed states (dict) of a counter-example
        self.wall = 0.0
        self.cmd = ""

    @property
    def ok(self):
        return self.rc == 0


def stage_specs(sc, extra_files=()):
    """Copy every spec file into the scratch dir (TLC litters its working dir)."""
    for f in os.listdir(SPEC):
        if f.endswith((".tla", ".cfg")):
            shutil.copyfile(os.path.join(SPEC, f), sc.path(f))
    for src, name in extra_files:
        shutil.copyfile(src, sc.path(name))


def tlc(sc, module, cfg, workers=None, extra=(), timeout=600, dfs=False, xss=True, simulate=None,
        env_extra=None):
    """Run TLC on <module>.tla with <cfg> inside scratch dir sc. Returns TLCResult."""
    r = TLCResult()
    w = str(workers if workers else NCPU)
    meta = tempfile.mkdtemp(prefix="meta-", dir=sc.dir)
    cmd = ["tlc", "-metadir", meta, "-config", cfg, "-workers", w, "-noGenerateSpecTE"]
    if simulate:
        cmd += ["-simulate", simulate]
    cmd += list(extra) + [module]
    env = dict(os.environ)
    jopts = ["-Djava.io.tmpdir=" + meta]   # TLC leaves an empty tlc-<n> directory in the JVM's temp dir on every run
    if xss:
        jopts.append("-Xss512m")
    if dfs:
        jopts.append("-Dtlc2.tool.queue.IStateQueue=StateDeque")
    if jopts:
        env["JAVA_TOOL_OPTIONS"] = " ".join(jopts)
    if env_extra:
        env.update(env_extra)
    r.cmd = " ".join(cmd[:1] + cmd[3:])
    t0 = time.time()
    try:
        p = subprocess.run(cmd, cwd=sc.dir, stdout=subprocess.PIPE, stderr=subprocess.STDOUT,
                           text=True, timeout=timeout, env=env)
    except subprocess.TimeoutExpired as e:
        subprocess.run(["pkill", "-f", meta], check=False)
        raise Infra("TLC timed out after %ss: %s" % (timeout, r.cmd))
    r.wall = time.time() - t0
    r.rc, r.out = p.returncode, p.stdout
    shutil.rmtree(meta, ignore_errors=True)
    m = None
    for m in re.finditer(r"(\d+) states generated, (\d+) distinct states found", r.out):
        pass
    if m:
        r.generated, r.distinct = int(m.group(1)), int(m.group(2))
    m = re.search(r"The depth of the complete state graph search is (\d+)", r.out)
    if m:
        r.depth = int(m.group(1))
    m = re.search(r"Invariant (\S+) is violated", r.out)
    if m:
        r.violated = m.group(1)
    m2 = re.search(r"Action property (\S+) is violated|Temporal properties were violated", r.out)
    if m2 and not r.violated:
        r.violated = m2.group(1) or "temporal"
    if r.rc not in (0, 12, 13):
        # 12 = safety violation, 13 = liveness violation; anything else is a tool failure
        if "Error:" in r.out or r.rc >= 75 or r.rc in (1, 10, 11):
            pass
    if r.violated or r.rc in (12, 13):
        r.error_trace = parse_error_trace(r.out)
    return r


def apalache_inductive(sc, module, cinit="ConstInit", timeout=900):
    """Discharge an inductive invariant with Apalache: Init => IndInv, IndInv /\ Next => IndInv', IndInv => Safety (the module
    defines ConstInit, Init, IndInit, IndInv, Safety, Next).  Returns the list of commands; raises Infra when a step fails."""
    cmds = []
    for what, args in (("initiation", ["--init=Init", "--inv=IndInv", "--length=0"]), ("consecution", ["--init=IndInit", "--inv=IndInv", "--length=1"]),
                       ("implies safety", ["--init=IndInit", "--inv=Safety", "--length=0"])):
        cmd = ["apalache-mc", "check", "--cinit=" + cinit, "--out-dir=" + sc.path("apalache-out")] + args + [module + ".tla"]
        try:
            p = subprocess.run(cmd, cwd=sc.dir, stdout=subprocess.PIPE, stderr=subprocess.STDOUT, text=True, timeout=timeout)
        except subprocess.TimeoutExpired:
            raise Infra("apalache timed out on %s (%s)" % (module, what))
        if "EXITCODE: OK" not in p.stdout:
            raise Infra("apalache could not discharge %s %s:\n%s" % (module, what, p.stdout[-2500:]))
        cmds.append(" ".join(cmd[:3] + args + [module + ".tla"]))
    return cmds


def tlc_must_pass(sc, module, cfg, **kw):
    r = tlc(sc, module, cfg, **kw)
    if r.rc != 0:
        raise Infra("TLC failed on %s/%s (rc=%s):\n%s" % (module, cfg, r.rc, r.out[-3000:]))
    return r


# ------------------------------------------------------------------ TLA+ value parser

class _P:
    def __init__(self, s):
        self.s = s
        self.i = 0

    def ws(self):
        while self.i < len(self.s) and self.s[self.i] in " \t\r\n":
            self.i += 1

    def peek(self, t):
        self.ws()
        return self.s.startswith(t, self.i)

    def eat(self, t):
        self.ws()
        if not self.s.startswith(t, self.i):
            raise ValueError("expected %r at %d: %r" % (t, self.i, self.s[self.i:self.i + 40]))
        self.i += len(t)

    def value(self):
        self.ws()
        s = self.s
        c = s[self.i]
        if c == '"':
            j = self.i + 1
            out = []
            while s[j] != '"':
                if s[j] == "\\":
                    j += 1
                    out.append({"n": "\n", "t": "\t", "r": "\r"}.get(s[j], s[j]))
                else:
                    out.append(s[j])
                j += 1
            self.i = j + 1
            return "".join(out)
        if s.startswith("<<", self.i):
            self.i += 2
            out = []
            if self.peek(">>"):
                self.eat(">>")
                return out
            while True:
                out.append(self.value())
                if self.peek(","):
                    self.eat(",")
                    continue
                self.eat(">>")
                return out
        if c == "{":
            self.i += 1
            out = []
            if self.peek("}"):
                self.eat("}")
                return out
            while True:
                out.append(self.value())
                if self.peek(","):
                    self.eat(",")
                    continue
                self.eat("}")
                return out
        if c == "[":
            self.i += 1
            rec = {}
            while True:
                self.ws()
                m = re.compile(r"[A-Za-z_][A-Za-z0-9_]*").match(s, self.i)
                if not m:
                    raise ValueError("record field expected at %d" % self.i)
                self.i = m.end()
                self.eat("|->")
                rec[m.group(0)] = self.value()
                if self.peek(","):
                    self.eat(",")
                    continue
                self.eat("]")
                return rec
        if c == "(":
            # function displayed as (k1 :> v1 @@ k2 :> v2)
            self.i += 1
            fn = {}
            while True:
                k = self.value()
                self.eat(":>")
                fn[k if isinstance(k, (str, int)) else json.dumps(k)] = self.value()
                if self.peek("@@"):
                    self.eat("@@")
                    continue
                self.eat(")")
                return fn
        m = re.compile(r"-?\d+").match(s, self.i)
        if m:
            self.i = m.end()
            return int(m.group(0))
        m = re.compile(r"[A-Za-z_][A-Za-z0-9_]*").match(s, self.i)
        if m:
            self.i = m.end()
            w = m.group(0)
            if w == "TRUE":
                return True
            if w == "FALSE":
                return False
            return w  # model value
        raise ValueError("cannot parse TLA+ value at %d: %r" % (self.i, s[self.i:self.i + 40]))


def parse_value(s):
    return _P(s).value()


def parse_state(text):
    """Parse '/\\ a = 1\n/\\ b = <<>>' (TLC's state rendering) into a dict."""
    st = {}
    parts = re.split(r"(?:^|\n)\s*/\\ ", "\n" + text.strip())
    for part in parts:
        part = part.strip()
        if not part:
            continue
        m = re.match(r"([A-Za-z_][A-Za-z0-9_]*) = (.*)$", part, re.S)
        if not m:
            continue
        st[m.group(1)] = parse_value(m.group(2))
    return st


def parse_error_trace(out):
    states = []
    for m in re.finditer(r"State \d+: <([^>]*)>\n(.*?)(?=\n\n|\nState \d+:|\Z)", out, re.S):
        try:
            st = parse_state(m.group(2))
            st["_action"] = m.group(1).split(" ")[0]
            states.append(st)
        except Exception as e:  # diagnostics only
            states.append({"_raw": m.group(2), "_err": str(e)})
    return states


# ------------------------------------------------------------------ state graph -> replay paths

def _unescape(lbl):
    out = []
    i = 0
    while i < len(lbl):
        c = lbl[i]
        if c == "\\" and i + 1 < len(lbl):
            n = lbl[i + 1]
            if n == "n":
                out.append("\n")
            elif n == "\\":
                out.append("\\")
            elif n == '"':
                out.append('"')
            else:
                out.append(c + n)
            i += 2
        else:
            out.append(c)
            i += 1
    return "".join(out)


def load_dot(path, fields=None):
    """Parse a TLC '-dump dot,actionlabels' file: returns (nodes{id:state}, edges[(u,v,label)], inits).
    fields: only these variables are parsed out of each state (much faster on big graphs)."""
    nodes, edges, inits = {}, [], []
    edge_re = re.compile(r'^(-?\d+) -> (-?\d+) \[label="([^"]*)"')
    node_re = re.compile(r'^(-?\d+) \[label="')
    with open(path) as f:
        for line in f:
            m = edge_re.match(line)
            if m:
                edges.append((m.group(1), m.group(2), m.group(3)))
                continue
            m = node_re.match(line)
            if not m:
                continue
            # the label ends at the first unescaped quote
            i = m.end()
            j = i
            while True:
                j = line.index('"', j)
                k = j - 1
                bs = 0
                while line[k] == "\\":
                    bs += 1
                    k -= 1
                if bs % 2 == 0:
                    break
                j += 1
            text = _unescape(line[i:j])
            if fields is None:
                nodes[m.group(1)] = parse_state(text)
            else:
                st = {}
                for part in text.split("\n/\\ "):
                    part = part.lstrip("/\\ ")
                    name, _, val = part.partition(" = ")
                    if name in fields:
                        st[name] = parse_value(val)
                nodes[m.group(1)] = st
            if line.startswith(',style = filled', j + 1):
                inits.append(m.group(1))
    return nodes, edges, inits


def cover_paths(nodes, edges, inits, max_len=60, limit=None, seed=0):
    """Transition cover with resets: every edge of the graph is on at least one returned path.
    A path is a list of node ids starting at an initial state.  Self-loops (stuttering) are skipped."""
    import random
    from collections import deque
    rnd = random.Random(seed)
    out = {}
    for u, v, l in edges:
        if u == v:
            continue
        out.setdefault(u, []).append(v)
    for u in out:
        out[u] = sorted(set(out[u]))
        rnd.shuffle(out[u])
    parent = {}
    dq = deque()
    for i in inits:
        parent[i] = None
        dq.append(i)
    order = []
    while dq:
        u = dq.popleft()
        order.append(u)
        for v in out.get(u, []):
            if v not in parent:
                parent[v] = u
                dq.append(v)

    def tree_path(u):
        p = []
        while u is not None:
            p.append(u)
            u = parent[u]
        return p[::-1]

    covered = set()
    paths = []
    for u in order:
        for v in out.get(u, []):
            if (u, v) in covered:
                continue
            p = tree_path(u)
            for a, b in zip(p, p[1:]):
                covered.add((a, b))
            p.append(v)
            covered.add((u, v))
            cur = v
            while len(p) < max_len:
                nxt = [w for w in out.get(cur, []) if (cur, w) not in covered]
                if not nxt:
                    break
                w = nxt[0]
                covered.add((cur, w))
                p.append(w)
                cur = w
            paths.append(p)
            if limit and len(paths) >= limit:
                return paths, len(covered)
    return paths, len(covered)


def tlc_graph(sc, module, cfg, timeout=900, workers=None, fields=None):
    """Model-check and dump the state graph; returns (TLCResult, nodes, edges, inits)."""
    dot = sc.path("graph_%s" % cfg.replace(".cfg", ""))
    r = tlc(sc, module, cfg, extra=["-dump", "dot,actionlabels", dot], timeout=timeout, workers=workers)
    if r.rc != 0:
        raise Infra("TLC failed on %s/%s (rc=%s):\n%s" % (module, cfg, r.rc, r.out[-3000:]))
    nodes, edges, inits = load_dot(dot + ".dot", fields)
    os.remove(dot + ".dot")
    return r, nodes, edges, inits


def sim_paths(sc, module, cfg, num, depth, seed, fields=None, timeout=600, with_init=False):
    """Random behaviours from TLC's simulator: returns (TLCResult, list of paths); a path is the
    list of states (dicts, optionally restricted to `fields`) after the initial state."""
    d = tempfile.mkdtemp(prefix="sim-", dir=sc.dir)
    r = tlc(sc, module, cfg, workers=1, simulate="file=%s/b,num=%d" % (d, num),
            extra=["-depth", str(depth), "-seed", str(seed)], timeout=timeout)
    if r.rc != 0:
        raise Infra("TLC simulate failed on %s/%s (rc=%s):\n%s" % (module, cfg, r.rc, r.out[-3000:]))
    m = re.search(r"The number of states generated: (\d+)", r.out)
    if m:
        r.generated = r.distinct = int(m.group(1))
    paths = []
    for fn in sorted(os.listdir(d)):
        txt = open(os.path.join(d, fn)).read()
        states = []
        for blk in re.split(r"\nSTATE_\d+ ==\s*\n", txt)[1:]:
            blk = blk.split("\n\n")[0]
            if fields is None:
                states.append(parse_state(blk))
            else:
                st = {}
                for part in blk.split("\n/\\ "):
                    part = part.lstrip("/\\ ")
                    name, _, val = part.partition(" = ")
                    if name in fields:
                        st[name] = parse_value(val)
                states.append(st)
        if with_init:
            if states:
                paths.append(states)
        elif len(states) > 1:
            paths.append(states[1:])
    shutil.rmtree(d, ignore_errors=True)
    return r, paths


# ------------------------------------------------------------------ known findings, verdicts, evidence

def load_known():
    p = os.path.join(ROOT, "known_findings.json")
    if not os.path.exists(p):
        return []
    return json.load(open(p)).get("findings", [])


class Verdict:
    """Collects violations observed on the real code and matches them against known findings."""

    def __init__(self, pid):
        self.pid = pid
        self.violations = []   # (signature dict, detail, replay payload)
        self.known_hits = {}
        self.known = [k for k in load_known() if k.get("property") == pid and k.get("status") == "open"]

    def violation(self, sig, detail, replay=None):
        """sig: dict of machine-matchable facts about the failing case."""
        for k in self.known:
            ms = k.get("match", {})
            if any(all(_match(sig.get(f), want) for f, want in m.items()) for m in (ms if isinstance(ms, list) else [ms])):
                self.known_hits.setdefault(k["id"], [k, 0])[1] += 1
                return False
        self.violations.append((sig, detail, replay))
        return True

    def finish(self):
        for kid, (k, n) in sorted(self.known_hits.items()):
            print("KNOWN-FINDING: property=%s %s (%s; matched %d case(s))" % (self.pid, k["what"], kid, n))
        if not self.violations:
            return 0
        os.makedirs(os.path.join(ROOT, "replays"), exist_ok=True)
        seen = set()
        for sig, detail, replay in self.violations[:5]:
            blob = json.dumps({"property": self.pid, "signature": sig, "detail": detail, "replay": replay},
                              indent=1, sort_keys=True, default=str)
            h = hashlib.sha1(blob.encode()).hexdigest()[:12]
            path = os.path.join(ROOT, "replays", "%s-%s.json" % (self.pid, h))
            if path in seen:
                continue
            seen.add(path)
            open(path, "w").write(blob)
            log("[violation] %s %s" % (json.dumps(sig, sort_keys=True, default=str), str(detail)[:1500]))
            print("VIOLATION property=%s replay=%s" % (self.pid, path))
        if len(self.violations) > 5:
            log("[violation] ... and %d more" % (len(self.violations) - 5))
            classes = {}
            for sig, _, _ in self.violations:
                k = json.dumps(sig, sort_keys=True, default=str)
                classes[k] = classes.get(k, 0) + 1
            for k, n in sorted(classes.items(), key=lambda x: -x[1])[:25]:
                log("[violation-class] %5d x %s" % (n, k))
        return 1


def _match(have, want):
    if isinstance(want, dict) and "re" in want:
        return have is not None and re.search(want["re"], str(have)) is not None
    if isinstance(want, list):
        return have in want
    return have == want


def write_evidence(pid, tier, seed, level, coverage, wall, violations, assumptions=()):
    os.makedirs(os.path.join(ROOT, "evidence"), exist_ok=True)
    ev = {"property_id": pid, "tier": tier, "seed": int(seed), "level": level, "coverage": coverage,
          "assumptions": list(assumptions), "wall_s": round(wall, 2), "violations": int(violations)}
    tmp = os.path.join(ROOT, "evidence", ".%s.json.tmp" % pid)
    with open(tmp, "w") as f:
        json.dump(ev, f, indent=1, sort_keys=True, default=str)
    os.replace(tmp, os.path.join(ROOT, "evidence", "%s.json" % pid))


def tier_seed(argv):
    tier = os.environ.get("VERIF_TIER", "quick")
    for a in argv:
        if a in ("quick", "thorough"):
            tier = a
    try:
        seed = int(os.environ.get("VERIF_SEED", "1"))
    except ValueError:
        seed = 1
    return tier, seed


def read_ndjson(path):
    out = []
    with open(path) as f:
        for line in f:
            line = line.strip()
            if line:
                out.append(json.loads(line))
    return out


def write_ndjson(path, rows):
    with open(path, "w") as f:
        for r in rows:
            f.write(json.dumps(r, separators=(",", ":")) + "\n")
