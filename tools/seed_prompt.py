#!/usr/bin/env python3
"""Prints the prompt for a mutation sub-agent: only the property text and its scratch worktree."""
import json, sys
pid = sys.argv[1]
rnd = int(sys.argv[2]) if len(sys.argv) > 2 else 1
wt = "/tmp/wt-%s" % pid if rnd == 1 else "/tmp/wt%d-%s" % (rnd, pid)
extra = "" if rnd == 1 else (" This is a LATER ROUND: the most obvious ways of breaking this property have been tried already. Look in less obvious places - helpers the "
    "anchored code calls, boundary conditions and sizes, rarely taken branches (error paths, retries, reconnects, fallbacks), concurrency details (ordering of two "
    "statements, a lock released early, a shared buffer), interactions between two configuration options - and do not use the first idea that comes to mind. "
    "Deliver each demonstration as ONE self-contained test file if at all possible.")
p = [json.loads(l) for l in open('/verif/properties.jsonl') if json.loads(l)['id'] == pid][0]
prop = {k: p[k] for k in ("id", "title", "statement", "quantifier", "why_tests_cant", "anchors")}
print(f"""You are helping calibrate a verification effort for the Go project bejelith/RedisShake (a fork of Alibaba RedisShake: dumps, decodes, restores and live-syncs Redis data via RDB parsing and PSYNC replication). You have your own scratch git worktree of the repository at {wt} (Go module root: {wt}/src, module path github.com/alibaba/RedisShake). Work ONLY inside {wt}; never touch /repo or /verif (do not even read /verif). There is no network. Before any go command: `export GOFLAGS=-mod=mod GOPROXY=off GOSUMDB=off GOTOOLCHAIN=local`. Note: the package redis-shake/main does not compile in this tree and is irrelevant; everything else builds (`cd {wt}/src && go build ./pkg/... ./redis-shake/common/... ./redis-shake/dbSync/... ./redis-shake/filter/... ./redis-shake/checkpoint/... ./redis-shake/scanner/... ./redis-shake/metric/... ./redis-shake`). The existing test suite that must stay green is `cd {wt}/src && go test -vet=off -count=1 ./pkg/...` (the package pkg/libs/cupcake/rdb fails already on the unchanged tree because its fixtures are missing — ignore that one; everything else must pass). Files named hook_verif.go / hook_noverif.go / export_verif.go and calls to verifGate/verifEvent are inert instrumentation: leave them alone.

Here is ONE semantic property that the code is supposed to satisfy:

{json.dumps(prop, indent=1)}

Your task: produce TWO different, realistic code changes (bugs a developer could plausibly introduce in a refactoring, optimisation or "fix"), each of which BREAKS this property while the tree still compiles and the existing test suite still passes. The two should break the property through different mechanisms / different code sites. Prefer changes that need something specific to manifest — a particular interleaving, a crash or fault at a particular point, a multi-step sequence of operations, an unusual input or configuration, a boundary size, or two cooperating sites that each look fine alone — NOT ones that ordinary use would expose at once (e.g. do not simply make a function always fail). Keep each change small (a few lines) and local to non-test, non-hook source files.{extra}

For each change k in {{1,2}} deliver a directory {wt}/mutant{{k}}/ containing:
 - patch.diff : `git -C {wt} diff` of ONLY that change against the worktree's HEAD (apply-able with `git apply` from the repository root); make sure the worktree is clean (git checkout -- .) before you start the second change and when you finish.
 - a demonstration: a Go test file (say demo_test.go plus a note of the package directory it must be copied into) or a small standalone Go program, that FAILS (or prints a clearly wrong result / hangs with a timeout) with the change applied and PASSES without it. It must run offline with the flags above. Actually run it both ways and record the outputs.
 - meta.json : {{"property": "{pid}", "summary": "<one line: what the change does>", "mechanism": "<why it breaks the property>", "needs": "<what is needed for it to manifest: interleaving / input / config / sequence>", "files_changed": [...], "demo": "<exact commands to run the demonstration with and without the patch>", "demo_output_with": "<short excerpt>", "demo_output_without": "<short excerpt>", "suite": "<result of the existing suite with the patch applied>"}}

Verify yourself, for each change: (1) it compiles, (2) `go test -vet=off -count=1 ./pkg/...` passes apart from the known cupcake failure, (3) the demonstration fails with it and passes without it. When done, leave the worktree clean (no applied change, demo files only under mutant1/ and mutant2/) and reply with a short summary of both changes.""")
