#!/usr/bin/env python3
"""Handling of seeded changes produced by independent sub-agents.

  seedtool.py confirm <dir>            re-confirm in the scratch worktree: builds, suite green, demo fails with / passes without
  seedtool.py try <dir> <PID> [tier]   apply to /repo, run ./check PID, undo; prints the verdict
  seedtool.py keep <dir> <name> <PID>  copy patch + demo + meta (+ what was run) to /verif/seeded/<name>/
"""
import json
import os
import re
import shutil
import subprocess
import sys

ENV = dict(os.environ, GOFLAGS="-mod=mod", GOPROXY="off", GOSUMDB="off", GOTOOLCHAIN="local")
PKGS = ["./pkg/...", "./redis-shake/common/...", "./redis-shake/dbSync/...", "./redis-shake/filter/...",
        "./redis-shake/checkpoint/...", "./redis-shake/scanner/...", "./redis-shake/metric/...", "./redis-shake"]


def sh(cmd, cwd=None, timeout=1800):
    p = subprocess.run(cmd, shell=True, cwd=cwd, env=ENV, stdout=subprocess.PIPE, stderr=subprocess.STDOUT, text=True, errors="replace", timeout=timeout)
    return p.returncode, p.stdout


def demo_target(d, meta):
    """(destination path relative to the worktree, go test package dir, run regexp)"""
    demo = meta.get("demo", "")
    files = [f for f in os.listdir(d) if f.endswith("_test.go")]
    if not files:
        return None
    m = re.search(r"cp\s+\S*%s\s+(\S+)" % re.escape(files[0]), demo)
    dest = None
    if m:
        dest = m.group(1)
        dest = re.sub(r"^/tmp/wt\d*-[^/]+/", "", dest.rstrip(";)'\""))
    else:
        m = re.search(r"(src/[\w./-]+?)/?[\s;)\"']", demo)
        if m:
            dest = m.group(1)
    if dest is None:
        return None
    if not dest.endswith(".go"):
        dest = os.path.join(dest, "zz_seed_" + files[0])
    tests = re.findall(r"^func (Test\w+)", open(os.path.join(d, files[0])).read(), re.M)
    return files[0], dest, os.path.dirname(dest), "^(%s)$" % "|".join(tests)


def confirm(d):
    d = os.path.abspath(d)
    wt = os.path.dirname(d)
    meta = json.load(open(os.path.join(d, "meta.json")))
    rec = {"dir": d}
    sh("git checkout -- . ", cwd=wt)
    rc, out = sh("git apply --check %s/patch.diff" % d, cwd=wt)
    rec["applies"] = rc == 0
    tgt = demo_target(d, meta)
    if not tgt:
        rec["error"] = "cannot locate demo target; handle manually: " + meta.get("demo", "")[:300]
        print(json.dumps(rec, indent=1))
        return rec
    fname, dest, pkgdir, runre = tgt
    if not dest.startswith("src/"):
        rec["error"] = "demo target outside src/: handle manually: " + dest
        print(json.dumps(rec, indent=1))
        return rec
    shutil.copyfile(os.path.join(d, fname), os.path.join(wt, dest))
    pk = "./" + os.path.relpath(os.path.join(wt, pkgdir), os.path.join(wt, "src"))
    cmd = "go test -vet=off -count=1 -timeout 300s -run '%s' %s" % (runre, pk)
    rc0, out0 = sh(cmd, cwd=os.path.join(wt, "src"))
    rec["demo_cmd"] = cmd
    rec["demo_without"] = {"rc": rc0, "tail": out0[-400:]}
    sh("git apply %s/patch.diff" % d, cwd=wt)
    rc1, out1 = sh(cmd, cwd=os.path.join(wt, "src"))
    rec["demo_with"] = {"rc": rc1, "tail": out1[-600:]}
    os.remove(os.path.join(wt, dest))
    rcb, outb = sh("go build " + " ".join(PKGS), cwd=os.path.join(wt, "src"))
    rec["builds"] = rcb == 0
    rcs, outs = sh("go test -vet=off -count=1 -timeout 20m ./pkg/... 2>&1 | grep -E '^(ok|FAIL|---)' ", cwd=os.path.join(wt, "src"))
    fails = [l for l in outs.splitlines() if l.startswith("FAIL\t") and "cupcake" not in l]
    if any("io/pipe" in l for l in fails):  # /tmp/pipe.test is shared between concurrent suite runs: retry once
        # (its tests also sleep 10 ms and expect the other goroutine to have run: flaky on a loaded machine; unless the patch
        # touches the pipe package, up to 5 retries)
        for _ in range(5):
            rcs, outs2 = sh("go test -vet=off -count=1 ./pkg/libs/io/pipe/", cwd=os.path.join(wt, "src"))
            if rcs == 0:
                fails = [l for l in fails if "io/pipe" not in l]
                break
    rec["suite_green"] = not fails
    rec["suite_fails"] = fails
    sh("git checkout -- .", cwd=wt)
    rec["confirmed"] = bool(rec["applies"] and rec["builds"] and rec["suite_green"] and rc0 == 0 and rc1 != 0)
    json.dump(rec, open(os.path.join(d, "confirm.json"), "w"), indent=1)
    print(json.dumps({k: rec[k] for k in ("confirmed", "applies", "builds", "suite_green", "suite_fails")},))
    print("without:", rec["demo_without"]["rc"], "with:", rec["demo_with"]["rc"], rec["demo_with"]["tail"][-300:].replace("\n", " | "))
    return rec


def try_(d, pid, tier="quick"):
    d = os.path.abspath(d)
    rc, out = sh("git status --porcelain", cwd="/repo")
    if out.strip():
        print("/repo not clean, refusing:", out)
        return 2
    rc, out = sh("git apply %s/patch.diff" % d, cwd="/repo")
    if rc != 0:
        print("patch does not apply to /repo:", out)
        return 2
    try:
        rc, out = sh("./check %s %s" % (pid, tier), cwd="/verif", timeout=7200)
    finally:
        sh("git checkout -- .", cwd="/repo")
    lines = [l for l in out.splitlines() if l.startswith(("VIOLATION", "KNOWN-FINDING", "INFRA", "[violation]"))]
    verdict = {0: "MISSED", 1: "CAUGHT", 2: "INFRA"}.get(rc, "rc=%s" % rc)
    print("%s %s %s rc=%d" % (verdict, pid, d, rc))
    for l in lines[:6]:
        print("   ", l[:400])
    if rc == 2:
        print(out[-1500:])
    rec = {"property": pid, "tier": tier, "rc": rc, "verdict": verdict, "lines": lines[:6]}
    json.dump(rec, open(os.path.join(d, "try-%s.json" % pid), "w"), indent=1)
    return rc


def keep(d, name, pid):
    d = os.path.abspath(d)
    dst = os.path.join("/verif/seeded", name)
    os.makedirs(dst, exist_ok=True)
    meta = json.load(open(os.path.join(d, "meta.json")))
    for f in os.listdir(d):
        if f == "patch.diff" or f.endswith(".go") or f in ("NOTE.txt", "README.txt"):
            shutil.copyfile(os.path.join(d, f), os.path.join(dst, f))
    out = {"property": pid, "breaks": meta.get("summary"), "mechanism": meta.get("mechanism"),
           "needs_to_manifest": meta.get("needs"), "files_changed": meta.get("files_changed"),
           "demo": meta.get("demo"), "origin": "independent sub-agent given only the property text and a scratch worktree"}
    if os.path.exists(os.path.join(d, "confirm.json")):
        c = json.load(open(os.path.join(d, "confirm.json")))
        out["confirmed_by_us"] = {k: c.get(k) for k in ("confirmed", "applies", "builds", "suite_green", "demo_cmd")}
        out["confirmed_by_us"]["demo_rc_without_patch"] = c["demo_without"]["rc"]
        out["confirmed_by_us"]["demo_rc_with_patch"] = c["demo_with"]["rc"]
        out["confirmed_by_us"]["demo_output_with_patch"] = c["demo_with"]["tail"][-400:]
    tries = {}
    for f in os.listdir(d):
        if f.startswith("try-"):
            t = json.load(open(os.path.join(d, f)))
            tries[t["property"] + "/" + t["tier"]] = {"verdict": t["verdict"], "lines": t["lines"][:2]}
    out["our_checks"] = tries
    json.dump(out, open(os.path.join(dst, "meta.json"), "w"), indent=1)
    print("kept", dst)


if __name__ == "__main__":
    a = sys.argv[1:]
    if a[0] == "confirm":
        confirm(a[1])
    elif a[0] == "try":
        sys.exit(try_(a[1], a[2], a[3] if len(a) > 3 else "quick"))
    elif a[0] == "keep":
        keep(a[1], a[2], a[3])
