#!/usr/bin/env python3
"""Triage of a seeded change WITHOUT touching /repo or /verif: a scratch worktree of /repo's HEAD gets the
patch, a scratch copy of /verif runs the check against it (VERIF_REPO), both are removed afterwards.
   tools/muttry.py <mutant dir> <PID> [tier]
The recorded verdict of a kept change still comes from seedtool.py try (apply to /repo, run, undo)."""
import json
import os
import shutil
import subprocess
import sys
import tempfile

d, pid = os.path.abspath(sys.argv[1]), sys.argv[2]
tier = sys.argv[3] if len(sys.argv) > 3 else "quick"
base = tempfile.mkdtemp(prefix="mt-", dir="/tmp")
repo, verif = os.path.join(base, "repo"), os.path.join(base, "verif")
rc = 2
try:
    subprocess.run(["git", "-C", "/repo", "worktree", "add", "-q", "--detach", repo, "HEAD"], check=True)
    p = subprocess.run(["git", "-C", repo, "apply", "--allow-empty", os.path.join(d, "patch.diff")], stdout=subprocess.PIPE, stderr=subprocess.STDOUT, text=True)
    if p.returncode != 0:
        print("patch does not apply:", p.stdout)
        sys.exit(2)
    subprocess.run(["rsync", "-a", "--exclude", ".git", "--exclude", ".build", "--exclude", "replays", "--exclude", "seeded", "/verif/", verif + "/"], check=True)
    env = dict(os.environ, VERIF_REPO=repo)
    p = subprocess.run([os.path.join(verif, "check"), pid, tier], cwd=verif, env=env, stdout=subprocess.PIPE, stderr=subprocess.STDOUT, text=True, errors="replace")
    rc = p.returncode
    lines = [l for l in p.stdout.splitlines() if l.startswith(("VIOLATION", "KNOWN-FINDING", "INFRA", "[violation]"))]
    print("%s %s %s rc=%d" % ({0: "MISSED", 1: "CAUGHT", 2: "INFRA"}.get(rc, "?"), pid, d, rc))
    if os.environ.get("MUTTRY_FULL"):
        print(p.stdout[-6000:])
    for l in lines[:5]:
        print("   ", l[:400])
    if rc == 2:
        print(p.stdout[-1500:])
finally:
    subprocess.run(["git", "-C", "/repo", "worktree", "remove", "--force", repo])
    shutil.rmtree(base, ignore_errors=True)
sys.exit(rc)
