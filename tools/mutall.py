#!/usr/bin/env python3
"""Regression of detection power: every kept seeded change is applied in a scratch worktree and the check(s) recorded as
catching it are re-run against it in a scratch copy of /verif (tools/muttry.py), N at a time.
   tools/mutall.py [workers] [name-prefix]"""
import concurrent.futures
import json
import os
import subprocess
import sys

workers = int(sys.argv[1]) if len(sys.argv) > 1 else 3
prefix = sys.argv[2] if len(sys.argv) > 2 else ""
jobs = []
for name in sorted(os.listdir("/verif/seeded")):
    if not name.startswith(prefix):
        continue
    d = os.path.join("/verif/seeded", name)
    meta = json.load(open(os.path.join(d, "meta.json")))
    pids = sorted({k.split("/")[0] for k, v in meta.get("our_checks", {}).items() if v.get("verdict") == "CAUGHT"}) or [meta["property"]]
    for pid in pids:
        jobs.append((d, pid))


def one(job):
    d, pid = job
    p = subprocess.run([sys.executable, "/verif/tools/muttry.py", d, pid], stdout=subprocess.PIPE, stderr=subprocess.STDOUT, text=True, errors="replace")
    first = (p.stdout.splitlines() or ["?"])[0]
    return first


bad = 0
with concurrent.futures.ThreadPoolExecutor(max_workers=workers) as ex:
    for line in ex.map(one, jobs):
        print(line, flush=True)
        if not line.startswith("CAUGHT"):
            bad += 1
print("DONE jobs=%d not_caught=%d" % (len(jobs), bad))
