#!/usr/bin/env python3
"""Run every registered check of a tier, one after the other, and summarise.
   tools/runall.py [quick|thorough] [seed ...]"""
import json
import subprocess
import sys
import time

tier = sys.argv[1] if len(sys.argv) > 1 else "quick"
seeds = sys.argv[2:] or [""]
man = json.load(open("/verif/MANIFEST.json"))
ids = [c["property_id"] if "property_id" in c else c["id"] for c in man["checks"]]
bad = 0
for seed in seeds:
    for pid in ids:
        t0 = time.time()
        env = dict(__import__("os").environ)
        if seed:
            env["VERIF_SEED"] = seed
        p = subprocess.run(["./check", pid, tier], cwd="/verif", env=env, stdout=subprocess.PIPE, stderr=subprocess.STDOUT, text=True, errors="replace")
        lines = [l for l in p.stdout.splitlines() if l.startswith(("VIOLATION", "KNOWN-FINDING", "INFRA"))]
        print("%s seed=%s rc=%d %.0fs %s" % (pid, seed or "-", p.returncode, time.time() - t0, " | ".join(l[:160] for l in lines[:3])), flush=True)
        if p.returncode != 0:
            bad += 1
            print(p.stdout[-1500:], flush=True)
print("DONE bad=%d" % bad)
