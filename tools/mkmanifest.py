#!/usr/bin/env python3
"""Regenerates /verif/MANIFEST.json from the table below (single source of truth)."""
import json
import os

ROOT = os.path.dirname(os.path.dirname(os.path.abspath(__file__)))

CHECKS = {
    "C09": dict(
        level="model_checking", design="DESIGN.md 4/C09",
        technique="TLA+ refinement PipeRing=>Pipe checked by TLC; TLC transition-cover behaviours replayed lock-step into the real pipe via gate hooks; recorded hook traces validated by TLC against the contract (PipeTrace); thorough: the ring arithmetic for unbounded totals as an inductive invariant discharged by Apalache (RingInd.tla)",
        text="TLC proves on the as-implemented ring model (all interleavings, small constants) that the contract (FIFO, parks only when blocked, wake obligations, exact close/return rules) holds; the binding to the code is two-way: every transition of the model's state graph is driven through the real pipe in lock-step and every event recorded from lock-step and free-running executions is checked by TLC against the contract, invariants evaluated after each event.",
        note="Go runtime sync.Cond semantics; 5 s watchdog used only together with a contract state that owes a wake-up; lock-step uses alignment-unit sizes (capacities of 2 and of 3 units), byte-granular sizes only in free runs."),
    "C18": dict(
        level="model_checking", design="DESIGN.md 4/C18",
        technique="TLA+ model of the ring log (Backlog.tla) with the contract as invariants checked by TLC; TLC-simulated behaviours replayed lock-step into the real backlog via gate hooks; recorded hook traces validated by TLC (BacklogTrace); thorough: the ring for unbounded offsets as an inductive invariant discharged by Apalache (LogRingInd.tla)",
        text="TLC checks on the as-implemented ring model, for all interleavings of a writer and two readers with several wrap-arounds, that reads return exactly the ids written at the offset, invalid-offset is reported exactly when the offset is overwritten or ahead, readers wait only at the head of an open log and every write/close owes each waiting reader a wake-up; model behaviours are driven through the real backlog in lock-step and every recorded event of lock-step and free runs is checked by TLC against the contract.",
        note="Go runtime sync.Cond semantics; behaviour after Close beyond waking waiters with an error is not constrained; lock-step uses alignment-unit sizes, byte-granular sizes only in free runs."),
    "C15": dict(
        level="model_checking", design="DESIGN.md 4/C15",
        technique="TLA+ reference definition (Slot.tla: bit-serial CRC16 + hash-tag rule, ASSUME-checked) evaluated by TLC on every recorded observation of the real KeyToSlot / CRC16 copies / slot-range key searches (trace validation, SlotTrace.tla)",
        text="The property is a functional definition; Slot.tla states it, TLC checks the published vectors and then judges every observation the driver records from the real code: exhaustively all brace layouts up to length 7 (21 845 keys), random binary keys, and the keys chosen for slot ranges (thorough: all 16 384 single-slot ranges), including that checkpoint keys are excluded by the real key filter.",
        note="TLC is the only oracle; exhaustiveness is over brace layouts with filler letters a/b, longer/binary keys are sampled."),
    "C13": dict(
        level="model_checking", design="DESIGN.md 4/C13",
        technique="TLA+ contract operator (KeyFilter.tla) with TLC-checked consequences; TLC enumerates all (key-position class, arity, pass vector) cases with expected rewrites, each replayed into the real HandleFilterKeyWithCommand for every table command",
        text="The contract is a decision procedure; TLC checks its consequences on the whole finite case space (arity <= 6 quick / 9 thorough) and every case is instantiated for every command of the tool's own table under whitelist, blacklist and no filter, comparing the forwarded argument list exactly - called directly (from eight goroutines too) and as the command arrives from the source: upper- and mixed-case name through the real codec and ParseArgs, the path of parseSourceCommand.",
        note="Key positions come from the independent table inside KeyFilter.tla (Redis COMMAND INFO convention); only valid arities are generated."),
    "C10": dict(
        level="model_checking", design="DESIGN.md 4/C10",
        technique="TLA+ reference codec (Resp.tla: Enc + total Dec over bytes); TLC proves the round-trip/prefix theorems on all small value trees (RespMC) and judges every recorded observation of the real encoder/decoder, incl. all single-point substitutions and truncations of small encodings (RespTrace)",
        text="The round-trip and 'a proper prefix never decodes' theorems are model-checked on the reference for all small value trees; the real codec is bound to the reference by trace validation of observations: encodings (integers across the pre-rendered table boundaries; eight goroutines encoding out-of-table integers at once), decoded values and decoder positions for streams with keep-alive newlines and inline lines through fragmenting readers and small bufio sizes, and exhaustive single-point corruption / truncation of small encodings, each judged by TLC.",
        note="Inputs the reference classifies as unspecified (sign-prefixed or zero-padded numbers, newline at an element position inside an array) are only compared up to that point; lengths >= 10^7 are not fed to the real decoder (it would allocate them)."),
    "C11": dict(
        level="fault_enumeration", design="DESIGN.md 4/C11",
        technique="TLA+ reference CRC-64 (Crc.tla, bit-serial over 16-bit limbs, ASSUME-checked) and verdict table; TLC model-checks chunking independence (CrcMC) and judges every recorded observation: all CRC copies under random chunkings and exhaustive per-artefact fault enumeration (every byte position, truncations, forged-valid trailers) through the three real verifiers (CrcTrace)",
        text="For the digest the reference is evaluated by TLC on every table row (all 256 one-byte messages) of every CRC copy and on random messages with the register compared after every write; for detection, each generated RDB file / DUMP payload is corrupted at every byte position and truncated at every length and the three real verifiers' answers are compared with the verdict table by TLC.",
        note="Single-byte substitutions and truncations only (multi-byte forgeries beyond version-above-with-valid-CRC are out of scope); artefacts come from the harness's independent RDB writer and from the tool's own parser/encoder."),
    "C14": dict(
        level="model_checking", design="DESIGN.md 4/C14",
        technique="TLA+ state generator with the loader's contract as an operator (Checkpoint.tla), consequences checked by TLC in every reachable state; simulated reachable target states installed in a model Redis and the real LoadCheckpoint's result and post-state compared with the contract",
        text="TLC explores all target states reachable by three sender writes plus one partial damage from three sources (two prefix-related) into three databases (350k states) and checks the contract's consequences; a seeded sample of those states (quick ~4k, thorough more) is replayed: installed over TCP with shuffled hash-field order, real LoadCheckpoint called per source, returned (run id, offset, db, error) and the removal of exactly the stale own entries compared.",
        note="mredis stands in for the target; offsets are distinct (no ties); writer and reader are bound together by one lock-step family of IncrSync.tla (real sender writes, real loader reads after a cut, new sender resumes, sometimes under another run id); the full set of such families is C04's."),
    "C20": dict(
        level="model_checking", design="DESIGN.md 4/C20",
        technique="TLA+ model of the probe/retry loop (Supervisor.tla) checked by TLC against the contract for every scenario of node answers, termination under WF; every canonical scenario (SupervisorCases.tla) replayed into the real supervisor through an injected connection factory",
        text="TLC checks all 19 683 assignments of {master, slave, error} to 3 nodes x 3 rounds against the contract (chosen node reported master in the first round that had one, every other node listed exactly once, error exactly when none) plus termination; the 1 899 canonical scenarios are all replayed against the real GetSlotState with real INFO text, connect errors, command errors and role-less output and real back-off.",
        note="Injected factory (build tag verif); retry budget 2 for the product, production budget 6 only on no-master scenarios in the thorough tier; 3 nodes."),
    "C03": dict(
        level="model_checking", design="DESIGN.md 4/C03",
        technique="TLA+ model of parser / sender (barrier automaton, thresholds, ticker) / target (IncrSync.tla) model-checked by TLC per configuration family; TLC-simulated behaviours replayed lock-step into the real parseSourceCommand/sendTargetCommand through gate hooks and a substituted ticker, the model Redis gated per command; per-step snapshots of the real target validated by TLC against the contract (IncrTrace.tla)",
        text="TLC proves in-order/exactly-once/right-db forwarding, absence of source MULTI/EXEC on the target and completeness for every interleaving of emission, parsing, dequeuing, ticker and target processing (6 configuration families: key/db/lua/command filters, target.db, batch sizes 1-3); the code is bound by lock-step replay of simulated behaviours with the contract evaluated by TLC on the real target state after every step, plus free runs with the real 500 ms ticker (an idle stream must be flushed within two periods).",
        note="mredis stands in for the target; sender size threshold not varied; streams up to 6-7 commands over 2 databases."),
    "C04": dict(
        level="fault_enumeration", design="DESIGN.md 4/C04",
        technique="same TLA+ model with resume on and a Crash action at every state (cut inside/outside MULTI, restart from the newest checkpoint) model-checked by TLC; simulated behaviours with cuts replayed lock-step: the real LoadCheckpoint reads what the real sender stored and a new parser/sender resumes; every per-step snapshot (= every cut point reached) validated by TLC against CkptAtomic and the resume contract",
        text="TLC proves that in every reachable state the dataset equals the source history up to the newest stored offset, that a run id is stored with every offset and that restart + completion loses and repeats nothing, for every cut position (1-2 cuts); replayed behaviours exercise the same cuts on the real code (target connections killed at a command boundary while commands wait in the target's gate), with the real loader and a real restart, and TLC judges the real target state after every step.",
        note="Lock-step cuts are at command boundaries of the target's input with a static offset base; the end-to-end part (System.tla, SystemTrace.tla) runs the whole DbSyncer.Sync() against a scripted source with connection drops and, in a process of its own, kills it with SIGKILL at sampled moments and restarts it, judging every target transaction; mredis stands in for the target."),
    "C07": dict(
        level="model_checking", design="DESIGN.md 4/C07",
        technique="TLA+ model of the worker pool (FullSync.tla) model-checked by TLC over all entry sequences and interleavings; entry sequences from the model's initial states concretised and run through the real syncRDBFile/restoreRDBFile against a model Redis whose command processing is scheduled (random / starve-one-connection), with the per-connection command log and final keyspace validated by TLC (FsTrace.tla); several sources at once: TLA+ model of the syncers sharing the full-sync semaphore (FanIn.tla) model-checked by TLC, real runs of 2-6 Sync() into one target validated by TLC against the model's own actions (FanInTrace.tla)",
        text="TLC proves right content, exactly-once, all-processed, failure-reported and termination for every interleaving of 2-3 workers over every sequence of <= 3-4 entries (plain, filtered, failing, two-chunk hash; with and without target.db); the real worker pools are bound by trace validation: every command's database, one writer and at most one successful RESTORE per key, every unfiltered key equal to the source value (independent decoder), failures reported (pre-existing keys under policy none, and target faults such as a busy script / OOM on one RESTORE under every policy), Parallel 1..8 under adversarial scheduling of the target, including the whole restore command over 1-3 input files and fixed target.db x db-filter scenarios in every mode. Several sources into one target: never more full synchronisations than source.rdb.parallel, no permit leaked or released twice, every source served (refused PSYNCs, sources continuing from a checkpoint, the retry limit), every source's keys / command stream / checkpoint intact in the shared target.",
        note="Entry-to-worker assignment is the Go runtime's; the scheduler orders only the target side. One open finding (chunk/rewrite race) is listed in known_findings.json."),
    "C06": dict(
        level="model_checking", design="DESIGN.md 4/C06",
        technique="TLA+ definitions of the filter predicates and per-path reachability (Filter.tla); cross-path consistency theorems model-checked by TLC over all configurations of a pool (FilterMC); the configuration x key x db matrix replayed through the real full-sync, restore and incremental paths with every target command and the final keyspace validated by TLC against Filter.tla (FsTrace.tla)",
        text="TLC checks the consistency theorems on 24 300 (configuration, key, db) cases; the binding replays the matrix {sync, restore, incremental} x {no / white / black key list over subsets of {a,ab,b}} x 5 db lists x slot list x filter.lua with 9 keys (empty, prefix-related, checkpoint, hash-tagged) in 3 dbs plus a Lua script against the model Redis and lets TLC decide for every observed command and final key whether Filter.tla allows it.",
        note="Rump path: same operators, exercised by C16. Incremental path uses SET / SCRIPT LOAD / opinfo; target.db combined with db filters is covered by C03's targetdb-dbfilter family."),
    "C02": dict(
        level="model_checking", design="DESIGN.md 4/C02",
        technique="TLA+ case space and outcome contract (Restore.tla, 118 584 cases enumerated by TLC); seeded samples of the cases concretised by an independent RDB writer, parsed by the real Loader and restored by the real RestoreRdbEntry into a model Redis with per-case personality; every command and the final key judged by TLC (FsTrace.tla)",
        text="The property is a decision table over entry x configuration x target state; TLC enumerates the full case space with the contract's outcome per case and a seeded sample (quick ~1 800, thorough ~12 000 distinct cases, plus chunked hashes) is executed on the real code: value equality by the harness's own decoder, TTL window, untouched-ness of existing keys under none/ignore, error reporting, no abort for any version string, no DEL outside rewrite.",
        note="Routes: RestoreRdbEntry per entry, and rump's RestoreBigkey for key sequences on one connection; mredis stands in for Redis (BUSYKEY texts, REPLACE / IDLETIME / FREQ support, Bad data format); an RDB carries LRU or LFU hints, never both; TTL tolerance 3 s."),
    "C05": dict(
        level="model_checking", design="DESIGN.md 4/C05",
        technique="TLA+ model of the byte pipeline wire -> bufio -> {header parser | bounded copy | stream copy} -> pipe (Handoff.tla) model-checked by TLC for every fragmentation of small streams; a scripted TCP source drives the real sendPSyncCmd / runIncrementalSync / dump worker with framing and fragmentation variants (boundary splits, TLC-simulated segmentations) and TLC judges the recorded observations (HandoffTrace.tla)",
        text="The design property (output always a prefix of RDB ++ commands, remaining count never negative, completion) is model-checked for all fragmentations at small sizes; the binding feeds the real hand-off code over TCP with ~250 (quick) framing x size x fragmentation cases in PSYNC and dump mode, comparing every output byte, the dump file, and the run id / offset / size used afterwards with what the source announced (also on the re-PSYNC after the source hung up, with mixed-case run ids), plus the whole dump command over two sources.",
        note="Kernel segment coalescing can hide an intended split (coverage, not soundness); fakesrc stands in for the master; > 32 MiB streams only in the thorough tier."),
    "C08": dict(
        level="model_checking", design="DESIGN.md 4/C08",
        technique="TLA+ model of send / receive / ACK tick / drop / reconnect (Offsets.tla) model-checked by TLC (the pre-fix arithmetic kept as a deviation switch that TLC refutes); complete real-time Sync() runs between a scripted source and a model Redis, with source events, the tool's recv/ack hook events and the target's checkpoints in one sequence validated by TLC (OffsetsTrace.tla); the counter abstraction OffsetsInd.tla has an inductive invariant discharged by Apalache (unbounded offsets)",
        text="TLC checks ack exactness / monotonicity / never-ahead / exact reconnect / no gap no duplicate for all interleavings at small bounds; the binding is end-to-end: the real DbSyncer.Sync() (checkpoint load, PSYNC, full sync, incremental sync with resume, ACK goroutine, reconnect loop) runs against fakesrc with bursts, idle periods spanning several ACK ticks, drops at and inside command boundaries, start offsets up to 2^40 and starts from a stored checkpoint; TLC judges every ACK, every re-PSYNC offset, the quiescent ACK, the checkpoint offsets and exactly-once application.",
        note="Real wall-clock tick periods (5-9 s per run; 8 runs quick, 48 thorough, parallel processes); one refused re-PSYNC (30 s back-off) in the quick tier, three in the thorough tier; one run with target.db and one resumed in a non-zero database; offsets are compared relative to the start offset because TLC integers are 32 bit."),
    "C19": dict(
        level="exploration", design="DESIGN.md 4/C19",
        technique="TLA+ information-flow policy (Flows.tla) evaluated by TLC over the emissions recorded from real runs of the other families' scenarios with distinct sentinel credentials and the logger at debug level",
        text="The property quantifies over the run paths exercised; this check re-runs a complete Sync() (checkpoint load, full sync, incremental sync, drop + reconnect), full sync / restore / entry restore / incremental filter scenarios, an incremental cut + restart, checkpoint load, rump, connection opening and a whole sync with an auth command the servers do not know (a Redis >= 5 echoes its arguments), and the slot supervisor (fail-over, failing nodes) with sentinel values in all four credential fields, reduces every log line (all levels) and the configuration echo / REST metric / syncer status documents to (sink, sentinel fields present) and lets TLC evaluate the policy; all other checks additionally scan their own log output.",
        note="Coverage = exercised paths (not a proof about all log statements); TLA+ only evaluates the policy; rump's driver scans its own log."),
    "C01": dict(
        level="model_checking", design="DESIGN.md 4/C01",
        technique="TLA+ model of the loader's opcode loop against the record contract (RdbFile.tla / RdbContract.tla) model-checked by TLC for all operation sequences up to length 4-5; operation sequences concretised by an independent RDB writer and parsed by the real Loader, record attributes validated by TLC (RdbTrace.tla), key / type / DUMP payload bytes compared with what the writer put into the file",
        text="TLC checks the opcode loop for every operation sequence (attributes bound to the next key, database tracking, script records, skipped metadata, chunk records); the real Loader is bound by trace validation over generated files covering format versions 3-9, every value type and compact encoding, all length and string forms for values and key names, sizes across the 6/14/32-bit boundaries, streams with consumer groups, module-aux blocks (64-bit ids, float/double), and hashes above the 16 MiB chunk limit, with byte-exact comparison of every payload and the footer check; the files reach the loader whole, through a bufio.Reader over short reads, and in byte-sized pieces.",
        note="Payload byte fidelity rests on the harness's independent writer (rdbref) which remembers each value's bytes; every delivered record is kept and re-verified at the end of its file; module values (types 6/7) not generated; pre-version-5 files have no checksum."),
    "C12": dict(
        level="model_checking", design="DESIGN.md 4/C12",
        technique="byte-level TLA+ definition of what a Redis server materialises from a serialised value (RdbValue.tla: all length and string forms, LZF, ziplist, intset, zipmap, quicklist, text and binary scores) and of the tool's encoder; TLC checks Materialise(Encode(v)) = v over boundary values and the file-encoder protocol composed with the C01 loader contract (EncFile.tla); the TLC-enumerated values and generated values in every compact encoding are run through the real EncodeDump / DecodeDump / Encoder / Loader / ObjEntry and every observation is judged by TLC (RdbValueTrace.tla), large payloads and finite-score numerics by a lifted Go reference",
        text="TLC proves the model round trip for all boundary values (integer-form limits, signs, zeros, spaces, binary, NaN / infinities / negative zero) and all object sequences up to 5-6 objects for the file protocol; the real codecs are bound by replaying TLC's values and by trace validation of thousands of (type, bytes, value) observations covering every compact encoding a server can emit.",
        note="Finite score numerics and integers beyond 32 bits are decided by the lifted Go reference, not by TLC; sizes are bounded (elements up to 16384, strings up to 70000 bytes)."),
    "C17": dict(
        level="model_checking", design="DESIGN.md 4/C17",
        technique="TLA+ model of the decode pipeline (Decode.tla: loader, bounded channels, N workers, writer) model-checked by TLC for all interleavings (completeness, no duplication, adjacency, termination under weak fairness); the real CmdDecode.Main() is run on generated RDB files with parallel 1..8 and its parsed output - each line attributed to (record, element) and content-compared through its base64 fields - is validated by TLC against the same contract (DecodeTrace.tla); runs over FIFOs spanning the progress ticks and runs with the same input given twice",
        text="TLC explores every interleaving of the abstract pipeline for up to 5 records and 4 workers; the real command is bound by trace validation of its output for generated files covering every classic type and encoding, binary and numeric key names, expiries, several databases, scripts, infinite scores, hashes above the split limit in the middle of the file, more records than the channels hold, parallel 1..8.",
        note="Real goroutine schedules are sampled (free-running), not enumerated: decode.go has no gate hooks; script lines are compared as text."),
    "C16": dict(
        level="model_checking", design="DESIGN.md 4/C16",
        technique="TLA+ model of the rump executor (Rump.tla: fetcher with SCAN / DUMP / PTTL rounds, bounded channels, writer with per-connection SELECT tracking, batch flush and big-key route, receiver; keys vanishing at any moment) model-checked by TLC for all interleavings (Copied, NoGhost, termination under weak fairness); scenarios from the same space are run through the real CmdRump.Main() against two model Redis servers over TCP and the final target keyspace and the way the run ended are validated by TLC (RumpTrace.tla); several sources at once: composition of the executors' contracts (RumpFan.tla) model-checked, a third of the real runs migrate 2-3 sources in one command",
        text="TLC explores every interleaving and vanish history of the abstract pipeline for small keyspaces (empty pages, batch 1-2, big keys in non-zero databases, fixed target database); the real command is bound by trace validation over generated keyspaces, paginations with arbitrary cursors and empty pages, keys vanishing before DUMP / PTTL, thresholds, key_exists none / rewrite with pre-existing keys, target.db, db / key filters, key-file scans (with blank lines) and a rate limit below the key count with a lull at the source.",
        note="Real goroutine schedules are free-running (no gate hooks in rump.go); the model clock is fixed so TTLs compare exactly; duplicate keys in a scan are not generated."),
}

NOT_YET = "check not built yet in this session (work in progress; see DESIGN.md section 7 for the order)"

def main():
    props = [json.loads(l) for l in open(os.path.join(ROOT, "properties.jsonl"))]
    checks = []
    na = []
    for p in props:
        pid = p["id"]
        c = CHECKS.get(pid)
        if not c:
            na.append({"property_id": pid, "reason": NOT_YET})
            continue
        checks.append({
            "property_id": pid,
            "quick_cmd": "./check %s quick" % pid,
            "thorough_cmd": "./check %s thorough" % pid,
            "evidence_file": "/verif/evidence/%s.json" % pid,
            "replay_cmd_template": "./check %s --replay {path}" % pid,
            "engine": "tlc+vdrv",
            "level_claimed": {"category": c["level"], "text": c["text"], "design_ref": c["design"]},
            "level_note": c["note"],
            "technique": c["technique"],
        })
    man = {
        "version": 1,
        "setup_cmd": "./setup.sh",
        "hooks": {
            "guard": "verif",
            "enable": "go build -tags verif (the harness module /verif/harness replaces github.com/alibaba/RedisShake with /repo/src)",
            "baseline_off_cmd": "cd /repo/src && GOFLAGS=-mod=mod GOPROXY=off GOSUMDB=off GOTOOLCHAIN=local go test -json -vet=off -count=1 -timeout 25m ./...",
            "source_commits": json.load(open(os.path.join(ROOT, "tools", "hook_commits.json"))),
            "add_only": True,
        },
        "engines": [
            {"name": "tlc+vdrv", "path": "/verif/check", "serves_properties": sorted(CHECKS),
             "kind_free_text": "python orchestrator: TLC (tla2tools 1.8.0) on /verif/spec/*.tla, Go driver /verif/harness/cmd/vdrv built with -tags verif from /repo/src"},
        ],
        "checks": checks,
        "not_applicable": na,
        "notes": "Exit 2 from a check means the machinery failed (build/TLC/timeouts), never a verdict. known_findings.json lists open findings and fixed defects.",
    }
    json.dump(man, open(os.path.join(ROOT, "MANIFEST.json"), "w"), indent=1)
    print("MANIFEST.json: %d checks, %d not_applicable" % (len(checks), len(na)))

if __name__ == "__main__":
    main()
