"""C13 - key filtering rewrites multi-key commands without corrupting them.

KeyFilter.tla states the contract as an operator (Rewrite) over an independent key-position table in
Redis's own convention; TLC enumerates every (class, arity <= 6, pass vector) case, checks the
contract's consequences (all-pass => unchanged, only passing keys, companions kept, order kept, drop
iff none passes) and emits each case with its expected rewrite.  The driver instantiates every case
for every command of the tool's RedisCommands table of that class and runs the real
HandleFilterKeyWithCommand under a whitelist, a blacklist and no filter."""
import json
import time

import vlib
from vlib import Infra, log

PID = "C13"


def run(tier, seed, replay=None):
    t0 = time.time()
    verdict = vlib.Verdict(PID)
    vlib.build_vdrv()
    with vlib.Scratch(PID) as sc:
        vlib.stage_specs(sc)
        cfg = "KeyFilter_t.cfg" if tier == "thorough" else "KeyFilter.cfg"
        r, nodes, edges, inits = vlib.tlc_graph(sc, "KeyFilter", cfg, workers=4, timeout=1800)
        cases = [nodes[n]["c"] for n in sorted(nodes)]
        rc, out, err = vlib.run_vdrv(["keyfilter"], stdin=json.dumps({"cases": cases}), timeout=1800)
        if rc != 0:
            raise Infra("vdrv keyfilter failed rc=%s: %s" % (rc, err[-2000:]))
        res = json.loads(out)
        for m in res.get("missing_in_tool_table") or []:
            log("note: table difference (not a verdict): %s" % m)
        for m in res["mismatches"] or []:
            ex = m.get("extra") or {}
            try:
                allpass = all(ex.get("pass", [False])[k - 1] for k in cases[m["case"]]["keys"]) if "pass" in ex else None
            except (IndexError, KeyError, TypeError):
                allpass = None      # a mismatch of the concurrent phase carries another shape of details
            sig = {"kind": "rewrite", "cmd": ex.get("cmd"), "mode": ex.get("mode"), "n": ex.get("n"), "allpass": allpass}
            verdict.violation(sig, m["detail"], {"family": "keyfilter", "case": cases[m["case"]] if "cls" in ex and 0 <= m["case"] < len(cases) else None, "cmd": ex.get("cmd"), "mode": ex.get("mode")})
    rc = verdict.finish()
    multi = sum(1 for c in cases if len(c["keys"]) >= 2)
    cov = {"states": r.distinct, "transitions": r.generated, "traces_validated_against_impl": res["evaluations"],
           "samples": cases[:2] + cases[-1:], "evaluations": res["evaluations"], "distinct_nontrivial": multi,
           "rule": "cases = every (key-position class, arity, pass vector) up to MaxArgs, enumerated by TLC as initial states; each "
                   "instantiated for every tool-table command of the class x {whitelist, blacklist, no filter}; non-trivial = >=2 keys",
           "exhaustive": True, "commands": res["commands"], "checker_cmd": r.cmd}
    vlib.write_evidence(PID, tier, seed, "model_checking", cov, time.time() - t0, len(verdict.violations),
                        ["key positions come from the table in KeyFilter.tla (Redis COMMAND INFO convention), which is trusted",
                         "arities are the valid ones for each command (a master never emits a wrong-arity command)"])
    return rc
