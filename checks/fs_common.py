"""Shared: run fs-driver scenarios and let TLC (FsTrace) judge them."""
import json
import re
import shutil

import vlib
from vlib import Infra, log


def run_cases(sc, pid, verdict, cases, seed, label, stats, sig_extra=None, env=None, sig_fn=None):
    trace = sc.path("trace-%s.ndjson" % label)
    rc, out, err = vlib.run_vdrv(["fs"], stdin=json.dumps({"seed": seed, "cases": cases, "trace": trace}), timeout=3000, env=env)
    if rc != 0:
        raise Infra("vdrv fs (%s) failed rc=%s: %s" % (label, rc, err[-2000:]))
    res = json.loads(out)
    for lk in res.get("leaks") or []:
        log("note: a configured password appeared in a log line (C19): %s" % lk[:200])
    rows = vlib.read_ndjson(trace)
    for x in rows:
        if x["e"] == "harness":
            raise Infra("fs harness: %s" % x["err"])
    shutil.copyfile(trace, sc.path("trace.ndjson"))
    rt = vlib.tlc(sc, "FsTrace", "FsTrace.cfg", workers=1, timeout=3000)
    if rt.rc != 0:
        raise Infra("TLC failed on the fs trace %s (rc=%s):\n%s" % (label, rt.rc, rt.out[-2500:]))
    if rt.depth - 1 != len(rows):
        raise Infra("TLC judged %d of %d events" % (rt.depth - 1, len(rows)))
    stats["states"] = stats.get("states", 0) + rt.distinct
    stats["transitions"] = stats.get("transitions", 0) + rt.generated
    stats["events"] = stats.get("events", 0) + len(rows)
    stats["cases"] = stats.get("cases", 0) + len(cases)
    stats["keys"] = stats.get("keys", 0) + res["keys"]
    stats["cmd"] = rt.cmd
    bycase = {c["id"]: c for c in cases}
    for ln in [int(x) for x in re.findall(r'<<"REJECT", (\d+)>>', rt.out)]:
        ev = rows[ln - 1]
        c = bycase.get(ev.get("case"))
        cfg = c["cfg"] if c else {}
        ent = None
        if ev["e"] == "final" and c:
            ent = next((e for e in c["entries"] if e["id"] == ev["id"]), None)
        sig = {"kind": ev["e"], "mode": cfg.get("mode"), "key_exists": cfg.get("key_exists"), "parallel_gt1": cfg.get("parallel", 1) > 1,
               "chunk": bool(ent and ent.get("chunk")), "target_replace": cfg.get("target_replace", False),
               "had_pre": ev.get("had_pre"), "present": ev.get("present"), "match": ev.get("match"), "ttl": ev.get("ttl"),
               "cmd": ev.get("cmd"), "abort": ev.get("abort"), "err": ev.get("err"), "label": label,
               "chunk_scenario": bool(c and any(e.get("chunk") for e in c["entries"]))}
        if sig_extra:
            sig.update(sig_extra(ev, c, ent))
        if sig_fn:
            sig = sig_fn(ev, c, ent, [x for x in rows if x.get("case") == ev.get("case")])
            if sig is None:
                continue
        detail = "scenario %s (%s): event %s rejected by the contract; config %s; entry %s; commands of the scenario: %s" % (
            ev.get("case"), label, {k: v for k, v in ev.items() if k not in ("keyb", "seq")}, cfg, ent,
            [(x["conn"], x["db"], x["cmd"], x["key"][:24], x["err"]) for x in rows if x["e"] == "cmd" and x["case"] == ev.get("case")][:40])
        verdict.violation(sig, detail, {"family": "fs", "case": c, "seed": seed})
    return rows
