"""C17 - decode mode prints every element of the RDB, recoverably.

Decode.tla   loader -> ipipe -> N workers -> opipe -> writer, one block of lines per record.
 (C) TLC: every interleaving for up to 5 records / 4 workers / small channel capacities: at termination
     the output holds every line of every record exactly once (Complete, NoDup), blocks are adjacent
     (Contiguous, an implementation-level invariant), and the run terminates (liveness under WF).
 (B) the REAL CmdDecode.Main() on generated RDB files (independent writer: every classic type in every
     encoding a server emits, binary / non-UTF-8 / numeric key names, expiries, several databases, Lua
     scripts, infinite scores, a hash above the loader's split limit) with parallel 1..8; the output file
     is parsed, each line attributed to <<record, element>> by its base64 fields, its content compared with
     the known value, and the line sequence judged by TLC (DecodeTrace.tla) against the contract."""
import concurrent.futures
import json
import re
import time

import vlib
from vlib import Infra, log

PID = "C17"


def run(tier, seed, replay=None):
    t0 = time.time()
    verdict = vlib.Verdict(PID)
    vlib.build_vdrv()
    thorough = tier == "thorough"
    import random
    rnd = random.Random(seed)
    with vlib.Scratch(PID) as sc:
        vlib.stage_specs(sc)
        mc = vlib.tlc(sc, "MCDecode", "Decode_t.cfg" if thorough else "Decode.cfg", workers=8, timeout=3000)
        if mc.rc != 0:
            raise Infra("Decode model check failed (rc=%s, %s)\n%s" % (mc.rc, mc.violated, mc.out[-3000:]))
        eq = vlib.tlc(sc, "DecodeContractMC", "DecodeContractMC_t.cfg" if thorough else "DecodeContractMC.cfg", workers=8, timeout=3000, extra=["-maxSetSize", "20000000"])
        if eq.rc != 0:
            raise Infra("the one-pass completeness test no longer agrees with its definition (rc=%s, %s)\n%s" % (eq.rc, eq.violated, eq.out[-2500:]))
        nproc = 8 if thorough else 4
        per = 60 if thorough else 12
        def cases_for(p):
            cs = []
            for i in range(per):
                cid = p * 1000 + i
                c = {"id": cid, "parallel": rnd.choice([1, 2, 3, 4, 8]) if i >= 5 else [1, 2, 3, 5, 8][i], "entries": rnd.choice([0, 1, 2, 5, 17, 60, 200]),
                     "big": i % 3 == 2, "chunked": (p == 0 and i == 4) or (thorough and i % 20 == 10), "inf": i % 4 == 1, "seed": seed * 100003 + cid}
                # the same file given as input twice (decoded one after the other by one command object): the split hash always, else every third
                c["twice"] = c["chunked"] or i % 3 == 1
                if c["chunked"]:
                    c["entries"] = max(c["entries"], 30)          # keys of every kind after the split hash
                if c["big"]:
                    c["entries"] = rnd.choice([20, 40, 80])
                    c["parallel"] = rnd.choice([2, 4, 8])
                cs.append(c)
            return cs
        allcases = [cases_for(p) for p in range(nproc)]
        # more records than the command's channels hold (1024): 1025, a few thousand
        allcases[1 % nproc].append({"id": 990001, "parallel": 1, "entries": 1025, "big": False, "chunked": False, "inf": False, "seed": seed * 7 + 1})
        # a run that spans several of the tool's one-second progress ticks with output pending: input and output are FIFOs
        allcases[0].append({"id": 990003, "parallel": 2, "entries": 3000, "big": False, "chunked": False, "inf": False, "slow": True, "seed": seed * 7 + 3})
        allcases[2 % nproc].append({"id": 990002, "parallel": 4, "entries": 3000 if not thorough else 8000, "big": False, "chunked": False, "inf": True, "seed": seed * 7 + 2})
        import os
        def one(p):
            d = sc.path("w%d" % p)
            os.makedirs(d, exist_ok=True)
            inp = {"seed": seed, "trace": sc.path("trace-%d.ndjson" % p), "dir": d, "cases": allcases[p]}
            return vlib.run_vdrv(["decode"], stdin=json.dumps(inp), timeout=3000)
        with concurrent.futures.ThreadPoolExecutor(max_workers=nproc) as ex:
            results = list(ex.map(one, range(nproc)))
        trace = sc.path("trace.ndjson")
        stats = {}
        with open(trace, "w") as out_f:
            for p, (rc, out, err) in enumerate(results):
                if rc != 0:
                    raise Infra("vdrv decode failed rc=%s: %s" % (rc, err[-2000:]))
                for k, v in json.loads(out)["stats"].items():
                    stats[k] = stats.get(k, 0) + v
                out_f.write(open(sc.path("trace-%d.ndjson" % p)).read())
        rows = vlib.read_ndjson(trace)
        rt = vlib.tlc(sc, "DecodeTrace", "DecodeTrace.cfg", workers=1, timeout=6000)
        if rt.rc != 0 or rt.depth - 1 != len(rows):
            raise Infra("TLC failed on the trace (rc=%s, judged %d of %d):\n%s" % (rt.rc, rt.depth - 1, len(rows), rt.out[-2000:]))
        bycase = {c["id"]: c for cs in allcases for c in cs}
        drift = re.findall(r'<<"DRIFT", (\d+)>>', rt.out)
        if drift:
            log("[drift] %d output files whose lines of one key are not adjacent / in element order (implementation-level, not part of the property)" % len(drift))
        nrej = 0
        for ln in [int(x) for x in re.findall(r'<<"REJECT", (\d+)>>', rt.out)]:
            ev = rows[ln - 1]
            c = bycase.get(ev["file"], {})
            nrej += 1
            if nrej > 40:
                continue
            if ev["e"] == "line":
                sig = {"kind": "line", "attributed": ev["entry"] > 0 and ev["j"] > 0, "content_ok": ev["content_ok"], "parallel_gt1": c.get("parallel", 0) > 1}
                detail = "output line %d of file %s (parallel %s): %s" % (ev["n"], ev["file"], c.get("parallel"), ev.get("why", "content differs"))
            else:
                why = "hung" if ev.get("hung") else ("aborted: " + ev["err"] if ev["err"] else "lines omitted / duplicated / foreign")
                sig = {"kind": "dend", "finished": ev["finished"], "hung": ev.get("hung", False), "aborted": bool(ev["err"]), "chunked": ev["chunked"], "inf": ev["inf"]}
                detail = "file %s (parallel %s, %s lines written): %s" % (ev["file"], ev["parallel"], ev["lines"], why)
            verdict.violation(sig, detail, {"family": "decode", "case": c, "event": ev})
        samples = [rows[0], {"stats": stats}]
    rc = verdict.finish()
    cov = {"evaluations": len(rows), "distinct_nontrivial": stats.get("files", 0),
           "rule": "evaluations = output lines and file ends judged by TLC; non-trivial = input files decoded by the real command (each a different keyspace x parallel degree): "
                   "%d files, %d records, %d output lines; parallel degrees 1..8" % (stats.get("files", 0), stats.get("entries", 0), stats.get("lines", 0)),
           "samples": samples, "exhaustive": False, "states": mc.distinct + rt.distinct, "transitions": mc.generated + rt.generated, "model_states": mc.distinct,
           "traces_validated_against_impl": stats.get("files", 0), "drift_files": len(drift), "checker_cmd": rt.cmd}
    vlib.write_evidence(PID, tier, seed, "model_checking", cov, time.time() - t0, len(verdict.violations),
                        ["schedules of the real goroutines are whatever the Go runtime produces over the runs (no gate hooks in decode.go); the model covers all interleavings of the abstract pipeline",
                         "a script line is compared as text (scripts are ASCII here): the tool writes it raw, not base64",
                         "NaN scores are not generated (a server cannot store them)"])
    return rc
