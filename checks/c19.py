"""C19 - configured passwords never appear in logs or status output.

Flows.tla is an information-flow policy: sinks {log, config echo, REST metric document, per-syncer
status} x configuration fields; the password fields are allowed in no sink, and a shown configuration
object must carry masked passwords.  Binding: the other families' scenarios - a complete Sync() with
checkpoint load, full sync, incremental sync, connection drop and reconnect; full sync / restore /
single-entry restore; incremental sync with cut and restart; checkpoint load; slot supervisor with
failing nodes - run with DISTINCT sentinel values in every credential field and the tool's logger at
debug level; every log line and every status / configuration document is reduced to (sink, fields whose
sentinel occurs in it) and TLC evaluates the policy on those emissions.  (All other checks also scan
their own log output for the sentinels and print a note when one shows up.)"""
import json
import re
import shutil
import time

import vlib
from vlib import Infra, log

PID = "C19"


def run(tier, seed, replay=None):
    t0 = time.time()
    verdict = vlib.Verdict(PID)
    vlib.build_vdrv()
    thorough = tier == "thorough"
    with vlib.Scratch(PID) as sc:
        vlib.stage_specs(sc)
        trace = sc.path("trace.ndjson")
        sub = {
            "offsets": {"seed": seed, "start": 1000, "commands": 20, "idles": [6], "idle_ms": 1200, "drops": [12], "drop_skew": 0, "frags": [],
                        "quiet_ms": 1500, "trace": sc.path("sub-offsets.ndjson"), "budget_ms": 30000},
            "fanin": {"seed": seed, "n": 3, "p": 1, "refusals": [0, 3, 1], "resumable": [False, False, False], "policy": "high", "commands": 6, "rdb_keys": 3,
                      "resume": True, "trace": sc.path("sub-fanin.ndjson")},
            "fs": {"seed": seed, "trace": sc.path("sub-fs.ndjson"), "cases": [
                {"id": 1, "cfg": {"mode": "sync", "parallel": 2, "tdb": -1, "key_exists": "rewrite", "target_replace": True, "big_threshold": 30, "target": {"version": "5.0.7"}, "sched": "free"},
                 "pre": [{"db": 0, "key": "k1", "kind": "string"}],
                 "entries": [{"id": 1, "db": 0, "key": "k1", "kind": "hash", "n": 5, "type": -1, "expire": 60000}, {"id": 2, "db": 1, "key": "k2", "kind": "list", "n": 120, "type": 14},
                             {"id": 3, "db": 1, "key": "", "kind": "lua"}]},
                {"id": 2, "cfg": {"mode": "restore", "parallel": 1, "tdb": 2, "key_exists": "none", "target": {"version": "4.0.1"}, "sched": "free"},
                 "pre": [{"db": 2, "key": "busy", "kind": "set"}],
                 "entries": [{"id": 1, "db": 0, "key": "busy", "kind": "set", "n": 3, "type": -1}]},
                {"id": 3, "cfg": {"mode": "incr", "parallel": 1, "tdb": -1, "key_exists": "none", "target": {"version": "5.0.7"}, "sched": "free", "fkey_white": ["a"]},
                 "pre": [], "entries": [{"id": 1, "db": 0, "key": "a1", "kind": "string", "type": -1}, {"id": 2, "db": 1, "key": "b1", "kind": "string", "type": -1}]}]},
            "incr": {"seed": seed, "cfg": {"fdbs": [], "kf": True, "lua": False, "tdb": 9, "resume": True, "sender_count": 2, "buf_cap": 2}, "trace": sc.path("sub-incr.ndjson"),
                     "paths": [[{"a": "SrcEmit", "item": {"t": "sel", "d": 1, "id": 0}}, {"a": "SrcEmit", "item": {"t": "w", "d": -1, "id": 2}}, {"a": "Parse"}, {"a": "Parse"},
                                {"a": "Deq"}, {"a": "Deq"}, {"a": "TargetRecv"}, {"a": "TargetRecv"}, {"a": "TargetRecv"}, {"a": "TargetRecv"}, {"a": "TargetRecv"},
                                {"a": "TargetRecv"}, {"a": "TargetRecv"}, {"a": "Crash", "off": 2, "db": 1}, {"a": "SrcEmit", "item": {"t": "w", "d": -1, "id": 3}}, {"a": "Parse"}]]},
        }
        sub["offsets-badauth"] = {"seed": seed, "start": 1000, "commands": 5, "idles": [], "idle_ms": 100, "drops": [], "drop_skew": 0, "frags": [], "quiet_ms": 1500,
                                  "trace": sc.path("sub-offsets2.ndjson"), "budget_ms": 4000, "auth_type": "adminauth"}
        sub["rump"] = {"seed": seed, "trace": sc.path("sub-rump.ndjson"), "dir": sc.dir, "src_pw": "src-SECRET-pw", "tgt_pw": "tgt-SECRET-pw", "cases": [
            {"id": 1, "seed": seed, "pre": [{"db": 1, "name": "BIG"}],
             "cfg": {"scan_key_number": 2, "big_threshold": 60, "key_exists": "rewrite", "tdb": -1, "fdb_white": [], "fdb_black": [], "fkey_white": [], "fkey_black": ["z"],
                     "key_file": False, "target_version": "5.0.7"},
             "keys": [{"id": 1, "db": 0, "name": "a", "kind": "string", "n": 1, "elem": 5, "ttl": 0, "vanish": "never", "scanned": True, "passes": True},
                      {"id": 2, "db": 1, "name": "BIG", "kind": "list", "n": 12, "elem": 30, "ttl": 9000, "vanish": "never", "scanned": True, "passes": True},
                      {"id": 3, "db": 1, "name": "c", "kind": "hash", "n": 3, "elem": 5, "ttl": 0, "vanish": "pttl", "scanned": True, "passes": True},
                      {"id": 4, "db": 1, "name": "zz", "kind": "string", "n": 1, "elem": 5, "ttl": 5000, "vanish": "never", "scanned": True, "passes": False}],
             "dbs": [{"db": 0, "pages": [[1]]}, {"db": 1, "pages": [[2, 3], [], [4]]}]}]}
        sub["supervisor"] = {"seed": seed, "max_retries": 2, "orders": 2, "cases": [
            {"scn": [["master", "slave", "slave"]], "first": 1, "masters": [1]},
            {"scn": [["slave", "master", "slave"]], "first": 2, "masters": [2]},            # fail-over to a remembered slave
            {"scn": [["err", "slave", "master"]], "first": 3, "masters": [3]},              # old master unreachable
            {"scn": [["err", "slave", "slave"], ["err", "master", "slave"]], "first": 2, "masters": [2]},  # found in a later round
            {"scn": [["slave", "slave", "err"], ["slave", "err", "slave"], ["err", "err", "err"]], "first": 0, "masters": []}]}  # retries exhausted
        rc, out, err = vlib.run_vdrv(["secrets"], stdin=json.dumps({"seed": seed, "trace": trace, "dir": sc.dir, "sub": sub}), timeout=600,
                                     env={"VERIF_LOG_DEBUG": "1"})
        if rc != 0:
            raise Infra("vdrv secrets failed rc=%s: %s" % (rc, err[-2000:]))
        res = json.loads(out)
        rows = vlib.read_ndjson(trace)
        rt = vlib.tlc(sc, "Flows", "Flows.cfg", workers=1, timeout=600)
        if rt.rc != 0 or rt.depth - 1 != len(rows):
            raise Infra("TLC failed on the emissions trace (rc=%s, judged %d of %d):\n%s" % (rt.rc, rt.depth - 1, len(rows), rt.out[-2000:]))
        rejects = [(rows, int(x)) for x in re.findall(r'<<"REJECT", (\d+)>>', rt.out)]
        extra_lines = extra_paths = 0
        if thorough:
            # more of the other families' scenario spaces with the sentinel credentials configured: several-sources runs with refusals and
            # stored checkpoints, whole syncs with drops / idle periods / a stored checkpoint, rump over 1-3 sources incl. key files
            import random
            from checks import fanin_common, c08, c16
            rnd = random.Random(seed * 13 + 1)
            fscen = [x for x in fanin_common.scenarios(rnd, 12) if max(x["refusals"]) <= 2]
            for k in range(4):
                tk = sc.path("trace-x%d.ndjson" % k)
                off = c08.scenario(rnd, k)
                off.update({"trace": sc.path("sub-offsets-x%d.ndjson" % k), "quiet_ms": 1500})
                fin = dict(fscen[k % len(fscen)], trace=sc.path("sub-fanin-x%d.ndjson" % k))
                subx = {"offsets": off, "fanin": fin, "supervisor": sub["supervisor"],
                        "rump": {"seed": seed + k, "trace": sc.path("sub-rump-x%d.ndjson" % k), "dir": sc.dir, "src_pw": "src-SECRET-pw", "tgt_pw": "tgt-SECRET-pw",
                                 "cases": [c16.gen_case(rnd, 500 + 10 * k + j, seed) for j in range(5)]}}
                rc, out, err = vlib.run_vdrv(["secrets"], stdin=json.dumps({"seed": seed + k, "trace": tk, "dir": sc.dir, "sub": subx}), timeout=900,
                                             env={"VERIF_LOG_DEBUG": "1"})
                if rc != 0:
                    raise Infra("vdrv secrets (extra run %d) failed rc=%s: %s" % (k, rc, err[-2000:]))
                rx = json.loads(out)
                extra_lines += rx["log_lines"]
                extra_paths += len(rx["paths"])
                rowsx = vlib.read_ndjson(tk)
                shutil.copyfile(tk, sc.path("trace.ndjson"))
                rtx = vlib.tlc(sc, "Flows", "Flows.cfg", workers=1, timeout=600)
                if rtx.rc != 0 or rtx.depth - 1 != len(rowsx):
                    raise Infra("TLC failed on the emissions trace of extra run %d (rc=%s, judged %d of %d):\n%s" % (k, rtx.rc, rtx.depth - 1, len(rowsx), rtx.out[-2000:]))
                rejects += [(rowsx, int(x)) for x in re.findall(r'<<"REJECT", (\d+)>>', rtx.out)]
        for rws, ln in rejects:
            ev = rws[ln - 1]
            text = ev.get("text", "")
            # signature: which sink, which fields, and the shape of the emitting statement (text with the volatile parts removed)
            shape = re.sub(r"\d+", "N", re.sub(r"^\S+ \S+ ", "", text))[:80]
            verdict.violation({"kind": ev["e"], "sink": ev.get("sink"), "fields": sorted(ev.get("fields", [])), "shape": shape},
                              "policy violated by an emission to %s carrying %s: %r" % (ev.get("sink"), ev.get("fields"), text[:300] or ev),
                              {"family": "secrets", "event": ev})
        samples = [rows[0], {"paths": res["paths"]}, {"log_lines_by_level": res["by_level"]}]
    rc = verdict.finish()
    cov = {"evaluations": res["log_lines"] + 4 + extra_lines, "distinct_nontrivial": len(res["paths"]) + 4 + extra_paths,
           "rule": "emissions = every log line (all levels, %d lines in this run) + config echo + REST metric document + syncer status; distinct = run "
                   "paths exercised (%d) + documents (4); a line is non-trivial if it was produced while credentials were configured (all are)" % (res["log_lines"], len(res["paths"])),
           "samples": samples, "exhaustive": False, "states": rt.distinct, "transitions": rt.generated, "traces_validated_against_impl": 1,
           "log_bytes": res["log_bytes"], "leaking_lines": res["leaking_lines"], "checker_cmd": rt.cmd}
    vlib.write_evidence(PID, tier, seed, "exploration", cov, time.time() - t0, len(verdict.violations),
                        ["coverage is, by the property's own quantifier, the union of the run paths exercised: sync start / full / incremental / "
                         "reconnect / cut + restart, restore, entry restore, checkpoint load, supervisor (rump: its driver scans its log too)",
                         "TLA+ contributes only the policy evaluation; detection is substring search for distinct sentinel credentials",
                         "the REST server itself is not started: the documents it serves are built by the same functions (NewMetricRest, GetSafeOptions)"])
    return rc
