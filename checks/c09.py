"""C09 - the pipe is a lossless, deadlock-free FIFO byte stream with exact close rules.

 (C) TLC: PipeRing (as implemented) refines Pipe (contract); Fifo, ParkedOnlyIfBlocked (no lost
     wake-up), DrainBeforeError, query results; Pipe refines PipeAbs; liveness under WF (thorough).
     Thorough: RingInd.tla - the ring's index arithmetic (slot (rp+i)%S holds byte r+i, pointers reset on
     drain) as an inductive invariant discharged by Apalache for unbounded totals, S in 1..6.
 (A) transition cover of PipeRing's state graph replayed lock-step through the gate hooks on the
     real pipe (memory and file back ends); return values / content compared per step.
 (B) the event traces of (A) and of free-running goroutines (byte-granular sizes around 1, cap-1,
     cap, cap+1, random closes) are validated by TLC against the contract (PipeTrace)."""
import json
import random
import time

import vlib
from vlib import Infra, log

PID = "C09"
UNIT = {"mem": 4096, "file": 4 * 1024 * 1024}


def trace_cfg(sc, cap, name):
    open(sc.path(name), "w").write(
        "CONSTANTS Cap = %d\nSPECIFICATION TSpec\nINVARIANTS ParkedOnlyIfBlocked NoLostWake\n"
        "POSTCONDITION Accepted\nCHECK_DEADLOCK FALSE\n" % cap)


def validate_trace(sc, verdict, trace, cap, label, stats):
    """TLC-validate one concatenated trace file; returns number of accepted runs."""
    import shutil
    rows = vlib.read_ndjson(trace)
    if not rows:
        raise Infra("empty trace for %s" % label)
    shutil.copyfile(trace, sc.path("trace.ndjson"))
    trace_cfg(sc, cap, "PipeTrace_run.cfg")
    r = vlib.tlc(sc, "PipeTrace", "PipeTrace_run.cfg", workers=1, timeout=900)
    stats["tlc_trace_states"] = stats.get("tlc_trace_states", 0) + r.distinct
    runs = sum(1 for x in rows if x["e"] == "Reset")
    if r.rc == 0:
        stats["events_validated"] = stats.get("events_validated", 0) + len(rows)
        return runs
    if r.violated in ("ParkedOnlyIfBlocked", "NoLostWake"):
        st = r.error_trace[-1] if r.error_trace else {}
        line = st.get("l", 0)
        ctx = rows[max(0, line - 8):line]
        verdict.violation({"kind": "trace-invariant", "invariant": r.violated, "run": label},
                          "contract invariant %s violated by the recorded trace at line %s; spec state %s"
                          % (r.violated, line, {k: v for k, v in st.items() if not k.startswith("_")}),
                          {"family": "pipe-trace", "label": label, "cap": cap, "events": ctx})
        return 0
    if "Accepted" in r.out or r.depth:
        # rejected: no contract action explains line `depth`
        line = r.depth
        ctx = rows[max(0, line - 10):line + 1]
        verdict.violation({"kind": "trace-rejected", "run": label, "event": rows[line - 1]["e"] if line - 1 < len(rows) else "?"},
                          "no action of the Pipe contract explains recorded event #%d %s (preceding events in replay file)"
                          % (line, json.dumps(rows[line - 1]) if line - 1 < len(rows) else "?"),
                          {"family": "pipe-trace", "label": label, "cap": cap, "events": ctx})
        return 0
    raise Infra("TLC failed on trace %s (rc=%s):\n%s" % (label, r.rc, r.out[-2000:]))


def run(tier, seed, replay=None):
    t0 = time.time()
    verdict = vlib.Verdict(PID)
    stats = {}
    samples = []
    vlib.build_vdrv()
    thorough = tier == "thorough"
    with vlib.Scratch(PID) as sc:
        vlib.stage_specs(sc)
        # ---------------- (C) design: refinement + invariants
        cfgs = ["PipeRing_q.cfg", "MCPipe.cfg"] + (["PipeRing_t.cfg", "PipeRing_live.cfg"] if thorough else [])
        states = trans = 0
        tlc_cmds = []
        for cfg in cfgs:
            mod = "MCPipe" if cfg.startswith("MCPipe") else "PipeRing"
            r = vlib.tlc(sc, mod, cfg, workers=8, timeout=3000)
            if r.rc != 0:
                raise Infra("model check %s/%s failed (rc=%s): the spec no longer proves the property\n%s"
                            % (mod, cfg, r.rc, r.out[-3000:]))
            states += r.distinct
            trans += r.generated
            tlc_cmds.append(r.cmd)
            log("[C] %s/%s: %d generated, %d distinct, depth %d, %.1fs" % (mod, cfg, r.generated, r.distinct, r.depth, r.wall))
        if thorough:
            # the ring arithmetic for an UNBOUNDED number of wrap-arounds (TLC's totals are bounded): inductive invariant by Apalache
            tlc_cmds += vlib.apalache_inductive(sc, "RingInd", timeout=1800)
        # ---------------- (A) spec -> code: transition cover replayed lock-step
        graphs = {}
        for capu, gencfg in ((2, "PipeRing_gen.cfg"), (3, "PipeRing_gen3.cfg")):
            r, nodes, edges, inits = vlib.tlc_graph(sc, "PipeRing", gencfg, workers=8, fields={"last"}, timeout=1800)
            states += r.distinct
            trans += r.generated
            tlc_cmds.append(r.cmd)
            paths, covered = vlib.cover_paths(nodes, edges, inits, max_len=40, seed=seed)
            log("[A] capacity %d units: graph %d states / %d edges -> %d cover paths (%d edges covered)" % (capu, len(nodes), len(edges), len(paths), covered))
            graphs[capu] = (nodes, paths)
        rnd = random.Random(seed)
        # capacity 3 units (writes of 1 or 3 units): a parked writer with the ring still more than half full after a read
        plan = [("mem", 2, len(graphs[2][1]) if thorough else 1500), ("file", 2, 400 if thorough else 90), ("mem", 3, 6000 if thorough else 600)]
        replayed = 0
        for backend, capu, count in plan:
            nodes, paths = graphs[capu]
            if count >= len(paths):
                sel = paths
            else:
                # every path on which a parked side is woken first (wake-ups are where a lost signal shows), then a seeded sample of the rest
                iswake = [any(nodes[n]["last"].get("a") in ("WWake", "RWake") for n in p[1:]) for p in paths]
                wake = [p for p, w in zip(paths, iswake) if w]
                rest = [p for p, w in zip(paths, iswake) if not w]
                rnd.shuffle(wake)
                # a third of the budget for paths with a wake-up, chosen so that every distinct context of a wake-up (the three
                # steps before it: who parked, how much the other side moved) is replayed before any context is replayed twice
                def contexts(p):
                    st = [nodes[n]["last"] for n in p[1:]]
                    return {tuple((x.get("a"), x.get("n"), x.get("k")) for x in st[max(0, i - 3):i + 1])
                            for i, x in enumerate(st) if x.get("a") in ("WWake", "RWake")}
                seen_ctx, first, later = set(), [], []
                for p in wake:
                    c = contexts(p)
                    (first if c - seen_ctx else later).append(p)
                    seen_ctx |= c
                sel = (first + later)[:count // 3]
                stats["wake_contexts"] = len(seen_ctx)
                # another third for behaviours in which the writer laps the ring while unread bytes remain (more written than the
                # capacity, with a read in between): where offsets wrap and storage is recycled
                def laps(p):
                    # replay the positions as the implementation keeps them (both reset when the ring drains): does some write start
                    # at ring offset 0 while unread bytes remain?
                    # ... and are those bytes read afterwards?
                    rpos = wpos = 0
                    lapped = False
                    for x in (nodes[n]["last"] for n in p[1:]):
                        if x.get("a") == "WSome":
                            if wpos > rpos and wpos % capu == 0:
                                lapped = True
                            wpos += x.get("n", 0)
                        elif x.get("a") == "RSome":
                            if lapped:
                                return True
                            rpos += x.get("n", 0)
                            if rpos == wpos:
                                rpos = wpos = 0
                        elif x.get("a") == "RClose":
                            return False
                    return False
                lap = [p for p in rest if laps(p)]
                rnd.shuffle(lap)
                sel += lap[:count // 3]
                stats["lap_paths_%s" % backend] = min(len(lap), count // 3)
                rest = [p for p in rest if not laps(p)]
                if len(sel) < count:
                    sel += rnd.sample(rest, min(len(rest), count - len(sel)))
                stats["wake_paths_%s" % backend] = min(len(wake), count // 3)
                log("[A] %s: %d of %d cover paths replayed, at least %d of them contain a wake-up (of %d)" % (backend, len(sel), len(paths), min(len(wake), count // 3), len(wake)))
            steps = [[nodes[n]["last"] for n in p[1:]] for p in sel]
            trace = sc.path("replay-%s-%d.ndjson" % (backend, capu))
            inp = {"backend": backend, "cap": capu, "unit": UNIT[backend], "seed": seed, "paths": steps,
                   "trace": trace, "dir": sc.dir}
            rc, out, err = vlib.run_vdrv(["pipe-replay"], stdin=json.dumps(inp), timeout=3000)
            if rc != 0:
                raise Infra("vdrv pipe-replay failed rc=%s: %s" % (rc, err[-2000:]))
            res = json.loads(out)
            replayed += res["paths"]
            stats["replay_steps"] = stats.get("replay_steps", 0) + res["steps"]
            for m in res["mismatches"] or []:
                if m["kind"] == "drift":
                    log("DRIFT (L2 only, not a verdict): %s" % m["detail"])
                    continue
                if m["kind"] == "harness":
                    raise Infra("replay harness: %s" % m["detail"])
                verdict.violation({"kind": "replay-" + m["kind"], "backend": backend},
                                  m["detail"], {"family": "pipe-replay", "backend": backend,
                                                "path": steps[m["case"]], "step": m["step"], "seed": seed})
            stats["drifts"] = stats.get("drifts", 0) + res.get("drifts", 0)
            if not samples and steps:
                samples.append({"kind": "lock-step behaviour (PipeRing actions)", "steps": steps[0][:12]})
            validate_trace(sc, verdict, trace, capu * UNIT[backend], "replay-%s-%d" % (backend, capu), stats)
        # ---------------- (B) code -> spec: free-running goroutines
        free = [("mem", 1, 4096), ("mem", 4097, 8192), ("mem", 12288, 12288), ("mem", 20000, 20480)]
        if thorough:
            free += [("mem", 65536, 65536), ("file", 1, 4 * 1024 * 1024), ("file", 9 * 1024 * 1024, 12 * 1024 * 1024)]
        nruns = 0
        for backend, size, cap in free:
            trace = sc.path("free-%s-%d.ndjson" % (backend, cap))
            runs = (600 if thorough else 120) if backend == "mem" else 40
            inp = {"backend": backend, "size": size, "cap": cap, "seed": seed, "runs": runs,
                   "ops": 60 if backend == "mem" else 25, "trace": trace, "dir": sc.dir}
            rc, out, err = vlib.run_vdrv(["pipe-free"], stdin=json.dumps(inp), timeout=3000)
            if rc != 0:
                raise Infra("vdrv pipe-free failed rc=%s: %s" % (rc, err[-2000:]))
            res = json.loads(out)
            nruns += res["runs"]
            stats["free_bytes"] = stats.get("free_bytes", 0) + res["bytes"]
            ok = validate_trace(sc, verdict, trace, cap, "free-%s-%d" % (backend, cap), stats)
            for m in res["mismatches"] or []:
                # a hang is a verdict only if TLC corroborated it (NoLostWake / rejection above)
                if not verdict.violations:
                    raise Infra("free run hung but the trace is explained by the contract: %s" % m["detail"])
            if len(samples) < 2:
                rows = vlib.read_ndjson(trace)
                samples.append({"kind": "recorded trace prefix (free run, cap %d)" % cap, "events": rows[:14]})
    rc = verdict.finish()
    cov = {"states": states, "transitions": trans,
           "traces_validated_against_impl": replayed + nruns,
           "samples": samples,
           "evaluations": replayed + nruns,
           "distinct_nontrivial": replayed,
           "rule": "lock-step behaviours = transition-cover paths of PipeRing's state graph (each covers >=1 edge no other "
                   "path covered first); free runs = seeded random writer/reader goroutines; every recorded event is "
                   "validated by TLC against the Pipe contract",
           "exhaustive": bool(thorough),
           "lockstep_paths": replayed, "free_runs": nruns, "checker_cmd": "; ".join(tlc_cmds)}
    cov.update(stats)
    vlib.write_evidence(PID, tier, seed, "model_checking", cov, time.time() - t0, len(verdict.violations),
                        ["sync.Cond has no spurious wake-ups and Signal wakes a waiter (Go runtime)",
                         "hang verdicts need a 5 s watchdog AND a contract state that owes a wake-up",
                         "lock-step replay uses whole alignment units (4 KiB / 4 MiB); odd sizes are covered by the free runs"])
    return rc
