"""C06 - configured filters are honoured identically in every mode and phase.

Filter.tla defines the predicates (db lists exact, key blacklist/whitelist by prefix, slot list, the
tool's own checkpoint keys, filter.lua) and, per data path, which (db, key) reaches the target.
 (C) TLC checks the cross-path consistency theorems on every configuration built from a pool of
     prefixes {a, ab, b} x db lists x slot list x filter.lua and every key of a pool (empty key,
     prefix-related keys, checkpoint keys, hash-tagged keys): 27 000 cases (FilterMC).
 (A/B) the same configurations x keys x databases are pushed through the REAL paths - full sync
     (syncRDBFile), restore (restoreRDBFile), incremental (parseSourceCommand + sendTargetCommand with
     SET / SCRIPT LOAD / opinfo in mixed letter case) [rump: see C16] - against the model Redis; every
     command the target executed and the final keyspace are judged by TLC with Filter.tla (FsTrace):
     a filtered key never produces a command, an unfiltered key always arrives, scripts iff not
     filter.lua, internal commands never.  Beyond the model-checked pool: scenarios with random prefix lists and
     keys over the alphabet {a, b, {, }, :} (and the checkpoint prefix), judged by the same operators."""
import itertools
import random
import time

import vlib
from vlib import Infra, log
from checks.fs_common import run_cases

PID = "C06"
KEYS = ["", "a", "ab", "abc", "b", "ba", "redis-shake-checkpoint", "redis-shake-checkpoint-x", "{ab}c", "}x{a}"]
PREFIX_SETS = [[], ["a"], ["ab"], ["b"], ["a", "ab"], ["a", "b"], ["ab", "b"], ["a", "ab", "b"]]
DB_CFGS = [({}, "none"), ({"fdb_white": ["0"]}, "w0"), ({"fdb_white": ["0", "2"]}, "w02"), ({"fdb_black": ["1"]}, "b1"), ({"fdb_black": ["0", "1"]}, "b01")]
SLOT_A = 15495  # Slot("a"), ASSUME-checked in the spec run below through FilterMC's use of Slot(<<97>>)


def scenarios():
    cid = 0
    for mode in ("sync", "restore", "incr"):
        for kind, prefixes in [("none", [])] + [("white", p) for p in PREFIX_SETS[1:]] + [("black", p) for p in PREFIX_SETS[1:]]:
            for dbcfg, dbname in DB_CFGS:
                for slots in ([], [str(SLOT_A)]):
                    for lua in (False, True):
                        if lua and (dbname != "none" or slots):
                            continue
                        cfg = {"mode": mode, "parallel": 2, "tdb": -1, "key_exists": "none", "target": {"version": "5.0.7"}, "sched": "free",
                               "filter_lua": lua, "fslot": slots}
                        cfg.update(dbcfg)
                        # (the lists are given longest prefix first in every other scenario: the decision must not depend on their order)
                        plist = sorted(prefixes, key=lambda x: -len(x)) if cid % 2 else prefixes
                        if kind == "white":
                            cfg["fkey_white"] = plist
                        elif kind == "black":
                            cfg["fkey_black"] = plist
                        ents, eid = [], 0
                        for db in (0, 1, 2):
                            for k in KEYS:
                                eid += 1
                                ents.append({"id": eid, "db": db, "key": k, "kind": "string", "type": -1})
                        ents.append({"id": eid + 1, "db": 0, "key": "", "kind": "lua"})
                        cid += 1
                        yield {"id": cid, "cfg": cfg, "pre": [], "entries": ents}


def tdb_scenarios(start):
    """target.db combined with db lists (several source dbs into one target db; keys made distinct per source db)"""
    cid = start
    for mode in ("sync", "restore", "incr"):
        for tdb in (0, 1):
            for dbcfg, dbname in DB_CFGS[1:]:
                cfg = {"mode": mode, "parallel": 2, "tdb": tdb, "key_exists": "none", "target": {"version": "5.0.7"}, "sched": "free",
                       "filter_lua": False, "fslot": []}
                cfg.update(dbcfg)
                ents, eid = [], 0
                for db in (0, 1, 2, 0, 1):
                    for k in ("a", "b"):
                        eid += 1
                        ents.append({"id": eid, "db": db, "key": "%s%d-%d" % (k, db, eid), "kind": "string", "type": -1})
                cid += 1
                yield {"id": cid, "cfg": cfg, "pre": [], "entries": ents}


def twodigit_scenarios(start):
    """databases with two digits next to db lists whose members are their decimal prefixes (db lists match whole numbers)"""
    cid = start
    for mode in ("sync", "restore", "incr"):
        for dbcfg, dbname in DB_CFGS[1:]:
            cfg = {"mode": mode, "parallel": 2, "tdb": -1, "key_exists": "none", "target": {"version": "5.0.7"}, "sched": "free",
                   "filter_lua": False, "fslot": []}
            cfg.update(dbcfg)
            ents, eid = [], 0
            for db in (1, 10, 12, 2, 11, 0):
                for k in ("a", "b"):
                    eid += 1
                    ents.append({"id": eid, "db": db, "key": "%s%d-%d" % (k, db, eid), "kind": "string", "type": -1})
            cid += 1
            yield {"id": cid, "cfg": cfg, "pre": [], "entries": ents}


def _slot(key):
    """only used to pick a slot some key of the scenario falls into (the judge is Filter.tla's own Slot)"""
    i = key.find(b"{")
    if i >= 0:
        j = key.find(b"}", i + 1)
        if j > i + 1:
            key = key[i + 1:j]
    crc = 0
    for b in key:
        crc ^= b << 8
        for _ in range(8):
            crc = ((crc << 1) ^ 0x1021) & 0xFFFF if crc & 0x8000 else (crc << 1) & 0xFFFF
    return crc % 16384


def random_scenarios(rnd, start, count):
    """prefix lists and keys drawn from a small alphabet (incl. braces and the checkpoint prefix): the recorded keys are judged
    by Filter.tla byte for byte, so nothing limits them to the model-checked pool"""
    alpha = "ab{}:"
    def word(lo, hi):
        return "".join(rnd.choice(alpha) for _ in range(rnd.randint(lo, hi)))
    cid = start
    for _ in range(count):
        mode = rnd.choice(("sync", "restore", "incr"))
        cfg = {"mode": mode, "parallel": rnd.choice([1, 2, 4]), "tdb": -1, "key_exists": "none", "target": {"version": "5.0.7"}, "sched": "free",
               "filter_lua": rnd.random() < 0.15, "fslot": []}
        plist = list({word(1, 3) for _ in range(rnd.randint(1, 4))})
        if rnd.random() < 0.15:
            plist.append("redis-shake")
        kind = rnd.choice(("white", "black", "black", "none"))
        if kind == "white":
            cfg["fkey_white"] = plist
        elif kind == "black":
            cfg["fkey_black"] = plist
        cfg.update(rnd.choice(DB_CFGS)[0])
        keys = {word(0, 6) for _ in range(24)} | {p + word(0, 2) for p in plist} | {p[:-1] for p in plist} | {"redis-shake-checkpoint" + word(0, 2)}
        if not cfg["filter_lua"] and rnd.random() < 0.3:
            k0 = rnd.choice(sorted(keys))
            cfg["fslot"] = [str(_slot(k0.encode()))]
        ents, eid = [], 0
        for db in (0, 1, 2):
            for k in sorted(keys):
                eid += 1
                ents.append({"id": eid, "db": db, "key": k, "kind": "string", "type": -1})
        ents.append({"id": eid + 1, "db": 0, "key": "", "kind": "lua"})
        cid += 1
        yield {"id": cid, "cfg": cfg, "pre": [], "entries": ents}


def run(tier, seed, replay=None):
    t0 = time.time()
    verdict = vlib.Verdict(PID)
    vlib.build_vdrv()
    thorough = tier == "thorough"
    stats = {}
    with vlib.Scratch(PID) as sc:
        vlib.stage_specs(sc)
        mc = vlib.tlc(sc, "MCFilter", "FilterMC.cfg", workers=1, timeout=1800)
        if mc.rc != 0:
            raise Infra("FilterMC failed (rc=%s %s)\n%s" % (mc.rc, mc.violated, mc.out[-2500:]))
        cases = list(scenarios())
        if not thorough:
            rnd = random.Random(seed)
            must = [c for c in cases if c["cfg"].get("fkey_white") == ["a"] or (not c["cfg"].get("fkey_white") and not c["cfg"].get("fkey_black") and not c["cfg"]["fslot"])]
            rest = [c for c in cases if c not in must]
            cases = must + rnd.sample(rest, 90)
        cases += list(tdb_scenarios(100000))
        cases += list(twodigit_scenarios(150000))
        cases += list(random_scenarios(random.Random(seed * 31 + 5), 200000, 400 if thorough else 25))
        def extra(ev, c, ent):
            cfg = c["cfg"] if c else {}
            return {"lua_entry": ev["e"] == "done", "key_whitelist": bool(cfg.get("fkey_white")), "filter_lua": cfg.get("filter_lua"),
                    "checkpoint_key": bool(ent and ent["key"].startswith("redis-shake-checkpoint"))}
        rows = run_cases(sc, PID, verdict, cases, seed, "filter-matrix", stats, sig_extra=extra)
        samples = [{"scenario_cfg": cases[3]["cfg"], "keys": KEYS}, {"events": [x for x in rows if x.get("case") == cases[3]["id"] and x["e"] in ("cmd", "final")][:6]}]
    rc = verdict.finish()
    cov = {"states": mc.distinct + stats["states"], "transitions": mc.generated + stats["transitions"], "traces_validated_against_impl": stats["cases"],
           "samples": samples, "evaluations": stats["events"], "distinct_nontrivial": sum(1 for c in cases if c["cfg"].get("fkey_white") or c["cfg"].get("fkey_black") or c["cfg"].get("fdb_white") or c["cfg"].get("fdb_black") or c["cfg"]["fslot"]),
           "rule": "scenarios = {sync, restore, incr} x key filter (none / whitelist / blacklist over the non-empty subsets of {a,ab,b}) x db list (5) x "
                   "slot list (2) x filter.lua, each with 10 keys x 3 dbs + a Lua script (quick: a seeded sample of the matrix plus the unfiltered and "
                   "whitelist-[a] rows); non-trivial = some filter configured",
           "exhaustive": bool(thorough), "keys_checked": stats["keys"], "checker_cmd": mc.cmd + "; " + stats["cmd"]}
    vlib.write_evidence(PID, tier, seed, "model_checking", cov, time.time() - t0, len(verdict.violations),
                        ["the rump path is exercised by the C16 check with the same Filter.tla operators",
                         "incremental path: SET for keys, SCRIPT LOAD for scripts, opinfo for internal commands",
                         "mredis stands in for the target"])
    return rc
