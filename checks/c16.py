"""C16 - scan-based migration (rump) copies every scanned key faithfully.

Rump.tla   fetcher (SCAN page, DUMP round, PTTL round, push) -> keyChan -> writer (skip gone, fixed target
           db, SELECT tracking per connection, batch flush, big-key route over the second connection)
           -> resultChan -> receiver; keys vanish at any moment.
 (C) TLC: all interleavings and vanish histories for two small configurations (pages incl. empty ones,
     batch 1 and 2, key count = multiple of the page size, big keys in non-zero databases, fixed target
     database): Copied, NoGhost, the named reply-skew deviation, termination under weak fairness.
 (A/B) scenarios drawn from the same space (keyspaces over several databases, scripted paginations with
     arbitrary cursors and empty pages, keys vanishing before DUMP / before PTTL, thresholds below and above
     payload sizes, key_exists none / rewrite, target.db, db / key filters, key-file scans with line counts
     around multiples of the batch size) are installed in two model Redis servers; the REAL CmdRump.Main()
     runs over TCP; the final target keyspace and the way the run ended are judged by TLC (RumpTrace.tla).
 Several sources at once (one rumper goroutine per source address, all into the one target): RumpFan.tla composes the
     executors' contracts (each goroutine works on its own source, the command ends when all have ended, the target
     holds the union, nothing twice); a third of the scenarios migrate 2-3 sources in one run."""
import concurrent.futures
import json
import os
import random
import re
import time

import vlib
from vlib import Infra, log

PID = "C16"


def db_passes(db, white, black):
    if white:
        return str(db) in white
    return str(db) not in black


def key_passes(name, white, black):
    if white:
        return any(name.startswith(p) for p in white)
    return not any(name.startswith(p) for p in black)


def gen_case(rnd, cid, seed):
    cfg = {"scan_key_number": rnd.choice([1, 2, 3, 5, 100]), "big_threshold": rnd.choice([40, 120, 10 ** 9]), "key_exists": rnd.choice(["none", "rewrite", "rewrite", "ignore"]),
           "tdb": rnd.choice([-1, -1, 0, 3]), "fdb_white": [], "fdb_black": [], "fkey_white": [], "fkey_black": [], "key_file": rnd.random() < 0.2,
           "target_version": rnd.choice(["5.0.7", "4.0.11", "3.2.12"])}
    if cfg["key_exists"] == "ignore":
        # rump sends small keys as a plain RESTORE whatever the policy ("ignore ... not used in rump mode", and outside this property's
        # quantifier); the element-by-element route of big keys does honour it (C02's policy clause): under ignore every key takes that route
        cfg["big_threshold"] = 1
    ndb = 1 if cfg["key_file"] else rnd.choice([1, 2, 2, 3])
    dbs = rnd.sample([0, 1, 2, 5, 15], ndb)
    r = rnd.random()
    if r < 0.15:
        cfg["fdb_black"] = [str(rnd.choice(dbs))]
    elif r < 0.3:
        cfg["fdb_white"] = [str(d) for d in rnd.sample(dbs, max(1, ndb - 1))]
    r = rnd.random()
    if r < 0.15:
        cfg["fkey_white"] = ["a"]
    elif r < 0.3:
        cfg["fkey_black"] = ["b", "a1"]
    keys, dbl, kid = [], [], 0
    # several sources are migrated at once into the one target (one rumper goroutine per source); a key file names the same keys
    # for every source, so that mode stays with one
    nsrc = 1 if cfg["key_file"] else rnd.choice([1, 1, 2, 3])
    for s, d in [(s, d) for s in range(nsrc) for d in (dbs if s == 0 else rnd.sample([0, 1, 2, 5, 15], rnd.choice([1, 2])))]:
        n = rnd.choice([1, 2, 3, 4, 6, 9]) if not cfg["key_file"] else rnd.choice([1, 2, 3, 4, 5, 6, 10])
        ids = []
        for _ in range(n):
            kid += 1
            # the same name may live in several databases when the databases stay apart
            name = "%s%d" % (rnd.choice("abc"), kid if cfg["tdb"] != -1 or rnd.random() < 0.7 else rnd.choice([1, 2]))
            if any(k["name"] == name and (k["db"] == d or cfg["tdb"] != -1) for k in keys):
                name = "%s_%d" % (name, kid)
            kind = rnd.choice(["string", "list", "set", "zset", "hash"])
            keys.append({"id": kid, "src": s, "db": d, "name": name, "kind": kind, "n": rnd.choice([1, 2, 5, 12]), "elem": rnd.choice([3, 10, 30]),
                         "ttl": rnd.choice([0, 0, rnd.randint(1000, 10 ** 7)]), "vanish": rnd.choice(["never"] * 6 + ["dump", "pttl"])})
            ids.append(kid)
        unscanned = []
        if not cfg["key_file"] and rnd.random() < 0.15 and len(ids) > 1:
            unscanned = [ids.pop(rnd.randrange(len(ids)))]          # a key the scan never returns
        pages, cur = [], []
        for i in ids:
            cur.append(i)
            if rnd.random() < 0.45:
                pages.append(cur)
                cur = []
                while rnd.random() < 0.25:
                    pages.append([])                                # empty page in the middle
        if cur or not pages:
            pages.append(cur)
        if rnd.random() < 0.3:
            pages.append([])                                        # the last page is empty
        if rnd.random() < 0.2:
            pages.insert(0, [])                                     # the first page is empty
        dbl.append({"src": s, "db": d, "pages": pages})
        for k in keys:
            if k["db"] == d and k["src"] == s:
                k["scanned"] = k["id"] not in unscanned and db_passes(d, cfg["fdb_white"], cfg["fdb_black"])
                k["passes"] = key_passes(k["name"], cfg["fkey_white"], cfg["fkey_black"])
    if cfg["key_file"] and rnd.random() < 0.5:
        # an empty line in the key file names a key that does not exist: it is looked up, found gone and skipped like any vanished key
        nlines = sum(len(pg) for d in dbl for pg in d["pages"])
        cfg["blank_at"] = sorted(rnd.sample(range(nlines), min(nlines, rnd.choice([1, 1, 2]))))
    pre = []
    if cfg["key_exists"] in ("rewrite", "ignore"):
        for k in keys:
            if rnd.random() < 0.3:
                pre.append({"db": k["db"] if cfg["tdb"] == -1 else cfg["tdb"], "name": k["name"]})
    if rnd.random() < 0.3:
        pre.append({"db": rnd.choice([0, 3, 7]), "name": "unrelated"})
    return {"id": cid, "sources": nsrc, "cfg": cfg, "keys": keys, "dbs": dbl, "pre": pre, "seed": seed * 100003 + cid}


def run(tier, seed, replay=None):
    t0 = time.time()
    verdict = vlib.Verdict(PID)
    vlib.build_vdrv()
    thorough = tier == "thorough"
    rnd = random.Random(seed)
    with vlib.Scratch(PID) as sc:
        vlib.stage_specs(sc)
        mcs = []
        # several sources: the composition of the executors' contracts (RumpFan.tla), and its deviation switch
        mf = vlib.tlc(sc, "MCRumpFan", "RumpFan.cfg", workers=4, timeout=600)
        if mf.rc != 0:
            raise Infra("RumpFan model check failed (rc=%s, %s)\n%s" % (mf.rc, mf.violated, mf.out[-2000:]))
        mcs.append(mf)
        if not vlib.tlc(sc, "MCRumpFan", "RumpFan_dev.cfg", workers=4, timeout=600).violated:
            raise Infra("RumpFan.tla: goroutines sharing one rumper variable no longer violate the composition - the model is vacuous")
        for cfgname in ("Rump.cfg", "Rump_b.cfg") + (("Rump_t.cfg",) if thorough else ()):
            mc = vlib.tlc(sc, "MCRump", cfgname, workers=8, timeout=3000)
            if mc.rc != 0:
                raise Infra("Rump model check failed on %s (rc=%s, %s)\n%s" % (cfgname, mc.rc, mc.violated, mc.out[-3000:]))
            mcs.append(mc)
        nproc = 12
        per = 60 if thorough else 5
        if replay:
            allcases = [[json.load(open(replay))["replay"]["case"]]]
            nproc = 1
        else:
            allcases = [[gen_case(rnd, p * 1000 + i, seed) for i in range(per)] for p in range(nproc)]
            # fixed scenarios: big key first in a non-zero database followed by small keys; key file with exactly 2 x batch lines
            allcases[0].insert(0, {"id": 999001, "seed": seed, "pre": [], "cfg": {"scan_key_number": 2, "big_threshold": 60, "key_exists": "none", "tdb": -1, "fdb_white": [], "fdb_black": [],
                                   "fkey_white": [], "fkey_black": [], "key_file": False, "target_version": "5.0.7"},
                                   "keys": [{"id": 1, "db": 0, "name": "a", "kind": "string", "n": 1, "elem": 5, "ttl": 0, "vanish": "never", "scanned": True, "passes": True},
                                            {"id": 2, "db": 1, "name": "BIG", "kind": "list", "n": 12, "elem": 30, "ttl": 9000, "vanish": "never", "scanned": True, "passes": True},
                                            {"id": 3, "db": 1, "name": "c", "kind": "string", "n": 1, "elem": 5, "ttl": 0, "vanish": "never", "scanned": True, "passes": True},
                                            {"id": 4, "db": 1, "name": "d", "kind": "string", "n": 1, "elem": 5, "ttl": 5000, "vanish": "never", "scanned": True, "passes": True}],
                                   "dbs": [{"db": 0, "pages": [[1]]}, {"db": 1, "pages": [[2, 3], [4]]}]})
        # three sources at once, the same database numbers and key kinds in each, names distinct per source
        if not replay:
            ks, dl, kid = [], [], 0
            for s in range(3):
                for d in (0, 1):
                    ids = []
                    for j in range(3):
                        kid += 1
                        ks.append({"id": kid, "src": s, "db": d, "name": "m%d_%d_%d" % (s, d, j), "kind": ["string", "list", "hash"][j], "n": 3, "elem": 8, "ttl": 7000 * j,
                                   "vanish": "never", "scanned": True, "passes": True})
                        ids.append(kid)
                    dl.append({"src": s, "db": d, "pages": [ids[:2], ids[2:]]})
            allcases[1 % nproc].insert(0, {"id": 999200, "sources": 3, "seed": seed, "pre": [], "keys": ks, "dbs": dl,
                                          "cfg": {"scan_key_number": 2, "big_threshold": 10 ** 9, "key_exists": "none", "tdb": -1, "fdb_white": [], "fdb_black": [], "fkey_white": [],
                                                  "fkey_black": [], "key_file": False, "target_version": "5.0.7"}})
        # a key file with empty lines in the middle (names of keys that do not exist): every key after them is still copied
        if not replay:
            ks = [{"id": i + 1, "db": 0, "name": "bl%d" % i, "kind": ["string", "list", "hash"][i % 3], "n": 2, "elem": 6, "ttl": 0, "vanish": "never", "scanned": True, "passes": True}
                  for i in range(7)]
            allcases[4 % nproc].insert(0, {"id": 999310, "seed": seed, "pre": [], "keys": ks, "dbs": [{"db": 0, "pages": [list(range(1, 8))]}],
                                          "cfg": {"scan_key_number": 3, "big_threshold": 10 ** 9, "key_exists": "none", "tdb": -1, "fdb_white": [], "fdb_black": [], "fkey_white": [],
                                                  "fkey_black": [], "key_file": True, "blank_at": [2, 5], "target_version": "5.0.7"}})
        # a key file larger than the line reader's buffer (4 KiB): 600 names of 16 bytes
        if not replay:
            ks = [{"id": i + 1, "db": 0, "name": "kf%04d-%s" % (i, "abcdefgh"[i % 8] * 8), "kind": "string", "n": 1, "elem": 6, "ttl": 0, "vanish": "never", "scanned": True, "passes": True}
                  for i in range(600)]
            allcases[2 % nproc].insert(0, {"id": 999300, "seed": seed, "pre": [], "keys": ks, "dbs": [{"db": 0, "pages": [list(range(1, 601))]}],
                                          "cfg": {"scan_key_number": 50, "big_threshold": 10 ** 9, "key_exists": "none", "tdb": -1, "fdb_white": [], "fdb_black": [], "fkey_white": [],
                                                  "fkey_black": [], "key_file": True, "target_version": "5.0.7"}})
        # a rate limit well below the key count and a lull at the source: the run still has to end with every key copied
        if not replay:
            for j, (qps, nk) in enumerate([(4, 14)] + ([(3, 20), (5, 11)] if thorough else [])):
                ks = [{"id": i + 1, "db": 0, "name": "q%d" % i, "kind": "string", "n": 1, "elem": 5, "ttl": 0, "vanish": "never", "scanned": True, "passes": True} for i in range(nk)]
                allcases[(3 + j) % nproc].insert(0, {"id": 999100 + j, "seed": seed, "pre": [], "keys": ks, "dbs": [{"db": 0, "pages": [[1, 2], list(range(3, nk + 1))]}],
                                                    "cfg": {"scan_key_number": 3, "big_threshold": 10 ** 9, "key_exists": "none", "tdb": -1, "fdb_white": [], "fdb_black": [], "fkey_white": [],
                                                            "fkey_black": [], "key_file": False, "target_version": "5.0.7", "qps": qps, "scan_lull_ms": 2300}})
        # a fault at the target in the middle of a batch: one RESTORE is refused (OOM) - the run must not end as a success
        # (last case of its process: the command's goroutines stay behind after the tool's "panic = exit")
        if not replay:
            for j, nb in enumerate([2, 3] if thorough else [2]):
                ks = [{"id": i + 1, "db": 0, "name": "tf%d" % i, "kind": "string", "n": 1, "elem": 6, "ttl": 0, "vanish": "never", "scanned": True, "passes": True} for i in range(6)]
                allcases[(5 + j) % nproc].append({"id": 999400 + j, "seed": seed, "pre": [], "keys": ks, "dbs": [{"db": 0, "pages": [[1, 2, 3], [4, 5, 6]]}],
                                                  "cfg": {"scan_key_number": nb, "big_threshold": 10 ** 9, "key_exists": "none", "tdb": -1, "fdb_white": [], "fdb_black": [], "fkey_white": [],
                                                          "fkey_black": [], "key_file": False, "target_version": "5.0.7", "fault_key": "tf2"}})
        def one(p):
            d = sc.path("w%d" % p)
            os.makedirs(d, exist_ok=True)
            inp = {"seed": seed, "trace": sc.path("trace-%d.ndjson" % p), "dir": d, "cases": allcases[p]}
            r = vlib.run_vdrv(["rump"], stdin=json.dumps(inp), timeout=3000)
            if os.environ.get("VERIF_LOG"):
                log(r[2][-6000:])
            return r
        with concurrent.futures.ThreadPoolExecutor(max_workers=nproc) as ex:
            results = list(ex.map(one, range(nproc)))
        trace = sc.path("trace.ndjson")
        stats = {}
        with open(trace, "w") as out_f:
            for p, (rc, out, err) in enumerate(results):
                if rc != 0:
                    raise Infra("vdrv rump failed rc=%s: %s" % (rc, err[-2000:]))
                for k, v in json.loads(out)["stats"].items():
                    stats[k] = stats.get(k, 0) + v
                out_f.write(open(sc.path("trace-%d.ndjson" % p)).read())
        rows = vlib.read_ndjson(trace)
        rt = vlib.tlc(sc, "RumpTrace", "RumpTrace.cfg", workers=1, timeout=6000)
        if rt.rc != 0 or rt.depth - 1 != len(rows):
            raise Infra("TLC failed on the trace (rc=%s, judged %d of %d):\n%s" % (rt.rc, rt.depth - 1, len(rows), rt.out[-2000:]))
        bycase = {c["id"]: c for cs in allcases for c in cs}
        for ln in [int(x) for x in re.findall(r'<<"REJECT", (\d+)>>', rt.out)]:
            ev = rows[ln - 1]
            c = bycase.get(ev["case"], {})
            keys = {k["id"]: k for k in c.get("keys", [])}
            got = {t["id"] for t in ev["target"] if not t["pre"]}
            must = {k["id"] for k in keys.values() if k["scanned"] and k["passes"] and k["vanish"] == "never"}
            missing, ghosts = sorted(must - got), sorted(got - must)
            wrong = sorted(t["id"] for t in ev["target"] if not t["pre"] and not (t["val_ok"] and t["ttl_ok"]))
            sig = {"kind": "rend", "finished": ev["finished"], "hung": ev["hung"], "aborted": bool(ev["err"]), "missing": bool(missing), "ghost": bool(ghosts) or ev["foreign"] > 0,
                   "wrong_value_or_ttl": bool(wrong), "key_file": c.get("cfg", {}).get("key_file"), "tdb_fixed": c.get("cfg", {}).get("tdb", -1) != -1}
            detail = "case %s cfg %s: finished=%s hung=%s err=%r missing=%s unexpected=%s foreign=%d wrong value/ttl=%s vanish=%s" % (
                ev["case"], c.get("cfg"), ev["finished"], ev["hung"], ev["err"], [(keys[i]["db"], keys[i]["name"]) for i in missing],
                [(keys[i]["db"], keys[i]["name"], keys[i]["vanish"]) for i in ghosts if i in keys], ev["foreign"], wrong,
                [(k["name"], k["vanish"]) for k in keys.values() if k["vanish"] != "never"])
            verdict.violation(sig, detail, {"family": "rump", "case": c, "event": ev})
        samples = [rows[0], {"stats": stats}]
    rc = verdict.finish()
    cov = {"evaluations": len(rows), "distinct_nontrivial": stats.get("cases", 0),
           "rule": "non-trivial = scenarios run through the real CmdRump.Main() (each a different keyspace x pagination x configuration x vanish history): %d scenarios, %d source keys, "
                   "%d element commands of big-key expansions" % (stats.get("cases", 0), stats.get("keys", 0), stats.get("expanded_cmds", 0)),
           "samples": samples, "exhaustive": False, "states": sum(m.distinct for m in mcs) + rt.distinct, "transitions": sum(m.generated for m in mcs) + rt.generated,
           "model_states": [m.distinct for m in mcs], "traces_validated_against_impl": stats.get("cases", 0), "checker_cmd": rt.cmd}
    vlib.write_evidence(PID, tier, seed, "model_checking", cov, time.time() - t0, len(verdict.violations),
                        ["both servers run on a fixed model clock: remaining TTL is compared exactly; a TTL that reaches 0 ms between PTTL and RESTORE is not modelled",
                         "the scan never returns the same key twice (real SCAN may; under key_exists=none the tool then stops on BUSYKEY, outside the property's quantifier)",
                         "key-file scans are run with one populated database (the tool reads the file once, for the first database it visits)",
                         "real goroutine schedules are free-running; the model covers all interleavings of the abstract pipeline"])
    return rc
