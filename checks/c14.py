"""C14 - resume picks its own source's newest checkpoint and reads what the sender wrote.

Checkpoint.tla generates every target state reachable by a few sender writes / partial damages from
three sources (two of them prefix-related: h:63, h:6379; one with dashes in its host name: x-1.y:1) into three databases and carries, per state,
the contract's answer LoadExp(source) (newest own offset, run id or unknown, database, refusal of an
incompatible version, which stale own entries are removed).  TLC checks the contract's consequences in
every state; the driver installs each (sampled: quick / all: thorough) state in the model Redis over
loopback TCP with shuffled field order, calls the REAL checkpoint.LoadCheckpoint for every source and
compares result and post-state.  Writer and reader together: behaviours of IncrSync.tla with database
switches and two cuts are replayed lock-step - the REAL sender writes the checkpoints, the REAL loader
reads them after each cut and a new sender resumes from the answer, sometimes under another run id;
every snapshot is judged by TLC (offset, database and run id stored together)."""
import json
import time

import vlib
from vlib import Infra, log

PID = "C14"
FIELDS = {"off", "rid", "ver", "data", "exp"}


def run(tier, seed, replay=None):
    t0 = time.time()
    verdict = vlib.Verdict(PID)
    vlib.build_vdrv()
    thorough = tier == "thorough"
    with vlib.Scratch(PID) as sc:
        vlib.stage_specs(sc)
        mc = vlib.tlc(sc, "Checkpoint", "Checkpoint.cfg", workers=8, timeout=3000)
        if mc.rc != 0:
            raise Infra("Checkpoint model check failed (rc=%s)\n%s" % (mc.rc, mc.out[-3000:]))
        r, paths = vlib.sim_paths(sc, "Checkpoint", "Checkpoint.cfg", 6000 if thorough else 900, 7, seed, fields=FIELDS)
        seen, states = set(), []
        for p in paths:
            for st in p:
                key = json.dumps(st, sort_keys=True)
                if key not in seen:
                    seen.add(key)
                    states.append(st)
        log("[A] %d distinct target states from %d simulated behaviours" % (len(states), len(paths)))
        rc, out, err = vlib.run_vdrv(["ckpt"], stdin=json.dumps({"seed": seed, "states": states}), timeout=3000)
        if rc != 0:
            raise Infra("vdrv ckpt failed rc=%s: %s" % (rc, err[-2000:]))
        res = json.loads(out)
        for m in res["mismatches"] or []:
            ex = m["extra"]
            fields = ex["fields"]
            prefix_mix = any(("h:63-" in k and any("h:6379-" in k2 and k2.split("/")[0] == k.split("/")[0] for k2 in fields)) for k in fields)
            verdict.violation({"kind": "load", "src": ex["src"], "expected": ex["kind"], "prefix_related_sources_share_db": prefix_mix},
                              m["detail"], {"family": "ckpt", "state": states[m["case"]], "src": ex["src"]})
        # ---- writer and reader together: the REAL sender writes checkpoints (database switches, several batches), the run is cut,
        # the REAL loader reads them back and a new sender resumes - sometimes under another run id (IncrSync.tla, lock-step)
        from checks.incr_common import one_family
        wstats = {"lockstep_paths": 0, "steps": 0, "snapshots": 0, "crash_restarts": 0, "drifts": 0, "free_runs": 0}
        wcmds, wsamples = [], []
        fam = dict(name="writer-reader", params=dict(fdbs=[], kf=False, lua=False, tdb=9, resume=True, sender_count=1, buf_cap=2, crash=2, maxlen=7, kinds=["w", "ping"]),
                   mc_len=(4, 5), paths_quick=120, paths_thorough=1200, depth=70)
        ws, wt = one_family(sc, verdict, fam, thorough, seed, ["InOrderExactlyOnce", "NoMarkers", "CkptAtomic", "CkptHasRunId", "Complete"], wstats, wcmds, wsamples)
    rc = verdict.finish()
    cov = {"states": mc.distinct + ws, "transitions": mc.generated + wt, "traces_validated_against_impl": res["evaluations"] + wstats["lockstep_paths"],
           "writer_reader_behaviours": wstats["lockstep_paths"], "writer_reader_restarts": wstats["crash_restarts"],
           "samples": states[5:7], "evaluations": res["evaluations"], "distinct_nontrivial": res["nontrivial"],
           "rule": "cases = (distinct simulated target state, source); non-trivial = the source has an own checkpoint in the state",
           "exhaustive": False, "distinct_states_replayed": len(states), "checker_cmd": mc.cmd + "; " + r.cmd}
    vlib.write_evidence(PID, tier, seed, "model_checking", cov, time.time() - t0, len(verdict.violations),
                        ["the model Redis (mredis) stands in for the target: INFO keyspace, SELECT, EXISTS, HGETALL, HDEL",
                         "ties (two databases holding the same own offset) are not generated: the sender's offsets strictly increase",
                         "writer and reader together: one IncrSync family (database switches, two cuts per behaviour) replayed lock-step; the full set of families is C04's"])
    return rc
