"""C04 - checkpoints are atomic with the data, so resume loses and repeats nothing.

Same model and machinery as C03 with resume-from-breakpoint on and the Crash action enabled: TLC
proves CkptAtomic (dataset = source history up to the newest stored offset, in EVERY reachable state,
i.e. at every possible cut), CkptHasRunId and Complete (after restart + completion nothing is lost or
applied twice) for every interleaving and every cut position.  Simulated behaviours - including cuts
inside and outside the target's MULTI - are replayed lock-step into the real code: a cut kills the
target connections, the REAL checkpoint.LoadCheckpoint reads what the REAL sender stored, a new
parser/sender pair resumes at offset+1 in the recorded database; every per-step snapshot (= every
enumerated cut point) is judged by TLC.

End to end: System.tla composes the whole life cycle (PSYNC, receive, checkpointed batches, connection
drops with re-PSYNC at the next byte, crash + restart from the stored checkpoint; ExactlyOnce, CkptAtomic,
NeverAhead, ResumeExact, completion under fairness; the deviation "checkpoint written after the data"
must violate it; SystemInd.tla, its counter abstraction, has an inductive invariant that Apalache discharges for
unbounded stream length, command length and fault counts).  Complete runs of the REAL DbSyncer.Sync() (scripted source with drops inside
commands, pre-stored checkpoints, model Redis target) log every transaction the target executes;
SystemTrace.tla judges each one: its writes are exactly the stream commands between the previous and
the new checkpoint, which is a command boundary within what the source had sent.  Further runs put the
tool into a process of its own (servers in another) and SIGKILL it at arbitrary moments - during the
full sync, between batches, inside a transaction - each time followed by a fresh process that must
resume from whatever checkpoint the target holds; the same trace specification judges every
transaction and the final state (every command applied exactly once, checkpoint = end of stream)."""
import json
import re

from checks.incr_common import run_family

PID = "C04"
BASE = dict(fdbs=[], kf=False, lua=False, tdb=9, resume=True, sender_count=2, buf_cap=2, crash=1, maxlen=6,
            kinds=["w", "ping", "multi"])
FAMILIES = [
    dict(name="resume", params=dict(BASE, kinds=["w", "wm", "ping", "multi"], kf=True), mc_len=(4, 5), paths_quick=250, paths_thorough=2500),
    dict(name="resume-2cuts", params=dict(BASE, crash=2, sender_count=3, kinds=["w", "ping"]), mc_len=(4, 5), paths_quick=150, paths_thorough=1500),
    dict(name="resume-dbfilter", params=dict(BASE, fdbs=[1], sender_count=1, kinds=["w", "multi"]), mc_len=(4, 6), paths_quick=150, paths_thorough=1500),
    # keep-alive PINGs while a filtered database is selected: nothing of that region may move the checkpoint
    dict(name="resume-dbfilter-ping", params=dict(BASE, fdbs=[1], sender_count=2, kinds=["w", "ping"]), mc_len=(4, 6), paths_quick=150, paths_thorough=1500,
         prefer=lambda st: _ping_in_filtered_then_cut_then_write(st),
         # a PING (and nothing else) while the filtered database is selected, a cut, then writes to the filtered database
         fixed=[[("sel", 0), ("w", -1), ("sel", 1), ("ping", -1), ("cut", 0), ("w", -1), ("sel", 0), ("w", -1)],
                [("sel", 0), ("w", -1), ("w", -1), ("sel", 1), ("w", -1), ("ping", -1), ("cut", 0), ("w", -1), ("ping", -1), ("w", -1), ("sel", 0), ("w", -1)],
                [("sel", 1), ("ping", -1), ("sel", 0), ("w", -1), ("sel", 1), ("ping", -1), ("cut", 0), ("w", -1), ("cut", 0), ("w", -1), ("sel", 0), ("w", -1)]]),
    dict(name="resume-targetdb", params=dict(BASE, tdb=1, kinds=["w", "wf", "ping"], kf=True), mc_len=(4, 5), paths_quick=150, paths_thorough=1500),
]


def _ping_in_filtered_then_cut_then_write(steps):
    """the source emits a PING while database 1 (filtered) is selected, the run is cut later, and a write is emitted after the cut"""
    db, stage = None, 0
    for s in steps:
        a = s.get("a")
        if a == "SrcEmit":
            it = s["item"]
            if it["t"] == "sel":
                db = it["d"]
            elif it["t"] == "ping" and db == 1 and stage == 0:
                stage = 1
            elif it["t"] == "w" and stage == 2:
                return True
        elif a == "Crash" and stage == 1:
            stage = 2
    return False


def end_to_end(sc, verdict, thorough, seed):
    """System.tla (the whole life cycle: PSYNC, receive, checkpointed batches, drops + re-PSYNC, crash + restart) model-checked,
    and complete DbSyncer.Sync() runs validated transaction by transaction against its contract (SystemTrace.tla)."""
    import concurrent.futures
    import random
    import vlib
    from vlib import Infra, log
    states = trans = 0
    cmds = []
    for cfg in ["System.cfg"] + (["System_t.cfg"] if thorough else []):
        r = vlib.tlc(sc, "System", cfg, workers=8, timeout=3000)
        if r.rc != 0:
            raise Infra("System model check failed on %s (rc=%s, %s)\n%s" % (cfg, r.rc, r.violated, r.out[-2500:]))
        states += r.distinct
        trans += r.generated
        cmds.append(r.cmd)
    r = vlib.tlc(sc, "System", "System_dev.cfg", workers=4, timeout=600)
    if not r.violated:
        raise Infra("System.tla: writing the checkpoint in a separate step no longer violates the contract - the model is vacuous")
    # unbounded safety: Apalache discharges an inductive invariant of the counter abstraction SystemInd.tla for ALL stream lengths,
    # command lengths and numbers of drops / crashes (initiation, consecution, and that the invariant implies the safety properties)
    import subprocess
    for what, args in (("initiation", ["--init=Init", "--inv=IndInv", "--length=0"]), ("consecution", ["--init=IndInit", "--inv=IndInv", "--length=1"]),
                       ("implies safety", ["--init=IndInit", "--inv=Safety", "--length=0"])):
        cmd = ["apalache-mc", "check", "--cinit=ConstInit", "--out-dir=" + sc.path("apalache-out")] + args + ["SystemInd.tla"]
        try:
            p = subprocess.run(cmd, cwd=sc.dir, stdout=subprocess.PIPE, stderr=subprocess.STDOUT, text=True, timeout=900)
        except subprocess.TimeoutExpired:
            raise Infra("apalache timed out on SystemInd (%s)" % what)
        if "EXITCODE: OK" not in p.stdout:
            raise Infra("apalache could not discharge SystemInd %s:\n%s" % (what, p.stdout[-2500:]))
        cmds.append(" ".join(cmd[:3] + args + ["SystemInd.tla"]))
    rnd = random.Random(seed * 31 + 7)
    scen = []
    for i in range(24 if thorough else 6):
        ncmd = rnd.choice([20, 30, 45])
        scen.append({"seed": rnd.randrange(1 << 30), "start": rnd.choice([0, 1000, 2 ** 31 + 5, 2 ** 40]), "commands": ncmd,
                     "idles": sorted(rnd.sample(range(2, ncmd - 2), 1)), "idle_ms": 1300, "drops": sorted(rnd.sample(range(3, ncmd - 3), rnd.choice([0, 1, 2]))),
                     "drop_skew": rnd.choice([0, 5, 13]), "refuse": 0, "frags": rnd.choice([[], [7], [1000]]), "quiet_ms": 3400, "budget_ms": 40000,
                     "resume_at": (rnd.randrange(2, 8) if i % 3 == 2 else 0), "trace": sc.path("e2e-%d.ndjson" % i)})

    def one(s):
        return vlib.run_vdrv(["offsets"], stdin=json.dumps(s), timeout=300)
    with concurrent.futures.ThreadPoolExecutor(max_workers=12) as ex:
        results = list(ex.map(one, scen))
    rows = []
    owner = []
    for s, (rc, out, err) in zip(scen, results):
        if rc != 0:
            raise Infra("vdrv offsets failed rc=%s: %s" % (rc, err[-2000:]))
        part = vlib.read_ndjson(s["trace"])
        rows += part
        owner += [s] * len(part)
    vlib.write_ndjson(sc.path("trace.ndjson"), rows)
    rt = vlib.tlc(sc, "SystemTrace", "SystemTrace.cfg", workers=1, timeout=1800)
    if rt.rc != 0 or rt.depth - 1 != len(rows):
        raise Infra("TLC failed on the end-to-end trace (rc=%s, judged %d of %d):\n%s" % (rt.rc, rt.depth - 1, len(rows), rt.out[-2000:]))
    for ln in [int(x) for x in re.findall(r'<<"REJECT", (\d+)>>', rt.out)]:
        ev = rows[ln - 1]
        s = owner[ln - 1]
        prev = [x for x in rows[:ln - 1] if x["e"] == "tgt-exec"][-3:]
        verdict.violation({"kind": "e2e-" + ev["e"], "drops": len(s["drops"]), "resumed": s["resume_at"] > 0, "outside_tx": ev.get("ckpt") == -1},
                          "end-to-end Sync(): %s violates the life-cycle contract (transaction = exactly the commands between the previous and the new checkpoint, "
                          "within what was received; re-PSYNC at the next byte): %s; previous transactions %s; scenario %s" % (
                              ev["e"], {k: v for k, v in ev.items() if k != "seq"}, [(x["pushes"], x["ckpt"]) for x in prev],
                              {k: s[k] for k in ("start", "commands", "drops", "drop_skew", "frags", "resume_at")}),
                          {"family": "offsets", "scenario": s})
    ntx = sum(1 for x in rows if x["e"] == "tgt-exec")
    log("[e2e] %d complete Sync() runs, %d target transactions judged by SystemTrace" % (len(scen), ntx))
    # ---- real process crashes: the tool (a whole Sync()) runs in its own process and is SIGKILLed at arbitrary moments
    ks, kt, kstats = kill_runs(sc, verdict, thorough, seed)
    return states + rt.distinct + ks, trans + rt.generated + kt, dict({"e2e_runs": len(scen), "e2e_transactions": ntx}, **kstats), cmds


def kill_runs(sc, verdict, thorough, seed):
    import concurrent.futures
    import os
    import random
    import subprocess
    import time
    import vlib
    from vlib import Infra, log
    rnd = random.Random(seed * 131 + 3)
    scen = []
    for i in range(20 if thorough else 4):
        d = sc.path("kill-%d" % i)
        os.makedirs(d)
        scen.append({"cfg": {"seed": rnd.randrange(1 << 30), "start": rnd.choice([0, 1000, 2 ** 31 + 5, 2 ** 40]), "commands": rnd.choice([30, 45, 60]),
                             "idles": [rnd.randrange(5, 25)], "idle_ms": rnd.choice([300, 1200]), "frags": [rnd.choice([30, 60, 120]), 0], "pause_us": rnd.choice([15000, 30000, 45000]),
                             "trace": os.path.join(d, "trace.ndjson"), "dir": d, "budget_ms": 120000},
                     "kills": [round(rnd.uniform(0.1, 1.8), 3) for _ in range(rnd.choice([2, 3, 4, 5] if thorough else [2, 3]))]})

    def popen(args, cfg):
        p = subprocess.Popen([vlib.VDRV] + args, stdin=subprocess.PIPE, stdout=subprocess.PIPE, stderr=subprocess.DEVNULL, text=True, env=vlib.GOENV)
        p.stdin.write(json.dumps(cfg))
        p.stdin.close()
        return p

    def wait_for(path, secs):
        t0 = time.time()
        while not os.path.exists(path):
            if time.time() - t0 > secs:
                return False
            time.sleep(0.01)
        return True

    def one(s):
        cfg, d = s["cfg"], s["cfg"]["dir"]
        sv = popen(["e2e-servers"], cfg)
        tool = None
        try:
            if not wait_for(os.path.join(d, "addrs.json"), 20):
                return "servers did not start"
            addrs = json.load(open(os.path.join(d, "addrs.json")))
            tcfg = dict(cfg, src=addrs["src"], tgt=addrs["tgt"])
            tool = popen(["e2e-syncer"], tcfg)
            for k, delay in enumerate(s["kills"], 1):
                time.sleep(delay)
                tool.kill()                        # SIGKILL: no deferred function, no flush, nothing
                tool.wait()
                open(os.path.join(d, "restart.%d" % k), "w").write("x")
                if not wait_for(os.path.join(d, "restart.%d.done" % k), 20):
                    return "servers did not acknowledge restart %d" % k
                tool = popen(["e2e-syncer"], tcfg)
            t0 = time.time()
            while time.time() - t0 < 90:            # until the source has sent everything and the target stored the end of the stream
                try:
                    st = json.load(open(os.path.join(d, "status.json")))
                except Exception:
                    st = {}
                if st.get("sent", 0) > 0 and st.get("sent") == st.get("stream_len") and st.get("stored") == st.get("stream_len"):
                    break
                if tool.poll() is not None:         # the tool ended by itself (its "panic = exit"): judge what is there
                    break
                time.sleep(0.1)
            time.sleep(1.2)
            open(os.path.join(d, "finish"), "w").write("x")
            if not wait_for(os.path.join(d, "finish.done"), 30):
                return "servers did not finish"
            sv.wait(timeout=30)
            return None
        finally:
            for p in (tool, sv):
                if p is not None and p.poll() is None:
                    p.kill()
                    p.wait()
    with concurrent.futures.ThreadPoolExecutor(max_workers=10) as ex:
        errs = list(ex.map(one, scen))
    for s, e in zip(scen, errs):
        if e:
            raise Infra("kill scenario %s: %s" % (s["cfg"]["dir"], e))
    rows, owner = [], []
    for s in scen:
        part = vlib.read_ndjson(s["cfg"]["trace"])
        rows += part
        owner += [s] * len(part)
    vlib.write_ndjson(sc.path("trace.ndjson"), rows)
    rt = vlib.tlc(sc, "SystemTrace", "SystemTrace.cfg", workers=1, timeout=1800)
    if rt.rc != 0 or rt.depth - 1 != len(rows):
        raise Infra("TLC failed on the kill traces (rc=%s, judged %d of %d):\n%s" % (rt.rc, rt.depth - 1, len(rows), rt.out[-2000:]))
    for ln in [int(x) for x in re.findall(r'<<"REJECT", (\d+)>>', rt.out)]:
        ev = rows[ln - 1]
        s = owner[ln - 1]
        before = [x for x in rows[:ln - 1] if x["e"] in ("tgt-exec", "restart", "src-psync")][-5:]
        verdict.violation({"kind": "kill-" + ev["e"], "kills": len(s["kills"]), "outside_tx": ev.get("ckpt") == -1},
                          "Sync() in its own process, killed %d times (after %s s): %s violates the life-cycle contract: %s; before it: %s" % (
                              len(s["kills"]), s["kills"], ev["e"], {k: v for k, v in ev.items() if k != "seq"},
                              [{k: v for k, v in x.items() if k in ("e", "pushes", "ckpt", "n", "off")} for x in before]),
                          {"family": "e2e-kill", "scenario": {"cfg": {k: v for k, v in s["cfg"].items() if k not in ("trace", "dir")}, "kills": s["kills"]}})
    nrestart = sum(1 for x in rows if x["e"] == "restart")
    resumed = sum(1 for x in rows if x["e"] == "restart" and x["n"] >= 0)
    log("[e2e-kill] %d runs, %d SIGKILLs (%d with a stored checkpoint to resume from), %d target transactions" % (
        len(scen), nrestart, resumed, sum(1 for x in rows if x["e"] == "tgt-exec")))
    return rt.distinct, rt.generated, {"kill_runs": len(scen), "kills": nrestart, "kills_with_checkpoint": resumed}


def run(tier, seed, replay=None):
    return run_family(PID, tier, seed, FAMILIES, extra=end_to_end, invariants= ["InOrderExactlyOnce", "NoMarkers", "CkptAtomic", "CkptHasRunId", "Complete"],
                      assumptions=["offsets are exact byte positions with a static base: the moving acknowledgement base of a live source connection is C08's subject",
                                   "a cut = all target connections closed at a command boundary of the target's input (bytes of a partially received command are not modelled)",
                                   "mredis stands in for the target Redis"])
