"""C04 - checkpoints are atomic with the data, so resume loses and repeats nothing.

Same model and machinery as C03 with resume-from-breakpoint on and the Crash action enabled: TLC
proves CkptAtomic (dataset = source history up to the newest stored offset, in EVERY reachable state,
i.e. at every possible cut), CkptHasRunId and Complete (after restart + completion nothing is lost or
applied twice) for every interleaving and every cut position.  Simulated behaviours - including cuts
inside and outside the target's MULTI - are replayed lock-step into the real code: a cut kills the
target connections, the REAL checkpoint.LoadCheckpoint reads what the REAL sender stored, a new
parser/sender pair resumes at offset+1 in the recorded database; every per-step snapshot (= every
enumerated cut point) is judged by TLC."""
from checks.incr_common import run_family

PID = "C04"
BASE = dict(fdbs=[], kf=False, lua=False, tdb=9, resume=True, sender_count=2, buf_cap=2, crash=1, maxlen=6,
            kinds=["w", "ping", "multi"])
FAMILIES = [
    dict(name="resume", params=dict(BASE, kinds=["w", "wm", "ping", "multi"], kf=True), mc_len=(4, 5), paths_quick=250, paths_thorough=2500),
    dict(name="resume-2cuts", params=dict(BASE, crash=2, sender_count=3, kinds=["w", "ping"]), mc_len=(4, 5), paths_quick=150, paths_thorough=1500),
    dict(name="resume-dbfilter", params=dict(BASE, fdbs=[1], sender_count=1, kinds=["w", "multi"]), mc_len=(4, 6), paths_quick=150, paths_thorough=1500),
    dict(name="resume-targetdb", params=dict(BASE, tdb=1, kinds=["w", "wf", "ping"], kf=True), mc_len=(4, 5), paths_quick=150, paths_thorough=1500),
]


def run(tier, seed, replay=None):
    return run_family(PID, tier, seed, FAMILIES, ["InOrderExactlyOnce", "NoMarkers", "CkptAtomic", "CkptHasRunId", "Complete"],
                      assumptions=["offsets are exact byte positions with a static base: the moving acknowledgement base of a live source connection is C08's subject",
                                   "a cut = all target connections closed at a command boundary of the target's input (bytes of a partially received command are not modelled)",
                                   "mredis stands in for the target Redis"])
