"""C08 - offsets reported to the source are exactly 'start offset + bytes consumed'.

 (C) Offsets.tla: source send / tool receive / ACK tick / connection drop / reconnect; TLC checks for
     every interleaving (<= 5-7 bytes, 3-4 ticks, 2 drops) AckExact, AckMonotone, NeverAhead,
     ReconnectExact, NoGapNoDup, and that the arithmetic as built before the fix (a deviation switch)
     violates them; OffsetsInd.tla (the sequences replaced by their last element) has an inductive invariant that Apalache
    discharges for unbounded start offsets, stream lengths, ticks and drops.
 (B) complete end-to-end runs of the REAL DbSyncer.Sync() - checkpoint load, PSYNC handshake, full
     sync, incremental sync with resume, the once-per-second ACK goroutine and the reconnect loop -
     between a scripted source (bursts, idle periods spanning several ACK ticks, connection drops at and
     inside command boundaries, start offsets up to 2^40) and the model Redis, in real time, several
     processes in parallel.  Source events, the tool's recv/ack linearisation events and the target's
     checkpoint offsets share one sequence and are judged by TLC (OffsetsTrace.tla): every ACK between
     start+received and start+sent, monotone; re-PSYNC at exactly the next byte; at quiescence ACK =
     start + stream length; checkpoints only at command ends, increasing; nothing lost or applied twice."""
import concurrent.futures
import json
import random
import re
import shutil
import time

import vlib
from vlib import Infra, log

PID = "C08"


def scenario(rnd, i):
    ncmd = rnd.choice([20, 30, 45])
    idles = sorted(rnd.sample(range(2, ncmd - 2), rnd.choice([1, 2])))
    drops = sorted(rnd.sample(range(3, ncmd - 3), rnd.choice([0, 1, 1, 2])))
    return {"seed": rnd.randrange(1 << 30), "start": rnd.choice([0, 1, 1000, 2 ** 31 + 5, 2 ** 40]), "commands": ncmd, "idles": idles,
            "idle_ms": rnd.choice([1300, 2300]), "drops": drops, "drop_skew": rnd.choice([0, 0, 5, 13]), "refuse": 0,
            "frags": rnd.choice([[], [7], [64, 0], [1000]]), "quiet_ms": 3400, "budget_ms": 40000,
            "resume_at": (rnd.randrange(2, 8) if i % 3 == 2 else 0)}


def run(tier, seed, replay=None):
    t0 = time.time()
    verdict = vlib.Verdict(PID)
    vlib.build_vdrv()
    thorough = tier == "thorough"
    rnd = random.Random(seed)
    with vlib.Scratch(PID) as sc:
        vlib.stage_specs(sc)
        mstates = mtrans = 0
        cmds = []
        for cfg in ["Offsets_q.cfg"] + (["Offsets_t.cfg"] if thorough else []):
            r = vlib.tlc(sc, "Offsets", cfg, workers=8, timeout=1800)
            if r.rc != 0:
                raise Infra("Offsets model check failed (rc=%s %s)\n%s" % (r.rc, r.violated, r.out[-2500:]))
            mstates += r.distinct
            mtrans += r.generated
            cmds.append(r.cmd)
        # unbounded: an inductive invariant of the counter abstraction, for every start offset, stream length, number of ticks and drops
        cmds += vlib.apalache_inductive(sc, "OffsetsInd")
        r = vlib.tlc(sc, "Offsets", "Offsets_asbuilt.cfg", workers=4, timeout=600)
        if not r.violated:
            log("note: the pre-fix arithmetic (DevCumulativeAck) no longer violates the model's invariants?")
        import os
        scen = [scenario(rnd, i) for i in range(48 if thorough else 8)]
        if True:
            # the source refuses the first re-PSYNC (-LOADING): the tool backs off 30 s, then must ask for the very same byte
            # (one such run in the quick tier too: it runs beside the others and decides the wall time, about a minute)
            for j in range(3 if thorough else 1):
                s = scenario(rnd, 1000 + j)
                s.update({"drops": [5 + j], "refuse": 1, "idles": [2], "commands": 20, "budget_ms": 80000, "resume_at": 0})
                scen.append(s)
        # target.db set: the source's SELECTs are rewritten by the tool; a batch that ends with one still stores a stream position
        for j in range(4 if thorough else 1):
            s = scenario(rnd, 2000 + j)
            s.update({"target_db": 1, "idles": [3, 7], "idle_ms": 1300, "drops": [], "resume_at": 0, "commands": 20})
            scen.append(s)
        # a start from a checkpoint stored in a database other than 0, the source silent for more than a sender tick after +CONTINUE: the tool's
        # opening SELECT is flushed on its own, and the checkpoint written with it must still be a stream position
        for j in range(3 if thorough else 1):
            s = scenario(rnd, 3000 + j)
            s.update({"resume_at": 4 + j, "resume_db": 1 + j, "idles": [9], "drops": [], "commands": 20})
            scen.append(s)
        for i, s in enumerate(scen):
            s["trace"] = sc.path("trace-%d.ndjson" % i)

        def one(s):
            return vlib.run_vdrv(["offsets"], stdin=json.dumps(s), timeout=300)
        with concurrent.futures.ThreadPoolExecutor(max_workers=12) as ex:
            results = list(ex.map(one, scen))
        nev = 0
        tstates = ttrans = 0
        samples = []
        for i, (s, (rc, out, err)) in enumerate(zip(scen, results)):
            if rc != 0:
                raise Infra("vdrv offsets failed rc=%s: %s" % (rc, err[-2000:]))
            for lk in json.loads(out).get("leaks") or []:
                log("note: a configured password appeared in a log line (C19): %s" % lk[:160])
            rows = vlib.read_ndjson(s["trace"])
            shutil.copyfile(s["trace"], sc.path("trace.ndjson"))
            rt = vlib.tlc(sc, "OffsetsTrace", "OffsetsTrace.cfg", workers=1, timeout=600)
            if rt.rc != 0 or rt.depth - 1 != len(rows):
                raise Infra("TLC failed on offsets trace %d (rc=%s, judged %d of %d):\n%s" % (i, rt.rc, rt.depth - 1, len(rows), rt.out[-2000:]))
            nev += len(rows)
            tstates += rt.distinct
            ttrans += rt.generated
            cfgev = rows[0]
            for ln in [int(x) for x in re.findall(r'<<"REJECT", (\d+)>>', rt.out)]:
                ev = rows[ln - 1]
                recv = sum(x["n"] for x in rows[:ln] if x["e"] == "tool-recv")
                sending = max([x["n"] for x in rows[:ln] if x["e"] == "src-sending"] or [0])
                verdict.violation({"kind": ev["e"], "drops": len(s["drops"]), "after_first_tick": True},
                                  "%s rejected: %s; start=%d received so far=%d source sent <=%d stream length=%d; scenario %s" % (
                                      ev["e"], {k: v for k, v in ev.items() if k != "seq"}, cfgev["start"], recv, sending, cfgev["stream_len"],
                                      {k: s[k] for k in ("start", "commands", "idles", "drops", "drop_skew", "frags")}),
                                  {"family": "offsets", "scenario": s})
            if i < 2:
                samples.append({"scenario": {k: s[k] for k in ("start", "commands", "idles", "drops", "drop_skew", "frags")},
                                "events": [x for x in rows if x["e"] in ("tool-ack", "src-psync", "src-drop", "target")][:10]})
    rc = verdict.finish()
    cov = {"states": mstates + tstates, "transitions": mtrans + ttrans, "traces_validated_against_impl": len(scen), "samples": samples,
           "evaluations": nev, "distinct_nontrivial": sum(1 for s in scen if s["drops"]),
           "rule": "scenarios = seeded end-to-end Sync() runs (20-45 commands, 1-2 idle periods of 1.3-2.3 s, 0-2 connection drops at or inside a "
                   "command, start offsets 0 .. 2^40, several fragmentations); non-trivial = at least one drop + reconnect",
           "exhaustive": False, "checker_cmd": "; ".join(cmds)}
    vlib.write_evidence(PID, tier, seed, "model_checking", cov, time.time() - t0, len(verdict.violations),
                        ["real wall-clock periods (ACK 1 s, reconnect sleep 1 s): 5-9 s per run, runs in parallel processes",

                         "the source closes the connection gracefully after its last write, so all written bytes are delivered"])
    return rc
