"""C15 - key-to-slot mapping follows the Redis Cluster specification.

Slot.tla is the reference (bit-serial CRC16/XMODEM + hash-tag rule, ASSUME-checked against published
values).  The driver runs the REAL utils.KeyToSlot, the latency monitor's CRC16 copy, the cluster
library's GetSlot, utils.ChoseSlotInRange, latencymonitor.findKeyInRange and filter.FilterKey on
  - every string of length <= 7 over { } a b (all brace layouts), plus random binary keys,
  - slot ranges around the boundaries, random ranges, and (thorough) every single-slot range,
and TLC judges each recorded observation against the reference (SlotTrace.tla)."""
import json
import re
import shutil
import time

import vlib
from vlib import Infra, log

PID = "C15"


def layout(k):
    """brace layout of a key: signature used for known-finding matching"""
    return "".join(chr(c) if c in (123, 125) else "x" for c in k)


def run(tier, seed, replay=None):
    t0 = time.time()
    verdict = vlib.Verdict(PID)
    vlib.build_vdrv()
    thorough = tier == "thorough"
    with vlib.Scratch(PID) as sc:
        vlib.stage_specs(sc)
        trace = sc.path("trace.ndjson")
        inp = {"seed": seed, "random": 40000 if thorough else 4000, "maxlen": 7, "ranges": 2000 if thorough else 300,
               "all_slots": thorough, "trace": trace}
        rc, out, err = vlib.run_vdrv(["slot"], stdin=json.dumps(inp), timeout=3000)
        if rc != 0:
            raise Infra("vdrv slot failed rc=%s: %s" % (rc, err[-2000:]))
        res = json.loads(out)
        rows = vlib.read_ndjson(trace)
        r = vlib.tlc(sc, "MCSlot", "SlotTrace.cfg", workers=1, timeout=3000)
        if r.rc != 0:
            raise Infra("TLC failed on the slot trace (rc=%s):\n%s" % (r.rc, r.out[-2000:]))
        if r.depth - 1 != len(rows):
            raise Infra("TLC judged %d of %d observations" % (r.depth - 1, len(rows)))
        rejects = [int(x) for x in re.findall(r'<<"REJECT", (\d+)>>', r.out)]
        for ln in rejects:
            ev = rows[ln - 1]
            if ev["e"] == "slot":
                sig = {"kind": "slot", "layout": layout(ev["k"])[:64], "braces": sum(1 for c in ev["k"] if c == 123)}
                detail = "key bytes %s: KeyToSlot=%s latency-crc16=%s library-slot=%s disagree with the Redis Cluster specification (Slot.tla)" % (
                    ev["k"], ev["slot"], ev["lmcrc"], ev["lib"])
            else:
                sig = {"kind": "range-" + ev["kind"], "lo": ev["lo"], "hi": ev["hi"]}
                detail = "key chosen for slot range [%d,%d] (%s) is %r: outside the range, empty, or not excluded by the key filter" % (
                    ev["lo"], ev["hi"], ev["kind"], bytes(ev["k"]))
            verdict.violation(sig, detail, {"family": "slot", "event": ev})
        multi = sum(1 for x in rows if x["e"] == "slot" and sum(1 for c in x["k"] if c == 123) >= 2)
        samples = [rows[i] for i in (5, 40, len(rows) - 1) if i < len(rows)]
    rc = verdict.finish()
    cov = {"states": r.distinct, "transitions": r.generated, "traces_validated_against_impl": len(rows), "samples": samples,
           "evaluations": len(rows), "distinct_nontrivial": multi,
           "rule": "observations = all strings of length <=7 over {,},a,b (exhaustive brace layouts) + seeded random binary keys + "
                   "slot ranges (boundaries, random, thorough: all 16384 single-slot ranges); non-trivial = keys with >=2 '{'",
           "exhaustive": True, "keys": res["keys"], "ranges": res["ranges"], "rejected": len(rejects), "checker_cmd": r.cmd}
    vlib.write_evidence(PID, tier, seed, "model_checking", cov, time.time() - t0, len(verdict.violations),
                        ["Slot.tla (ASSUME-checked against CRC16('123456789')=0x31C3 and slot('foo')=12182) is the reference",
                         "TLC evaluates the reference on every observation; no Go-side oracle is involved"])
    return rc
