"""Several sources into one target (CmdSync.Main + the first half of DbSyncer.Sync()): FanIn.tla model-checked, then
real runs of N Sync() sharing one semaphore and one model Redis (driver `vdrv fanin`) judged by TLC with FanInTrace.tla,
which explains every recorded event with FanIn's own actions."""
import concurrent.futures
import json
import random
import re
import shutil

import vlib
from vlib import Infra, log

FIXED = [
    # (n, p, refusals, resumable, policy, resume)
    (3, 1, [1, 0, 2], [False, False, False], "high", False),          # one permit: strictly one full sync at a time, restarts in between
    (4, 2, [0, 1, 0, 2], [False, False, True, False], "low", True),   # a source that continues from its checkpoint next to full syncs
    (3, 1, [0, 3, 0], [False, False, False], "high", False),          # the 4th start of one syncer stops the tool
    (5, 2, [2, 2, 0, 0, 1], [False, True, False, True, False], "rot", True),
    (4, 4, [0, 0, 0, 0], [False, False, False, False], "rot", True),  # as many permits as sources
]


def scenarios(rnd, count):
    out = []
    for n, p, refusals, resumable, policy, resume in FIXED:
        out.append({"n": n, "p": p, "refusals": refusals, "resumable": resumable, "policy": policy, "resume": resume})
    while len(out) < count:
        n = rnd.choice([2, 3, 4, 5, 6])
        p = rnd.choice([1, 1, 2, 2, 3])
        resume = rnd.random() < 0.6
        out.append({"n": n, "p": p, "refusals": [rnd.choice([0, 0, 0, 1, 1, 2]) for _ in range(n)],
                    "resumable": [resume and rnd.random() < 0.3 for _ in range(n)], "policy": rnd.choice(["low", "high", "rot"]), "resume": resume})
    for i, s in enumerate(out):
        s.update({"seed": rnd.randrange(1 << 30), "commands": rnd.choice([8, 12, 20]), "rdb_keys": rnd.choice([4, 6, 9])})
    return out


def model_check(sc, thorough, cmds):
    states = trans = 0
    for cfg in (["FanIn.cfg", "FanIn_p1.cfg"] if thorough else ["FanIn_q.cfg"]):
        r = vlib.tlc(sc, "FanIn", cfg, workers=8, timeout=3000)
        if r.rc != 0:
            raise Infra("FanIn model check %s failed (rc=%s %s)\n%s" % (cfg, r.rc, r.violated, r.out[-2500:]))
        states += r.distinct
        trans += r.generated
        cmds.append(r.cmd)
    # the permit accounting for up to 8 sources, any weight and unboundedly many restarts: inductive invariant by Apalache
    cmds += vlib.apalache_inductive(sc, "FanInInd")
    for cfg in ("FanIn_devleak.cfg", "FanIn_devdouble.cfg"):
        r = vlib.tlc(sc, "FanIn", cfg, workers=8, timeout=3000)
        if not r.violated:
            raise Infra("the deviation %s no longer violates FanIn's invariants: the model check would be vacuous" % cfg)
    return states, trans


def run(sc, pid, verdict, thorough, seed, stats, cmds, samples):
    ms, mt = model_check(sc, thorough, cmds)
    rnd = random.Random(seed * 7919 + 17)
    scen = scenarios(rnd, 40 if thorough else 12)
    for i, s in enumerate(scen):
        s["trace"] = sc.path("fanin-%d.ndjson" % i)

    def one(s):
        return vlib.run_vdrv(["fanin"], stdin=json.dumps(s), timeout=600)
    with concurrent.futures.ThreadPoolExecutor(max_workers=6) as ex:
        results = list(ex.map(one, scen))
    for i, (s, (rc, out, err)) in enumerate(zip(scen, results)):
        brief = {k: s[k] for k in ("n", "p", "refusals", "resumable", "policy", "resume", "commands", "rdb_keys")}
        if rc != 0:
            where = vlib.tool_panic(err)
            if not where:
                raise Infra("vdrv fanin failed rc=%s: %s" % (rc, err[-2000:]))
            # a goroutine started by the tool itself panicked (the production binary would have crashed the same way)
            verdict.violation({"kind": "fanin-tool-crash", "where": where.split(" @ ")[-1].split(":")[0]},
                              "the tool crashed with a Go runtime panic while %d sources shared %d permit(s): %s; scenario %s" % (s["n"], s["p"], where, brief),
                              {"family": "fanin", "scenario": s, "stderr": err[-1500:]})
            continue
        res = json.loads(out)
        for lk in res.get("leaks") or []:
            log("note: a configured password appeared in a log line (C19): %s" % lk[:160])
        rows = vlib.read_ndjson(s["trace"])
        shutil.copyfile(s["trace"], sc.path("trace.ndjson"))
        rt = vlib.tlc(sc, "FanInTrace", "FanInTrace.cfg", workers=1, timeout=600)
        if rt.rc != 0 and not rt.violated:
            raise Infra("TLC failed on fan-in trace %d (rc=%s):\n%s" % (i, rt.rc, rt.out[-2000:]))
        ms += rt.distinct
        mt += rt.generated
        stats["fanin_events"] = stats.get("fanin_events", 0) + len(rows)
        stats["fanin_runs"] = stats.get("fanin_runs", 0) + 1
        stats["fanin_syncers"] = stats.get("fanin_syncers", 0) + s["n"]
        if rt.violated:
            verdict.violation({"kind": "fanin-invariant", "invariant": rt.violated}, "fan-in trace violates %s of FanIn.tla; scenario %s" % (rt.violated, brief),
                              {"family": "fanin", "scenario": s})
            continue
        for ln in [int(x) for x in re.findall(r'<<"REJECT", (\d+)>>', rt.out)]:
            ev = rows[ln - 1] if ln - 1 < len(rows) else {"e": "end"}
            what = {k: v for k, v in ev.items() if k not in ("seq", "per")}
            if ev["e"] == "final":
                what["per"] = [r for r in ev["per"] if not (r["rdb_ok"] and r["list_ok"] and r["ckpt_ok"])] or ev["per"]
            verdict.violation({"kind": "fanin-" + ev["e"], "p_lt_n": s["p"] < s["n"]},
                              "%d sources, %d permit(s): event %d cannot be explained by FanIn.tla: %s; events before it: %s; scenario %s" % (
                                  s["n"], s["p"], ln, what, [(x["e"], x.get("src"), x.get("kind") or x.get("held")) for x in rows[max(1, ln - 7):ln - 1]], brief),
                              {"family": "fanin", "scenario": s})
        if len(samples) < 1:
            samples.append({"scenario": brief, "events": [{k: v for k, v in x.items() if k != "per"} for x in rows[:12]]})
    return ms, mt
