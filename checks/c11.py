"""C11 - checksums are the Redis CRC-64 of the covered bytes; corruption is detected.

Crc.tla: bit-serial CRC-64/Jones over four 16-bit limbs (ASSUME-checked against the published check
value), the running-digest state machine, and the verdict table of the three verifiers.
 (C) TLC: chunking independence of the digest machine for every chunking of small messages (CrcMC).
 (B) observations of the real code judged by TLC (CrcTrace): the three CRC-64 copies (pkg/rdb/digest,
     the external cupcake copy used by verifyDump/CheckVersionChecksum, the in-repo copy) on all 256
     one-byte messages (every table row) and random messages under random chunkings, register
     compared after EVERY write; the harness's own bit-serial Go CRC (lifted oracle, used only to
     forge valid trailers) on the same messages.
 (fault enumeration) for every generated artefact - RDB files (independent writer), DUMP payloads
     produced by the tool's parser and by its encoder - EVERY byte position x substitutions, EVERY
     truncation, and version fields above the supported one with a VALID checksum, through the RDB
     footer check, verifyDump (via DecodeDump) and CheckVersionChecksum; the verdict table decides."""
import json
import re
import time

import vlib
from vlib import Infra, log

PID = "C11"


def run(tier, seed, replay=None):
    t0 = time.time()
    verdict = vlib.Verdict(PID)
    vlib.build_vdrv()
    thorough = tier == "thorough"
    with vlib.Scratch(PID) as sc:
        vlib.stage_specs(sc)
        mc = vlib.tlc(sc, "MCCrc", "CrcMC.cfg", workers=8, timeout=1800)
        if mc.rc != 0:
            raise Infra("CrcMC failed (rc=%s)\n%s" % (mc.rc, mc.out[-3000:]))
        trace = sc.path("trace.ndjson")
        # several driver processes (bounded virtual memory each, see crc.go), run in parallel
        nproc, per = (10, 4) if thorough else (3, 3)
        import subprocess, concurrent.futures
        def one(i):
            inp = {"seed": seed * 100 + i, "msgs": (1500 if thorough else 300) if i == 0 else 5, "artefacts": per,
                   "all_subst": 1 if i < (6 if thorough else 1) else 0, "trace": sc.path("trace-%d.ndjson" % i),
                   "budget_s": 900 if thorough else 120}
            return vlib.run_vdrv(["crc"], stdin=json.dumps(inp), timeout=3000, env={"GOGC": "off", "GOMEMLIMIT": "3GiB"})  # no periodic GC (multi-GiB scratch allocations make each cycle cost ~10 ms); collect only near the limit
        with concurrent.futures.ThreadPoolExecutor(max_workers=8) as ex:
            results = list(ex.map(one, range(nproc)))
        res = {"crc": 0, "faults": 0}
        with open(trace, "w") as out_f:
            for i, (rc, out, err) in enumerate(results):
                if rc != 0:
                    raise Infra("vdrv crc failed rc=%s: %s" % (rc, err[-2000:]))
                r1 = json.loads(out)
                res["crc"] += r1["crc"]
                res["faults"] += r1["faults"]
                out_f.write(open(sc.path("trace-%d.ndjson" % i)).read())
        rows = vlib.read_ndjson(trace)
        r = vlib.tlc(sc, "CrcTrace", "CrcTrace.cfg", workers=1, timeout=3000)
        if r.rc != 0:
            raise Infra("TLC failed on the CRC trace (rc=%s):\n%s" % (r.rc, r.out[-2000:]))
        if r.depth - 1 != len(rows):
            raise Infra("TLC judged %d of %d observations" % (r.depth - 1, len(rows)))
        rejects = [int(x) for x in re.findall(r'<<"REJECT", (\d+)>>', r.out)]
        for ln in rejects:
            ev = rows[ln - 1]
            if ev["e"] == "fault":
                sig = {"kind": "fault", "verifier": ev["verifier"], "class": ev["class"], "accepted": ev["accepted"]}
                if "version" in ev:
                    sig["version_hi"] = ev["version"] >> 8
                detail = "%s %s an artefact with fault class %s (%s)" % (
                    ev["verifier"], "ACCEPTED" if ev["accepted"] else "REJECTED", ev["class"],
                    {k: ev[k] for k in ev if k in ("pos", "to", "len", "version", "art")})
            else:
                sig = {"kind": ev["e"], "impl": ev.get("impl")}
                if ev["e"] == "conc":
                    sig = {"kind": "conc", "loaders": ev.get("loaders")}
                    verdict.violation(sig, "%d loaders at work at the same time: %d of %d DUMP payloads (expected %d) carry a trailer that is not the CRC-64 of their own bytes" % (
                        ev["loaders"], ev["bad"], ev["payloads"], ev["expected"]), {"family": "crc", "event": ev})
                    continue
                what = ev.get("msg") if "msg" in ev else "of %s random bytes written in chunks ending at %s" % (ev.get("n"), ev.get("cuts"))
                detail = "CRC-64 of message %s by %s is not the Redis CRC-64 (register after some write differs from Crc.tla)" % (what, ev.get("impl", "harness reference"))
            verdict.violation(sig, detail, {"family": "crc", "event": ev})
        notes = [x for x in rows if x["e"] == "note"]
        for n in notes[:5]:
            log("note (not a checksum matter): %s" % n["what"])
        kinds = {}
        for x in rows:
            k = x["e"] + ("-" + x["verifier"] + "-" + x["class"] if x["e"] == "fault" else "")
            kinds[k] = kinds.get(k, 0) + 1
        faults = [x for x in rows if x["e"] == "fault"]
        samples = [rows[300], faults[1], faults[-1]]
    rc = verdict.finish()
    cov = {"evaluations": len(rows), "distinct_nontrivial": sum(1 for x in faults if x["class"] != "none"),
           "rule": "fault enumeration per artefact: every byte position x {^0x01, ^0x80, ^random} (all 255 values on a sample), every "
                   "truncation, forged-valid trailers with unsupported versions; non-trivial = faulty artefacts; counts by kind: %s" % kinds,
           "samples": samples, "exhaustive": False,
           "states": mc.distinct + r.distinct, "transitions": mc.generated + r.generated,
           "traces_validated_against_impl": len(rows), "skipped_notes": len(notes), "rejected": len(rejects),
           "checker_cmd": mc.cmd + "; " + r.cmd}
    vlib.write_evidence(PID, tier, seed, "fault_enumeration", cov, time.time() - t0, len(verdict.violations),
                        ["Crc.tla (ASSUME: CRC-64('123456789') = 0xe9c6d914c4b8d9ca) is the reference for the digest",
                         "the harness's bit-serial Go CRC is used only to forge valid trailers and is itself judged by TLC on every run",
                         "artefacts whose intact form the parser cannot load / decode are C01/C12 matters and are skipped here (logged as notes)"])
    return rc
