"""C07 - parallel full sync restores every key exactly once into the right database.

 (C) FullSync.tla: N workers with per-connection SELECT tracking consuming one queue, one action per
     command; TLC checks for EVERY entry sequence (<= 3-4 entries over 2 dbs / 2 keys incl. filtered
     keys, failing restores, a two-chunk hash) and EVERY interleaving: RightContent, ExactlyOnce,
     AllProcessed, FailureReported, termination.  The as-built chunk race (continuation chunk taken by
     another worker under policy rewrite) is a deviation switch: TLC produces its witness.
 (B) entry sequences drawn from the model's initial states are concretised (random types/encodings,
     Parallel 1..8, target.db, filters, sync and restore mode) and run through the REAL syncRDBFile /
     restoreRDBFile / CmdRestore.Main (1-3 input files, 1-3 file workers) against the model Redis while a scheduler decides which connection's pending
     command executes next (random / starve-one-connection / free); the per-connection command log and
     the final keyspace are judged by TLC (FsTrace.tla: right db per command, one writer and at most
     one successful RESTORE per key, every unfiltered key equal to the source value, failures reported).
 (C+B, several sources) FanIn.tla: N syncers sharing the full-sync semaphore of weight P (CmdSync.Main / the first half
     of Sync(): retry counter, Acquire, refused PSYNC -> Release + restart, +CONTINUE, full sync done / failed);
     TLC: permits taken = syncers between Acquire and Release, never more than P, every source served unless
     one exhausts the retries (then the tool stops), for every assignment of refusals / checkpoints to 3
     sources.  N real Sync() runs (2-6 sources, 1-4 permits) against scripted sources that stop in the middle of
     their RDB until the driver lets one go; FanInTrace.tla explains every recorded event with FanIn's own
     actions (Acquire / Release inferred), so a trace with more than P full synchronisations under way, a leaked
     permit, a missing restart or a wrong final state (keys, list order, per-source checkpoint) is rejected."""
import random
import time

import vlib
from vlib import Infra, log
from checks.fs_common import run_cases
from checks import fanin_common

PID = "C07"
KINDS = ["string", "list", "set", "zset", "hash"]


def concretise(rnd, cid, entries, tdb):
    """abstract FullSync entries -> fs driver scenario"""
    mode = rnd.choice(["sync", "sync", "restore", "restore-main"])
    cfg = {"mode": mode, "parallel": rnd.choice([1, 2, 2, 3, 4, 8]), "tdb": (rnd.choice([1, 3]) if tdb else -1), "key_exists": "none",
           "target": {"version": "5.0.7"}, "sched": rnd.choice(["free", "random", "random", "victim"]), "fkey_black": ["no:"],
           "big_threshold": rnd.choice([0, 0, 40])}
    if mode == "restore-main":
        # the whole restore command (CmdRestore.Main): the entries spread over 1-3 input files, 1-3 file workers
        cfg["files"], cfg["rdb_parallel"] = rnd.choice([1, 2, 3]), rnd.choice([1, 2, 3])
    if rnd.random() < 0.3:
        cfg["fdb_black"] = ["2"]
    out, pre = [], []
    eid = 0
    # the model has 2 keys per db; blow every abstract entry up into a few concrete keys
    i = 0
    while i < len(entries):
        e = entries[i]
        reps = rnd.choice([1, 2, 5])
        if e["kind"] == "first":
            eid += 1
            out.append({"id": eid, "db": e["db"], "key": "big:%d:%d" % (e["db"], e["key"]), "kind": "hash", "chunk": True, "n": 3, "elem": 9 * 1024 * 1024, "type": 4})
            i += 2
            continue
        for r in range(reps):
            eid += 1
            key = "k%d:%d:%d" % (e["db"], e["key"], r)
            kind = rnd.choice(KINDS)
            ent = {"id": eid, "db": e["db"], "key": key, "kind": kind, "n": rnd.choice([1, 3, 12]), "elem": 6, "enc": rnd.randrange(50), "type": -1,
                   "expire": rnd.choice([0, 0, 600000])}
            if e["kind"] == "filt":
                ent["key"] = "no:" + key
            if e["kind"] == "bad" and r == 0:
                pre.append({"db": cfg["tdb"] if cfg["tdb"] != -1 else e["db"], "key": key, "kind": "string"})
            out.append(ent)
        i += 1
    if rnd.random() < 0.4:
        eid += 1
        out.append({"id": eid, "db": 0, "key": "", "kind": "lua"})
    if rnd.random() < 0.3:
        eid += 1
        out.insert(rnd.randrange(len(out) + 1), {"id": eid, "db": 2, "key": "in-db2", "kind": "string", "type": -1})
        out.sort(key=lambda x: 0)  # order kept: the rdb writer emits SELECT whenever the db changes
    return {"id": cid, "cfg": cfg, "pre": pre, "entries": out}


def run(tier, seed, replay=None):
    t0 = time.time()
    verdict = vlib.Verdict(PID)
    vlib.build_vdrv()
    thorough = tier == "thorough"
    stats, cmds = {}, []
    with vlib.Scratch(PID) as sc:
        vlib.stage_specs(sc)
        mstates = mtrans = 0
        for cfg in ["FullSync_q.cfg", "FullSync_tdb.cfg"] + (["FullSync_t.cfg", "FullSync_rewrite_pinned.cfg"] if thorough else []):
            r = vlib.tlc(sc, "FullSync", cfg, workers=8, timeout=3000)
            if r.rc != 0:
                raise Infra("FullSync model check %s failed (rc=%s %s)\n%s" % (cfg, r.rc, r.violated, r.out[-2500:]))
            mstates += r.distinct
            mtrans += r.generated
            cmds.append(r.cmd)
        # the job pool of the file-oriented commands (CmdDump.Main / CmdRestore.Main: jobs in a channel, P workers, a WaitGroup): WorkerPool.tla
        for wcfg in ("WorkerPool.cfg", "WorkerPool_b.cfg"):
            rw = vlib.tlc(sc, "WorkerPool", wcfg, workers=4, timeout=600)
            if rw.rc != 0:
                raise Infra("WorkerPool model check failed on %s (rc=%s, %s)\n%s" % (wcfg, rw.rc, rw.violated, rw.out[-2000:]))
            mstates += rw.distinct
            mtrans += rw.generated
        if not vlib.tlc(sc, "WorkerPool", "WorkerPool_dev.cfg", workers=4, timeout=600).violated:
            raise Infra("WorkerPool.tla: counting a job off before it is worked on no longer violates MainAfterAll - the model is vacuous")
        # the as-built chunk race must still be what the model says it is (witness exists)
        r = vlib.tlc(sc, "FullSync", "FullSync_rewrite_asbuilt.cfg", workers=8, timeout=3000)
        if r.violated != "RightContent":
            log("note: the as-built rewrite/chunk configuration no longer yields the RightContent witness (rc=%s, %s)" % (r.rc, r.violated))
        # entry sequences from the model's initial states
        rs, paths = vlib.sim_paths(sc, "FullSync", "FullSync_q.cfg", 600 if thorough else 120, 2, seed, fields={"entries"})
        cmds.append(rs.cmd)
        rnd = random.Random(seed)
        cases, nchunk = [], 0
        for i, p in enumerate(paths):
            ents = p[0]["entries"]
            if any(e["kind"] == "first" for e in ents):
                nchunk += 1
                if nchunk > (12 if thorough else 2):
                    continue
            cases.append(concretise(rnd, i, ents, tdb=(i % 4 == 0)))
        # target.db together with a db filter, in every mode: the filter speaks about SOURCE databases, the SELECT about the destination
        for j, (mode, tdb, fkey, fval) in enumerate([(m, t, k, v) for m in ("sync", "restore", "restore-main") for t in (1, 3)
                                                      for k, v in (("fdb_black", ["2"]), ("fdb_white", ["0", "2"]), ("fdb_black", ["1", "3"]))]):
            cfg = {"mode": mode, "parallel": 2, "tdb": tdb, "key_exists": "none", "target": {"version": "5.0.7"}, "sched": "random", "big_threshold": 0, fkey: fval,
                   "files": 2, "rdb_parallel": 2}
            ents = [{"id": n + 1, "db": db, "key": "t%d:%d" % (db, n), "kind": rnd.choice(KINDS), "n": 3, "elem": 6, "enc": rnd.randrange(50), "type": -1}
                    for n, db in enumerate([0, 1, 2, 2, 1, 3, 0, 3, 2])]
            cases.append({"id": 20000 + j, "cfg": cfg, "pre": [], "entries": ents})
        # a fault at the target: one RESTORE is refused with an error that has nothing to do with the key existing (a busy script, out
        # of memory, still loading): under every key_exists policy the run must report it - a skipped key is a silent loss
        texts = ["BUSY Redis is busy running a script. You can only call SCRIPT KILL or SHUTDOWN NOSAVE.", "OOM command not allowed when used memory > 'maxmemory'.",
                 "LOADING Redis is loading the dataset in memory", "ERR Target instance replied with error: MISCONF busy disk"]
        for j, (mode, pol) in enumerate([(m, p2) for m in ("sync", "restore") for p2 in ("none", "rewrite", "ignore")]):
            cfg = {"mode": mode, "parallel": 2, "tdb": -1, "key_exists": pol, "target_replace": True, "sched": "random", "big_threshold": 0,
                   "target": {"version": "5.0.7", "fault_key": "f:%d" % (j % 3), "fault_text": texts[j % len(texts)]}}
            ents = [{"id": n + 1, "db": n % 2, "key": "f:%d" % n, "kind": "string", "n": 1, "elem": 6, "type": -1} for n in range(5)]
            cases.append({"id": 21000 + j, "cfg": cfg, "pre": [], "entries": ents})
        # ... and an error reply in the MIDDLE of a pipelined batch of element commands (a quicklist goes RPUSH by RPUSH, a value above the
        # big-key threshold field by field): the third RPUSH / second HSET of one key is refused
        for j, (mode, pol, (fcmd, nth, fkey)) in enumerate([(m, p2, f) for m in ("sync", "restore") for p2 in ("none", "rewrite")
                                                             for f in (("RPUSH", 3, "e:1"), ("HSET", 2, "e:2"))]):
            cfg = {"mode": mode, "parallel": 2, "tdb": -1, "key_exists": pol, "target_replace": True, "sched": "random", "big_threshold": 30,
                   "target": {"version": "5.0.7", "fault_key": fkey, "fault_cmd": fcmd, "fault_nth": nth, "fault_text": texts[j % len(texts)]}}
            ents = [{"id": 1, "db": 0, "key": "e:0", "kind": "string", "n": 1, "elem": 6, "type": -1},
                    {"id": 2, "db": 1, "key": "e:1", "kind": "list", "n": 7, "elem": 6, "type": 14},
                    {"id": 3, "db": 1, "key": "e:2", "kind": "hash", "n": 6, "elem": 12, "type": 4},
                    {"id": 4, "db": 0, "key": "e:3", "kind": "string", "n": 1, "elem": 6, "type": -1}]
            cases.append({"id": 22000 + j, "cfg": cfg, "pre": [], "entries": ents})
        # a slow target: 70 keys at 40 ms per RESTORE over 2 connections - the run spans the tool's one-second progress tick after the
        # whole file has been read; "done" means done (every key there, a failure on the last key still reported)
        for j, (mode, fk) in enumerate([("sync", ""), ("sync", "s:69"), ("restore", "")]):
            cfg = {"mode": mode, "parallel": 2, "tdb": -1, "key_exists": "none", "sched": "free", "big_threshold": 0,
                   "target": {"version": "5.0.7", "delay_ms": 40, "fault_key": fk, "fault_text": texts[1]}}
            ents = [{"id": n + 1, "db": n % 3, "key": "s:%d" % n, "kind": "string", "n": 1, "elem": 6, "type": -1} for n in range(70)]
            cases.append({"id": 23000 + j, "cfg": cfg, "pre": [], "entries": ents})
        rows = run_cases(sc, PID, verdict, cases, seed, "model-sequences", stats)
        # the as-built chunk race on the real code: chunked hash + rewrite + >= 2 workers, one connection starved
        race = []
        for j in range(6 if thorough else 2):
            race.append({"id": 10000 + j, "cfg": {"mode": "sync", "parallel": 2, "tdb": -1, "key_exists": "rewrite", "target": {"version": "5.0.7"}, "sched": "victim"},
                         "pre": [], "entries": [{"id": 1, "db": 0, "key": "bighash", "kind": "hash", "chunk": True, "n": 3, "elem": 9 * 1024 * 1024, "type": 4},
                                                {"id": 2, "db": 1, "key": "after", "kind": "string", "type": -1}]})
        run_cases(sc, PID, verdict, race, seed, "chunk-rewrite-race", stats)
        samples = [{"scenario": cases[0]}, {"events": [x for x in rows if x.get("case") == cases[0]["id"]][:8]}]
        # several sources at once into the one target (CmdSync.Main): N real Sync() share the full-sync semaphore; FanIn.tla / FanInTrace.tla
        fsamples = []
        fstates, ftrans = fanin_common.run(sc, PID, verdict, thorough, seed, stats, cmds, fsamples)
        mstates += fstates
        mtrans += ftrans
        samples += fsamples
    rc = verdict.finish()
    cov = {"states": mstates + stats["states"], "transitions": mtrans + stats["transitions"], "traces_validated_against_impl": stats["cases"],
           "samples": samples, "evaluations": stats["events"], "distinct_nontrivial": sum(1 for c in cases if c["cfg"]["parallel"] > 1),
           "rule": "scenarios = entry sequences taken from FullSync.tla's initial states (simulation), concretised with seeded random "
                   "types / encodings / Parallel 1..8 / target.db / filters / scheduler strategy; non-trivial = Parallel > 1",
           "exhaustive": False, "keys_restored": stats["keys"], "fanin_runs": stats.get("fanin_runs", 0), "fanin_syncers": stats.get("fanin_syncers", 0), "checker_cmd": "; ".join(cmds + [stats["cmd"]])}
    vlib.write_evidence(PID, tier, seed, "model_checking", cov, time.time() - t0, len(verdict.violations),
                        ["which worker takes which entry is decided by the Go runtime; the scheduler only orders the target's command processing",
                         "mredis stands in for the target; value equality is judged by the harness's independent RDB decoder (rdbref)",
                         "the model has 2 dbs x 2 keys and <= 4 entries; concrete scenarios multiply keys per abstract entry"])
    return rc
