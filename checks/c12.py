"""C12 - value and RDB-file serialisation round-trip through the parser.

RdbValue.tla  Materialise(type, body): the value a Redis server builds from a serialised body, byte by
              byte, for every classic encoding; Encode(v): what the tool's encoder writes.
 (C) RdbValueMC: Materialise(Encode(v)) = v for every value over the boundary strings (integer-form
     limits, signs, zeros, spaces, binary, 63/64-byte) and scores (NaN, +-inf, -0, finite), the integer
     form chosen exactly for canonical 32-bit integers; hand-checked vectors for ziplist / intset /
     zipmap / LZF / binary scores as ASSUMEs.
     EncFile: the file encoder's protocol (selector on change, expiry when non-zero) composed with the
     C01 loader contract: every object sequence <= 5 over 3 dbs x 3 expiries loads back as written.
 (A) the values TLC enumerated (its state dump) are pushed through the REAL EncodeDump / DecodeDump.
 (B) RdbValueTrace: every observation of the real codecs is judged by TLC -
     enc   generated values -> real EncodeDump -> real DecodeDump, ObjEntry <-> BinEntry;
     dec   known values in EVERY compact encoding a server can emit (ziplist with all integer widths,
           intset 16/32/64, zipmap with free bytes and big lengths, quicklist, LZF blobs, all length
           forms) written by the independent writer -> real DecodeDump;
     file  (db, key, expiry, value)* -> real NewEncoder -> independent reader (ops) and real Loader (records);
     load  compact encodings inside files -> real Loader -> BinEntry.ObjEntry().
     Payloads up to 160 bytes are judged by Materialise inside TLC; larger ones by the lifted Go reference."""
import json
import re
import time

import vlib
from vlib import Infra, log

PID = "C12"


def run(tier, seed, replay=None):
    t0 = time.time()
    verdict = vlib.Verdict(PID)
    vlib.build_vdrv()
    thorough = tier == "thorough"
    with vlib.Scratch(PID) as sc:
        vlib.stage_specs(sc)
        dump = sc.path("values.dump")
        mc = vlib.tlc(sc, "RdbValueMC", "RdbValueMC.cfg", workers=8, timeout=1800, extra=["-dump", dump])
        if mc.violated or mc.rc in (12, 13):
            # the model's own round trip fails: a defect of the specification, not of the code
            raise Infra("RdbValueMC: %s violated - the specification is inconsistent\n%s" % (mc.violated, mc.out[-3000:]))
        if mc.rc != 0:
            raise Infra("RdbValueMC failed (rc=%s)\n%s" % (mc.rc, mc.out[-3000:]))
        ef = vlib.tlc(sc, "EncFile", "EncFile_t.cfg" if thorough else "EncFile.cfg", workers=8, timeout=3000)
        if ef.rc != 0:
            raise Infra("EncFile failed (rc=%s, %s)\n%s" % (ef.rc, ef.violated, ef.out[-3000:]))
        vals = []
        for blk in re.split(r"\n\s*\n", open(dump).read()):
            if "v = " not in blk:
                continue
            v = vlib.parse_value(blk.split("v = ", 1)[1])
            vals.append({"kind": v["kind"], "items": [list(x) for x in v["items"]]})
        if len(vals) < 1000:
            raise Infra("only %d values recovered from TLC's state dump" % len(vals))
        trace = sc.path("trace.ndjson")
        inp = {"seed": seed, "trace": trace, "n_enc": 24000 if thorough else 800, "n_dec": 6000 if thorough else 150,
               "n_files": 2400 if thorough else 60, "judge_max": 160, "vals": vals}
        rc, out, err = vlib.run_vdrv(["rdbvalue"], stdin=json.dumps(inp), timeout=3000)
        if rc != 0:
            raise Infra("vdrv rdbvalue failed rc=%s: %s" % (rc, err[-2000:]))
        res = json.loads(out)
        rows = vlib.read_ndjson(trace)
        rt = vlib.tlc(sc, "RdbValueTrace", "RdbValueTrace.cfg", workers=1, timeout=6000)
        if rt.rc != 0 or rt.depth - 1 != len(rows):
            raise Infra("TLC failed on the trace (rc=%s, judged %d of %d):\n%s" % (rt.rc, rt.depth - 1, len(rows), rt.out[-2000:]))
        for ln in [int(x) for x in re.findall(r'<<"REJECT", (\d+)>>', rt.out)]:
            ev = rows[ln - 1]
            if ev["e"] in ("val", "bulk"):
                sig = {"kind": ev["e"], "src": ev["src"], "type": ev["t"], "value_kind": ev["kind"], "decoded": ev["decoded"], "same": ev["same"],
                       "num_ok": ev["num_ok"], "oracle_same": ev["oracle_same"], "entry_ok": ev["entry_ok"], "footer_ok": ev["footer_ok"]}
                detail = "%s: type %d %s value, %d bytes: decoded=%s same=%s numeric=%s entry=%s footer=%s reference agrees with the known value=%s err=%r" % (
                    ev["src"], ev["t"], ev["kind"], ev["bytes"], ev["decoded"], ev["same"], ev["num_ok"], ev["entry_ok"], ev["footer_ok"], ev["oracle_same"], ev["err"])
                if ev["e"] == "val":
                    detail += " body=%s want=%s got=%s" % (ev["body"][:80], str(ev["want"])[:200], str(ev["got"])[:200])
                if not ev["oracle_same"] or not ev["oracle_num_ok"]:
                    # the harness's writer and reader disagree about its own bytes: not an observation of the tool
                    raise Infra("reference writer/reader disagree: " + detail)
            elif ev["e"] == "efile":
                sig = {"kind": "efile", "walk_err": bool(ev["walk_err"])}
                detail = "file encoder: the independent reader finds %s for objects %s (%s)" % (ev["ops"], ev["objs"], ev["walk_err"])
            elif ev["e"] == "erec":
                sig = {"kind": "erec", "key_ok": ev["key_ok"], "val_ok": ev["val_ok"]}
                detail = "file round trip: record %s of file %s: %s" % (ev["i"], ev["file"], ev)
            elif ev["e"] == "eend":
                sig = {"kind": "eend", "footer_ok": ev["footer_ok"]}
                detail = "file round trip: file %s ended %s" % (ev["file"], ev)
            elif ev["e"] == "batch":
                sig = {"kind": "batch", "mode": ev["mode"]}
                detail = "payloads returned by EncodeDump did not stay what they were (%s): %d of %d no longer decode to their value" % (ev["mode"], ev["bad"], ev["n"])
            else:
                sig = {"kind": ev["e"]}
                detail = "loader + ObjEntry on compact encodings: %s" % ev
            verdict.violation(sig, detail, {"family": "rdbvalue", "event": ev, "input": {k: inp[k] for k in inp if k != "vals"}})
        samples = [{k: rows[0][k] for k in rows[0] if k not in ("body",)}, {"stats": res["stats"]}, {"encodings": res["encodings"]}]
    rc = verdict.finish()
    st = res["stats"]
    cov = {"evaluations": len(rows), "distinct_nontrivial": st.get("judged_by_tlc", 0) + st.get("judged_by_reference", 0),
           "rule": "evaluations = observations of the real codecs judged by TLC; non-trivial = serialised values (each a different value x encoding): %d judged by "
                   "Materialise in TLC, %d by the lifted reference; %d TLC-enumerated boundary values replayed; %d distinct encoding descriptors; %d files with %d objects through "
                   "encoder + loader; %d files with %d compact keys through loader + ObjEntry" % (
                       st.get("judged_by_tlc", 0), st.get("judged_by_reference", 0), st.get("enc-model", 0), res["encodings"], st.get("files", 0), st.get("file_objects", 0),
                       st.get("load_files", 0), st.get("load_keys", 0)),
           "samples": samples, "exhaustive": False, "states": mc.distinct + ef.distinct + rt.distinct, "transitions": mc.generated + ef.generated + rt.generated,
           "model_values": mc.distinct, "encfile_states": ef.distinct, "traces_validated_against_impl": 1, "checker_cmd": rt.cmd}
    vlib.write_evidence(PID, tier, seed, "model_checking", cov, time.time() - t0, len(verdict.violations),
                        ["finite scores: numeric equality of the text form is decided by the lifted Go reference (TLA+ has no floating point); TLC decides the classes NaN/+inf/-inf/-0",
                         "64-bit integers that do not fit TLC's 32-bit integers are judged by the lifted reference only",
                         "stream and module values are outside DecodeDump and outside this property",
                         "the 64-bit length form is not generated for lengths below 2^32 (a server never emits it)"])
    return rc
