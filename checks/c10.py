"""C10 - RESP codec round-trips, rejects malformed input and counts bytes exactly.

Resp.tla defines Enc and a total Dec (ok / bad / more / unspecified) over byte sequences.
 (C) TLC proves on all small value trees: Dec(Enc(v)) = v consuming exactly Len(Enc(v)); no proper
     prefix of an encoding decodes to a value; stream positions with keep-alive newlines (RespMC).
 (B) the driver records observations of the REAL codec - Encode of value trees (integers across the
     pre-rendered table boundaries), the real Decoder on streams (values, '\\n' keep-alives, inline
     lines) read through fragmenting readers and bufio sizes 16..4096, ParseArgs/ChangeArgsToResp,
     and EVERY single-point substitution (11 byte classes) and EVERY truncation of small encodings -
     and TLC judges each observation with Resp.tla (value trees, decoder positions, error-ness)."""
import json
import re
import time

import vlib
from vlib import Infra, log

PID = "C10"


def run(tier, seed, replay=None):
    t0 = time.time()
    verdict = vlib.Verdict(PID)
    vlib.build_vdrv()
    thorough = tier == "thorough"
    with vlib.Scratch(PID) as sc:
        vlib.stage_specs(sc)
        mc = vlib.tlc(sc, "MCResp", "RespMC.cfg", workers=8, timeout=1800)
        if mc.rc != 0:
            raise Infra("RespMC failed (rc=%s): the reference no longer proves the round-trip theorem\n%s" % (mc.rc, mc.out[-3000:]))
        trace = sc.path("trace.ndjson")
        inp = {"seed": seed, "trees": 6000 if thorough else 250, "streams": 30000 if thorough else 800,
               "mutate": 2000 if thorough else 45, "trace": trace,
               "conc_reps": 1500000 if thorough else 300000}
        rc, out, err = vlib.run_vdrv(["resp"], stdin=json.dumps(inp), timeout=3000)
        if rc != 0:
            raise Infra("vdrv resp failed rc=%s: %s" % (rc, err[-2000:]))
        res = json.loads(out)
        rows = vlib.read_ndjson(trace)
        r = vlib.tlc(sc, "RespTrace", "RespTrace.cfg", workers=1, timeout=3000)
        if r.rc != 0:
            raise Infra("TLC failed on the RESP trace (rc=%s):\n%s" % (r.rc, r.out[-2000:]))
        if r.depth - 1 != len(rows):
            raise Infra("TLC judged %d of %d observations" % (r.depth - 1, len(rows)))
        rejects = [int(x) for x in re.findall(r'<<"REJECT", (\d+)>>', r.out)]
        for ln in rejects:
            ev = rows[ln - 1]
            if ev["e"] == "dec":
                data = bytes(ev["in"])
                inline = bool(re.search(rb"(^|\n)[^+\-:$*\n]", data))
                sig = {"kind": "dec-" + ev.get("kind", "?"), "inline": inline}
                got = [(v["off"], v["val"]["t"]) for v in ev["vals"]]
                detail = "decoder on %r (bufio %s) delivered %s: values / positions / error-ness differ from Resp.tla" % (data[:120], ev.get("buf"), got)
            else:
                sig = {"kind": ev["e"]}
                detail = "%s observation rejected by Resp.tla: %s" % (ev["e"], json.dumps(ev)[:300])
            verdict.violation(sig, detail, {"family": "resp", "event": ev})
        kinds = {}
        for x in rows:
            k = x["e"] + ("-" + x["kind"] if "kind" in x else "")
            kinds[k] = kinds.get(k, 0) + 1
        samples = [rows[0], next(x for x in rows if x["e"] == "dec"), next(x for x in rows if x.get("kind") == "subst")]
    rc = verdict.finish()
    cov = {"states": mc.distinct + r.distinct, "transitions": mc.generated + r.generated,
           "traces_validated_against_impl": len(rows), "samples": samples,
           "evaluations": len(rows), "distinct_nontrivial": kinds.get("dec-subst", 0) + kinds.get("dec-trunc", 0) + kinds.get("dec-stream", 0),
           "rule": "observations by kind %s; non-trivial = decoder observations (streams, substitutions, truncations); value trees: "
                   "systematic leaves/arrays over 10 payload atoms and 18 boundary integers + seeded random trees of depth <= 3" % kinds,
           "exhaustive": False, "round_trip_trees_model_checked": mc.distinct, "rejected": len(rejects),
           "checker_cmd": mc.cmd + "; " + r.cmd}
    vlib.write_evidence(PID, tier, seed, "model_checking", cov, time.time() - t0, len(verdict.violations),
                        ["Resp.tla is the reference; inputs it classifies 'unspec' (sign-prefixed / zero-padded numbers, newline at an "
                         "element position inside an array) are compared only up to that point",
                         "integer -> decimal rendering for expected digits is Go's strconv (trusted)"])
    return rc
