"""Shared machinery of the C03 / C04 checks (IncrSync family)."""
import json
import re
import shutil
import time

import vlib
from vlib import Infra, log


def tla_set(xs):
    return "{" + ", ".join(json.dumps(x) if isinstance(x, str) else str(x) for x in xs) + "}"


def write_cfg(sc, name, p, spec, invariants=(), props=()):
    txt = ("CONSTANTS MaxLen = %d Dbs = {0,1} FilteredDbs = %s KeyFilterOn = %s FilterLua = %s SenderCount = %d BufCap = %d\n"
           "  Resume = %s TargetDB = %d MaxCrash = %d Kinds = %s\nSPECIFICATION %s\n" % (
               p["maxlen"], tla_set(p["fdbs"]), str(p["kf"]).upper(), str(p["lua"]).upper(), p["sender_count"], p["buf_cap"],
               str(p["resume"]).upper(), p["tdb"], p["crash"], tla_set(p["kinds"]), spec))
    if invariants:
        txt += "INVARIANTS " + " ".join(invariants) + "\n"
    for pr in props:
        txt += "PROPERTY %s\n" % pr
    txt += "CHECK_DEADLOCK FALSE\n"
    open(sc.path(name), "w").write(txt)


def drv_cfg(p):
    return {"fdbs": p["fdbs"], "kf": p["kf"], "lua": p["lua"], "tdb": p["tdb"], "resume": p["resume"],
            "sender_count": p["sender_count"], "buf_cap": p["buf_cap"]}


def one_family(sc, verdict, fam, thorough, seed, invariants, stats, cmds, samples):
    """model check + lock-step replay + trace validation of one configuration family; returns (states, transitions)"""
    states = trans = 0
    p = dict(fam["params"])
    # ---- (C) exhaustive model check of this configuration
    pm = dict(p, maxlen=fam["mc_len"][1 if thorough else 0])
    write_cfg(sc, "mc_%s.cfg" % fam["name"], pm, "Spec", invariants)
    r = vlib.tlc(sc, "IncrSync", "mc_%s.cfg" % fam["name"], workers=16, timeout=3000)
    if r.rc != 0:
        raise Infra("IncrSync model check '%s' failed (rc=%s, %s): the model no longer proves the property\n%s" % (
            fam["name"], r.rc, r.violated, r.out[-2500:]))
    states += r.distinct
    trans += r.generated
    cmds.append(r.cmd)
    log("[C] IncrSync/%s MaxLen=%d: %d generated, %d distinct, %.1fs" % (fam["name"], pm["maxlen"], r.generated, r.distinct, r.wall))
    # ---- (A) simulated behaviours replayed lock-step
    write_cfg(sc, "gen_%s.cfg" % fam["name"], p, "GenSpec")
    n = fam["paths_thorough"] if thorough else fam["paths_quick"]
    prefer = fam.get("prefer")
    rs, paths = vlib.sim_paths(sc, "IncrSync", "gen_%s.cfg" % fam["name"], n * (12 if prefer else 1), fam.get("depth", 60), seed, fields={"last"})
    cmds.append(rs.cmd)
    steps = [[s["last"] for s in pth] for pth in paths]
    if prefer:
        # stratified choice: of 12x as many simulated behaviours, those showing the family's pattern first (at most half of the budget)
        hit = [st for st in steps if prefer(st)]
        rest = [st for st in steps if not prefer(st)]
        steps = hit[:n // 2] + rest[:n - min(len(hit), n // 2)]
        log("[A] IncrSync/%s: %d of %d simulated behaviours show the preferred pattern, %d of them replayed" % (fam["name"], len(hit), len(paths), min(len(hit), n // 2)))
    # hand-picked source streams of this family (only the emissions: the driver then parses, dequeues, ticks and lets the target
    # process everything until nothing moves), always replayed whatever the simulator drew
    # ("cut", 0) in such a stream: everything emitted so far is processed to quiescence, the run is cut and resumed from whatever the real
    # loader finds (only the contract judges the outcome: the model is not followed step by step on these paths)
    for items in fam.get("fixed", []):
        path, iid = [], 0
        for t, d in items:
            if t == "cut":
                path += [{"a": "Quiesce"}, {"a": "Crash", "off": -2}]
            else:
                iid += 1
                path.append({"a": "SrcEmit", "item": {"t": t, "d": d, "id": iid}})
        steps.append(path)
    trace = sc.path("trace-%s.ndjson" % fam["name"])
    inp = {"seed": seed, "cfg": drv_cfg(p), "paths": steps, "trace": trace}
    rc, out, err = vlib.run_vdrv(["incr"], stdin=json.dumps(inp), timeout=3000)
    if rc != 0:
        raise Infra("vdrv incr failed rc=%s: %s" % (rc, err[-2000:]))
    res = json.loads(out)
    stats["lockstep_paths"] += res["paths"]
    stats["steps"] += res["steps"]
    stats["drifts"] += res["drifts"]
    for m in res["mismatches"] or []:
        if m["kind"] == "drift":
            log("DRIFT (model detail, not a verdict) [%s]: %s" % (fam["name"], m["detail"]))
        elif m["kind"] == "harness":
            raise Infra("incr harness: %s" % m["detail"])
        else:
            verdict.violation({"kind": "replay-" + m["kind"], "family": fam["name"]}, m["detail"],
                              {"family": "incr", "cfg": drv_cfg(p), "path": steps[m["case"]], "step": m["step"], "seed": seed})
    for lk in res.get("leaks") or []:
        log("note: a configured password appeared in a log line (C19): %s" % lk[:200])
    # ---- (B) free-running with the real 500 ms ticker
    if fam.get("free"):
        nfree = fam["free"][1 if thorough else 0]
        tracef = sc.path("trace-free-%s.ndjson" % fam["name"])
        inp = {"seed": seed + 17, "cfg": drv_cfg(p), "paths": [[s for s in pth if s["a"] == "SrcEmit"] for pth in steps[:nfree]],
               "trace": tracef, "free": True}
        rc, out, err = vlib.run_vdrv(["incr"], stdin=json.dumps(inp), timeout=3000)
        if rc != 0:
            raise Infra("vdrv incr (free) failed rc=%s: %s" % (rc, err[-2000:]))
        stats["free_runs"] += json.loads(out)["paths"]
        with open(trace, "a") as f:
            f.write(open(tracef).read())
    # ---- TLC judges every recorded snapshot with the contract
    rows = vlib.read_ndjson(trace)
    shutil.copyfile(trace, sc.path("trace.ndjson"))
    rt = vlib.tlc(sc, "IncrTrace", "IncrTrace.cfg", workers=1, timeout=3000)
    if rt.rc != 0:
        raise Infra("TLC failed on the incr trace (rc=%s):\n%s" % (rt.rc, rt.out[-2000:]))
    if rt.depth - 1 != len(rows):
        raise Infra("TLC judged %d of %d events" % (rt.depth - 1, len(rows)))
    states += rt.distinct
    trans += rt.generated
    stats["snapshots"] += sum(1 for x in rows if x["e"] == "snap")
    stats["crash_restarts"] += sum(1 for x in rows if x["e"] == "restart")
    for ln in [int(x) for x in re.findall(r'<<"REJECT", (\d+)>>', rt.out)]:
        ev = rows[ln - 1]
        stream = [x["item"] for x in rows[:ln] if x["e"] == "emit" and x["case"] == ev["case"]]
        sig = {"kind": "snapshot", "family": fam["name"], "after": ev["a"], "markers": ev["markers"] > 0, "errors": ev["errors"] > 0,
               "bad_offset": -2 in ev["ckpt"]}
        verdict.violation(sig, "after step %s of case %d the target state violates the contract: applied=%s ckpt(item index per db)=%s rid=%s "
                          "markers=%d errors=%d quiet=%s notes=%s | source stream so far: %s | config %s" % (
                              ev["a"], ev["case"], ev["applied"], ev["ckpt"], ev["rid"], ev["markers"], ev["errors"], ev["quiet"],
                              ev.get("notes"), [(i["t"], i["d"], i["id"]) for i in stream], drv_cfg(p)),
                          {"family": "incr", "cfg": drv_cfg(p), "path": steps[ev["case"]] if ev["case"] < len(steps) else None, "seed": seed})
    if len(samples) < 3 and steps:
        samples.append({"family": fam["name"], "behaviour": steps[0][:14], "last_snapshot": [x for x in rows if x["e"] == "snap"][-1]})
    return states, trans


def run_family(pid, tier, seed, families, invariants, live=None, assumptions=(), extra=None, level=None):
    """families: list of dict(name, params, mc_len (MaxLen for exhaustive check), paths_quick, paths_thorough, depth)"""
    t0 = time.time()
    verdict = vlib.Verdict(pid)
    vlib.build_vdrv()
    thorough = tier == "thorough"
    states = trans = 0
    cmds, samples = [], []
    stats = {"lockstep_paths": 0, "steps": 0, "snapshots": 0, "crash_restarts": 0, "drifts": 0, "free_runs": 0}
    with vlib.Scratch(pid) as sc:
        vlib.stage_specs(sc)
        for fam in families:
            if len(verdict.violations) > 60:
                log("[stop] %d violations already: the remaining configuration families are skipped" % len(verdict.violations))
                break
            fs, ft = one_family(sc, verdict, fam, thorough, seed, invariants, stats, cmds, samples)
            states += fs
            trans += ft
        if extra:
            # a further part of the same check (same scratch, same verdict): returns (states, transitions, stats, cmds)
            es, et, estats, ecmds = extra(sc, verdict, thorough, seed)
            states += es
            trans += et
            stats.update(estats)
            cmds = ecmds + cmds
    rc = verdict.finish()
    cov = {"states": states, "transitions": trans, "traces_validated_against_impl": stats["lockstep_paths"] + stats["free_runs"],
           "samples": samples, "evaluations": stats["snapshots"], "distinct_nontrivial": stats["lockstep_paths"],
           "rule": "behaviours = TLC-simulated runs of IncrSync (GenSpec) per configuration family, replayed lock-step; every step yields a "
                   "snapshot of the real target judged by TLC against IncrContract; non-trivial = behaviours (each has >= 1 forwarded command)",
           "exhaustive": False, "checker_cmd": "; ".join(cmds[:6])}
    cov.update(stats)
    vlib.write_evidence(pid, tier, seed, level or ("model_checking" if pid == "C03" else "fault_enumeration"), cov, time.time() - t0,
                        len(verdict.violations), list(assumptions))
    return rc
