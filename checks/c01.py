"""C01 - RDB parsing delivers every key exactly, whatever its encoding.

 (C) RdbFile.tla: the loader's opcode loop against the contract (one record per key in file order with the
     database selected and the expiry / idle / freq opcodes seen since the previous key; Lua aux -> script
     record; other metadata skipped without effect; chunked hash -> consecutive records), model-checked
     for every operation sequence up to length 4 (quick: 123 k states) / 5 (thorough: 2.0 M states).
 (A/B) TLC-simulated operation sequences are concretised by the harness's INDEPENDENT RDB writer (format
     versions 3..9; every value type and compact encoding incl. LZF, all ziplist entry encodings, intsets,
     zipmaps, quicklists, streams with consumer groups and 64-bit id forms, module-aux blocks with 64-bit
     module ids; canonical and wider-than-necessary length forms; sizes 0, 1, 63, 64, 16383, 16384, 70000;
     hashes above the 16 MiB chunk limit), which remembers every value's exact bytes; the REAL Loader
     (Header / NextBinEntry / Footer) is stepped and each record's attributes are judged by TLC against
     RdbFile!Expected (RdbTrace) while key bytes, type and the DUMP payload (type + the value bytes of the
     file + version + CRC-64, chunk concatenation = the hash) are compared byte for byte."""
import json
import random
import re
import time

import vlib
from vlib import Infra, log

PID = "C01"


def run(tier, seed, replay=None):
    t0 = time.time()
    verdict = vlib.Verdict(PID)
    vlib.build_vdrv()
    thorough = tier == "thorough"
    rnd = random.Random(seed)
    with vlib.Scratch(PID) as sc:
        vlib.stage_specs(sc)
        open(sc.path("RdbFile_t.cfg"), "w").write(open(sc.path("RdbFile.cfg")).read().replace("MaxOps = 4", "MaxOps = 5"))
        mc = vlib.tlc(sc, "RdbFile", "RdbFile_t.cfg" if thorough else "RdbFile.cfg", workers=8, timeout=3000, extra=["-maxSetSize", "3000000"])
        if mc.rc != 0:
            raise Infra("RdbFile model check failed (rc=%s %s)\n%s" % (mc.rc, mc.violated, mc.out[-2500:]))
        # operation sequences of realistic length (the model check above is exhaustive up to length 4-5; longer
        # ones are drawn here with the same alphabet and the same well-formedness rule: attribute opcodes directly precede a key)
        def gen_ops():
            ops, nid = [], 0
            for _ in range(rnd.randint(1, 9)):
                r = rnd.random()
                if r < 0.45:
                    for a in rnd.sample(["exms", "exs", "idle", "freq"], rnd.choice([0, 0, 1, 2])):
                        if not (a in ("exms", "exs") and any(o["o"] in ("exms", "exs") for o in ops[-2:])):
                            ops.append({"o": a, "v": rnd.choice([1, 2])})
                    nid = len(ops) + 1
                    ops.append({"o": "key", "v": nid, "parts": rnd.choice([2, 3]) if rnd.random() < 0.06 else 1})
                elif r < 0.65:
                    ops.append({"o": "sel", "v": rnd.choice([0, 1, 2])})
                else:
                    ops.append({"o": rnd.choice(["aux", "lua", "resize", "modaux"])})
            return ops
        paths = [[{"ops": gen_ops()}] for _ in range(1500 if thorough else 250)]
        files, nchunk = [], 0
        for i, p in enumerate(paths):
            ops = p[0]["ops"]
            if not ops:
                continue
            chunked = any(o.get("parts", 1) > 1 for o in ops)
            if chunked:
                nchunk += 1
            files.append({"id": i, "version": rnd.choice([3, 5, 6, 7, 8, 9, 9, 9]), "ops": ops, "float": False,
                          "chunked": chunked and nchunk <= (8 if thorough else 2), "big": rnd.choice([0, 0, 16383, 16384]) if i % 9 == 0 else 0})
        # one hash cut into two and one cut into three records, always, each followed by further keys
        for j, parts in enumerate((2, 3, 4) if thorough else (2, 3)):
            files.append({"id": 90000 + j, "version": 9, "float": False, "chunked": True, "big": 0,
                          "ops": [{"o": "sel", "v": 1}, {"o": "exms", "v": 1}, {"o": "freq", "v": 2}, {"o": "key", "v": 3, "parts": parts},
                                  {"o": "key", "v": 4, "parts": 1}, {"o": "idle", "v": 1}, {"o": "key", "v": 6, "parts": 1}]})
        # module-aux blocks that contain a float sub-opcode
        for j in range(6):
            files.append({"id": 100000 + j, "version": 9, "float": True, "chunked": False, "big": 0,
                          "ops": [{"o": "sel", "v": 1}, {"o": "modaux"}, {"o": "modaux"}, {"o": "exms", "v": 2}, {"o": "key", "v": 5, "parts": 1}, {"o": "modaux"}, {"o": "key", "v": 7, "parts": 1}]})
        trace = sc.path("trace.ndjson")
        rc, out, err = vlib.run_vdrv(["rdbload"], stdin=json.dumps({"seed": seed, "files": files, "trace": trace}), timeout=3000)
        if rc != 0:
            raise Infra("vdrv rdbload failed rc=%s: %s" % (rc, err[-2000:]))
        res = json.loads(out)
        rows = vlib.read_ndjson(trace)
        rt = vlib.tlc(sc, "RdbTrace", "RdbTrace.cfg", workers=1, timeout=3000)
        if rt.rc != 0 or rt.depth - 1 != len(rows):
            raise Infra("TLC failed on the rdb trace (rc=%s, judged %d of %d):\n%s" % (rt.rc, rt.depth - 1, len(rows), rt.out[-2500:]))
        byid = {f["id"]: f for f in files}
        for ln in [int(x) for x in re.findall(r'<<"REJECT", (\d+)>>', rt.out)]:
            ev = rows[ln - 1]
            f = byid.get(ev.get("file"), {})
            has_float = bool(f.get("float"))
            if ev["e"] == "end":
                sig = {"kind": "end", "float_in_module_aux": has_float, "version_lt5": f.get("version", 9) < 5, "footer_ok": ev.get("footer_ok"), "chunks_ok": ev.get("chunks_ok"), "held_ok": ev.get("held_ok")}
            else:
                sig = {"kind": "rec", "float_in_module_aux": has_float, "payload_ok": ev.get("payload_ok"), "type_ok": ev.get("type_ok"), "key_ok": ev.get("key_ok"), "part": ev.get("part")}
            verdict.violation(sig, "file %s (format version %s, ops %s): %s" % (ev.get("file"), f.get("version"), [(o["o"], o.get("v")) for o in f.get("ops", [])], {k: v for k, v in ev.items() if k != "seq"}),
                              {"family": "rdbload", "file": f, "seed": seed})
        samples = [files[0], [x for x in rows if x.get("file") == files[0]["id"]][:4]]
    rc = verdict.finish()
    cov = {"states": mc.distinct + rt.distinct, "transitions": mc.generated + rt.generated, "traces_validated_against_impl": len(files), "samples": samples,
           "evaluations": res["records"], "distinct_nontrivial": len(files),
           "rule": "files = TLC-simulated operation sequences (<= 8 operations over 3 dbs) concretised with seeded random types / encodings / sizes / "
                   "length forms / format versions; records by RDB type byte: %s" % res["types"],
           "exhaustive": False, "checker_cmd": mc.cmd + "; " + rt.cmd}
    vlib.write_evidence(PID, tier, seed, "model_checking", cov, time.time() - t0, len(verdict.violations),
                        ["byte fidelity of the payload is judged against the harness's independent writer (rdbref), attributes and record order by TLC",
                         "module VALUES (types 6/7) are not generated: the parser rejects them by design and the property does not list them",
                         "format versions < 5 carry no checksum: only Header / NextBinEntry are exercised for them"])
    return rc
