"""C03 - incremental sync forwards the filtered command stream in order, exactly once.

IncrSync.tla models parser / sender (barrier automaton, count threshold, ticker) / target; TLC proves
InOrderExactlyOnce, NoMarkers and Complete for every interleaving of stream emission, parsing,
dequeuing, ticker and target processing per configuration family, and (thorough) that everything is
eventually applied under weak fairness.  TLC-simulated behaviours are replayed LOCK-STEP into the real
parseSourceCommand / sendTargetCommand (gate hooks, substituted ticker; the model Redis' per-command
hook gates the target), a snapshot of the real target after every step is judged by TLC against the
contract (IncrTrace), and free runs with the real 500 ms ticker check that an idle stream is flushed."""
from checks.incr_common import run_family

PID = "C03"
BASE = dict(fdbs=[], kf=False, lua=False, tdb=9, resume=False, sender_count=2, buf_cap=2, crash=0, maxlen=6,
            kinds=["w", "ping", "multi"])
FAMILIES = [
    dict(name="plain", params=dict(BASE, kinds=["w", "wm", "ping", "multi"], kf=True), mc_len=(4, 6), paths_quick=150, paths_thorough=1500, free=(6, 40)),
    dict(name="dbfilter-txn", params=dict(BASE, fdbs=[1], maxlen=7, kinds=["w", "multi"]), mc_len=(5, 7), paths_quick=250, paths_thorough=2000),
    dict(name="targetdb", params=dict(BASE, tdb=1, kf=True, resume=True, crash=0, kinds=["w", "wm", "ping"]), mc_len=(4, 6), paths_quick=150, paths_thorough=1500, free=(4, 20)),
    dict(name="targetdb-dbfilter", params=dict(BASE, tdb=1, fdbs=[1], kinds=["w", "ping"]), mc_len=(5, 6), paths_quick=150, paths_thorough=1500),
    dict(name="cmdfilter", params=dict(BASE, lua=True, sender_count=3, kinds=["w", "wf", "wm", "eval", "opinfo", "hello", "ping"]), mc_len=(4, 5), paths_quick=150, paths_thorough=1500),
    dict(name="keyfilter-txn", params=dict(BASE, kf=True, maxlen=8, sender_count=2, kinds=["w", "wf", "multi"]), mc_len=(5, 6), paths_quick=300, paths_thorough=2500, depth=80,
         # a key-filtered write right before / after a transaction marker, followed by another transaction
         fixed=[[("sel", 0), ("multi", -1), ("w", -1), ("wf", -1), ("exec", -1), ("multi", -1), ("w", -1), ("exec", -1)],
                [("sel", 0), ("wf", -1), ("multi", -1), ("w", -1), ("exec", -1), ("w", -1)],
                [("sel", 0), ("multi", -1), ("wf", -1), ("exec", -1), ("w", -1), ("multi", -1), ("w", -1), ("wf", -1), ("exec", -1)]]),
    dict(name="nolua-batch1", params=dict(BASE, lua=False, kf=True, sender_count=1, kinds=["w", "wf", "eval", "multi"]), mc_len=(4, 6), paths_quick=100, paths_thorough=1000),
]


def run(tier, seed, replay=None):
    return run_family(PID, tier, seed, FAMILIES, ["InOrderExactlyOnce", "NoMarkers", "Complete"],
                      assumptions=["mredis stands in for the target Redis (SELECT/MULTI/EXEC/HSET semantics)",
                                   "the sender size threshold is not varied (count threshold 1..3 is)",
                                   "lock-step uses a substituted ticker channel; the real 500 ms ticker is exercised by the free runs only"])
