"""C02 - restoring an entry leaves the target key equal to the source key.

Restore.tla defines the case space (value kind x RDB encoding x element-count class around the
100-command flush batch x big-key threshold below/above x expiry x LRU/LFU hints x key_exists policy x
pre-existing key absent / same kind / other kind x REPLACE supported or not x target version string x
target rejecting the payload format x hash-tag replacement: 118 584 cases) and the contract's outcome per
case; TLC enumerates them and checks the outcome table's consequences.  A seeded sample (quick) / a
large sample (thorough) of the cases, plus chunked (> 16 MiB) hashes, is concretised by the independent
RDB writer, parsed by the real Loader and restored by the REAL RestoreRdbEntry into the model Redis
(whose RESTORE uses the harness's own DUMP decoder); TLC judges every command and the final key
(value equality, TTL window, untouched-ness, error / abort) with the contract (FsTrace.tla)."""
import random
import time

import vlib
from vlib import Infra, log
from checks.fs_common import run_cases

PID = "C02"
FIELDS = {"c"}


def to_case(cid, c, rnd):
    kind, typ = c["enc"]
    tver = c["ver"]
    major = 0
    try:
        major = int(tver.split(".")[0]) if tver else 0
    except ValueError:
        major = 0
    target = {"version": (tver if tver.count(".") == 2 else (tver + ".0" if tver.count(".") == 1 else (tver + ".0.0" if tver else "5.0.7"))),
              "no_replace": not c["replace"], "no_idle_freq": major < 5,
              "busy_text": "ERR Target key name is busy." if tver == "2.8" else "BUSYKEY Target key name already exists."}
    if c["reject"]:
        target["reject_types"] = [typ]
    cfg = {"mode": "entry", "parallel": 1, "tdb": rnd.choice([-1, -1, 2]), "key_exists": c["policy"], "target_replace": c["replace"],
           "big_threshold": 1 if c["big"] else 0, "target_version": tver, "replace_hash_tag": c["hashtag"],
           "shift_ms": rnd.choice([0, 0, 3600000, -3600000]), "target": target, "sched": "free", "rdb_version": 9 if c["hints"] or typ in (5, 14) else rnd.choice([6, 7, 8, 9])}
    key = rnd.choice(["k", "user:{tag}:1", "a b", "k\r\n", "{x}"]) if c["hashtag"] else rnd.choice(["k", "key with space", "k\x00bin\xff", ""])
    ent = {"id": 1, "db": rnd.choice([0, 1]), "key": key, "kind": kind, "n": c["n"], "elem": rnd.choice([3, 8, 20]), "enc": rnd.randrange(64), "type": typ,
           "expire": {"none": 0, "future": 900000, "past": -900000}[c["expire"]]}
    if c["hints"]:
        ent["idle"], ent["freq"] = rnd.choice([(5, 0), (0, 3), (7, 0), (0, 200)])  # an RDB carries LRU or LFU hints, never both
    if cfg["shift_ms"] and ent["expire"] > 0:
        ent["expire"] = 7200000 + ent["expire"]      # still in the future after the shift
    pre = []
    if c["pre"] != "absent":
        dkey = key.replace("{", "", 1).replace("}", "", 1) if c["hashtag"] else key
        base = kind.split(":")[0]
        other = "string" if base != "string" else "hash"
        pre.append({"db": cfg["tdb"] if cfg["tdb"] != -1 else ent["db"], "key": dkey, "kind": base if c["pre"] == "same" else other})
    return {"id": cid, "cfg": cfg, "pre": pre, "entries": [ent], "abstract": c}


def run(tier, seed, replay=None):
    t0 = time.time()
    verdict = vlib.Verdict(PID)
    vlib.build_vdrv()
    thorough = tier == "thorough"
    stats = {}
    with vlib.Scratch(PID) as sc:
        vlib.stage_specs(sc)
        mc = vlib.tlc(sc, "Restore", "Restore.cfg", workers=4, timeout=1800)
        if mc.rc != 0:
            raise Infra("Restore.tla check failed (rc=%s %s)\n%s" % (mc.rc, mc.violated, mc.out[-2500:]))
        rs, paths = vlib.sim_paths(sc, "Restore", "Restore.cfg", 30000 if thorough else 1800, 2, seed, fields=FIELDS, with_init=True)
        rnd = random.Random(seed)
        seen, cases = set(), []
        for p in paths:
            c = p[0]["c"]
            k = repr(sorted(c.items()))
            if k in seen:
                continue
            seen.add(k)
            cases.append(to_case(len(cases) + 1, c, rnd))
        # hashes above the 16 MiB chunk limit (delivered as several entries), with and without expiry / existing key
        for j, (pol, pre, exp) in enumerate([("none", False, 0), ("rewrite", True, 900000), ("rewrite", False, -900000), ("ignore", True, 0)] + ([("none", False, 900000), ("ignore", False, 0)] if thorough else [])):
            cases.append({"id": 900000 + j, "cfg": {"mode": "entry", "parallel": 1, "tdb": -1, "key_exists": pol, "target_replace": True, "target": {"version": "5.0.7"}, "sched": "free"},
                          "pre": ([{"db": 0, "key": "bighash", "kind": "hash"}] if pre else []),
                          "entries": [{"id": 1, "db": 0, "key": "bighash", "kind": "hash", "chunk": True, "n": 3, "elem": 9 * 1024 * 1024, "type": 4, "expire": exp}],
                          "abstract": {"route": "chunks", "policy": pol, "pre": "same" if pre else "absent", "expire": exp}})
        # rump's element-by-element route (utils.RestoreBigkey) called for a sequence of keys on one connection that remembers its database:
        # db 1, db 0 (this one may already exist on the target), db 1 again - under every policy, the third key belongs into db 1
        for j, (pol, pre) in enumerate([(p2, pr) for p2 in ("ignore", "rewrite", "none") for pr in (True, False)]):
            kinds = ["list", "hash", "set", "zset", "string"]
            cases.append({"id": 910000 + j, "cfg": {"mode": "bigkey", "parallel": 1, "tdb": -1, "key_exists": pol, "target_replace": True, "target": {"version": "5.0.7"}, "sched": "free"},
                          "pre": ([{"db": 0, "key": "bk:1", "kind": "string"}] if pre else []),
                          "entries": [{"id": 1, "db": 1, "key": "bk:0", "kind": kinds[j % 5], "n": 4, "elem": 8, "type": -1},
                                      {"id": 2, "db": 0, "key": "bk:1", "kind": kinds[(j + 1) % 5], "n": 4, "elem": 8, "type": -1},
                                      {"id": 3, "db": 1, "key": "bk:2", "kind": kinds[(j + 2) % 5], "n": 4, "elem": 8, "type": -1}],
                          "abstract": {"route": "rump-bigkey", "policy": pol, "pre": "other" if pre else "absent", "expire": 0}})
        abstract = {c["id"]: c.pop("abstract") for c in cases}

        def sig(ev, c, ent, evs):
            a = abstract.get(c["id"], {}) if c else {}
            done = next((x for x in evs if x["e"] == "done"), {})
            if ev["e"] == "final" and (done.get("panic") or done.get("abort")):
                return None      # consequence of the abort / panic already reported for this scenario
            if ev["e"] == "done":
                sym = "go-panic" if ev.get("panic") else ("abort" if ev.get("abort") else ("unexpected-error" if ev.get("err") else "no-error-reported"))
            elif ev["e"] == "cmd":
                sym = "forbidden-command-" + ev["cmd"]
            else:
                if ev.get("had_pre") and a.get("policy") in ("none", "ignore"):
                    sym = "existing-key-modified"
                elif not ev.get("present"):
                    sym = "key-missing"
                elif not ev.get("match"):
                    sym = "wrong-value"
                else:
                    sym = "wrong-ttl:" + str(ev.get("ttl"))
            ver = a.get("ver")
            return {"route": a.get("route"), "policy": a.get("policy"), "pre": a.get("pre"), "symptom": sym,
                    "replace": a.get("replace") if a.get("route") in ("restore", "restore-then-elements") else None,
                    "version_without_minor": (ver is not None and ver != "" and "." not in ver) if sym == "go-panic" else None,
                    "expiry": a.get("expire") if sym.startswith("wrong-ttl") else None}
        rows = run_cases(sc, PID, verdict, cases, seed, "restore-cases", stats, sig_fn=sig)
        routes = {}
        for a in abstract.values():
            routes[a.get("route")] = routes.get(a.get("route"), 0) + 1
        samples = [{"case": abstract[cases[0]["id"]], "concrete": cases[0]}, {"events": [x for x in rows if x.get("case") == cases[0]["id"] and x["e"] != "case"][:8]}]
    rc = verdict.finish()
    cov = {"states": mc.distinct + stats["states"], "transitions": mc.generated + stats["transitions"], "traces_validated_against_impl": stats["cases"],
           "samples": samples, "evaluations": stats["cases"], "distinct_nontrivial": sum(1 for a in abstract.values() if a.get("pre") != "absent" or a.get("route") != "restore"),
           "rule": "cases = distinct initial states of Restore.tla drawn by TLC's simulator (seeded) + chunked-hash cases; non-trivial = a key "
                   "pre-exists or the route is not the plain RESTORE; by route: %s" % routes,
           "exhaustive": False, "case_space": mc.distinct, "checker_cmd": mc.cmd + "; " + stats["cmd"]}
    vlib.write_evidence(PID, tier, seed, "model_checking", cov, time.time() - t0, len(verdict.violations),
                        ["mredis stands in for the target: RESTORE decodes the payload with the harness's own decoder (rdbref), BUSYKEY / REPLACE / "
                         "IDLETIME / FREQ / Bad-data-format personalities as configured per case",
                         "TTL is accepted within +-3 s of (source expiry - shifted now)",
                         "values are random per case (seeded): element contents include binary, integer-looking and empty strings"])
    return rc
