"""C18 - the backlog ring returns the bytes written at an offset, or says they are gone.

 (C) TLC on Backlog.tla (as-implemented ring with the contract as invariants): ReadCorrect, InvalidIff,
     ParkOnlyAtHead, RangeOK, RingHoldsTail, WriterNeverParks; liveness under WF (thorough).
     Thorough: LogRingInd.tla - slot (Lo+i)%S holds offset Lo+i, a read inside [Lo, Hi) returns its own
     offsets - as an inductive invariant discharged by Apalache for unbounded offsets, S in 1..6.
 (A) TLC-simulated behaviours of Backlog.tla (two readers, several wrap-arounds) replayed lock-step
     through the gate hooks on the real backlog (memory + file back ends).
 (B) traces of (A) and of free-running writer + readers with byte-granular sizes and jumps around the
     data-range boundaries validated by TLC against BacklogTrace."""
import json
import shutil
import time

import vlib
from vlib import Infra, log

PID = "C18"
UNIT = {"mem": 4096, "file": 4 * 1024 * 1024}


def validate_trace(sc, verdict, trace, cap, label, stats):
    rows = vlib.read_ndjson(trace)
    if not rows:
        raise Infra("empty trace for %s" % label)
    shutil.copyfile(trace, sc.path("trace.ndjson"))
    open(sc.path("BacklogTrace_run.cfg"), "w").write(
        "CONSTANTS Cap = %d Readers = {1,2}\nSPECIFICATION TSpec\nINVARIANTS ParkOnlyAtHead NoLostWake\n"
        "POSTCONDITION Accepted\nCHECK_DEADLOCK FALSE\n" % cap)
    r = vlib.tlc(sc, "BacklogTrace", "BacklogTrace_run.cfg", workers=1, timeout=1800)
    if r.rc == 0:
        stats["events_validated"] = stats.get("events_validated", 0) + len(rows)
        stats["invalid_offset_reads"] = stats.get("invalid_offset_reads", 0) + sum(1 for x in rows if x.get("err") == "INVALID")
        stats["parks"] = stats.get("parks", 0) + sum(1 for x in rows if x["e"] == "rpark")
        return True
    if r.violated in ("ParkOnlyAtHead", "NoLostWake"):
        st = r.error_trace[-1] if r.error_trace else {}
        line = st.get("l", 0)
        verdict.violation({"kind": "trace-invariant", "invariant": r.violated, "run": label},
                          "contract invariant %s violated by the recorded trace at line %s; spec state %s"
                          % (r.violated, line, {k: v for k, v in st.items() if not k.startswith("_")}),
                          {"family": "backlog-trace", "label": label, "cap": cap, "events": rows[max(0, line - 10):line]})
        return False
    if r.depth:
        line = r.depth
        ev = rows[line - 1] if line - 1 < len(rows) else {}
        verdict.violation({"kind": "trace-rejected", "run": label, "event": ev.get("e", "?")},
                          "no action of the Backlog contract explains recorded event #%d %s" % (line, json.dumps(ev)),
                          {"family": "backlog-trace", "label": label, "cap": cap, "events": rows[max(0, line - 12):line + 1]})
        return False
    raise Infra("TLC failed on trace %s (rc=%s):\n%s" % (label, r.rc, r.out[-2000:]))


def run(tier, seed, replay=None):
    t0 = time.time()
    verdict = vlib.Verdict(PID)
    stats, samples, tlc_cmds = {}, [], []
    vlib.build_vdrv()
    thorough = tier == "thorough"
    states = trans = 0
    with vlib.Scratch(PID) as sc:
        vlib.stage_specs(sc)
        for cfg in ["Backlog_q.cfg"] + (["Backlog_t.cfg", "Backlog_live.cfg"] if thorough else []):
            r = vlib.tlc(sc, "Backlog", cfg, workers=12, timeout=3000)
            if r.rc != 0:
                raise Infra("model check Backlog/%s failed (rc=%s): the spec no longer proves the property\n%s" % (cfg, r.rc, r.out[-3000:]))
            states += r.distinct
            trans += r.generated
            tlc_cmds.append(r.cmd)
            log("[C] Backlog/%s: %d generated, %d distinct, depth %d, %.1fs" % (cfg, r.generated, r.distinct, r.depth, r.wall))
        # (A) simulated behaviours replayed lock-step
        replayed = 0
        for backend, num in [("mem", 12000 if thorough else 3000), ("file", 300 if thorough else 30)]:
            r, paths = vlib.sim_paths(sc, "Backlog", "Backlog_gen.cfg", num, 30, seed + (7 if backend == "file" else 0), fields={"last"})
            tlc_cmds.append(r.cmd)
            steps = [[s["last"] for s in p] for p in paths]
            trace = sc.path("replay-%s.ndjson" % backend)
            inp = {"backend": backend, "cap": 2, "unit": UNIT[backend], "seed": seed, "readers": 2, "paths": steps,
                   "trace": trace, "dir": sc.dir}
            rc, out, err = vlib.run_vdrv(["backlog-replay"], stdin=json.dumps(inp), timeout=3000)
            if rc != 0:
                raise Infra("vdrv backlog-replay failed rc=%s: %s" % (rc, err[-2000:]))
            res = json.loads(out)
            replayed += res["paths"]
            stats["replay_steps"] = stats.get("replay_steps", 0) + res["steps"]
            stats["drifts"] = stats.get("drifts", 0) + res.get("drifts", 0)
            for m in res["mismatches"] or []:
                if m["kind"] == "drift":
                    log("DRIFT (model detail only, not a verdict): %s" % m["detail"])
                    continue
                if m["kind"] == "harness":
                    raise Infra("replay harness: %s" % m["detail"])
                verdict.violation({"kind": "replay-" + m["kind"], "backend": backend}, m["detail"],
                                  {"family": "backlog-replay", "backend": backend, "path": steps[m["case"]], "step": m["step"], "seed": seed})
            if not samples and steps:
                samples.append({"kind": "lock-step behaviour (Backlog actions)", "steps": steps[0][:12]})
            validate_trace(sc, verdict, trace, 2 * UNIT[backend], "replay-" + backend, stats)
        if thorough:
            # the ring for an unbounded number of wrap-arounds: inductive invariant by Apalache (LogRingInd.tla)
            tlc_cmds += vlib.apalache_inductive(sc, "LogRingInd", timeout=1800)
        # (B) free runs
        free = [("mem", 1, 4096), ("mem", 12288, 12288), ("file", 1, 4 * 1024 * 1024)] + ([("mem", 8192, 8192), ("mem", 20000, 20480), ("file", 9 * 1024 * 1024, 12 * 1024 * 1024)] if thorough else [])
        nruns = 0
        for backend, size, cap in free:
            trace = sc.path("free-%s-%d.ndjson" % (backend, cap))
            runs = (500 if thorough else 100) if backend == "mem" else 30
            inp = {"backend": backend, "size": size, "cap": cap, "seed": seed, "runs": runs, "readers": 2,
                   "ops": 60 if backend == "mem" else 20, "trace": trace, "dir": sc.dir, "close_fault_every": 3}
            rc, out, err = vlib.run_vdrv(["backlog-free"], stdin=json.dumps(inp), timeout=3000)
            if rc != 0:
                raise Infra("vdrv backlog-free failed rc=%s: %s" % (rc, err[-2000:]))
            res = json.loads(out)
            nruns += res["runs"]
            stats["free_bytes"] = stats.get("free_bytes", 0) + res["bytes"]
            validate_trace(sc, verdict, trace, cap, "free-%s-%d" % (backend, cap), stats)
            if (res["mismatches"] or []) and not verdict.violations:
                raise Infra("free run hung but the trace is explained by the contract: %s" % res["mismatches"][0]["detail"])
            if len(samples) < 2:
                samples.append({"kind": "recorded trace prefix (free run, cap %d)" % cap, "events": vlib.read_ndjson(trace)[:14]})
    rc = verdict.finish()
    cov = {"states": states, "transitions": trans, "traces_validated_against_impl": replayed + nruns, "samples": samples,
           "evaluations": replayed + nruns, "distinct_nontrivial": replayed,
           "rule": "lock-step behaviours = TLC-simulated runs of Backlog.tla (seeded, depth 30, two readers); free runs = seeded "
                   "random writer + 2 readers jumping around the data-range boundaries; every recorded event validated by TLC",
           "exhaustive": False, "lockstep_paths": replayed, "free_runs": nruns, "checker_cmd": "; ".join(tlc_cmds)}
    cov.update(stats)
    vlib.write_evidence(PID, tier, seed, "model_checking", cov, time.time() - t0, len(verdict.violations),
                        ["sync.Cond Broadcast wakes every waiter (Go runtime)",
                         "behaviour after Close() other than 'waiting readers are woken with an error' is not constrained",
                         "Reader.IsValid/SeekTo are thin wrappers over DataRange and are covered only through DataRange"])
    return rc
