"""C05 - the RDB / command-stream hand-off loses and duplicates no byte.

 (C) Handoff.tla: the byte pipeline wire -> bufio(B) -> {header parser | bounded copy | stream copy} ->
     pipe(P) -> reader with every fragmentation for small sizes; TLC checks that what leaves the pipe is
     always a prefix of RDB ++ commands, the remaining-count never goes negative, and completion.
 (A/B) a scripted source over loopback TCP answers PSYNC / SYNC with every framing variant (0..3
     keep-alive newlines before / after the status line, status in any letter case, RDB sizes around the
     8 KiB copy buffer and the bufio / pipe sizes) written in fragmentation patterns that split at every
     interesting boundary (inside CR LF, inside $n, at n-1 / n / n+1, one byte at a time, everything
     coalesced, patterns from TLC-simulated Net steps) with pauses; the REAL sendPSyncCmd +
     runIncrementalSync (+ Iocopy, pSyncPipeCopy, pipe) and the REAL dump worker consume it; the bytes
     coming out, the dump file, run id, offset and size are compared with what was sent and TLC judges the
     observations (HandoffTrace).  Thorough adds streams > 32 MiB so that bufio and pipe capacities bind."""
import json
import random
import re
import shutil
import time

import vlib
from vlib import Infra, log

PID = "C05"


def patterns(rnd, head_len, n):
    """fragment-size lists aimed at the boundaries of head | rdb | stream"""
    pats = [[], [1], [2], [3, 1], [8192], [8191, 1], [8193], [4096, 0, 4096], [1, 0], [65536]]
    for cut in (head_len - 1, head_len, head_len + 1, head_len + n - 1, head_len + n, head_len + n + 1):
        if cut > 0:
            pats.append([cut, 1 << 20])
            pats.append([cut, 1, 1 << 20])
            pats.append([cut, 0, 1 << 20])
    pats.append([rnd.randint(1, 50) for _ in range(rnd.randint(2, 9))])
    return pats


def run(tier, seed, replay=None):
    t0 = time.time()
    verdict = vlib.Verdict(PID)
    vlib.build_vdrv()
    thorough = tier == "thorough"
    rnd = random.Random(seed)
    with vlib.Scratch(PID) as sc:
        vlib.stage_specs(sc)
        mstates = mtrans = 0
        cmds = []
        for cfg in ["Handoff.cfg"] + (["Handoff_t.cfg"] if thorough else []):
            r = vlib.tlc(sc, "Handoff", cfg, workers=8, timeout=1800)
            if r.rc != 0:
                raise Infra("Handoff model check failed (rc=%s %s)\n%s" % (r.rc, r.violated, r.out[-2500:]))
            mstates += r.distinct
            mtrans += r.generated
            cmds.append(r.cmd)
        # segmentations chosen by the model: the sizes of the Net steps of simulated behaviours, scaled
        # the job pool of the file-oriented commands (CmdDump.Main / CmdRestore.Main: jobs in a channel, P workers, a WaitGroup): WorkerPool.tla
        for wcfg in ("WorkerPool.cfg", "WorkerPool_b.cfg"):
            rw = vlib.tlc(sc, "WorkerPool", wcfg, workers=4, timeout=600)
            if rw.rc != 0:
                raise Infra("WorkerPool model check failed on %s (rc=%s, %s)\n%s" % (wcfg, rw.rc, rw.violated, rw.out[-2000:]))
            mstates += rw.distinct
            mtrans += rw.generated
        if not vlib.tlc(sc, "WorkerPool", "WorkerPool_dev.cfg", workers=4, timeout=600).violated:
            raise Infra("WorkerPool.tla: counting a job off before it is worked on no longer violates MainAfterAll - the model is vacuous")
        rs, paths = vlib.sim_paths(sc, "Handoff", "Handoff.cfg", 60 if thorough else 20, 30, seed, fields={"wire"})
        model_frags = []
        for p in paths:
            ws = [1] + [s["wire"] for s in p]
            ks = [b - a for a, b in zip(ws, ws[1:]) if b > a]
            if ks:
                model_frags.append([k * rnd.choice([1, 7, 1000, 4096]) for k in ks])
        cases, cid = [], 0
        sizes = [1, 2, 100, 8191, 8192, 8193, 20000] + ([70000, 40 * 1024 * 1024] if thorough else [])
        for mode in ("psync", "dump"):
            for n in sizes:
                for pre, mid, case in [(0, 0, 0), (2, 0, 1), (0, 3, 2), (1, 1, 0)]:
                    head_len = pre + len("+FULLRESYNC %s %d\r\n" % ("a" * 40, 1000)) + mid + len("$%d\r\n" % n) if mode == "psync" else pre + mid + len("$%d\r\n" % n)
                    pats = patterns(rnd, head_len, n) + rnd.sample(model_frags, min(2, len(model_frags)))
                    if not thorough:
                        pats = rnd.sample(pats, 6)
                    if n > 1 << 20:
                        pats = [[], [65536], [8191, 1]]
                    for fr in pats:
                        if n >= 8191 and fr and sum(fr) / len(fr) < 40:
                            continue        # thousands of tiny writes with pauses: minutes per case
                        cid += 1
                        cases.append({"id": cid, "mode": mode, "n": n, "stream_len": rnd.choice([0, 1, 300, 9000]) if n < (1 << 20) else 35 * 1024 * 1024,
                                      "pre_newlines": pre if mode == "psync" else pre + mid, "mid_newlines": mid if mode == "psync" else 0, "status_case": case,
                                      "frags": fr, "pause_us": rnd.choice([50, 300]), "offset": rnd.choice([0, 1, 1000, 2 ** 40]),
                                      "read_max": rnd.choice([1, 17, 4096, 65536])})
        # the source hangs up some way into the command stream: the tool must come back with the announced run id for the next byte
        for j in range(48 if thorough else 5):
            cid += 1
            slen = rnd.choice([300, 9000])
            cases.append({"id": cid, "mode": "psync", "n": rnd.choice([1, 100, 8192, 20000]), "stream_len": slen, "pre_newlines": rnd.choice([0, 1]), "mid_newlines": rnd.choice([0, 2]),
                          "status_case": rnd.choice([0, 1, 2]), "frags": rnd.choice([[], [7], [4096]]), "pause_us": 50, "offset": rnd.choice([0, 1000, 2 ** 40]),
                          "read_max": 4096, "drop_at": rnd.choice([1, slen // 2, slen - 1])})
        # the whole dump command (CmdDump.Main) over two sources and 1-2 file workers
        for j in range(32 if thorough else 4):
            cid += 1
            cases.append({"id": cid, "mode": "dump-main", "n": rnd.choice([100, 8191, 8193, 20000, 70000]), "stream_len": rnd.choice([0, 300]), "pre_newlines": rnd.choice([0, 2]),
                          "mid_newlines": rnd.choice([0, 1]), "status_case": 0, "frags": rnd.choice([[], [1, 1, 1048576], [4096], [8191, 1]]), "pause_us": 50, "offset": 0, "read_max": 4096})
        # ... with RDBs large enough, and sent in small enough pieces, for the two dumpers to be copying at the same moment many times over
        # (odd id: two file workers)
        for j in range(8 if thorough else 3):   # (a race: several tries; each takes about half a second)
            cid += 1 + (cid % 2)   # -> odd
            cases.append({"id": cid, "mode": "dump-main", "n": 96 * 1024 * 1024 + j, "stream_len": 0, "pre_newlines": 0, "mid_newlines": 0, "status_case": 0,
                          "frags": [], "pause_us": 20, "offset": 0, "read_max": 4096})
        trace = sc.path("trace.ndjson")
        rc, out, err = vlib.run_vdrv(["handoff"], stdin=json.dumps({"seed": seed, "cases": cases, "trace": trace, "dir": sc.dir}), timeout=3000)
        crashed = False
        if rc != 0:
            crashed = True
            where = vlib.tool_panic(err)
            if not where:
                raise Infra("vdrv handoff failed rc=%s: %s" % (rc, err[-2000:]))
            # a goroutine started by the tool itself panicked (the production binary would have crashed the same way)
            verdict.violation({"kind": "tool-crash", "where": where.split(" @ ")[-1].split(":")[0]},
                              "the tool crashed with a Go runtime panic during a scripted hand-off: %s" % where, {"family": "handoff", "seed": seed, "stderr": err[-1500:]})
        rows = vlib.read_ndjson(trace)
        rt = vlib.tlc(sc, "HandoffTrace", "HandoffTrace.cfg", workers=1, timeout=1800)
        if len(rows) < len(cases) and not crashed and not any(x.get("hung") or x.get("out_len", 0) < x.get("want_len", 0) for x in rows):
            raise Infra("handoff driver stopped after %d of %d cases" % (len(rows), len(cases)))
        if rt.rc != 0 or rt.depth - 1 != len(rows):
            raise Infra("TLC failed on the handoff trace (rc=%s, judged %d of %d):\n%s" % (rt.rc, rt.depth - 1, len(rows), rt.out[-2000:]))
        byid = {c["id"]: c for c in cases}
        for ln in [int(x) for x in re.findall(r'<<"REJECT", (\d+)>>', rt.out)]:
            ev = rows[ln - 1]
            c = byid[ev["case"]]
            sym = "hang" if ev.get("hung") else "abort" if ev["abort"] or ev["panic"] else ("announced-values" if (ev["n_reported"] != ev["n"] or not ev["runid_ok"] or ev["offset_used"] != ev["announced_offset"] or not ev["full"] or not ev.get("re_runid_ok", True) or not ev.get("re_off_ok", True))
                                                               else ("file" if ev["mode"] == "dump" and (ev["file_diff"] != -1 or ev["file_len"] != ev["n"]) else "bytes"))
            verdict.violation({"kind": "handoff", "mode": ev["mode"], "symptom": sym},
                              "hand-off differs from what the source sent: %s" % {k: v for k, v in ev.items() if k not in ("seq",)},
                              {"family": "handoff", "case": c, "seed": seed})
        samples = [cases[0], rows[0] if rows else {"note": "the driver process died before the first observation was written"}]
    rc = verdict.finish()
    cov = {"states": mstates + rt.distinct, "transitions": mtrans + rt.generated, "traces_validated_against_impl": len(rows), "samples": samples,
           "evaluations": len(rows), "distinct_nontrivial": sum(1 for c in cases if c["frags"]),
           "rule": "cases = {psync, dump} x RDB sizes around the copy-buffer boundary x 4 framings x fragmentation patterns (boundary splits, "
                   "1-byte writes, coalesced, TLC-simulated Net steps); non-trivial = an explicit fragmentation pattern",
           "exhaustive": False, "checker_cmd": "; ".join(cmds + [rt.cmd])}
    vlib.write_evidence(PID, tier, seed, "model_checking", cov, time.time() - t0, len(verdict.violations),
                        ["the kernel may coalesce adjacent writes of the scripted source (pauses make splits likely, not certain)",
                         "in dump mode the connection is closed by the tool after the RDB: 'unread' is checked as: what is still readable is a prefix of the command stream",
                         "fakesrc stands in for the master"])
    return rc
