"""C20 - source re-discovery selects a node that really is the master.

Supervisor.tla models the probe loop (one action per probe / end of round) and TLC checks, for EVERY
scenario of node answers over MaxRetries+1 rounds (3 nodes x 3 rounds x {master, slave, err}), the
contract (chosen node reported master in the first round that had one, every other node listed once,
error exactly when no round had a master) and termination.  SupervisorCases.tla enumerates the
canonical scenarios with the contract's expectation; each is replayed against the REAL supervisor
through an injected connection factory that serves real INFO text / connect errors / command errors /
role-less output (retry budget 2, real back-off, all scenarios in parallel goroutines; thorough also
replays the no-master scenarios with the production budget of 6 retries = 21 s of back-off)."""
import json
import time

import vlib
from vlib import Infra, log

PID = "C20"


def fn_to_list(f, lo):
    return [f[k] for k in sorted(f, key=int)] if isinstance(f, dict) else f


def run(tier, seed, replay=None):
    t0 = time.time()
    verdict = vlib.Verdict(PID)
    vlib.build_vdrv()
    thorough = tier == "thorough"
    with vlib.Scratch(PID) as sc:
        vlib.stage_specs(sc)
        mc = vlib.tlc(sc, "Supervisor", "Supervisor.cfg", workers=8, timeout=1800)
        if mc.rc != 0:
            raise Infra("Supervisor model check failed (rc=%s): the loop model no longer satisfies the contract\n%s" % (mc.rc, mc.out[-3000:]))
        r, nodes, edges, inits = vlib.tlc_graph(sc, "SupervisorCases", "SupervisorCases.cfg", workers=4)
        cases = []
        for n in sorted(nodes):
            c = nodes[n]["c"]
            scn = [fn_to_list(rnd, 1) for rnd in fn_to_list(c["scn"], 0)]
            cases.append({"scn": scn, "first": c["first"], "masters": c["masters"]})
        runs = [(2, cases, 2 if thorough else 1)]
        if thorough:
            runs.append((6, [dict(c, scn=c["scn"] + [c["scn"][-1]] * 4) for c in cases if c["first"] < 0][:40], 1))
        evals = nontriv = 0
        for retries, cs, orders in runs:
            rc, out, err = vlib.run_vdrv(["supervisor"], stdin=json.dumps({"seed": seed, "max_retries": retries, "cases": cs, "orders": orders,
                                                                             "syncer_rounds": (6 if thorough else 2) if retries == 2 else 0}), timeout=3000)
            if rc != 0:
                raise Infra("vdrv supervisor failed rc=%s: %s" % (rc, err[-2000:]))
            res = json.loads(out)
            evals += res["evaluations"]
            nontriv += res["nontrivial"]
            for m in res["mismatches"] or []:
                ex = m["extra"]
                verdict.violation({"kind": "syncer-topology" if ex.get("syncer") else "supervisor", "masters_in_round": ex["masters"], "no_master": ex["first"] < 0},
                                  m["detail"] + " | scenario[round][node] = %s" % ex["scn"], {"family": "supervisor", "scenario": ex["scn"], "max_retries": retries})
    rc = verdict.finish()
    cov = {"states": mc.distinct + r.distinct, "transitions": mc.generated + r.generated, "traces_validated_against_impl": evals,
           "samples": cases[3:5] + cases[-1:], "evaluations": evals, "distinct_nontrivial": nontriv,
           "rule": "scenarios = all assignments of {master, slave, err} to 3 nodes x 3 rounds, canonicalised after the first round with a "
                   "master (1899), each replayed (err rendered as connect error / command error / role-less INFO by seed); "
                   "non-trivial = the configured source is not simply master in round 0",
           "exhaustive": True, "checker_cmd": mc.cmd + "; " + r.cmd}
    vlib.write_evidence(PID, tier, seed, "model_checking", cov, time.time() - t0, len(verdict.violations),
                        ["the connection factory is injected (build tag verif); node answers are scripted per (node, round)",
                         "retry budget 2 for the full scenario product; the production budget 6 only for no-master scenarios (thorough)",
                         "back-off is real wall-clock time; a 20 s margin over the expected back-off is the hang watchdog"])
    return rc
