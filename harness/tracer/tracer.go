// Package tracer records NDJSON events with a global sequence number taken under one mutex.
package tracer

import (
	"bufio"
	"encoding/json"
	"os"
	"sync"
)

type Ev map[string]interface{}

type T struct {
	mu  sync.Mutex
	seq int64
	w   *bufio.Writer
	f   *os.File
	mem []Ev
	Mem bool // keep events in memory too
}

func New(path string) (*T, error) {
	t := &T{}
	if path != "" {
		f, err := os.Create(path)
		if err != nil {
			return nil, err
		}
		t.f = f
		t.w = bufio.NewWriterSize(f, 1<<20)
	}
	return t, nil
}

// Emit assigns the next sequence number under the tracer lock and writes the event.
func (t *T) Emit(e Ev) int64 {
	t.mu.Lock()
	t.seq++
	e["seq"] = t.seq
	if t.w != nil {
		b, _ := json.Marshal(e)
		t.w.Write(b)
		t.w.WriteByte('\n')
	}
	if t.Mem {
		t.mem = append(t.mem, e)
	}
	s := t.seq
	t.mu.Unlock()
	return s
}

func (t *T) Events() []Ev {
	t.mu.Lock()
	defer t.mu.Unlock()
	return append([]Ev(nil), t.mem...)
}

func (t *T) Count() int64 {
	t.mu.Lock()
	defer t.mu.Unlock()
	return t.seq
}

func (t *T) Close() error {
	t.mu.Lock()
	defer t.mu.Unlock()
	if t.w != nil {
		t.w.Flush()
		return t.f.Close()
	}
	return nil
}
