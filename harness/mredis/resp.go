// Package mredis is a small in-process MODEL of a Redis server (2.8 - 5.0 personalities)
// speaking RESP2 over loopback TCP.  It is used by the verification harness as the target
// (or source) peer.  Standard library only (plus the sibling reference package rdbref).
package mredis

import (
	"bufio"
	"errors"
	"io"
	"strconv"
)

// Reply is one RESP2 value.
//
//	Kind '+'  simple string, text in Str
//	Kind '-'  error, text (without the leading '-') in Str
//	Kind ':'  integer in Int
//	Kind '$'  bulk string in Str, or the nil bulk when Nil is set
//	Kind '*'  array in Elems, or the nil array when Nil is set
type Reply struct {
	Kind  byte
	Str   []byte
	Int   int64
	Nil   bool
	Elems []Reply
}

// OK is "+OK".
func OK() Reply { return Reply{Kind: '+', Str: []byte("OK")} }

// Simple is a "+<s>" status reply.
func Simple(s string) Reply { return Reply{Kind: '+', Str: []byte(s)} }

// Err is an error reply; msg is the complete text after the '-' (e.g. "ERR syntax error").
func Err(msg string) Reply { return Reply{Kind: '-', Str: []byte(msg)} }

// Int is an integer reply.
func Int(n int64) Reply { return Reply{Kind: ':', Int: n} }

// Bulk is a bulk string reply (a nil slice is the EMPTY bulk, not the nil bulk).
func Bulk(b []byte) Reply {
	if b == nil {
		b = []byte{}
	}
	return Reply{Kind: '$', Str: b}
}

// BulkString is Bulk([]byte(s)).
func BulkString(s string) Reply { return Reply{Kind: '$', Str: []byte(s)} }

// NilBulk is "$-1".
func NilBulk() Reply { return Reply{Kind: '$', Nil: true} }

// Array is a multi-bulk reply.
func Array(elems ...Reply) Reply {
	if elems == nil {
		elems = []Reply{}
	}
	return Reply{Kind: '*', Elems: elems}
}

// NilArray is "*-1".
func NilArray() Reply { return Reply{Kind: '*', Nil: true} }

// IsErr reports whether r is an error reply.
func (r Reply) IsErr() bool { return r.Kind == '-' }

// AppendTo appends the wire form of r to b.
func (r Reply) AppendTo(b []byte) []byte {
	switch r.Kind {
	case '+', '-':
		b = append(b, r.Kind)
		b = append(b, r.Str...)
		b = append(b, '\r', '\n')
	case ':':
		b = append(b, ':')
		b = strconv.AppendInt(b, r.Int, 10)
		b = append(b, '\r', '\n')
	case '$':
		if r.Nil {
			return append(b, "$-1\r\n"...)
		}
		b = append(b, '$')
		b = strconv.AppendInt(b, int64(len(r.Str)), 10)
		b = append(b, '\r', '\n')
		b = append(b, r.Str...)
		b = append(b, '\r', '\n')
	case '*':
		if r.Nil {
			return append(b, "*-1\r\n"...)
		}
		b = append(b, '*')
		b = strconv.AppendInt(b, int64(len(r.Elems)), 10)
		b = append(b, '\r', '\n')
		for i := range r.Elems {
			b = r.Elems[i].AppendTo(b)
		}
	default:
		panic("mredis: Reply with invalid Kind " + strconv.Quote(string(r.Kind)))
	}
	return b
}

// Bytes is the wire form of r.
func (r Reply) Bytes() []byte { return r.AppendTo(nil) }

// EncodeCommand encodes a command as a RESP array of bulk strings.
func EncodeCommand(args ...[]byte) []byte {
	n := 16
	for _, a := range args {
		n += len(a) + 16
	}
	b := make([]byte, 0, n)
	b = append(b, '*')
	b = strconv.AppendInt(b, int64(len(args)), 10)
	b = append(b, '\r', '\n')
	for _, a := range args {
		b = append(b, '$')
		b = strconv.AppendInt(b, int64(len(a)), 10)
		b = append(b, '\r', '\n')
		b = append(b, a...)
		b = append(b, '\r', '\n')
	}
	return b
}

// EncodeCommandStrings is EncodeCommand for string arguments.
func EncodeCommandStrings(args ...string) []byte {
	bs := make([][]byte, len(args))
	for i, a := range args {
		bs[i] = []byte(a)
	}
	return EncodeCommand(bs...)
}

// ProtocolError is returned by ReadCommand / ReadReply for malformed input (as opposed to
// I/O errors, which are returned unchanged).
type ProtocolError struct{ Msg string }

func (e *ProtocolError) Error() string { return "Protocol error: " + e.Msg }

const (
	maxBulkLen      = 512 << 20
	maxMultiBulkLen = 1024 * 1024
)

// readLine reads up to and including '\n'; it returns the line without the trailing "\n" or
// "\r\n" and the number of raw bytes consumed.
func readLine(br *bufio.Reader) (line []byte, n int, err error) {
	raw, err := br.ReadBytes('\n')
	n = len(raw)
	if err != nil {
		if err == io.EOF && n > 0 {
			err = io.ErrUnexpectedEOF
		}
		return nil, n, err
	}
	raw = raw[:n-1]
	if len(raw) > 0 && raw[len(raw)-1] == '\r' {
		raw = raw[:len(raw)-1]
	}
	return raw, n, nil
}

// parseLen parses a RESP length / integer field strictly (optional '-', digits only).
func parseLen(b []byte) (int64, bool) {
	if len(b) == 0 {
		return 0, false
	}
	v, err := strconv.ParseInt(string(b), 10, 64)
	if err != nil {
		return 0, false
	}
	return v, true
}

// ReadCommand reads one client command: either a RESP array of bulk strings or an inline
// command (space separated, with Redis quoting rules).  rawLen is the exact number of bytes
// consumed from br.  An empty inline line, "*0" and "*-1" yield len(args)==0 with a nil error
// (Redis ignores those).
func ReadCommand(br *bufio.Reader) (args [][]byte, rawLen int, err error) {
	first, err := br.Peek(1)
	if err != nil {
		return nil, 0, err
	}
	if first[0] != '*' {
		line, n, err := readLine(br)
		rawLen += n
		if err != nil {
			return nil, rawLen, err
		}
		args, ok := splitInline(line)
		if !ok {
			return nil, rawLen, &ProtocolError{"unbalanced quotes in request"}
		}
		return args, rawLen, nil
	}
	line, n, err := readLine(br)
	rawLen += n
	if err != nil {
		return nil, rawLen, err
	}
	cnt, ok := parseLen(line[1:])
	if !ok || cnt > maxMultiBulkLen {
		return nil, rawLen, &ProtocolError{"invalid multibulk length"}
	}
	if cnt <= 0 {
		return nil, rawLen, nil
	}
	args = make([][]byte, 0, cnt)
	for i := int64(0); i < cnt; i++ {
		line, n, err := readLine(br)
		rawLen += n
		if err != nil {
			return nil, rawLen, err
		}
		if len(line) == 0 || line[0] != '$' {
			c := byte(' ')
			if len(line) > 0 {
				c = line[0]
			}
			return nil, rawLen, &ProtocolError{"expected '$', got '" + string(c) + "'"}
		}
		bl, ok := parseLen(line[1:])
		if !ok || bl < 0 || bl > maxBulkLen {
			return nil, rawLen, &ProtocolError{"invalid bulk length"}
		}
		buf := make([]byte, bl+2)
		m, err := io.ReadFull(br, buf)
		rawLen += m
		if err != nil {
			if err == io.EOF {
				err = io.ErrUnexpectedEOF
			}
			return nil, rawLen, err
		}
		// Redis does not verify the two trailing bytes; neither do we.
		args = append(args, buf[:bl:bl])
	}
	return args, rawLen, nil
}

// ReadReply reads one complete RESP2 reply (recursively for arrays).
func ReadReply(br *bufio.Reader) (Reply, error) {
	line, _, err := readLine(br)
	if err != nil {
		return Reply{}, err
	}
	if len(line) == 0 {
		return Reply{}, &ProtocolError{"empty reply line"}
	}
	switch line[0] {
	case '+', '-':
		s := make([]byte, len(line)-1)
		copy(s, line[1:])
		return Reply{Kind: line[0], Str: s}, nil
	case ':':
		v, ok := parseLen(line[1:])
		if !ok {
			return Reply{}, &ProtocolError{"invalid integer reply"}
		}
		return Reply{Kind: ':', Int: v}, nil
	case '$':
		n, ok := parseLen(line[1:])
		if !ok || n > maxBulkLen {
			return Reply{}, &ProtocolError{"invalid bulk length"}
		}
		if n < 0 {
			return Reply{Kind: '$', Nil: true}, nil
		}
		buf := make([]byte, n+2)
		if _, err := io.ReadFull(br, buf); err != nil {
			if err == io.EOF {
				err = io.ErrUnexpectedEOF
			}
			return Reply{}, err
		}
		if buf[n] != '\r' || buf[n+1] != '\n' {
			return Reply{}, &ProtocolError{"bulk not terminated by CRLF"}
		}
		return Reply{Kind: '$', Str: buf[:n:n]}, nil
	case '*':
		n, ok := parseLen(line[1:])
		if !ok || n > maxMultiBulkLen*64 {
			return Reply{}, &ProtocolError{"invalid multibulk length"}
		}
		if n < 0 {
			return Reply{Kind: '*', Nil: true}, nil
		}
		r := Reply{Kind: '*', Elems: make([]Reply, 0, n)}
		for i := int64(0); i < n; i++ {
			e, err := ReadReply(br)
			if err != nil {
				if err == io.EOF {
					err = io.ErrUnexpectedEOF
				}
				return Reply{}, err
			}
			r.Elems = append(r.Elems, e)
		}
		return r, nil
	}
	return Reply{}, &ProtocolError{"unexpected reply type byte " + strconv.Quote(string(line[0]))}
}

var errHex = errors.New("bad hex")

func hexVal(c byte) (byte, error) {
	switch {
	case c >= '0' && c <= '9':
		return c - '0', nil
	case c >= 'a' && c <= 'f':
		return c - 'a' + 10, nil
	case c >= 'A' && c <= 'F':
		return c - 'A' + 10, nil
	}
	return 0, errHex
}

func isSpace(c byte) bool {
	return c == ' ' || c == '\t' || c == '\n' || c == '\r' || c == '\v' || c == '\f'
}

// splitInline is a port of Redis' sdssplitargs: whitespace separated tokens, "double quoted"
// tokens with \n \r \t \b \a \xHH \\ \" escapes, 'single quoted' tokens with \' escape.  A
// closing quote must be followed by whitespace or end of line.
func splitInline(line []byte) ([][]byte, bool) {
	var out [][]byte
	i, n := 0, len(line)
	for {
		for i < n && isSpace(line[i]) {
			i++
		}
		if i >= n {
			return out, true
		}
		cur := []byte{}
		inq, insq, done := false, false, false
		for !done {
			switch {
			case inq:
				if i >= n {
					return nil, false
				}
				c := line[i]
				if c == '\\' && i+3 < n && line[i+1] == 'x' {
					h, e1 := hexVal(line[i+2])
					l, e2 := hexVal(line[i+3])
					if e1 == nil && e2 == nil {
						cur = append(cur, h<<4|l)
						i += 4
						continue
					}
				}
				if c == '\\' && i+1 < n {
					i++
					switch line[i] {
					case 'n':
						cur = append(cur, '\n')
					case 'r':
						cur = append(cur, '\r')
					case 't':
						cur = append(cur, '\t')
					case 'b':
						cur = append(cur, '\b')
					case 'a':
						cur = append(cur, '\a')
					default:
						cur = append(cur, line[i])
					}
					i++
				} else if c == '"' {
					if i+1 < n && !isSpace(line[i+1]) {
						return nil, false
					}
					i++
					done = true
				} else {
					cur = append(cur, c)
					i++
				}
			case insq:
				if i >= n {
					return nil, false
				}
				c := line[i]
				if c == '\\' && i+1 < n && line[i+1] == '\'' {
					cur = append(cur, '\'')
					i += 2
				} else if c == '\'' {
					if i+1 < n && !isSpace(line[i+1]) {
						return nil, false
					}
					i++
					done = true
				} else {
					cur = append(cur, c)
					i++
				}
			default:
				if i >= n {
					done = true
					break
				}
				c := line[i]
				switch {
				case isSpace(c) || c == 0:
					done = true
				case c == '"':
					inq = true
				case c == '\'':
					insq = true
				default:
					cur = append(cur, c)
				}
				i++
			}
		}
		out = append(out, cur)
	}
}
