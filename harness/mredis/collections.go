package mredis

import (
	"bytes"
	"math"
	"sort"
	"strconv"

	"verif/harness/rdbref"
)

// ---------------------------------------------------------------------------------------
// member index (sets, hashes, sorted sets)

func (o *obj) index() map[string]int {
	if o.idx != nil {
		return o.idx
	}
	v := &o.e.Val
	switch v.Kind {
	case "set":
		o.idx = make(map[string]int, len(v.Set))
		for i, m := range v.Set {
			o.idx[string(m)] = i
		}
	case "hash":
		o.idx = make(map[string]int, len(v.Hash))
		for i, f := range v.Hash {
			o.idx[string(f.Field)] = i
		}
	case "zset":
		o.idx = make(map[string]int, len(v.ZSet))
		for i, m := range v.ZSet {
			o.idx[string(m.Member)] = i
		}
	default:
		o.idx = map[string]int{}
	}
	return o.idx
}

func setAdd(o *obj, m []byte) bool {
	idx := o.index()
	if _, ok := idx[string(m)]; ok {
		return false
	}
	o.e.Val.Set = append(o.e.Val.Set, dup(m))
	idx[string(m)] = len(o.e.Val.Set) - 1
	return true
}

func setRem(o *obj, m []byte) bool {
	idx := o.index()
	i, ok := idx[string(m)]
	if !ok {
		return false
	}
	l := o.e.Val.Set
	last := len(l) - 1
	if i != last {
		l[i] = l[last]
		idx[string(l[i])] = i
	}
	l[last] = nil
	o.e.Val.Set = l[:last]
	delete(idx, string(m))
	return true
}

func hashGet(o *obj, f []byte) ([]byte, bool) {
	i, ok := o.index()[string(f)]
	if !ok {
		return nil, false
	}
	return o.e.Val.Hash[i].Value, true
}

func hashSet(o *obj, f, v []byte) bool {
	idx := o.index()
	if i, ok := idx[string(f)]; ok {
		o.e.Val.Hash[i].Value = dup(v)
		return false
	}
	o.e.Val.Hash = append(o.e.Val.Hash, rdbref.HF{Field: dup(f), Value: dup(v)})
	idx[string(f)] = len(o.e.Val.Hash) - 1
	return true
}

func hashDel(o *obj, f []byte) bool {
	idx := o.index()
	i, ok := idx[string(f)]
	if !ok {
		return false
	}
	l := o.e.Val.Hash
	last := len(l) - 1
	if i != last {
		l[i] = l[last]
		idx[string(l[i].Field)] = i
	}
	l[last] = rdbref.HF{}
	o.e.Val.Hash = l[:last]
	delete(idx, string(f))
	return true
}

func zGet(o *obj, m []byte) (float64, bool) {
	i, ok := o.index()[string(m)]
	if !ok {
		return 0, false
	}
	return o.e.Val.ZSet[i].Score, true
}

func zSet(o *obj, m []byte, score float64) bool {
	idx := o.index()
	if i, ok := idx[string(m)]; ok {
		o.e.Val.ZSet[i].Score = score
		return false
	}
	o.e.Val.ZSet = append(o.e.Val.ZSet, rdbref.ZM{Member: dup(m), Score: score})
	idx[string(m)] = len(o.e.Val.ZSet) - 1
	return true
}

func zDel(o *obj, m []byte) bool {
	idx := o.index()
	i, ok := idx[string(m)]
	if !ok {
		return false
	}
	l := o.e.Val.ZSet
	last := len(l) - 1
	if i != last {
		l[i] = l[last]
		idx[string(l[i].Member)] = i
	}
	l[last] = rdbref.ZM{}
	o.e.Val.ZSet = l[:last]
	delete(idx, string(m))
	return true
}

// zSorted returns the members ordered by (score, member bytes).
func zSorted(o *obj) []rdbref.ZM {
	out := make([]rdbref.ZM, len(o.e.Val.ZSet))
	copy(out, o.e.Val.ZSet)
	sort.Slice(out, func(i, j int) bool {
		if out[i].Score != out[j].Score {
			return out[i].Score < out[j].Score
		}
		return bytes.Compare(out[i].Member, out[j].Member) < 0
	})
	return out
}

// ---------------------------------------------------------------------------------------
// lists

func pushGeneric(s *Server, c *client, a [][]byte, head, onlyIfExists bool) Reply {
	o, ok := s.lookupKind(c.db, a[0], "list")
	if !ok {
		return Err(msgWrongType)
	}
	if o == nil {
		if onlyIfExists {
			return Int(0)
		}
		o = &obj{e: Entry{Val: rdbref.Value{Kind: "list"}}}
		s.store(c.db, a[0], o)
	}
	vals := a[1:]
	if head {
		nl := make([][]byte, 0, len(o.e.Val.List)+len(vals))
		for i := len(vals) - 1; i >= 0; i-- {
			nl = append(nl, dup(vals[i]))
		}
		o.e.Val.List = append(nl, o.e.Val.List...)
	} else {
		for _, v := range vals {
			o.e.Val.List = append(o.e.Val.List, dup(v))
		}
	}
	return Int(int64(len(o.e.Val.List)))
}

func popGeneric(s *Server, c *client, a [][]byte, head bool) Reply {
	o, ok := s.lookupKind(c.db, a[0], "list")
	if !ok {
		return Err(msgWrongType)
	}
	if o == nil {
		return NilBulk()
	}
	l := o.e.Val.List
	var v []byte
	if head {
		v = l[0]
		o.e.Val.List = l[1:]
	} else {
		v = l[len(l)-1]
		o.e.Val.List = l[:len(l)-1]
	}
	if len(o.e.Val.List) == 0 {
		s.remove(c.db, a[0])
	}
	return Bulk(v)
}

func cmdLLen(s *Server, c *client, a [][]byte) Reply {
	o, ok := s.lookupKind(c.db, a[0], "list")
	if !ok {
		return Err(msgWrongType)
	}
	if o == nil {
		return Int(0)
	}
	return Int(int64(len(o.e.Val.List)))
}

// normRange converts Redis start/stop (negative = from the end, inclusive) to [lo, hi];
// ok=false means the range is empty.
func normRange(start, stop, n int64) (lo, hi int64, ok bool) {
	if start < 0 {
		start += n
	}
	if stop < 0 {
		stop += n
	}
	if start < 0 {
		start = 0
	}
	if start > stop || start >= n {
		return 0, 0, false
	}
	if stop >= n {
		stop = n - 1
	}
	return start, stop, true
}

func cmdLRange(s *Server, c *client, a [][]byte) Reply {
	start, ok1 := parseInt(a[1])
	stop, ok2 := parseInt(a[2])
	if !ok1 || !ok2 {
		return Err(msgNotInt)
	}
	o, ok := s.lookupKind(c.db, a[0], "list")
	if !ok {
		return Err(msgWrongType)
	}
	if o == nil {
		return Array()
	}
	lo, hi, ok := normRange(start, stop, int64(len(o.e.Val.List)))
	if !ok {
		return Array()
	}
	return bulks(dupList(o.e.Val.List[lo : hi+1]))
}

func cmdLIndex(s *Server, c *client, a [][]byte) Reply {
	o, ok := s.lookupKind(c.db, a[0], "list")
	if !ok {
		return Err(msgWrongType)
	}
	if o == nil {
		return NilBulk()
	}
	i, ok := parseInt(a[1])
	if !ok {
		return Err(msgNotInt)
	}
	n := int64(len(o.e.Val.List))
	if i < 0 {
		i += n
	}
	if i < 0 || i >= n {
		return NilBulk()
	}
	return Bulk(dup(o.e.Val.List[i]))
}

func cmdLSet(s *Server, c *client, a [][]byte) Reply {
	o, ok := s.lookupKind(c.db, a[0], "list")
	if !ok {
		return Err(msgWrongType)
	}
	if o == nil {
		return Err(msgNoKey)
	}
	i, ok := parseInt(a[1])
	if !ok {
		return Err(msgNotInt)
	}
	n := int64(len(o.e.Val.List))
	if i < 0 {
		i += n
	}
	if i < 0 || i >= n {
		return Err(msgIndex)
	}
	o.e.Val.List[i] = dup(a[2])
	return OK()
}

func cmdLTrim(s *Server, c *client, a [][]byte) Reply {
	start, ok1 := parseInt(a[1])
	stop, ok2 := parseInt(a[2])
	if !ok1 || !ok2 {
		return Err(msgNotInt)
	}
	o, ok := s.lookupKind(c.db, a[0], "list")
	if !ok {
		return Err(msgWrongType)
	}
	if o == nil {
		return OK()
	}
	lo, hi, ok := normRange(start, stop, int64(len(o.e.Val.List)))
	if !ok {
		s.remove(c.db, a[0])
		return OK()
	}
	o.e.Val.List = append([][]byte(nil), o.e.Val.List[lo:hi+1]...)
	return OK()
}

func cmdLRem(s *Server, c *client, a [][]byte) Reply {
	count, ok := parseInt(a[1])
	if !ok {
		return Err(msgNotInt)
	}
	o, ok := s.lookupKind(c.db, a[0], "list")
	if !ok {
		return Err(msgWrongType)
	}
	if o == nil {
		return Int(0)
	}
	l := o.e.Val.List
	keep := make([]bool, len(l))
	removed := int64(0)
	limit := count
	if limit < 0 {
		limit = -limit
	}
	visit := func(i int) {
		if (limit == 0 || removed < limit) && bytes.Equal(l[i], a[2]) {
			removed++
		} else {
			keep[i] = true
		}
	}
	if count < 0 {
		for i := len(l) - 1; i >= 0; i-- {
			visit(i)
		}
	} else {
		for i := range l {
			visit(i)
		}
	}
	nl := make([][]byte, 0, len(l)-int(removed))
	for i, v := range l {
		if keep[i] {
			nl = append(nl, v)
		}
	}
	o.e.Val.List = nl
	if len(nl) == 0 {
		s.remove(c.db, a[0])
	}
	return Int(removed)
}

func cmdLInsert(s *Server, c *client, a [][]byte) Reply {
	var after bool
	switch {
	case eqFold(a[1], "AFTER"):
		after = true
	case eqFold(a[1], "BEFORE"):
	default:
		return Err(msgSyntax)
	}
	o, ok := s.lookupKind(c.db, a[0], "list")
	if !ok {
		return Err(msgWrongType)
	}
	if o == nil {
		return Int(0)
	}
	l := o.e.Val.List
	for i, v := range l {
		if bytes.Equal(v, a[2]) {
			pos := i
			if after {
				pos++
			}
			nl := make([][]byte, 0, len(l)+1)
			nl = append(nl, l[:pos]...)
			nl = append(nl, dup(a[3]))
			nl = append(nl, l[pos:]...)
			o.e.Val.List = nl
			return Int(int64(len(nl)))
		}
	}
	return Int(-1)
}

func cmdRPopLPush(s *Server, c *client, a [][]byte) Reply {
	src, ok := s.lookupKind(c.db, a[0], "list")
	if !ok {
		return Err(msgWrongType)
	}
	if src == nil {
		return NilBulk()
	}
	if _, ok := s.lookupKind(c.db, a[1], "list"); !ok {
		return Err(msgWrongType)
	}
	l := src.e.Val.List
	v := l[len(l)-1]
	src.e.Val.List = l[:len(l)-1]
	if len(src.e.Val.List) == 0 {
		s.remove(c.db, a[0])
	}
	dst, _ := s.lookupKind(c.db, a[1], "list")
	if dst == nil {
		dst = &obj{e: Entry{Val: rdbref.Value{Kind: "list"}}}
		s.store(c.db, a[1], dst)
	}
	dst.e.Val.List = append([][]byte{v}, dst.e.Val.List...)
	return Bulk(dup(v))
}

// ---------------------------------------------------------------------------------------
// sets

func cmdSAdd(s *Server, c *client, a [][]byte) Reply {
	o, ok := s.lookupKind(c.db, a[0], "set")
	if !ok {
		return Err(msgWrongType)
	}
	if o == nil {
		o = &obj{e: Entry{Val: rdbref.Value{Kind: "set"}}}
		s.store(c.db, a[0], o)
	}
	n := int64(0)
	for _, m := range a[1:] {
		if setAdd(o, m) {
			n++
		}
	}
	return Int(n)
}

func cmdSRem(s *Server, c *client, a [][]byte) Reply {
	o, ok := s.lookupKind(c.db, a[0], "set")
	if !ok {
		return Err(msgWrongType)
	}
	if o == nil {
		return Int(0)
	}
	n := int64(0)
	for _, m := range a[1:] {
		if setRem(o, m) {
			n++
		}
	}
	if len(o.e.Val.Set) == 0 {
		s.remove(c.db, a[0])
	}
	return Int(n)
}

func cmdSMembers(s *Server, c *client, a [][]byte) Reply {
	o, ok := s.lookupKind(c.db, a[0], "set")
	if !ok {
		return Err(msgWrongType)
	}
	if o == nil {
		return Array()
	}
	return bulks(dupList(o.e.Val.Set))
}

func cmdSCard(s *Server, c *client, a [][]byte) Reply {
	o, ok := s.lookupKind(c.db, a[0], "set")
	if !ok {
		return Err(msgWrongType)
	}
	if o == nil {
		return Int(0)
	}
	return Int(int64(len(o.e.Val.Set)))
}

func cmdSIsMember(s *Server, c *client, a [][]byte) Reply {
	o, ok := s.lookupKind(c.db, a[0], "set")
	if !ok {
		return Err(msgWrongType)
	}
	if o == nil {
		return Int(0)
	}
	if _, ok := o.index()[string(a[1])]; ok {
		return Int(1)
	}
	return Int(0)
}

// cmdSPop is deterministic: it pops the most recently stored member(s).
func cmdSPop(s *Server, c *client, a [][]byte) Reply {
	if len(a) > 2 {
		return Err(msgSyntax)
	}
	withCount := len(a) == 2
	count := int64(1)
	if withCount {
		var ok bool
		count, ok = parseInt(a[1])
		if !ok || count < 0 {
			return Err("ERR index out of range")
		}
	}
	o, ok := s.lookupKind(c.db, a[0], "set")
	if !ok {
		return Err(msgWrongType)
	}
	if o == nil {
		if withCount {
			return Array()
		}
		return NilBulk()
	}
	var popped [][]byte
	for int64(len(popped)) < count && len(o.e.Val.Set) > 0 {
		m := o.e.Val.Set[len(o.e.Val.Set)-1]
		setRem(o, m)
		popped = append(popped, m)
	}
	if len(o.e.Val.Set) == 0 {
		s.remove(c.db, a[0])
	}
	if withCount {
		return bulks(popped)
	}
	return Bulk(popped[0])
}

func cmdSMove(s *Server, c *client, a [][]byte) Reply {
	src, ok := s.lookupKind(c.db, a[0], "set")
	if !ok {
		return Err(msgWrongType)
	}
	dst, ok := s.lookupKind(c.db, a[1], "set")
	if !ok {
		return Err(msgWrongType)
	}
	if src == nil {
		return Int(0)
	}
	if src == dst {
		if _, ok := src.index()[string(a[2])]; ok {
			return Int(1)
		}
		return Int(0)
	}
	if !setRem(src, a[2]) {
		return Int(0)
	}
	if len(src.e.Val.Set) == 0 {
		s.remove(c.db, a[0])
	}
	if dst == nil {
		dst = &obj{e: Entry{Val: rdbref.Value{Kind: "set"}}}
		s.store(c.db, a[1], dst)
	}
	setAdd(dst, a[2])
	return Int(1)
}

// ---------------------------------------------------------------------------------------
// hashes

func hsetGeneric(s *Server, c *client, a [][]byte, hmset bool) Reply {
	if len(a)%2 != 1 {
		return Err("ERR wrong number of arguments for HMSET")
	}
	o, ok := s.lookupKind(c.db, a[0], "hash")
	if !ok {
		return Err(msgWrongType)
	}
	if o == nil {
		o = &obj{e: Entry{Val: rdbref.Value{Kind: "hash"}}}
		s.store(c.db, a[0], o)
	}
	n := int64(0)
	for i := 1; i < len(a); i += 2 {
		if hashSet(o, a[i], a[i+1]) {
			n++
		}
	}
	if hmset {
		return OK()
	}
	return Int(n)
}

func cmdHSetNX(s *Server, c *client, a [][]byte) Reply {
	o, ok := s.lookupKind(c.db, a[0], "hash")
	if !ok {
		return Err(msgWrongType)
	}
	if o != nil {
		if _, exists := hashGet(o, a[1]); exists {
			return Int(0)
		}
	} else {
		o = &obj{e: Entry{Val: rdbref.Value{Kind: "hash"}}}
		s.store(c.db, a[0], o)
	}
	hashSet(o, a[1], a[2])
	return Int(1)
}

func cmdHGet(s *Server, c *client, a [][]byte) Reply {
	o, ok := s.lookupKind(c.db, a[0], "hash")
	if !ok {
		return Err(msgWrongType)
	}
	if o == nil {
		return NilBulk()
	}
	v, ok := hashGet(o, a[1])
	if !ok {
		return NilBulk()
	}
	return Bulk(dup(v))
}

func cmdHMGet(s *Server, c *client, a [][]byte) Reply {
	o, ok := s.lookupKind(c.db, a[0], "hash")
	if !ok {
		return Err(msgWrongType)
	}
	elems := make([]Reply, len(a)-1)
	for i, f := range a[1:] {
		elems[i] = NilBulk()
		if o != nil {
			if v, ok := hashGet(o, f); ok {
				elems[i] = Bulk(dup(v))
			}
		}
	}
	return Array(elems...)
}

func hgetallGeneric(s *Server, c *client, a [][]byte, keys, vals bool) Reply {
	o, ok := s.lookupKind(c.db, a[0], "hash")
	if !ok {
		return Err(msgWrongType)
	}
	if o == nil {
		return Array()
	}
	var out [][]byte
	for _, f := range o.e.Val.Hash {
		if keys {
			out = append(out, dup(f.Field))
		}
		if vals {
			out = append(out, dup(f.Value))
		}
	}
	return bulks(out)
}

func cmdHDel(s *Server, c *client, a [][]byte) Reply {
	o, ok := s.lookupKind(c.db, a[0], "hash")
	if !ok {
		return Err(msgWrongType)
	}
	if o == nil {
		return Int(0)
	}
	n := int64(0)
	for _, f := range a[1:] {
		if hashDel(o, f) {
			n++
		}
	}
	if len(o.e.Val.Hash) == 0 {
		s.remove(c.db, a[0])
	}
	return Int(n)
}

func cmdHLen(s *Server, c *client, a [][]byte) Reply {
	o, ok := s.lookupKind(c.db, a[0], "hash")
	if !ok {
		return Err(msgWrongType)
	}
	if o == nil {
		return Int(0)
	}
	return Int(int64(len(o.e.Val.Hash)))
}

func cmdHExists(s *Server, c *client, a [][]byte) Reply {
	o, ok := s.lookupKind(c.db, a[0], "hash")
	if !ok {
		return Err(msgWrongType)
	}
	if o == nil {
		return Int(0)
	}
	if _, ok := hashGet(o, a[1]); ok {
		return Int(1)
	}
	return Int(0)
}

func cmdHIncrBy(s *Server, c *client, a [][]byte) Reply {
	incr, ok := parseInt(a[2])
	if !ok {
		return Err(msgNotInt)
	}
	o, ok := s.lookupKind(c.db, a[0], "hash")
	if !ok {
		return Err(msgWrongType)
	}
	var cur int64
	if o != nil {
		if v, exists := hashGet(o, a[1]); exists {
			cur, ok = parseInt(v)
			if !ok {
				return Err("ERR hash value is not an integer")
			}
		}
	}
	if (incr < 0 && cur < 0 && incr < math.MinInt64-cur) || (incr > 0 && cur > 0 && incr > math.MaxInt64-cur) {
		return Err(msgOverflow)
	}
	cur += incr
	if o == nil {
		o = &obj{e: Entry{Val: rdbref.Value{Kind: "hash"}}}
		s.store(c.db, a[0], o)
	}
	hashSet(o, a[1], []byte(strconv.FormatInt(cur, 10)))
	return Int(cur)
}

// ---------------------------------------------------------------------------------------
// sorted sets

// zaddGeneric implements ZADD (flags parsed) and ZINCRBY (zincrby=true: no flags, INCR implied).
func zaddGeneric(s *Server, c *client, a [][]byte, zincrby bool) Reply {
	var nx, xx, ch bool
	incr := zincrby
	i := 1
flags:
	for ; i < len(a) && !zincrby; i++ {
		switch {
		case eqFold(a[i], "NX"):
			nx = true
		case eqFold(a[i], "XX"):
			xx = true
		case eqFold(a[i], "CH"):
			ch = true
		case eqFold(a[i], "INCR"):
			incr = true
		default:
			break flags
		}
	}
	rest := a[i:]
	if len(rest) == 0 || len(rest)%2 != 0 {
		return Err(msgSyntax)
	}
	if nx && xx {
		return Err("ERR XX and NX options at the same time are not compatible")
	}
	if incr && len(rest) > 2 {
		return Err("ERR INCR option supports a single increment-element pair")
	}
	scores := make([]float64, len(rest)/2)
	for j := range scores {
		f, ok := parseFloat(rest[2*j])
		if !ok {
			return Err(msgNotFloat)
		}
		scores[j] = f
	}
	o, ok := s.lookupKind(c.db, a[0], "zset")
	if !ok {
		return Err(msgWrongType)
	}
	if o == nil {
		if xx {
			if incr {
				return NilBulk()
			}
			return Int(0)
		}
		o = &obj{e: Entry{Val: rdbref.Value{Kind: "zset"}}}
		s.store(c.db, a[0], o)
	}
	defer func() {
		if len(o.e.Val.ZSet) == 0 {
			s.remove(c.db, a[0])
		}
	}()
	var added, updated int64
	var last float64
	processed := false
	for j, score := range scores {
		m := rest[2*j+1]
		cur, exists := zGet(o, m)
		if exists {
			if nx {
				continue
			}
			if incr {
				score += cur
				if math.IsNaN(score) {
					return Err("ERR resulting score is not a number (NaN)")
				}
			}
			if score != cur {
				zSet(o, m, score)
				updated++
			}
		} else {
			if xx {
				continue
			}
			zSet(o, m, score)
			added++
		}
		last = score
		processed = true
	}
	if incr {
		if !processed {
			return NilBulk()
		}
		return Bulk(fmtFloat(last))
	}
	if ch {
		return Int(added + updated)
	}
	return Int(added)
}

func cmdZAdd(s *Server, c *client, a [][]byte) Reply { return zaddGeneric(s, c, a, false) }

func cmdZIncrBy(s *Server, c *client, a [][]byte) Reply { return zaddGeneric(s, c, a, true) }

func cmdZRem(s *Server, c *client, a [][]byte) Reply {
	o, ok := s.lookupKind(c.db, a[0], "zset")
	if !ok {
		return Err(msgWrongType)
	}
	if o == nil {
		return Int(0)
	}
	n := int64(0)
	for _, m := range a[1:] {
		if zDel(o, m) {
			n++
		}
	}
	if len(o.e.Val.ZSet) == 0 {
		s.remove(c.db, a[0])
	}
	return Int(n)
}

func cmdZCard(s *Server, c *client, a [][]byte) Reply {
	o, ok := s.lookupKind(c.db, a[0], "zset")
	if !ok {
		return Err(msgWrongType)
	}
	if o == nil {
		return Int(0)
	}
	return Int(int64(len(o.e.Val.ZSet)))
}

func cmdZScore(s *Server, c *client, a [][]byte) Reply {
	o, ok := s.lookupKind(c.db, a[0], "zset")
	if !ok {
		return Err(msgWrongType)
	}
	if o == nil {
		return NilBulk()
	}
	f, ok := zGet(o, a[1])
	if !ok {
		return NilBulk()
	}
	return Bulk(fmtFloat(f))
}

func cmdZRank(s *Server, c *client, a [][]byte) Reply {
	o, ok := s.lookupKind(c.db, a[0], "zset")
	if !ok {
		return Err(msgWrongType)
	}
	if o == nil {
		return NilBulk()
	}
	if _, ok := zGet(o, a[1]); !ok {
		return NilBulk()
	}
	for i, m := range zSorted(o) {
		if bytes.Equal(m.Member, a[1]) {
			return Int(int64(i))
		}
	}
	return NilBulk()
}

func zrangeGeneric(s *Server, c *client, a [][]byte, rev bool) Reply {
	start, ok1 := parseInt(a[1])
	stop, ok2 := parseInt(a[2])
	if !ok1 || !ok2 {
		return Err(msgNotInt)
	}
	withScores := false
	if len(a) == 4 && eqFold(a[3], "WITHSCORES") {
		withScores = true
	} else if len(a) >= 4 {
		return Err(msgSyntax)
	}
	o, ok := s.lookupKind(c.db, a[0], "zset")
	if !ok {
		return Err(msgWrongType)
	}
	if o == nil {
		return Array()
	}
	sorted := zSorted(o)
	if rev {
		for i, j := 0, len(sorted)-1; i < j; i, j = i+1, j-1 {
			sorted[i], sorted[j] = sorted[j], sorted[i]
		}
	}
	lo, hi, ok := normRange(start, stop, int64(len(sorted)))
	if !ok {
		return Array()
	}
	var out [][]byte
	for _, m := range sorted[lo : hi+1] {
		out = append(out, dup(m.Member))
		if withScores {
			out = append(out, fmtFloat(m.Score))
		}
	}
	return bulks(out)
}

func cmdZRemRangeByRank(s *Server, c *client, a [][]byte) Reply {
	start, ok1 := parseInt(a[1])
	stop, ok2 := parseInt(a[2])
	if !ok1 || !ok2 {
		return Err(msgNotInt)
	}
	o, ok := s.lookupKind(c.db, a[0], "zset")
	if !ok {
		return Err(msgWrongType)
	}
	if o == nil {
		return Int(0)
	}
	sorted := zSorted(o)
	lo, hi, ok := normRange(start, stop, int64(len(sorted)))
	if !ok {
		return Int(0)
	}
	for _, m := range sorted[lo : hi+1] {
		zDel(o, m.Member)
	}
	if len(o.e.Val.ZSet) == 0 {
		s.remove(c.db, a[0])
	}
	return Int(hi - lo + 1)
}

// parseScoreBound parses a ZRANGEBYSCORE style bound: "(1.5" is exclusive.
func parseScoreBound(b []byte) (f float64, excl bool, ok bool) {
	if len(b) > 0 && b[0] == '(' {
		excl = true
		b = b[1:]
	}
	f, ok = parseFloat(b)
	return f, excl, ok
}

func cmdZRemRangeByScore(s *Server, c *client, a [][]byte) Reply {
	min, minEx, ok1 := parseScoreBound(a[1])
	max, maxEx, ok2 := parseScoreBound(a[2])
	if !ok1 || !ok2 {
		return Err("ERR min or max is not a float")
	}
	o, ok := s.lookupKind(c.db, a[0], "zset")
	if !ok {
		return Err(msgWrongType)
	}
	if o == nil {
		return Int(0)
	}
	n := int64(0)
	for _, m := range zSorted(o) {
		if m.Score < min || (minEx && m.Score == min) || m.Score > max || (maxEx && m.Score == max) {
			continue
		}
		zDel(o, m.Member)
		n++
	}
	if len(o.e.Val.ZSet) == 0 {
		s.remove(c.db, a[0])
	}
	return Int(n)
}
