package mredis

import (
	"bufio"
	"bytes"
	"fmt"
	"net"
	"reflect"
	"strings"
	"sync"
	"sync/atomic"
	"testing"
	"time"

	"verif/harness/rdbref"
)

// ---------------------------------------------------------------------------------------
// tiny raw client

type tc struct {
	t  *testing.T
	nc net.Conn
	br *bufio.Reader
}

func dial(t *testing.T, s *Server) *tc {
	t.Helper()
	nc, err := net.Dial("tcp", s.Addr())
	if err != nil {
		t.Fatal(err)
	}
	nc.SetDeadline(time.Now().Add(20 * time.Second))
	return &tc{t: t, nc: nc, br: bufio.NewReader(nc)}
}

func (c *tc) send(args ...string) {
	c.t.Helper()
	if _, err := c.nc.Write(EncodeCommandStrings(args...)); err != nil {
		c.t.Fatalf("write %v: %v", args, err)
	}
}

func (c *tc) read() Reply {
	c.t.Helper()
	r, err := ReadReply(c.br)
	if err != nil {
		c.t.Fatalf("read reply: %v", err)
	}
	return r
}

func (c *tc) do(args ...string) Reply {
	c.t.Helper()
	c.send(args...)
	return c.read()
}

// show renders a reply compactly for comparisons.
func show(r Reply) string {
	switch r.Kind {
	case '+':
		return "+" + string(r.Str)
	case '-':
		return "-" + string(r.Str)
	case ':':
		return fmt.Sprintf(":%d", r.Int)
	case '$':
		if r.Nil {
			return "nil"
		}
		return fmt.Sprintf("%q", r.Str)
	case '*':
		if r.Nil {
			return "nil*"
		}
		parts := make([]string, len(r.Elems))
		for i, e := range r.Elems {
			parts[i] = show(e)
		}
		return "[" + strings.Join(parts, " ") + "]"
	}
	return "?"
}

func (c *tc) expect(want string, args ...string) {
	c.t.Helper()
	got := show(c.do(args...))
	if got != want {
		c.t.Fatalf("%v: got %s, want %s", args, got, want)
	}
}

func start(t *testing.T, o Options) *Server {
	t.Helper()
	s := New(o)
	if _, err := s.Listen(); err != nil {
		t.Fatal(err)
	}
	t.Cleanup(s.Close)
	return s
}

type clock struct{ ms int64 }

func (c *clock) now() int64    { return atomic.LoadInt64(&c.ms) }
func (c *clock) add(d int64)   { atomic.AddInt64(&c.ms, d) }
func newClock(ms int64) *clock { return &clock{ms: ms} }

// rdbrefReady reports whether the reference codec is implemented (not the panicking stubs).
func rdbrefReady() (ok bool) {
	defer func() {
		if r := recover(); r != nil {
			ok = false
		}
	}()
	_, body, err := rdbref.EncodeValue(rdbref.Value{Kind: "string", Str: []byte("x")}, rdbref.Enc{Type: rdbref.TString})
	if err != nil {
		return false
	}
	p := rdbref.Dump(rdbref.TString, body, 9)
	_, _, _, err = rdbref.ParseDump(p)
	return err == nil
}

func needRdbref(t *testing.T) {
	if !rdbrefReady() {
		t.Skip("rdbref is still a stub")
	}
}

func dumpOf(t *testing.T, v rdbref.Value, typ byte, ver uint16) string {
	t.Helper()
	tt, body, err := rdbref.EncodeValue(v, rdbref.Enc{Type: typ})
	if err != nil {
		t.Fatal(err)
	}
	return string(rdbref.Dump(tt, body, ver))
}

// ---------------------------------------------------------------------------------------
// codec

func TestRespCodec(t *testing.T) {
	raw := "*2\r\n$3\r\nGET\r\n$1\r\nk\r\nPING  \"a b\\x41\\n\" 'q\\'x'\r\n\r\n\n*0\r\nSET k v\n"
	br := bufio.NewReader(strings.NewReader(raw))
	var got [][]string
	total := 0
	for {
		args, n, err := ReadCommand(br)
		if err != nil {
			break
		}
		total += n
		var ss []string
		for _, a := range args {
			ss = append(ss, string(a))
		}
		got = append(got, ss)
	}
	want := [][]string{{"GET", "k"}, {"PING", "a bA\n", "q'x"}, nil, nil, nil, {"SET", "k", "v"}}
	if !reflect.DeepEqual(got, want) {
		t.Fatalf("got %q want %q", got, want)
	}
	if total != len(raw) {
		t.Fatalf("rawLen sum %d, want %d", total, len(raw))
	}
	if _, _, err := ReadCommand(bufio.NewReader(strings.NewReader("SET \"abc\r\n"))); err == nil {
		t.Fatal("unbalanced quotes accepted")
	}
	if _, _, err := ReadCommand(bufio.NewReader(strings.NewReader("*1\r\n+x\r\n"))); err == nil {
		t.Fatal("bad bulk header accepted")
	}

	r := Array(OK(), Err("ERR x"), Int(-5), Bulk([]byte("a\r\nb")), NilBulk(), NilArray(), Array(), Bulk(nil))
	wire := r.Bytes()
	wantWire := "*8\r\n+OK\r\n-ERR x\r\n:-5\r\n$4\r\na\r\nb\r\n$-1\r\n*-1\r\n*0\r\n$0\r\n\r\n"
	if string(wire) != wantWire {
		t.Fatalf("wire %q", wire)
	}
	back, err := ReadReply(bufio.NewReader(bytes.NewReader(wire)))
	if err != nil {
		t.Fatal(err)
	}
	if show(back) != show(r) || !bytes.Equal(back.Bytes(), wire) {
		t.Fatalf("round trip: %s vs %s", show(back), show(r))
	}
	if string(EncodeCommand([]byte("a"), []byte(""))) != "*2\r\n$1\r\na\r\n$0\r\n\r\n" {
		t.Fatal("EncodeCommand")
	}
}

func TestGlob(t *testing.T) {
	cases := []struct {
		p, s string
		want bool
	}{
		{"*", "abc", true}, {"a*", "abc", true}, {"a*", "bc", false}, {"a?c", "abc", true}, {"a?c", "ac", false},
		{"h[ae]llo", "hello", true}, {"h[ae]llo", "hillo", false}, {"h[^e]llo", "hallo", true}, {"h[a-c]llo", "hbllo", true},
		{"a\\*b", "a*b", true}, {"a\\*b", "axb", false}, {"*b*d", "abcd", true}, {"*b*d", "abce", false}, {"abc", "abc", true}, {"abc", "abcd", false},
	}
	for _, c := range cases {
		if got := globMatch([]byte(c.p), []byte(c.s)); got != c.want {
			t.Errorf("glob(%q,%q)=%v", c.p, c.s, got)
		}
	}
}

// ---------------------------------------------------------------------------------------
// basic commands

func TestGenericAndStrings(t *testing.T) {
	s := start(t, Options{})
	c := dial(t, s)
	c.expect("+PONG", "ping")
	c.expect(`"hi"`, "PING", "hi")
	c.expect(`"x"`, "ECHO", "x")
	c.expect("-ERR unknown command `FooBar`, with args beginning with: `1`, ", "FooBar", "1")
	c.expect("-ERR wrong number of arguments for 'get' command", "GET")
	c.expect("-ERR Client sent AUTH, but no password is set", "AUTH", "x")
	c.expect("+OK", "SET", "k", "v")
	c.expect(`"v"`, "GET", "k")
	c.expect("nil", "GET", "nokey")
	c.expect("nil", "SET", "k", "w", "NX")
	c.expect("nil", "SET", "k2", "w", "XX")
	c.expect("+OK", "set", "k", "w", "xx")
	c.expect("-ERR syntax error", "SET", "k", "w", "NX", "XX")
	c.expect("-ERR syntax error", "SET", "k", "w", "BOGUS")
	c.expect("-ERR invalid expire time in set", "SET", "k", "w", "EX", "0")
	c.expect("-ERR value is not an integer or out of range", "SET", "k", "w", "EX", "abc")
	c.expect(":1", "SETNX", "n", "1")
	c.expect(":0", "SETNX", "n", "2")
	c.expect(`"w"`, "GETSET", "k", "z")
	c.expect(":3", "APPEND", "k", "zz")
	c.expect(":3", "STRLEN", "k")
	c.expect(":2", "INCR", "n")
	c.expect(":1", "DECR", "n")
	c.expect(":11", "INCRBY", "n", "10")
	c.expect(":1", "DECRBY", "n", "10")
	c.expect("-ERR value is not an integer or out of range", "INCR", "k")
	c.expect("-ERR value is not an integer or out of range", "INCRBY", "n", "+1")
	c.expect("+OK", "SET", "big", "9223372036854775807")
	c.expect("-ERR increment or decrement would overflow", "INCR", "big")
	c.expect("+OK", "MSET", "a", "1", "b", "2")
	c.expect("-ERR wrong number of arguments for MSET", "MSET", "a", "1", "b")
	c.expect(":0", "MSETNX", "a", "1", "c", "2")
	c.expect(":1", "MSETNX", "c", "1", "d", "2")
	c.expect(`["1" "2" nil]`, "MGET", "a", "b", "zz")
	c.expect(":7", "SETRANGE", "sr", "5", "ab")
	c.expect("\"\\x00\\x00\\x00\\x00\\x00ab\"", "GET", "sr")
	c.expect(":0", "SETBIT", "bits", "7", "1")
	c.expect("\"\\x01\"", "GET", "bits")
	c.expect(":1", "GETBIT", "bits", "7")
	c.expect(":3", "EXISTS", "a", "b", "a", "nokey")
	c.expect("+string", "TYPE", "a")
	c.expect("+none", "TYPE", "nokey")
	c.expect(":2", "DEL", "a", "b", "nokey")
	c.expect(":1", "UNLINK", "c")
	c.expect("+OK", "RENAME", "d", "e")
	c.expect("-ERR no such key", "RENAME", "d", "e")
	c.expect(":6", "DBSIZE")
	c.expect(`["big" "bits" "sr"]`, "KEYS", "[a-z]*[^1]")
	c.expect(`["big" "bits"]`, "KEYS", "b*")
	c.expect(":1", "MOVE", "e", "3")
	c.expect("-ERR index out of range", "MOVE", "k", "99")
	c.expect("+OK", "SELECT", "3")
	c.expect(`["e"]`, "KEYS", "*")
	c.expect(`"e"`, "RANDOMKEY")
	c.expect("-ERR DB index is out of range", "SELECT", "16")
	c.expect("-ERR invalid DB index", "SELECT", "x")
	c.expect("+OK", "SWAPDB", "0", "3")
	c.expect(":5", "DBSIZE")
	c.expect("+OK", "FLUSHDB")
	c.expect(":0", "DBSIZE")
	c.expect("+OK", "SELECT", "0")
	c.expect(":1", "DBSIZE")
	c.expect("+OK", "FLUSHALL")
	c.expect(":0", "DBSIZE")
	c.expect("nil", "RANDOMKEY")
	c.expect(`["rdbchecksum" "yes"]`, "CONFIG", "GET", "rdbchecksum")
	c.expect(`["databases" "16"]`, "config", "get", "databases")
	c.expect(`[]`, "CONFIG", "GET", "maxmemory")
	c.expect("+OK", "CONFIG", "SET", "x", "y")
	c.expect("+OK", "CLIENT", "SETNAME", "x")
	c.expect("+OK", "REPLCONF", "listening-port", "1")
	c.expect(":0", "PUBLISH", "ch", "m")
	c.expect("-ERR This instance has cluster support disabled", "CLUSTER", "NODES")
	c.expect("[]", "COMMAND")
	if r := c.do("TIME"); r.Kind != '*' || len(r.Elems) != 2 {
		t.Fatalf("TIME: %s", show(r))
	}
	c.expect("+OK", "QUIT")
	if _, err := ReadReply(c.br); err == nil {
		t.Fatal("connection still open after QUIT")
	}
}

func TestLists(t *testing.T) {
	s := start(t, Options{})
	c := dial(t, s)
	c.expect(":3", "RPUSH", "l", "a", "b", "c")
	c.expect(":5", "LPUSH", "l", "x", "y")
	c.expect(`["y" "x" "a" "b" "c"]`, "LRANGE", "l", "0", "-1")
	c.expect(`["a" "b"]`, "LRANGE", "l", "2", "3")
	c.expect(`[]`, "LRANGE", "l", "7", "9")
	c.expect(":0", "LPUSHX", "nol", "a")
	c.expect(":0", "RPUSHX", "nol", "a")
	c.expect(":6", "RPUSHX", "l", "d")
	c.expect(`"y"`, "LPOP", "l")
	c.expect(`"d"`, "RPOP", "l")
	c.expect(":4", "LLEN", "l")
	c.expect(`"c"`, "LINDEX", "l", "-1")
	c.expect("nil", "LINDEX", "l", "10")
	c.expect("+OK", "LSET", "l", "0", "X")
	c.expect("-ERR index out of range", "LSET", "l", "10", "X")
	c.expect("-ERR no such key", "LSET", "nol", "0", "X")
	c.expect(":5", "LINSERT", "l", "BEFORE", "a", "pre")
	c.expect(":6", "LINSERT", "l", "after", "a", "post")
	c.expect(":-1", "LINSERT", "l", "AFTER", "zzz", "post")
	c.expect(":0", "LINSERT", "nol", "AFTER", "zzz", "post")
	c.expect("-ERR syntax error", "LINSERT", "l", "MIDDLE", "a", "post")
	c.expect(`["X" "pre" "a" "post" "b" "c"]`, "LRANGE", "l", "0", "-1")
	c.expect("+OK", "LTRIM", "l", "1", "-2")
	c.expect(`["pre" "a" "post" "b"]`, "LRANGE", "l", "0", "-1")
	c.expect(":5", "RPUSH", "l", "a")
	c.expect(":1", "LREM", "l", "-1", "a")
	c.expect(`["pre" "a" "post" "b"]`, "LRANGE", "l", "0", "-1")
	c.expect(`"b"`, "RPOPLPUSH", "l", "l2")
	c.expect(`"post"`, "RPOPLPUSH", "l", "l2")
	c.expect(`["post" "b"]`, "LRANGE", "l2", "0", "-1")
	c.expect(`"a"`, "RPOPLPUSH", "l", "l")
	c.expect(`["a" "pre"]`, "LRANGE", "l", "0", "-1")
	c.expect(":1", "LREM", "l", "0", "a")
	c.expect(":1", "EXISTS", "l")
	c.expect(`"pre"`, "LPOP", "l")
	c.expect(":0", "EXISTS", "l") // empty list removed
	c.expect("nil", "LPOP", "l")
	c.expect("+OK", "SET", "str", "v")
	c.expect("-"+msgWrongType, "LPUSH", "str", "v")
	c.expect("-"+msgWrongType, "RPOPLPUSH", "l2", "str")
	c.expect("-"+msgWrongType, "GET", "l2")
	c.expect("+list", "TYPE", "l2")
}

func TestSets(t *testing.T) {
	s := start(t, Options{})
	c := dial(t, s)
	c.expect(":3", "SADD", "s", "a", "b", "c", "a")
	c.expect(":0", "SADD", "s", "a")
	c.expect(":3", "SCARD", "s")
	c.expect(":1", "SISMEMBER", "s", "b")
	c.expect(":0", "SISMEMBER", "s", "z")
	c.expect(`["a" "b" "c"]`, "SMEMBERS", "s")
	c.expect(":1", "SREM", "s", "a", "zz")
	c.expect(`["c" "b"]`, "SMEMBERS", "s")
	c.expect(":1", "SMOVE", "s", "s2", "b")
	c.expect(":0", "SMOVE", "s", "s2", "b")
	c.expect(`["b"]`, "SMEMBERS", "s2")
	c.expect(`"c"`, "SPOP", "s")
	c.expect(":0", "EXISTS", "s")
	c.expect("nil", "SPOP", "s")
	c.expect(":1", "SREM", "s2", "b")
	c.expect(":0", "EXISTS", "s2")
	c.expect("+OK", "SET", "str", "v")
	c.expect("-"+msgWrongType, "SADD", "str", "v")
	snap := s.Snapshot()
	if len(snap) != 1 || len(snap[0]) != 1 {
		t.Fatalf("snapshot %v", snap)
	}
}

func TestHashes(t *testing.T) {
	s := start(t, Options{})
	c := dial(t, s)
	c.expect(":2", "HSET", "h", "f1", "v1", "f2", "v2")
	c.expect(":0", "HSET", "h", "f1", "v1b")
	c.expect("+OK", "HMSET", "h", "f3", "3", "f1", "v1c")
	c.expect("-ERR wrong number of arguments for HMSET", "HMSET", "h", "f3", "3", "f1")
	c.expect(":0", "HSETNX", "h", "f1", "zzz")
	c.expect(":1", "HSETNX", "h", "f4", "v4")
	c.expect(`"v1c"`, "HGET", "h", "f1")
	c.expect("nil", "HGET", "h", "nof")
	c.expect("nil", "HGET", "noh", "nof")
	c.expect(`["v1c" nil "3"]`, "HMGET", "h", "f1", "nof", "f3")
	c.expect(`["f1" "v1c" "f2" "v2" "f3" "3" "f4" "v4"]`, "HGETALL", "h")
	c.expect(`["f1" "f2" "f3" "f4"]`, "HKEYS", "h")
	c.expect(`["v1c" "v2" "3" "v4"]`, "HVALS", "h")
	c.expect(":4", "HLEN", "h")
	c.expect(":1", "HEXISTS", "h", "f2")
	c.expect(":0", "HEXISTS", "h", "zz")
	c.expect(":8", "HINCRBY", "h", "f3", "5")
	c.expect(":-2", "HINCRBY", "h", "new", "-2")
	c.expect("-ERR hash value is not an integer", "HINCRBY", "h", "f1", "1")
	c.expect(":5", "HDEL", "h", "f1", "f2", "f3", "f4", "new", "zz")
	c.expect(":0", "EXISTS", "h")
	c.expect("[]", "HGETALL", "h")
	c.expect("+OK", "SET", "str", "v")
	c.expect("-"+msgWrongType, "HSET", "str", "f", "v")
}

func TestZSets(t *testing.T) {
	s := start(t, Options{})
	c := dial(t, s)
	c.expect(":3", "ZADD", "z", "2", "b", "1", "a", "2", "aa")
	c.expect(`["a" "aa" "b"]`, "ZRANGE", "z", "0", "-1")
	c.expect(`["a" "1" "aa" "2" "b" "2"]`, "ZRANGE", "z", "0", "-1", "withscores")
	c.expect(`["b" "aa"]`, "ZREVRANGE", "z", "0", "1")
	c.expect(":0", "ZADD", "z", "3.5", "a")
	c.expect(":1", "ZADD", "z", "CH", "4.5", "a")
	c.expect(":0", "ZADD", "z", "NX", "9", "a")
	c.expect(`"4.5"`, "ZSCORE", "z", "a")
	c.expect(":0", "ZADD", "z", "XX", "9", "newm")
	c.expect("nil", "ZSCORE", "z", "newm")
	c.expect(`"5.5"`, "ZADD", "z", "INCR", "1", "a")
	c.expect("nil", "ZADD", "z", "NX", "INCR", "1", "a")
	c.expect("-ERR XX and NX options at the same time are not compatible", "ZADD", "z", "NX", "XX", "1", "a")
	c.expect("-ERR INCR option supports a single increment-element pair", "ZADD", "z", "INCR", "1", "a", "2", "b")
	c.expect("-ERR syntax error", "ZADD", "z", "1", "a", "2")
	c.expect("-ERR value is not a valid float", "ZADD", "z", "nan", "a")
	c.expect("-ERR value is not a valid float", "ZADD", "z", "1", "ok", "abc", "a")
	c.expect("nil", "ZSCORE", "z", "ok") // nothing applied when a later score is bad
	c.expect(":2", "ZADD", "z", "+inf", "pi", "-INF", "ni")
	c.expect(`"inf"`, "ZSCORE", "z", "pi")
	c.expect(`"-inf"`, "ZSCORE", "z", "ni")
	c.expect("-ERR resulting score is not a number (NaN)", "ZINCRBY", "z", "-inf", "pi")
	c.expect(`["ni" "aa" "b" "a" "pi"]`, "ZRANGE", "z", "0", "-1")
	c.expect(":0", "ZRANK", "z", "ni")
	c.expect(`"3.1000000000000001"`, "ZINCRBY", "z", "1.1", "aa")
	c.expect(`"7"`, "ZINCRBY", "z", "7", "fresh")
	c.expect(":6", "ZCARD", "z")
	c.expect(":2", "ZREM", "z", "pi", "ni", "nomember")
	c.expect(":1", "ZREMRANGEBYRANK", "z", "0", "0") // b (2)
	c.expect(":1", "ZREMRANGEBYSCORE", "z", "(3.1", "5.5")
	c.expect(`["aa" "fresh"]`, "ZRANGE", "z", "0", "-1")
	c.expect(":2", "ZREM", "z", "aa", "fresh")
	c.expect(":0", "EXISTS", "z")
	c.expect(":0", "ZADD", "nz", "XX", "1", "a")
	c.expect(":0", "EXISTS", "nz")
	c.expect("+OK", "SET", "str", "v")
	c.expect("-"+msgWrongType, "ZADD", "str", "1", "v")
}

// ---------------------------------------------------------------------------------------
// MULTI / EXEC

func TestMultiExec(t *testing.T) {
	s := start(t, Options{})
	c := dial(t, s)
	other := dial(t, s)
	c.expect("-ERR EXEC without MULTI", "EXEC")
	c.expect("-ERR DISCARD without MULTI", "DISCARD")
	c.expect("+OK", "MULTI")
	c.expect("-ERR MULTI calls can not be nested", "MULTI")
	c.expect("+QUEUED", "SET", "k", "1")
	c.expect("+QUEUED", "LPUSH", "k", "x") // runtime WRONGTYPE must not abort the rest
	c.expect("+QUEUED", "SELECT", "2")
	c.expect("+QUEUED", "INCR", "k")
	// nothing is visible to others before EXEC
	other.expect("nil", "GET", "k")
	c.expect(`[+OK -`+msgWrongType+` +OK :1]`, "EXEC")
	other.expect(`"1"`, "GET", "k")
	// SELECT inside MULTI persists after EXEC
	c.expect(`"1"`, "GET", "k")
	other.expect("+OK", "SELECT", "2")
	other.expect(`"1"`, "GET", "k")

	// EXECABORT on queue-time errors
	c.expect("+OK", "MULTI")
	c.expect("+QUEUED", "SET", "a", "1")
	c.expect("-ERR unknown command `NOPE`, with args beginning with: ", "NOPE")
	c.expect("+QUEUED", "SET", "b", "1")
	c.expect("-EXECABORT Transaction discarded because of previous errors.", "EXEC")
	c.expect(":0", "EXISTS", "a", "b")
	c.expect("+OK", "MULTI")
	c.expect("-ERR wrong number of arguments for 'set' command", "SET", "a")
	c.expect("-EXECABORT Transaction discarded because of previous errors.", "EXEC")
	c.expect("-ERR EXEC without MULTI", "EXEC")

	// DISCARD
	c.expect("+OK", "MULTI")
	c.expect("+QUEUED", "SET", "a", "1")
	c.expect("+OK", "DISCARD")
	c.expect(":0", "EXISTS", "a")
	c.expect("+OK", "MULTI")
	c.expect("[]", "EXEC")

	// log shape
	s.ResetLog()
	c.expect("+OK", "MULTI")
	c.expect("+QUEUED", "SET", "q", "1")
	c.expect("+QUEUED", "SELECT", "5")
	c.expect("+QUEUED", "SET", "q", "2")
	c.expect("[+OK +OK +OK]", "EXEC")
	log := s.Log()
	type row struct {
		cmd            string
		db             int
		queued, inExec bool
	}
	var got []row
	for i, e := range log {
		if i > 0 && e.Seq != log[i-1].Seq+1 {
			t.Fatalf("Seq not consecutive: %v", log)
		}
		if e.Conn != 1 {
			t.Fatalf("conn %d", e.Conn)
		}
		got = append(got, row{e.Cmd, e.DB, e.Queued, e.InExec})
	}
	want := []row{{"MULTI", 2, false, false}, {"SET", 2, true, false}, {"SELECT", 2, true, false}, {"SET", 2, true, false},
		{"EXEC", 2, false, false}, {"SET", 2, false, true}, {"SELECT", 2, false, true}, {"SET", 5, false, true}}
	if !reflect.DeepEqual(got, want) {
		t.Fatalf("log\n got %v\nwant %v", got, want)
	}
	snap := s.Snapshot()
	if string(snap[2]["q"].Val.Str) != "1" || string(snap[5]["q"].Val.Str) != "2" {
		t.Fatalf("snapshot %v", snap)
	}

	// a connection dropped inside MULTI discards its queue
	d := dial(t, s)
	d.expect("+OK", "MULTI")
	d.expect("+QUEUED", "SET", "dropped", "1")
	d.nc.Close()
	waitFor(t, func() bool { return s.ConnCount() == 2 })
	other.expect("+OK", "SELECT", "0")
	other.expect(":0", "EXISTS", "dropped")
}

func waitFor(t *testing.T, f func() bool) {
	t.Helper()
	deadline := time.Now().Add(10 * time.Second)
	for !f() {
		if time.Now().After(deadline) {
			t.Fatal("condition not reached")
		}
		time.Sleep(time.Millisecond)
	}
}

// EXEC is atomic with respect to other connections: a reader never observes a state between
// two queued commands.
func TestExecAtomicity(t *testing.T) {
	s := start(t, Options{})
	w := dial(t, s)
	r := dial(t, s)
	w.expect("+OK", "MSET", "x", "0", "y", "0")
	var wg sync.WaitGroup
	wg.Add(1)
	const rounds = 300
	go func() {
		defer wg.Done()
		for i := 0; i < rounds; i++ {
			w.send("MULTI")
			w.send("INCR", "x")
			w.send("INCR", "y")
			w.send("EXEC")
			for j := 0; j < 4; j++ {
				w.read()
			}
		}
	}()
	for i := 0; i < rounds; i++ {
		got := r.do("MGET", "x", "y")
		if !bytes.Equal(got.Elems[0].Str, got.Elems[1].Str) {
			t.Fatalf("torn read: %s", show(got))
		}
	}
	wg.Wait()
	r.expect(fmt.Sprintf(`["%d" "%d"]`, rounds, rounds), "MGET", "x", "y")
	// in the log every EXEC is directly followed by its InExec entries
	log := s.Log()
	for i, e := range log {
		if e.Cmd == "EXEC" {
			if i+2 >= len(log) || !log[i+1].InExec || !log[i+2].InExec || log[i+1].Conn != e.Conn || log[i+2].Seq != e.Seq+2 {
				t.Fatalf("EXEC at %d not followed by its commands", i)
			}
		}
	}
}

// ---------------------------------------------------------------------------------------
// RESTORE / DUMP

func TestRestore(t *testing.T) {
	needRdbref(t)
	clk := newClock(1000000)
	s := start(t, Options{Now: clk.now})
	c := dial(t, s)
	str := rdbref.Value{Kind: "string", Str: []byte("hello")}
	pStr := dumpOf(t, str, rdbref.TString, 9)
	c.expect("+OK", "RESTORE", "k", "0", pStr)
	c.expect(`"hello"`, "GET", "k")
	c.expect(":-1", "PTTL", "k")
	c.expect("-BUSYKEY Target key name already exists.", "RESTORE", "k", "0", pStr)
	c.expect("+OK", "RESTORE", "k", "5000", pStr, "replace")
	c.expect(":5000", "PTTL", "k")
	c.expect("+OK", "RESTORE", "k", "2000000", pStr, "REPLACE", "ABSTTL", "IDLETIME", "7")
	c.expect(":1000000", "PTTL", "k")
	if e := s.Snapshot()[0]["k"]; e.Idle != 7 || e.Freq != 0 || e.ExpireAt != 2000000 {
		t.Fatalf("entry %+v", e)
	}
	c.expect("+OK", "RESTORE", "k", "0", pStr, "REPLACE", "FREQ", "9")
	if e := s.Snapshot()[0]["k"]; e.Idle != 0 || e.Freq != 9 || e.ExpireAt != 0 {
		t.Fatalf("entry %+v", e)
	}
	c.expect("-ERR syntax error", "RESTORE", "k", "0", pStr, "REPLACE", "FREQ", "9", "IDLETIME", "1")
	c.expect("-ERR syntax error", "RESTORE", "k", "0", pStr, "BOGUS")
	c.expect("-ERR syntax error", "RESTORE", "k", "0", pStr, "IDLETIME")
	c.expect("-ERR Invalid FREQ value, must be >= 0 and <= 255", "RESTORE", "k", "0", pStr, "REPLACE", "FREQ", "256")
	c.expect("-ERR Invalid TTL value, must be >= 0", "RESTORE", "k2", "-1", pStr)
	c.expect("-ERR value is not an integer or out of range", "RESTORE", "k2", "abc", pStr)
	bad := []byte(pStr)
	bad[len(bad)-1] ^= 0xff
	c.expect("-ERR DUMP payload version or checksum are wrong", "RESTORE", "k2", "0", string(bad))
	c.expect("-ERR DUMP payload version or checksum are wrong", "RESTORE", "k2", "0", "short")
	c.expect("-ERR DUMP payload version or checksum are wrong", "RESTORE", "k2", "0", dumpOf(t, str, rdbref.TString, 10))
	// valid trailer, garbage body / trailing bytes
	c.expect("-ERR Bad data format", "RESTORE", "k2", "0", string(rdbref.Dump(rdbref.TString, []byte{5, 'a'}, 9)))
	_, body, _ := rdbref.EncodeValue(str, rdbref.Enc{Type: rdbref.TString})
	c.expect("-ERR Bad data format", "RESTORE", "k2", "0", string(rdbref.Dump(rdbref.TString, append(body, 0), 9)))
	c.expect(":0", "EXISTS", "k2")

	// every kind round-trips through RESTORE -> Snapshot and DUMP -> RESTORE
	vals := map[string]rdbref.Value{
		"vl": {Kind: "list", List: [][]byte{[]byte("a"), []byte("b"), []byte("a")}},
		"vs": {Kind: "set", Set: [][]byte{[]byte("x"), []byte("y")}},
		"vh": {Kind: "hash", Hash: []rdbref.HF{{Field: []byte("f"), Value: []byte("v")}, {Field: []byte("g"), Value: []byte("")}}},
		"vz": {Kind: "zset", ZSet: []rdbref.ZM{{Member: []byte("m"), Score: 1.5}, {Member: []byte("n"), Score: -2}}},
	}
	types := map[string]byte{"vl": rdbref.TList, "vs": rdbref.TSet, "vh": rdbref.THash, "vz": rdbref.TZSet2}
	for k, v := range vals {
		c.expect("+OK", "RESTORE", k, "0", dumpOf(t, v, types[k], 9))
		if got := s.Snapshot()[0][k].Val; !rdbref.Equal(got, v) {
			t.Fatalf("%s: got %+v", k, got)
		}
		d := c.do("DUMP", k)
		if d.Kind != '$' || d.Nil {
			t.Fatalf("DUMP %s: %s", k, show(d))
		}
		typ, _, ver, err := rdbref.ParseDump(d.Str)
		if err != nil || ver != 9 || typ != types[k] {
			t.Fatalf("DUMP %s: typ %d ver %d err %v", k, typ, ver, err)
		}
		c.expect("+OK", "RESTORE", k+"copy", "0", string(d.Str))
		if got := s.Snapshot()[0][k+"copy"].Val; !rdbref.Equal(got, v) {
			t.Fatalf("%s copy: got %+v", k, got)
		}
	}
	// the restored collections are fully operational
	c.expect(":1", "SISMEMBER", "vs", "y")
	c.expect(":1", "SADD", "vs", "z")
	c.expect(`"v"`, "HGET", "vh", "f")
	c.expect(`["n" "m"]`, "ZRANGE", "vz", "0", "-1")
	c.expect(`["a" "b" "a"]`, "LRANGE", "vl", "0", "-1")
	c.expect("nil", "DUMP", "nokey")
	// compact encodings decode to the same logical value
	c.expect("+OK", "RESTORE", "zl", "0", dumpOf(t, vals["vl"], rdbref.TListZiplist, 9))
	c.expect(`["a" "b" "a"]`, "LRANGE", "zl", "0", "-1")
}

func TestRestorePersonalities(t *testing.T) {
	needRdbref(t)
	str := rdbref.Value{Kind: "string", Str: []byte("hello")}
	zs := rdbref.Value{Kind: "zset", ZSet: []rdbref.ZM{{Member: []byte("m"), Score: 1.5}}}

	// 2.8: no REPLACE, old busy text, dump version 6, no ZSET2 / quicklist
	old := start(t, Options{Version: "2.8.24", NoReplace: true, NoIdleFreq: true, MaxDumpVersion: 6,
		BusyText: "ERR Target key name is busy.", RejectTypes: map[byte]bool{rdbref.TZSet2: true, rdbref.TQuicklist: true}})
	c := dial(t, old)
	p6 := dumpOf(t, str, rdbref.TString, 6)
	c.expect("+OK", "RESTORE", "k", "0", p6)
	c.expect("-ERR Target key name is busy.", "RESTORE", "k", "0", p6)
	c.expect("-ERR syntax error", "RESTORE", "k", "0", p6, "REPLACE")
	c.expect("-ERR syntax error", "RESTORE", "k2", "0", p6, "IDLETIME", "1")
	c.expect("-ERR syntax error", "RESTORE", "k2", "0", p6, "FREQ", "1")
	c.expect("-ERR DUMP payload version or checksum are wrong", "RESTORE", "k2", "0", dumpOf(t, str, rdbref.TString, 7))
	c.expect("-ERR Bad data format", "RESTORE", "z", "0", dumpOf(t, zs, rdbref.TZSet2, 6))
	c.expect("+OK", "RESTORE", "z", "0", dumpOf(t, zs, rdbref.TZSet, 6))
	d := c.do("DUMP", "z")
	typ, _, ver, err := rdbref.ParseDump(d.Str)
	if err != nil || typ != rdbref.TZSet || ver != 6 {
		t.Fatalf("2.8 DUMP zset: typ %d ver %d err %v", typ, ver, err)
	}
	if r := c.do("INFO", "server"); !strings.Contains(string(r.Str), "redis_version:2.8.24\r\n") {
		t.Fatalf("INFO: %q", r.Str)
	}

	// streams are stored opaquely
	s5 := start(t, Options{})
	c5 := dial(t, s5)
	_, sbody, err := rdbref.EncodeValue(rdbref.Value{Kind: "stream", Stream: emptyStreamBody()}, rdbref.Enc{Type: rdbref.TStream})
	if err != nil {
		t.Skipf("rdbref cannot encode opaque streams: %v", err)
	}
	c5.expect("+OK", "RESTORE", "st", "0", string(rdbref.Dump(rdbref.TStream, sbody, 9)))
	c5.expect("+stream", "TYPE", "st")
	if e := s5.Snapshot()[0]["st"]; e.Val.Kind != "stream" || !bytes.Equal(e.Val.Stream, sbody) {
		t.Fatalf("stream entry %+v", e)
	}
	d = c5.do("DUMP", "st")
	if !bytes.Equal(d.Str, rdbref.Dump(rdbref.TStream, sbody, 9)) {
		t.Fatalf("stream DUMP differs")
	}
	c5.expect("-"+msgWrongType, "GET", "st")
}

// emptyStreamBody is the RDB body of an empty stream without consumer groups:
// 0 listpacks, length 0, last id 0-0, 0 groups.
func emptyStreamBody() []byte { return []byte{0, 0, 0, 0, 0} }

// ---------------------------------------------------------------------------------------
// expiry with a fake clock

func TestExpiry(t *testing.T) {
	clk := newClock(1000000)
	s := start(t, Options{Now: clk.now})
	c := dial(t, s)
	c.expect(":-2", "PTTL", "k")
	c.expect(":-2", "TTL", "k")
	c.expect("+OK", "SET", "k", "v")
	c.expect(":-1", "PTTL", "k")
	c.expect(":-1", "TTL", "k")
	c.expect(":0", "EXPIRE", "nokey", "10")
	c.expect(":1", "EXPIRE", "k", "10")
	c.expect(":10000", "PTTL", "k")
	c.expect(":10", "TTL", "k")
	clk.add(2600)
	c.expect(":7400", "PTTL", "k")
	c.expect(":7", "TTL", "k")
	c.expect(":1", "PERSIST", "k")
	c.expect(":0", "PERSIST", "k")
	c.expect(":-1", "PTTL", "k")
	c.expect(":1", "PEXPIRE", "k", "150")
	c.expect(":150", "PTTL", "k")
	c.expect(":1", "EXPIREAT", "k", "2000")
	c.expect(":997400", "PTTL", "k")
	c.expect(":1", "PEXPIREAT", "k", "1002700")
	c.expect(":100", "PTTL", "k")
	if e := s.Snapshot()[0]["k"]; e.ExpireAt != 1002700 {
		t.Fatalf("ExpireAt %d", e.ExpireAt)
	}
	clk.add(99)
	c.expect(`"v"`, "GET", "k")
	clk.add(1)
	c.expect("nil", "GET", "k")
	c.expect(":-2", "PTTL", "k")
	c.expect(":0", "DBSIZE")
	if len(s.Snapshot()) != 0 {
		t.Fatal("expired key in snapshot")
	}
	// SET options
	c.expect("+OK", "SET", "k", "v", "PX", "500")
	c.expect(":500", "PTTL", "k")
	c.expect("+OK", "SET", "k", "v2", "KEEPTTL")
	c.expect(":500", "PTTL", "k")
	c.expect("+OK", "SET", "k", "v3")
	c.expect(":-1", "PTTL", "k")
	c.expect("+OK", "SET", "k", "v", "EX", "2", "XX")
	c.expect(":2000", "PTTL", "k")
	c.expect("+OK", "SETEX", "se", "3", "v")
	c.expect(":3000", "PTTL", "se")
	c.expect("+OK", "PSETEX", "pse", "30", "v")
	c.expect(":30", "PTTL", "pse")
	c.expect("-ERR invalid expire time in setex", "SETEX", "se", "0", "v")
	// APPEND / INCR keep the TTL, an expired key is treated as absent by writes
	c.expect(":2", "APPEND", "se", "w")
	c.expect(":3000", "PTTL", "se")
	clk.add(31)
	c.expect(":1", "SETNX", "pse", "fresh")
	c.expect(":-1", "PTTL", "pse")
	// EXPIRE in the past deletes
	c.expect(":1", "EXPIRE", "pse", "-1")
	c.expect(":0", "EXISTS", "pse")
	// RENAME carries the TTL, Put installs state
	c.expect("+OK", "RENAME", "se", "se2")
	c.expect(":2969", "PTTL", "se2")
	s.Put(4, "direct", Entry{Val: rdbref.Value{Kind: "string", Str: []byte("d")}, ExpireAt: clk.now() + 5})
	c.expect("+OK", "SELECT", "4")
	c.expect(`"d"`, "GET", "direct")
	c.expect(":5", "PTTL", "direct")
	s.Delete(4, "direct")
	c.expect("nil", "GET", "direct")
	s.Put(4, "direct", Entry{Val: rdbref.Value{Kind: "set", Set: [][]byte{[]byte("m")}}})
	c.expect(":1", "SISMEMBER", "direct", "m")
	c.expect(":0", "SADD", "direct", "m")
}

// ---------------------------------------------------------------------------------------
// SCAN

func scanAll(c *tc, extra ...string) []string {
	var keys []string
	cur := "0"
	for i := 0; i < 1000; i++ {
		r := c.do(append([]string{"SCAN", cur}, extra...)...)
		if r.Kind != '*' || len(r.Elems) != 2 {
			c.t.Fatalf("SCAN reply %s", show(r))
		}
		for _, k := range r.Elems[1].Elems {
			keys = append(keys, string(k.Str))
		}
		cur = string(r.Elems[0].Str)
		if cur == "0" {
			return keys
		}
	}
	c.t.Fatal("SCAN does not terminate")
	return nil
}

func TestScan(t *testing.T) {
	s := start(t, Options{})
	c := dial(t, s)
	var want []string
	for i := 0; i < 25; i++ {
		k := fmt.Sprintf("key:%02d", i)
		want = append(want, k)
		c.expect("+OK", "SET", k, "v")
	}
	c.expect("+OK", "SET", "other", "v")
	c.expect("[]", "KEYS", "nomatch*")
	r := c.do("SCAN", "0")
	if string(r.Elems[0].Str) != "10" || len(r.Elems[1].Elems) != 10 {
		t.Fatalf("default COUNT: %s", show(r))
	}
	if got := scanAll(c); !reflect.DeepEqual(got, append(append([]string{}, want...), "other")) {
		t.Fatalf("scan all: %v", got)
	}
	if got := scanAll(c, "MATCH", "key:*", "COUNT", "7"); !reflect.DeepEqual(got, want) {
		t.Fatalf("scan match: %v", got)
	}
	if got := scanAll(c, "count", "1000"); len(got) != 26 {
		t.Fatalf("scan count 1000: %v", got)
	}
	c.expect("-ERR invalid cursor", "SCAN", "abc")
	c.expect("-ERR syntax error", "SCAN", "0", "COUNT")
	c.expect("-ERR syntax error", "SCAN", "0", "COUNT", "0")
	c.expect("-ERR syntax error", "SCAN", "0", "BOGUS", "1")
	c.expect(`["0" []]`, "SCAN", "999")

	// scripted
	var seen [][]string
	s.SetScanScript(func(db int, cursor string, args [][]byte) (string, [][]byte, bool) {
		row := []string{fmt.Sprint(db), cursor}
		for _, a := range args {
			row = append(row, string(a))
		}
		seen = append(seen, row)
		switch cursor {
		case "0":
			return "77", [][]byte{[]byte("dup"), []byte("dup")}, true
		case "77":
			return "0", nil, true
		}
		return "", nil, false
	})
	c.expect("+OK", "SELECT", "1")
	c.expect(`["77" ["dup" "dup"]]`, "SCAN", "0", "COUNT", "5")
	c.expect(`["0" []]`, "SCAN", "77")
	c.expect(`["0" []]`, "SCAN", "5") // not handled -> default behaviour on (empty) db 1
	wantSeen := [][]string{{"1", "0", "COUNT", "5"}, {"1", "77"}, {"1", "5"}}
	if !reflect.DeepEqual(seen, wantSeen) {
		t.Fatalf("scan script calls %v", seen)
	}
}

// ---------------------------------------------------------------------------------------
// INFO

func TestInfo(t *testing.T) {
	clk := newClock(5000)
	s := start(t, Options{Now: clk.now, Role: "slave", RunID: strings.Repeat("b", 40), Version: "4.0.14"})
	c := dial(t, s)
	c.expect("+OK", "SET", "a", "1")
	c.expect("+OK", "SET", "b", "1", "PX", "100")
	c.expect("+OK", "SET", "gone", "1", "PX", "10")
	c.expect("+OK", "SELECT", "7")
	c.expect(":1", "SADD", "s", "m")
	clk.add(10)
	_, port, _ := net.SplitHostPort(s.Addr())
	wantKS := "# Keyspace\r\ndb0:keys=2,expires=1,avg_ttl=0\r\ndb7:keys=1,expires=0,avg_ttl=0\r\n"
	if got := string(c.do("INFO", "keyspace").Str); got != wantKS {
		t.Fatalf("keyspace: %q", got)
	}
	if got := string(c.do("info", "KEYSPACE").Str); got != wantKS {
		t.Fatalf("keyspace (case): %q", got)
	}
	wantServer := "# Server\r\nredis_version:4.0.14\r\nredis_mode:standalone\r\nrun_id:" + strings.Repeat("b", 40) + "\r\ntcp_port:" + port + "\r\n"
	if got := string(c.do("INFO", "Server").Str); got != wantServer {
		t.Fatalf("server: %q", got)
	}
	wantRepl := "# Replication\r\nrole:slave\r\nconnected_slaves:0\r\nmaster_repl_offset:0\r\n"
	if got := string(c.do("INFO", "replication").Str); got != wantRepl {
		t.Fatalf("replication: %q", got)
	}
	wantCluster := "# Cluster\r\ncluster_enabled:0\r\n"
	if got := string(c.do("INFO", "cluster").Str); got != wantCluster {
		t.Fatalf("cluster: %q", got)
	}
	all := wantServer + "\r\n" + wantRepl + "\r\n" + wantKS + "\r\n" + wantCluster
	for _, args := range [][]string{{"INFO"}, {"INFO", "all"}, {"INFO", "DEFAULT"}} {
		if got := string(c.do(args...).Str); got != all {
			t.Fatalf("%v: %q", args, got)
		}
	}
	c.expect(`""`, "INFO", "nosuchsection")
}

// ---------------------------------------------------------------------------------------
// AUTH

func TestAuth(t *testing.T) {
	s := start(t, Options{Password: "sekret"})
	c := dial(t, s)
	c.expect("-NOAUTH Authentication required.", "PING")
	c.expect("-NOAUTH Authentication required.", "SET", "k", "v")
	c.expect("-ERR invalid password", "AUTH", "wrong")
	c.expect("-NOAUTH Authentication required.", "GET", "k")
	c.expect("+OK", "AUTH", "sekret")
	c.expect("+PONG", "PING")
	c.expect("nil", "GET", "k")
	log := s.Log()
	if log[0].Err != "NOAUTH Authentication required." || log[2].Cmd != "AUTH" || string(log[2].Args[0]) != "wrong" ||
		log[2].Err != "ERR invalid password" || string(log[4].Args[0]) != "sekret" || log[4].Err != "" {
		t.Fatalf("log %+v", log)
	}
	// a second connection starts unauthenticated
	c2 := dial(t, s)
	c2.expect("-NOAUTH Authentication required.", "PING")
}

// ---------------------------------------------------------------------------------------
// hooks

func TestHookOverrideDropBlock(t *testing.T) {
	s := start(t, Options{})
	var mu sync.Mutex
	var calls []string
	gate := make(chan struct{})
	entered := make(chan struct{}, 16)
	s.SetHook(func(conn, db int, cmd string, args [][]byte) HookResult {
		mu.Lock()
		row := fmt.Sprintf("%d/%d/%s", conn, db, cmd)
		for _, a := range args {
			row += "/" + string(a)
		}
		calls = append(calls, row)
		mu.Unlock()
		switch {
		case cmd == "SET" && string(args[0]) == "faulty":
			r := Err("ERR injected")
			return HookResult{Override: &r}
		case cmd == "GET" && string(args[0]) == "drop":
			return HookResult{DropConn: true}
		case cmd == "SET" && string(args[0]) == "gated":
			mu.Lock()
			g := gate
			mu.Unlock()
			entered <- struct{}{}
			<-g
		}
		return HookResult{}
	})
	c := dial(t, s)
	c.expect("+OK", "SELECT", "3")
	c.expect("-ERR injected", "SET", "faulty", "1")
	c.expect("nil", "GET", "faulty") // not executed
	for _, e := range s.Log() {
		if e.Cmd == "SET" {
			t.Fatalf("overridden command was logged: %+v", e)
		}
	}
	// hook sees commands inside MULTI at queue time only
	c.expect("+OK", "MULTI")
	c.expect("+QUEUED", "SET", "a", "1")
	c.expect("-ERR injected", "SET", "faulty", "1") // override inside MULTI: not queued, not dirty
	c.expect("[+OK]", "EXEC")
	mu.Lock()
	got := append([]string{}, calls...)
	mu.Unlock()
	want := []string{"1/0/SELECT/3", "1/3/SET/faulty/1", "1/3/GET/faulty", "1/3/MULTI", "1/3/SET/a/1", "1/3/SET/faulty/1", "1/3/EXEC"}
	if !reflect.DeepEqual(got, want) {
		t.Fatalf("hook calls\n got %v\nwant %v", got, want)
	}

	// blocking: the pipelined reply of the command BEFORE the gated one is delivered, the
	// gated command has no effect until the gate opens
	c.send("SET", "before", "1")
	c.send("SET", "gated", "1")
	c.send("GET", "gated")
	if got := show(c.read()); got != "+OK" {
		t.Fatalf("reply before gate: %s", got)
	}
	<-entered
	other := dial(t, s)
	other.expect("+OK", "SELECT", "3")
	other.expect(`"1"`, "GET", "before")
	other.expect("nil", "GET", "gated")
	c.nc.SetReadDeadline(time.Now().Add(50 * time.Millisecond))
	if _, err := c.br.Peek(1); err == nil {
		t.Fatal("got a reply while the hook was blocking")
	}
	c.nc.SetReadDeadline(time.Now().Add(20 * time.Second))
	close(gate)
	if got := show(c.read()); got != "+OK" {
		t.Fatalf("gated reply: %s", got)
	}
	if got := show(c.read()); got != `"1"` {
		t.Fatalf("after gate: %s", got)
	}

	// drop
	c.send("GET", "drop")
	if _, err := ReadReply(c.br); err == nil {
		t.Fatal("expected closed connection")
	}
	waitFor(t, func() bool { return s.ConnCount() == 1 })
	other.expect("+PONG", "PING")

	// a command blocked in the hook when KillConns hits is never executed
	mu.Lock()
	gate = make(chan struct{})
	mu.Unlock()
	k := dial(t, s)
	k.send("SET", "gated", "2")
	<-entered
	s.KillConns()
	if s.ConnCount() != 0 {
		t.Fatalf("ConnCount after KillConns: %d", s.ConnCount())
	}
	close(gate)
	if _, err := ReadReply(k.br); err == nil {
		t.Fatal("killed connection still answers")
	}
	s.SetHook(nil)
	n := dial(t, s) // still listening
	n.expect("+OK", "SELECT", "3")
	n.expect(`"1"`, "GET", "gated")
	if n := s.ConnCount(); n != 1 {
		t.Fatalf("ConnCount %d", n)
	}
}

func TestAfterHookAndSeqOrdering(t *testing.T) {
	s := start(t, Options{})
	var traced []LogEntry // written under the server lock by the after hook
	s.SetAfterHook(func(e LogEntry) { traced = append(traced, e) })
	const n = 400
	var wg sync.WaitGroup
	for w := 0; w < 2; w++ {
		wg.Add(1)
		c := dial(t, s)
		go func(w int) {
			defer wg.Done()
			for i := 0; i < n; i++ {
				c.send("RPUSH", "l", fmt.Sprintf("%d:%d", w, i))
				if r := c.read(); r.Kind != ':' {
					t.Errorf("reply %s", show(r))
					return
				}
			}
		}(w)
	}
	wg.Wait()
	log := s.Log()
	s.SetAfterHook(nil)
	if len(log) != 2*n || len(traced) != 2*n {
		t.Fatalf("log %d traced %d", len(log), len(traced))
	}
	// Seq strictly increasing; per connection program order; the log order IS the execution
	// order (equal to the final list content).
	list := s.Snapshot()[0]["l"].Val.List
	next := map[int]int{}
	conns := map[int]bool{}
	for i, e := range log {
		if i > 0 && e.Seq <= log[i-1].Seq {
			t.Fatalf("Seq not increasing at %d", i)
		}
		if traced[i].Seq != e.Seq || traced[i].Conn != e.Conn {
			t.Fatalf("after hook order differs at %d", i)
		}
		if !bytes.Equal(list[i], e.Args[1]) {
			t.Fatalf("log order differs from execution order at %d: %q vs %q", i, list[i], e.Args[1])
		}
		var w, j int
		fmt.Sscanf(string(e.Args[1]), "%d:%d", &w, &j)
		if j != next[e.Conn] {
			t.Fatalf("conn %d out of program order", e.Conn)
		}
		next[e.Conn]++
		conns[e.Conn] = true
	}
	if !conns[1] || !conns[2] || len(conns) != 2 {
		t.Fatalf("conn ids %v", conns)
	}
	s.ResetLog()
	c := dial(t, s)
	c.expect("-"+msgWrongType, "GET", "l")
	log2 := s.Log()
	if len(log2) != 1 || log2[0].Seq != log[len(log)-1].Seq+1 || log2[0].Conn != 3 || log2[0].Err != msgWrongType || log2[0].Cmd != "GET" {
		t.Fatalf("log after reset %+v", log2)
	}
}

// ---------------------------------------------------------------------------------------
// inline commands, pipelining, scripts

func TestInline(t *testing.T) {
	s := start(t, Options{})
	c := dial(t, s)
	c.nc.Write([]byte("\r\n\nset  foo \"b a\\x52\"\r\nGET foo\n*0\r\nPING\r\n"))
	if got := show(c.read()); got != "+OK" {
		t.Fatal(got)
	}
	if got := show(c.read()); got != `"b aR"` {
		t.Fatal(got)
	}
	if got := show(c.read()); got != "+PONG" {
		t.Fatal(got)
	}
	c.nc.Write([]byte("SET \"unbalanced\r\n"))
	r := c.read()
	if !strings.HasPrefix(string(r.Str), "ERR Protocol error") {
		t.Fatal(show(r))
	}
	if _, err := ReadReply(c.br); err == nil {
		t.Fatal("connection open after protocol error")
	}
}

func TestPipelining(t *testing.T) {
	s := start(t, Options{})
	c := dial(t, s)
	const n = 1000
	var buf bytes.Buffer
	for i := 0; i < n; i++ {
		buf.Write(EncodeCommandStrings("INCR", "ctr"))
	}
	buf.Write(EncodeCommandStrings("GET", "ctr"))
	go c.nc.Write(buf.Bytes())
	for i := 1; i <= n; i++ {
		if r := c.read(); r.Kind != ':' || r.Int != int64(i) {
			t.Fatalf("reply %d: %s", i, show(r))
		}
	}
	if got := show(c.read()); got != `"1000"` {
		t.Fatal(got)
	}
	if l := s.Log(); len(l) != n+1 || l[n-1].Seq != int64(n) {
		t.Fatalf("log len %d", len(l))
	}
	// a command split across several TCP segments
	raw := EncodeCommandStrings("SET", "split", strings.Repeat("x", 100000))
	for i := 0; i < len(raw); i += 33333 {
		end := i + 33333
		if end > len(raw) {
			end = len(raw)
		}
		c.nc.Write(raw[i:end])
		time.Sleep(2 * time.Millisecond)
	}
	if got := show(c.read()); got != "+OK" {
		t.Fatal(got)
	}
	c.expect(":100000", "STRLEN", "split")
}

func TestScripts(t *testing.T) {
	s := start(t, Options{})
	c := dial(t, s)
	c.expect(`"e0e1f9fabfc9d4800c877a703b823ac0578ff8db"`, "SCRIPT", "LOAD", "return 1")
	c.expect(`"7f923f79fe76194c868d7e1d0820de36700eb649"`, "script", "load", "return 2")
	c.expect(`[:1 :0]`, "SCRIPT", "EXISTS", "e0e1f9fabfc9d4800c877a703b823ac0578ff8db", "ffff")
	c.expect("nil", "EVALSHA", "e0e1f9fabfc9d4800c877a703b823ac0578ff8db", "1", "k")
	c.expect("nil", "EVAL", "return 3", "0")
	c.expect("-ERR Number of keys can't be greater than number of args", "EVAL", "return 3", "2", "k")
	c.expect("+OK", "SCRIPT", "FLUSH")
	c.expect(`[:0]`, "SCRIPT", "EXISTS", "e0e1f9fabfc9d4800c877a703b823ac0578ff8db")
	got := s.Scripts()
	if len(got) != 2 || string(got[0]) != "return 1" || string(got[1]) != "return 2" {
		t.Fatalf("scripts %q", got)
	}
	var cmds []string
	for _, e := range s.Log() {
		cmds = append(cmds, e.Cmd)
	}
	if strings.Join(cmds, ",") != "SCRIPT,SCRIPT,SCRIPT,EVALSHA,EVAL,EVAL,SCRIPT,SCRIPT" {
		t.Fatalf("log %v", cmds)
	}
}

func TestCloseAndRestartListen(t *testing.T) {
	s := New(Options{})
	addr, err := s.Listen()
	if err != nil {
		t.Fatal(err)
	}
	if a2, _ := s.Listen(); a2 != addr || s.Addr() != addr {
		t.Fatalf("second Listen: %s vs %s", a2, addr)
	}
	c := dial(t, s)
	c.expect("+OK", "SET", "k", "v")
	s.Close()
	if _, err := ReadReply(c.br); err == nil {
		t.Fatal("conn open after Close")
	}
	if nc, err := net.DialTimeout("tcp", addr, time.Second); err == nil {
		nc.Close()
		t.Fatal("still listening after Close")
	}
	s.Close() // idempotent
	// state survives; a new Listen serves it again
	if _, err := s.Listen(); err != nil {
		t.Fatal(err)
	}
	defer s.Close()
	c2 := dial(t, s)
	c2.expect(`"v"`, "GET", "k")
}
