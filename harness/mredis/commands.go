package mredis

import (
	"bytes"
	"fmt"
	"math"
	"strconv"
	"strings"

	"verif/harness/rdbref"
)

type cmdFn func(s *Server, c *client, a [][]byte) Reply

// cmdDef.arity follows the Redis convention: N > 0 means exactly N arguments including the
// command name, N < 0 means at least -N, 0 means anything.
type cmdDef struct {
	arity int
	fn    cmdFn
}

var commands map[string]cmdDef

const (
	msgWrongType = "WRONGTYPE Operation against a key holding the wrong kind of value"
	msgNotInt    = "ERR value is not an integer or out of range"
	msgNotFloat  = "ERR value is not a valid float"
	msgSyntax    = "ERR syntax error"
	msgNoKey     = "ERR no such key"
	msgOverflow  = "ERR increment or decrement would overflow"
	msgIndex     = "ERR index out of range"
)

func init() {
	commands = map[string]cmdDef{
		// connection / server
		"PING":      {-1, cmdPing},
		"ECHO":      {2, cmdEcho},
		"AUTH":      {2, cmdAuth},
		"SELECT":    {2, cmdSelect},
		"QUIT":      {-1, nil}, // handled in process
		"DBSIZE":    {1, cmdDBSize},
		"TIME":      {1, cmdTime},
		"INFO":      {-1, cmdInfo},
		"CONFIG":    {-2, cmdConfig},
		"CLIENT":    {-2, cmdOKAny},
		"REPLCONF":  {-1, cmdOKAny},
		"PUBLISH":   {3, func(*Server, *client, [][]byte) Reply { return Int(0) }},
		"CLUSTER":   {-2, func(*Server, *client, [][]byte) Reply { return Err("ERR This instance has cluster support disabled") }},
		"COMMAND":   {0, func(*Server, *client, [][]byte) Reply { return Array() }},
		"FLUSHALL":  {-1, cmdFlushAll},
		"FLUSHDB":   {-1, cmdFlushDB},
		"SWAPDB":    {3, cmdSwapDB},
		"MULTI":     {1, cmdMulti},
		"EXEC":      {1, nil}, // handled in process
		"DISCARD":   {1, cmdDiscard},
		"WATCH":     {-2, cmdWatch},
		"UNWATCH":   {1, cmdOKAny},
		"SCRIPT":    {-2, cmdScript},
		"EVAL":      {-3, cmdEval},
		"EVALSHA":   {-3, cmdEvalSha},
		"SCAN":      {-2, cmdScan},
		"DUMP":      {2, cmdDump},
		"RESTORE":   {-4, cmdRestore},
		"EXISTS":    {-2, cmdExists},
		"DEL":       {-2, cmdDel},
		"UNLINK":    {-2, cmdDel},
		"TYPE":      {2, cmdType},
		"TTL":       {2, func(s *Server, c *client, a [][]byte) Reply { return ttlGeneric(s, c, a, false) }},
		"PTTL":      {2, func(s *Server, c *client, a [][]byte) Reply { return ttlGeneric(s, c, a, true) }},
		"EXPIRE":    {3, func(s *Server, c *client, a [][]byte) Reply { return expireGeneric(s, c, a, 1000, false) }},
		"PEXPIRE":   {3, func(s *Server, c *client, a [][]byte) Reply { return expireGeneric(s, c, a, 1, false) }},
		"EXPIREAT":  {3, func(s *Server, c *client, a [][]byte) Reply { return expireGeneric(s, c, a, 1000, true) }},
		"PEXPIREAT": {3, func(s *Server, c *client, a [][]byte) Reply { return expireGeneric(s, c, a, 1, true) }},
		"PERSIST":   {2, cmdPersist},
		"KEYS":      {2, cmdKeys},
		"RENAME":    {3, func(s *Server, c *client, a [][]byte) Reply { return renameGeneric(s, c, a, false) }},
		"RENAMENX":  {3, func(s *Server, c *client, a [][]byte) Reply { return renameGeneric(s, c, a, true) }},
		"MOVE":      {3, cmdMove},
		"RANDOMKEY": {1, cmdRandomKey},
		// strings
		"SET":      {-3, cmdSet},
		"GET":      {2, cmdGet},
		"SETNX":    {3, cmdSetNX},
		"SETEX":    {4, func(s *Server, c *client, a [][]byte) Reply { return setexGeneric(s, c, a, 1000, "setex") }},
		"PSETEX":   {4, func(s *Server, c *client, a [][]byte) Reply { return setexGeneric(s, c, a, 1, "psetex") }},
		"GETSET":   {3, cmdGetSet},
		"APPEND":   {3, cmdAppend},
		"STRLEN":   {2, cmdStrlen},
		"INCR":     {2, func(s *Server, c *client, a [][]byte) Reply { return incrGeneric(s, c, a[0], 1) }},
		"DECR":     {2, func(s *Server, c *client, a [][]byte) Reply { return incrGeneric(s, c, a[0], -1) }},
		"INCRBY":   {3, cmdIncrBy},
		"DECRBY":   {3, cmdDecrBy},
		"MSET":     {-3, cmdMSet},
		"MSETNX":   {-3, cmdMSetNX},
		"MGET":     {-2, cmdMGet},
		"SETRANGE": {4, cmdSetRange},
		"GETRANGE": {4, cmdGetRange},
		"SETBIT":   {4, cmdSetBit},
		"GETBIT":   {3, cmdGetBit},
		// lists
		"LPUSH":     {-3, func(s *Server, c *client, a [][]byte) Reply { return pushGeneric(s, c, a, true, false) }},
		"RPUSH":     {-3, func(s *Server, c *client, a [][]byte) Reply { return pushGeneric(s, c, a, false, false) }},
		"LPUSHX":    {-3, func(s *Server, c *client, a [][]byte) Reply { return pushGeneric(s, c, a, true, true) }},
		"RPUSHX":    {-3, func(s *Server, c *client, a [][]byte) Reply { return pushGeneric(s, c, a, false, true) }},
		"LPOP":      {2, func(s *Server, c *client, a [][]byte) Reply { return popGeneric(s, c, a, true) }},
		"RPOP":      {2, func(s *Server, c *client, a [][]byte) Reply { return popGeneric(s, c, a, false) }},
		"LLEN":      {2, cmdLLen},
		"LRANGE":    {4, cmdLRange},
		"LINDEX":    {3, cmdLIndex},
		"LSET":      {4, cmdLSet},
		"LTRIM":     {4, cmdLTrim},
		"LREM":      {4, cmdLRem},
		"LINSERT":   {5, cmdLInsert},
		"RPOPLPUSH": {3, cmdRPopLPush},
		// sets
		"SADD":      {-3, cmdSAdd},
		"SREM":      {-3, cmdSRem},
		"SMEMBERS":  {2, cmdSMembers},
		"SCARD":     {2, cmdSCard},
		"SISMEMBER": {3, cmdSIsMember},
		"SPOP":      {-2, cmdSPop},
		"SMOVE":     {4, cmdSMove},
		// hashes
		"HSET":    {-4, func(s *Server, c *client, a [][]byte) Reply { return hsetGeneric(s, c, a, false) }},
		"HMSET":   {-4, func(s *Server, c *client, a [][]byte) Reply { return hsetGeneric(s, c, a, true) }},
		"HSETNX":  {4, cmdHSetNX},
		"HGET":    {3, cmdHGet},
		"HMGET":   {-3, cmdHMGet},
		"HGETALL": {2, func(s *Server, c *client, a [][]byte) Reply { return hgetallGeneric(s, c, a, true, true) }},
		"HKEYS":   {2, func(s *Server, c *client, a [][]byte) Reply { return hgetallGeneric(s, c, a, true, false) }},
		"HVALS":   {2, func(s *Server, c *client, a [][]byte) Reply { return hgetallGeneric(s, c, a, false, true) }},
		"HDEL":    {-3, cmdHDel},
		"HLEN":    {2, cmdHLen},
		"HEXISTS": {3, cmdHExists},
		"HINCRBY": {4, cmdHIncrBy},
		// sorted sets
		"ZADD":             {-4, cmdZAdd},
		"ZINCRBY":          {4, cmdZIncrBy},
		"ZREM":             {-3, cmdZRem},
		"ZCARD":            {2, cmdZCard},
		"ZSCORE":           {3, cmdZScore},
		"ZRANK":            {3, cmdZRank},
		"ZRANGE":           {-4, func(s *Server, c *client, a [][]byte) Reply { return zrangeGeneric(s, c, a, false) }},
		"ZREVRANGE":        {-4, func(s *Server, c *client, a [][]byte) Reply { return zrangeGeneric(s, c, a, true) }},
		"ZREMRANGEBYRANK":  {4, cmdZRemRangeByRank},
		"ZREMRANGEBYSCORE": {4, cmdZRemRangeByScore},
	}
}

// ---------------------------------------------------------------------------------------
// parsing helpers

// parseInt is Redis' string2ll: a canonical decimal int64 (no '+', no leading zeros, no
// spaces, no "-0").
func parseInt(b []byte) (int64, bool) {
	if len(b) == 0 || len(b) > 20 {
		return 0, false
	}
	v, err := strconv.ParseInt(string(b), 10, 64)
	if err != nil || strconv.FormatInt(v, 10) != string(b) {
		return 0, false
	}
	return v, true
}

// parseFloat mirrors Redis' strtod based score parsing: whole string consumed, no leading
// space, inf / +inf / -inf / infinity accepted in any case, NaN and out-of-range rejected.
func parseFloat(b []byte) (float64, bool) {
	if len(b) == 0 || isSpace(b[0]) {
		return 0, false
	}
	f, err := strconv.ParseFloat(string(b), 64)
	if err != nil || math.IsNaN(f) {
		return 0, false
	}
	return f, true
}

// fmtFloat is Redis' addReplyDouble ("%.17g", inf, -inf).
func fmtFloat(f float64) []byte {
	if math.IsInf(f, 1) {
		return []byte("inf")
	}
	if math.IsInf(f, -1) {
		return []byte("-inf")
	}
	return []byte(strconv.FormatFloat(f, 'g', 17, 64))
}

func eqFold(b []byte, s string) bool { return strings.EqualFold(string(b), s) }

func newString(v []byte) *obj {
	return &obj{e: Entry{Val: rdbref.Value{Kind: "string", Str: dup(v)}}}
}

func bulks(l [][]byte) Reply {
	elems := make([]Reply, len(l))
	for i, b := range l {
		elems[i] = Bulk(b)
	}
	return Array(elems...)
}

// ---------------------------------------------------------------------------------------
// connection / server commands

func cmdOKAny(*Server, *client, [][]byte) Reply { return OK() }

func cmdPing(s *Server, c *client, a [][]byte) Reply {
	switch len(a) {
	case 0:
		return Simple("PONG")
	case 1:
		return Bulk(a[0])
	}
	return Err("ERR wrong number of arguments for 'ping' command")
}

func cmdEcho(s *Server, c *client, a [][]byte) Reply { return Bulk(a[0]) }

func cmdAuth(s *Server, c *client, a [][]byte) Reply {
	if s.opt.Password == "" {
		return Err("ERR Client sent AUTH, but no password is set")
	}
	if string(a[0]) == s.opt.Password {
		c.authed = true
		return OK()
	}
	c.authed = false
	return Err("ERR invalid password")
}

func cmdSelect(s *Server, c *client, a [][]byte) Reply {
	n, ok := parseInt(a[0])
	if !ok {
		return Err("ERR invalid DB index")
	}
	if n < 0 || n >= int64(len(s.dbs)) {
		return Err("ERR DB index is out of range")
	}
	c.db = int(n)
	return OK()
}

func cmdDBSize(s *Server, c *client, a [][]byte) Reply {
	return Int(int64(len(s.liveKeys(c.db))))
}

func cmdTime(s *Server, c *client, a [][]byte) Reply {
	ms := s.now()
	return Array(BulkString(strconv.FormatInt(ms/1000, 10)), BulkString(strconv.FormatInt((ms%1000)*1000, 10)))
}

func cmdConfig(s *Server, c *client, a [][]byte) Reply {
	switch strings.ToUpper(string(a[0])) {
	case "GET":
		if len(a) != 2 {
			return Err("ERR Wrong number of arguments for CONFIG get")
		}
		switch strings.ToLower(string(a[1])) {
		case "rdbchecksum":
			return Array(BulkString("rdbchecksum"), BulkString("yes"))
		case "databases":
			return Array(BulkString("databases"), BulkString(strconv.Itoa(len(s.dbs))))
		}
		return Array()
	case "SET":
		if len(a) != 3 {
			return Err("ERR Wrong number of arguments for CONFIG set")
		}
		return OK()
	}
	return OK()
}

func (s *Server) infoSection(name string) (string, bool) {
	var b strings.Builder
	switch name {
	case "server":
		b.WriteString("# Server\r\n")
		fmt.Fprintf(&b, "redis_version:%s\r\n", s.opt.Version)
		b.WriteString("redis_mode:standalone\r\n")
		fmt.Fprintf(&b, "run_id:%s\r\n", s.opt.RunID)
		fmt.Fprintf(&b, "tcp_port:%d\r\n", s.port)
	case "replication":
		b.WriteString("# Replication\r\n")
		fmt.Fprintf(&b, "role:%s\r\n", s.opt.Role)
		b.WriteString("connected_slaves:0\r\n")
		b.WriteString("master_repl_offset:0\r\n")
	case "keyspace":
		b.WriteString("# Keyspace\r\n")
		now := s.now()
		for i, db := range s.dbs {
			keys, expires := 0, 0
			for _, o := range db {
				if o.e.ExpireAt != 0 {
					if o.e.ExpireAt <= now {
						continue
					}
					expires++
				}
				keys++
			}
			if keys > 0 {
				fmt.Fprintf(&b, "db%d:keys=%d,expires=%d,avg_ttl=0\r\n", i, keys, expires)
			}
		}
	case "cluster":
		b.WriteString("# Cluster\r\ncluster_enabled:0\r\n")
	default:
		return "", false
	}
	return b.String(), true
}

var infoSections = []string{"server", "replication", "keyspace", "cluster"}

func cmdInfo(s *Server, c *client, a [][]byte) Reply {
	if len(a) > 1 {
		return Err(msgSyntax)
	}
	sec := "default"
	if len(a) == 1 {
		sec = strings.ToLower(string(a[0]))
	}
	if sec == "default" || sec == "all" || sec == "everything" {
		var parts []string
		for _, n := range infoSections {
			p, _ := s.infoSection(n)
			parts = append(parts, p)
		}
		return BulkString(strings.Join(parts, "\r\n"))
	}
	p, _ := s.infoSection(sec)
	return BulkString(p)
}

func parseAsync(a [][]byte) bool {
	return len(a) == 0 || (len(a) == 1 && eqFold(a[0], "ASYNC"))
}

func cmdFlushAll(s *Server, c *client, a [][]byte) Reply {
	if !parseAsync(a) {
		return Err(msgSyntax)
	}
	for i := range s.dbs {
		s.dbs[i] = map[string]*obj{}
	}
	return OK()
}

func cmdFlushDB(s *Server, c *client, a [][]byte) Reply {
	if !parseAsync(a) {
		return Err(msgSyntax)
	}
	s.dbs[c.db] = map[string]*obj{}
	return OK()
}

func cmdSwapDB(s *Server, c *client, a [][]byte) Reply {
	x, ok := parseInt(a[0])
	if !ok {
		return Err("ERR invalid first DB index")
	}
	y, ok := parseInt(a[1])
	if !ok {
		return Err("ERR invalid second DB index")
	}
	n := int64(len(s.dbs))
	if x < 0 || x >= n || y < 0 || y >= n {
		return Err("ERR DB index is out of range")
	}
	s.dbs[x], s.dbs[y] = s.dbs[y], s.dbs[x]
	return OK()
}

func cmdMulti(s *Server, c *client, a [][]byte) Reply {
	if c.inMulti {
		return Err("ERR MULTI calls can not be nested")
	}
	c.inMulti, c.dirty, c.queue = true, false, nil
	return OK()
}

func cmdDiscard(s *Server, c *client, a [][]byte) Reply {
	if !c.inMulti {
		return Err("ERR DISCARD without MULTI")
	}
	c.inMulti, c.dirty, c.queue = false, false, nil
	return OK()
}

func cmdWatch(s *Server, c *client, a [][]byte) Reply {
	if c.inMulti {
		return Err("ERR WATCH inside MULTI is not allowed")
	}
	return OK()
}

// ---------------------------------------------------------------------------------------
// generic key commands

func cmdExists(s *Server, c *client, a [][]byte) Reply {
	n := int64(0)
	for _, k := range a {
		if s.lookup(c.db, k) != nil {
			n++
		}
	}
	return Int(n)
}

func cmdDel(s *Server, c *client, a [][]byte) Reply {
	n := int64(0)
	for _, k := range a {
		if s.remove(c.db, k) {
			n++
		}
	}
	return Int(n)
}

func cmdType(s *Server, c *client, a [][]byte) Reply {
	o := s.lookup(c.db, a[0])
	if o == nil {
		return Simple("none")
	}
	return Simple(o.e.Val.Kind)
}

func ttlGeneric(s *Server, c *client, a [][]byte, ms bool) Reply {
	o := s.lookup(c.db, a[0])
	if o == nil {
		return Int(-2)
	}
	if o.e.ExpireAt == 0 {
		return Int(-1)
	}
	ttl := o.e.ExpireAt - s.now()
	if ttl < 0 {
		ttl = 0
	}
	if ms {
		return Int(ttl)
	}
	return Int((ttl + 500) / 1000)
}

func expireGeneric(s *Server, c *client, a [][]byte, unit int64, abs bool) Reply {
	v, ok := parseInt(a[1])
	if !ok {
		return Err(msgNotInt)
	}
	when := v * unit
	now := s.now()
	if !abs {
		when += now
	}
	o := s.lookup(c.db, a[0])
	if o == nil {
		return Int(0)
	}
	if when <= now {
		s.remove(c.db, a[0])
		return Int(1)
	}
	o.e.ExpireAt = when
	return Int(1)
}

func cmdPersist(s *Server, c *client, a [][]byte) Reply {
	o := s.lookup(c.db, a[0])
	if o == nil || o.e.ExpireAt == 0 {
		return Int(0)
	}
	o.e.ExpireAt = 0
	return Int(1)
}

func cmdKeys(s *Server, c *client, a [][]byte) Reply {
	var out [][]byte
	all := string(a[0]) == "*"
	for _, k := range s.liveKeys(c.db) {
		if all || globMatch(a[0], []byte(k)) {
			out = append(out, []byte(k))
		}
	}
	return bulks(out)
}

func renameGeneric(s *Server, c *client, a [][]byte, nx bool) Reply {
	o := s.lookup(c.db, a[0])
	if o == nil {
		return Err(msgNoKey)
	}
	if bytes.Equal(a[0], a[1]) {
		if nx {
			return Int(0)
		}
		return OK()
	}
	if s.lookup(c.db, a[1]) != nil {
		if nx {
			return Int(0)
		}
	}
	delete(s.dbs[c.db], string(a[0]))
	s.store(c.db, a[1], o)
	if nx {
		return Int(1)
	}
	return OK()
}

func cmdMove(s *Server, c *client, a [][]byte) Reply {
	n, ok := parseInt(a[1])
	if !ok || n < 0 || n >= int64(len(s.dbs)) {
		return Err(msgIndex)
	}
	if int(n) == c.db {
		return Err("ERR source and destination objects are the same")
	}
	o := s.lookup(c.db, a[0])
	if o == nil {
		return Int(0)
	}
	if s.lookup(int(n), a[0]) != nil {
		return Int(0)
	}
	delete(s.dbs[c.db], string(a[0]))
	s.store(int(n), a[0], o)
	return Int(1)
}

func cmdRandomKey(s *Server, c *client, a [][]byte) Reply {
	keys := s.liveKeys(c.db)
	if len(keys) == 0 {
		return NilBulk()
	}
	return BulkString(keys[0]) // deterministic: the smallest key
}

// ---------------------------------------------------------------------------------------
// strings

func cmdSet(s *Server, c *client, a [][]byte) Reply {
	var nx, xx, keepttl bool
	var expire int64 // relative ms, 0 = none
	for i := 2; i < len(a); i++ {
		switch {
		case eqFold(a[i], "NX"):
			nx = true
		case eqFold(a[i], "XX"):
			xx = true
		case eqFold(a[i], "KEEPTTL"):
			keepttl = true
		case (eqFold(a[i], "EX") || eqFold(a[i], "PX")) && i+1 < len(a):
			if expire != 0 {
				return Err(msgSyntax)
			}
			v, ok := parseInt(a[i+1])
			if !ok {
				return Err(msgNotInt)
			}
			if v <= 0 {
				return Err("ERR invalid expire time in set")
			}
			if eqFold(a[i], "EX") {
				v *= 1000
			}
			expire = v
			i++
		default:
			return Err(msgSyntax)
		}
	}
	if (nx && xx) || (keepttl && expire != 0) {
		return Err(msgSyntax)
	}
	old := s.lookup(c.db, a[0])
	if (nx && old != nil) || (xx && old == nil) {
		return NilBulk()
	}
	o := newString(a[1])
	if keepttl && old != nil {
		o.e.ExpireAt = old.e.ExpireAt
	}
	if expire != 0 {
		o.e.ExpireAt = s.now() + expire
	}
	s.store(c.db, a[0], o)
	return OK()
}

func cmdGet(s *Server, c *client, a [][]byte) Reply {
	o, ok := s.lookupKind(c.db, a[0], "string")
	if !ok {
		return Err(msgWrongType)
	}
	if o == nil {
		return NilBulk()
	}
	return Bulk(dup(o.e.Val.Str))
}

func cmdSetNX(s *Server, c *client, a [][]byte) Reply {
	if s.lookup(c.db, a[0]) != nil {
		return Int(0)
	}
	s.store(c.db, a[0], newString(a[1]))
	return Int(1)
}

func setexGeneric(s *Server, c *client, a [][]byte, unit int64, name string) Reply {
	v, ok := parseInt(a[1])
	if !ok {
		return Err(msgNotInt)
	}
	if v <= 0 {
		return Err("ERR invalid expire time in " + name)
	}
	o := newString(a[2])
	o.e.ExpireAt = s.now() + v*unit
	s.store(c.db, a[0], o)
	return OK()
}

func cmdGetSet(s *Server, c *client, a [][]byte) Reply {
	o, ok := s.lookupKind(c.db, a[0], "string")
	if !ok {
		return Err(msgWrongType)
	}
	r := NilBulk()
	if o != nil {
		r = Bulk(dup(o.e.Val.Str))
	}
	s.store(c.db, a[0], newString(a[1]))
	return r
}

func cmdAppend(s *Server, c *client, a [][]byte) Reply {
	o, ok := s.lookupKind(c.db, a[0], "string")
	if !ok {
		return Err(msgWrongType)
	}
	if o == nil {
		o = newString(a[1])
		s.store(c.db, a[0], o)
	} else {
		o.e.Val.Str = append(o.e.Val.Str, a[1]...)
	}
	return Int(int64(len(o.e.Val.Str)))
}

func cmdStrlen(s *Server, c *client, a [][]byte) Reply {
	o, ok := s.lookupKind(c.db, a[0], "string")
	if !ok {
		return Err(msgWrongType)
	}
	if o == nil {
		return Int(0)
	}
	return Int(int64(len(o.e.Val.Str)))
}

func incrGeneric(s *Server, c *client, key []byte, incr int64) Reply {
	o, ok := s.lookupKind(c.db, key, "string")
	if !ok {
		return Err(msgWrongType)
	}
	var cur int64
	if o != nil {
		cur, ok = parseInt(o.e.Val.Str)
		if !ok {
			return Err(msgNotInt)
		}
	}
	if (incr < 0 && cur < 0 && incr < math.MinInt64-cur) || (incr > 0 && cur > 0 && incr > math.MaxInt64-cur) {
		return Err(msgOverflow)
	}
	cur += incr
	v := []byte(strconv.FormatInt(cur, 10))
	if o == nil {
		s.store(c.db, key, newString(v))
	} else {
		o.e.Val.Str = v
	}
	return Int(cur)
}

func cmdIncrBy(s *Server, c *client, a [][]byte) Reply {
	n, ok := parseInt(a[1])
	if !ok {
		return Err(msgNotInt)
	}
	return incrGeneric(s, c, a[0], n)
}

func cmdDecrBy(s *Server, c *client, a [][]byte) Reply {
	n, ok := parseInt(a[1])
	if !ok {
		return Err(msgNotInt)
	}
	if n == math.MinInt64 {
		return Err("ERR decrement would overflow")
	}
	return incrGeneric(s, c, a[0], -n)
}

func cmdMSet(s *Server, c *client, a [][]byte) Reply {
	if len(a)%2 != 0 {
		return Err("ERR wrong number of arguments for MSET")
	}
	for i := 0; i < len(a); i += 2 {
		s.store(c.db, a[i], newString(a[i+1]))
	}
	return OK()
}

func cmdMSetNX(s *Server, c *client, a [][]byte) Reply {
	if len(a)%2 != 0 {
		return Err("ERR wrong number of arguments for MSET")
	}
	for i := 0; i < len(a); i += 2 {
		if s.lookup(c.db, a[i]) != nil {
			return Int(0)
		}
	}
	for i := 0; i < len(a); i += 2 {
		s.store(c.db, a[i], newString(a[i+1]))
	}
	return Int(1)
}

func cmdMGet(s *Server, c *client, a [][]byte) Reply {
	elems := make([]Reply, len(a))
	for i, k := range a {
		o := s.lookup(c.db, k)
		if o == nil || o.e.Val.Kind != "string" {
			elems[i] = NilBulk()
		} else {
			elems[i] = Bulk(dup(o.e.Val.Str))
		}
	}
	return Array(elems...)
}

func cmdSetRange(s *Server, c *client, a [][]byte) Reply {
	off, ok := parseInt(a[1])
	if !ok {
		return Err(msgNotInt)
	}
	if off < 0 {
		return Err("ERR offset is out of range")
	}
	o, ok := s.lookupKind(c.db, a[0], "string")
	if !ok {
		return Err(msgWrongType)
	}
	v := a[2]
	if len(v) == 0 {
		if o == nil {
			return Int(0)
		}
		return Int(int64(len(o.e.Val.Str)))
	}
	if off+int64(len(v)) > maxBulkLen {
		return Err("ERR string exceeds maximum allowed size (512MB)")
	}
	if o == nil {
		o = newString(nil)
		s.store(c.db, a[0], o)
	}
	need := int(off) + len(v)
	if len(o.e.Val.Str) < need {
		o.e.Val.Str = append(o.e.Val.Str, make([]byte, need-len(o.e.Val.Str))...)
	}
	copy(o.e.Val.Str[off:], v)
	return Int(int64(len(o.e.Val.Str)))
}

func cmdGetRange(s *Server, c *client, a [][]byte) Reply {
	start, ok1 := parseInt(a[1])
	end, ok2 := parseInt(a[2])
	if !ok1 || !ok2 {
		return Err(msgNotInt)
	}
	o, ok := s.lookupKind(c.db, a[0], "string")
	if !ok {
		return Err(msgWrongType)
	}
	if o == nil {
		return Bulk(nil)
	}
	n := int64(len(o.e.Val.Str))
	if start < 0 && end < 0 && start > end {
		return Bulk(nil)
	}
	if start < 0 {
		start += n
	}
	if end < 0 {
		end += n
	}
	if start < 0 {
		start = 0
	}
	if end < 0 {
		end = 0
	}
	if end >= n {
		end = n - 1
	}
	if n == 0 || start > end {
		return Bulk(nil)
	}
	return Bulk(dup(o.e.Val.Str[start : end+1]))
}

func parseBitOffset(b []byte) (int64, bool) {
	v, ok := parseInt(b)
	if !ok || v < 0 || v>>3 >= maxBulkLen {
		return 0, false
	}
	return v, true
}

func cmdSetBit(s *Server, c *client, a [][]byte) Reply {
	off, ok := parseBitOffset(a[1])
	if !ok {
		return Err("ERR bit offset is not an integer or out of range")
	}
	bit, ok := parseInt(a[2])
	if !ok || (bit != 0 && bit != 1) {
		return Err("ERR bit is not an integer or out of range")
	}
	o, ok := s.lookupKind(c.db, a[0], "string")
	if !ok {
		return Err(msgWrongType)
	}
	if o == nil {
		o = newString(nil)
		s.store(c.db, a[0], o)
	}
	byteIdx := int(off >> 3)
	if len(o.e.Val.Str) <= byteIdx {
		o.e.Val.Str = append(o.e.Val.Str, make([]byte, byteIdx+1-len(o.e.Val.Str))...)
	}
	mask := byte(1) << (7 - uint(off&7))
	old := int64(0)
	if o.e.Val.Str[byteIdx]&mask != 0 {
		old = 1
	}
	if bit == 1 {
		o.e.Val.Str[byteIdx] |= mask
	} else {
		o.e.Val.Str[byteIdx] &^= mask
	}
	return Int(old)
}

func cmdGetBit(s *Server, c *client, a [][]byte) Reply {
	off, ok := parseBitOffset(a[1])
	if !ok {
		return Err("ERR bit offset is not an integer or out of range")
	}
	o, ok := s.lookupKind(c.db, a[0], "string")
	if !ok {
		return Err(msgWrongType)
	}
	if o == nil || int(off>>3) >= len(o.e.Val.Str) {
		return Int(0)
	}
	if o.e.Val.Str[off>>3]&(byte(1)<<(7-uint(off&7))) != 0 {
		return Int(1)
	}
	return Int(0)
}
