package mredis

import (
	"crypto/sha1"
	"encoding/hex"
	"fmt"
	"strconv"
	"strings"

	"verif/harness/rdbref"
)

// ---------------------------------------------------------------------------------------
// DUMP / RESTORE

// The rdbref calls are wrapped so that a panic in the reference implementation (or the
// not-yet-replaced stubs) surfaces as an error reply instead of killing the process with the
// server lock held.

func safeParseDump(p []byte) (typ byte, body []byte, ver uint16, err error) {
	defer func() {
		if r := recover(); r != nil {
			err = fmt.Errorf("rdbref.ParseDump panic: %v", r)
		}
	}()
	return rdbref.ParseDump(p)
}

func safeDecode(typ byte, body []byte) (v rdbref.Value, n int, err error) {
	defer func() {
		if r := recover(); r != nil {
			err = fmt.Errorf("rdbref.DecodeValue panic: %v", r)
		}
	}()
	return rdbref.DecodeValue(typ, body)
}

func safeDump(v rdbref.Value, typ byte, ver uint16) (out []byte, err error) {
	defer func() {
		if r := recover(); r != nil {
			err = fmt.Errorf("rdbref panic: %v", r)
		}
	}()
	if v.Kind == "stream" {
		return rdbref.Dump(rdbref.TStream, v.Stream, ver), nil
	}
	t, body, err := rdbref.EncodeValue(v, rdbref.Enc{Type: typ})
	if err != nil {
		return nil, err
	}
	return rdbref.Dump(t, body, ver), nil
}

func isPanicErr(err error) bool { return err != nil && strings.Contains(err.Error(), "panic") }

func (s *Server) plainType(kind string) byte {
	switch kind {
	case "string":
		return rdbref.TString
	case "list":
		return rdbref.TList
	case "set":
		return rdbref.TSet
	case "zset":
		if s.majorVersion() < 4 {
			return rdbref.TZSet
		}
		return rdbref.TZSet2
	case "hash":
		return rdbref.THash
	}
	return rdbref.TStream
}

func cmdDump(s *Server, c *client, a [][]byte) Reply {
	o := s.lookup(c.db, a[0])
	if o == nil {
		return NilBulk()
	}
	p, err := safeDump(o.e.Val, s.plainType(o.e.Val.Kind), s.opt.MaxDumpVersion)
	if err != nil {
		return Err("ERR mredis internal: DUMP failed: " + err.Error())
	}
	return Bulk(p)
}

func cmdRestore(s *Server, c *client, a [][]byte) Reply {
	var replace, absttl bool
	idle, freq := int64(-1), int64(-1)
	for j := 3; j < len(a); j++ {
		more := len(a) - j - 1
		switch {
		case eqFold(a[j], "REPLACE"):
			if s.opt.NoReplace {
				return Err(msgSyntax)
			}
			replace = true
		case eqFold(a[j], "ABSTTL") && !s.opt.NoIdleFreq:
			absttl = true
		case eqFold(a[j], "IDLETIME") && more >= 1 && freq == -1 && !s.opt.NoIdleFreq:
			v, ok := parseInt(a[j+1])
			if !ok {
				return Err(msgNotInt)
			}
			if v < 0 {
				return Err("ERR Invalid IDLETIME value, must be >= 0")
			}
			idle = v
			j++
		case eqFold(a[j], "FREQ") && more >= 1 && idle == -1 && !s.opt.NoIdleFreq:
			v, ok := parseInt(a[j+1])
			if !ok {
				return Err(msgNotInt)
			}
			if v < 0 || v > 255 {
				return Err("ERR Invalid FREQ value, must be >= 0 and <= 255")
			}
			freq = v
			j++
		default:
			return Err(msgSyntax)
		}
	}
	if !replace && s.lookup(c.db, a[0]) != nil {
		return Err(s.opt.BusyText)
	}
	ttl, ok := parseInt(a[1])
	if !ok {
		return Err(msgNotInt)
	}
	if ttl < 0 {
		return Err("ERR Invalid TTL value, must be >= 0")
	}
	const badPayload = "ERR DUMP payload version or checksum are wrong"
	const badData = "ERR Bad data format"
	typ, body, ver, err := safeParseDump(a[2])
	if isPanicErr(err) {
		return Err("ERR mredis internal: " + err.Error())
	}
	if err != nil || ver > s.opt.MaxDumpVersion {
		return Err(badPayload)
	}
	if s.opt.RejectTypes[typ] {
		return Err(badData)
	}
	v, n, err := safeDecode(typ, body)
	if isPanicErr(err) {
		return Err("ERR mredis internal: " + err.Error())
	}
	if err != nil || n != len(body) {
		return Err(badData)
	}
	if typ == rdbref.TStream {
		// streams are stored opaquely whatever the reference materialises
		v = rdbref.Value{Kind: "stream", Stream: dup(body)}
	}
	if replace {
		s.remove(c.db, a[0])
	}
	o := &obj{e: Entry{Val: copyValue(v)}}
	if ttl != 0 {
		if absttl {
			o.e.ExpireAt = ttl
		} else {
			o.e.ExpireAt = s.now() + ttl
		}
	}
	if idle >= 0 {
		o.e.Idle = idle
	}
	if freq >= 0 {
		o.e.Freq = freq
	}
	s.store(c.db, a[0], o)
	return OK()
}

// ---------------------------------------------------------------------------------------
// SCAN

func cmdScan(s *Server, c *client, a [][]byte) Reply {
	if s.scanScript != nil {
		if next, keys, handled := s.scanScript(c.db, string(a[0]), a[1:]); handled {
			return Array(BulkString(next), bulks(keys))
		}
	}
	cur, err := strconv.ParseUint(string(a[0]), 10, 64)
	if err != nil {
		return Err("ERR invalid cursor")
	}
	count := int64(10)
	var pattern []byte
	for i := 1; i < len(a); i += 2 {
		if i+1 >= len(a) {
			return Err(msgSyntax)
		}
		switch {
		case eqFold(a[i], "COUNT"):
			v, ok := parseInt(a[i+1])
			if !ok {
				return Err(msgNotInt)
			}
			if v < 1 {
				return Err(msgSyntax)
			}
			count = v
		case eqFold(a[i], "MATCH"):
			pattern = a[i+1]
		default:
			return Err(msgSyntax)
		}
	}
	keys := s.liveKeys(c.db)
	var out [][]byte
	i := cur
	for n := int64(0); i < uint64(len(keys)) && n < count; i, n = i+1, n+1 {
		k := []byte(keys[i])
		if pattern == nil || globMatch(pattern, k) {
			out = append(out, k)
		}
	}
	next := "0"
	if i < uint64(len(keys)) {
		next = strconv.FormatUint(i, 10)
	}
	return Array(BulkString(next), bulks(out))
}

// ---------------------------------------------------------------------------------------
// scripting

func cmdScript(s *Server, c *client, a [][]byte) Reply {
	switch strings.ToUpper(string(a[0])) {
	case "LOAD":
		if len(a) != 2 {
			break
		}
		sum := sha1.Sum(a[1])
		h := hex.EncodeToString(sum[:])
		s.scripts = append(s.scripts, dup(a[1]))
		s.scriptSHAs[h] = true
		return BulkString(h)
	case "EXISTS":
		if len(a) < 2 {
			break
		}
		elems := make([]Reply, len(a)-1)
		for i, h := range a[1:] {
			if s.scriptSHAs[strings.ToLower(string(h))] {
				elems[i] = Int(1)
			} else {
				elems[i] = Int(0)
			}
		}
		return Array(elems...)
	case "FLUSH":
		if len(a) != 1 {
			break
		}
		s.scriptSHAs = map[string]bool{}
		return OK()
	case "KILL":
		if len(a) != 1 {
			break
		}
		return Err("NOTBUSY No scripts in execution right now.")
	}
	return Err("ERR Unknown subcommand or wrong number of arguments for '" + string(a[0]) + "'. Try SCRIPT HELP.")
}

func evalCheckNumKeys(a [][]byte) (Reply, bool) {
	n, ok := parseInt(a[1])
	if !ok {
		return Err(msgNotInt), false
	}
	if n > int64(len(a)-2) {
		return Err("ERR Number of keys can't be greater than number of args"), false
	}
	if n < 0 {
		return Err("ERR Number of keys can't be negative"), false
	}
	return Reply{}, true
}

func cmdEval(s *Server, c *client, a [][]byte) Reply {
	if r, ok := evalCheckNumKeys(a); !ok {
		return r
	}
	sum := sha1.Sum(a[0])
	s.scriptSHAs[hex.EncodeToString(sum[:])] = true
	return NilBulk()
}

func cmdEvalSha(s *Server, c *client, a [][]byte) Reply {
	if r, ok := evalCheckNumKeys(a); !ok {
		return r
	}
	return NilBulk()
}

// ---------------------------------------------------------------------------------------
// glob matching (port of Redis' stringmatchlen, case sensitive)

func globMatch(p, s []byte) bool {
	for len(p) > 0 {
		switch p[0] {
		case '*':
			for len(p) > 1 && p[1] == '*' {
				p = p[1:]
			}
			if len(p) == 1 {
				return true
			}
			for i := 0; i <= len(s); i++ {
				if globMatch(p[1:], s[i:]) {
					return true
				}
			}
			return false
		case '?':
			if len(s) == 0 {
				return false
			}
			s = s[1:]
		case '[':
			if len(s) == 0 {
				return false
			}
			p = p[1:]
			not := len(p) > 0 && p[0] == '^'
			if not {
				p = p[1:]
			}
			match := false
			for {
				if len(p) >= 2 && p[0] == '\\' {
					p = p[1:]
					if p[0] == s[0] {
						match = true
					}
				} else if len(p) == 0 {
					break
				} else if p[0] == ']' {
					break
				} else if len(p) >= 3 && p[1] == '-' {
					lo, hi := p[0], p[2]
					if lo > hi {
						lo, hi = hi, lo
					}
					p = p[2:]
					if s[0] >= lo && s[0] <= hi {
						match = true
					}
				} else if p[0] == s[0] {
					match = true
				}
				p = p[1:]
			}
			if not {
				match = !match
			}
			if !match {
				return false
			}
			s = s[1:]
			if len(p) == 0 {
				// unterminated class: Redis steps back onto the last pattern byte; we are done
				return len(s) == 0
			}
		case '\\':
			if len(p) >= 2 {
				p = p[1:]
			}
			fallthrough
		default:
			if len(s) == 0 || p[0] != s[0] {
				return false
			}
			s = s[1:]
		}
		p = p[1:]
		if len(s) == 0 {
			for len(p) > 0 && p[0] == '*' {
				p = p[1:]
			}
			break
		}
	}
	return len(p) == 0 && len(s) == 0
}
