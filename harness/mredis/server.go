package mredis

import (
	"bufio"
	"net"
	"sort"
	"strconv"
	"strings"
	"sync"
	"time"

	"verif/harness/rdbref"
)

// Options selects the personality of the modelled server.
type Options struct {
	Version        string        // INFO server -> redis_version:<Version>  (default "5.0.7")
	Databases      int           // default 16
	Password       string        // if non-empty every connection must AUTH first
	NoReplace      bool          // RESTORE ... REPLACE => "-ERR syntax error" (servers < 3.0)
	BusyText       string        // RESTORE on an existing key without REPLACE; default "BUSYKEY Target key name already exists."
	RejectTypes    map[byte]bool // RESTORE of a payload whose RDB type byte is in this set => "-ERR Bad data format"
	MaxDumpVersion uint16        // RESTORE of a payload with a newer trailer version is refused; also the version DUMP emits (default 9)
	NoIdleFreq     bool          // RESTORE with IDLETIME/FREQ => "-ERR syntax error" (servers < 5.0)
	Now            func() int64  // current time in ms; default wall clock
	Role           string        // INFO replication role: "master" (default) or "slave"
	RunID          string        // INFO server run_id (default 40 x 'a')
}

// Entry is one key's state.
type Entry struct {
	Val      rdbref.Value
	ExpireAt int64 // absolute ms, 0 = no expiry
	Idle     int64 // as given by RESTORE ... IDLETIME, else 0
	Freq     int64 // as given by RESTORE ... FREQ, else 0
}

// LogEntry records one command seen by the server.
type LogEntry struct {
	Seq    int64    // global sequence number assigned under the server lock
	Conn   int      // connection id (1,2,3.. in accept order)
	DB     int      // db selected on that connection when the command ran (or was queued)
	Cmd    string   // upper-cased command name
	Args   [][]byte // arguments after the name, exact bytes (shared with the log: treat as read-only)
	Queued bool     // queued inside MULTI (reply +QUEUED); effects happen at EXEC
	InExec bool     // actual execution of a queued command during EXEC
	Err    string   // error reply text if the reply was an error, else ""
}

// HookResult is what a command hook returns.
type HookResult struct {
	Override *Reply // if non-nil: sent as the reply, the command is NOT executed (nor queued, nor logged)
	DropConn bool   // close the connection without replying
}

// obj is the internal representation of a key: the exported Entry plus a lazily built
// member index (set members / hash fields / zset members -> position in the slice).
type obj struct {
	e   Entry
	idx map[string]int
}

type queuedCmd struct {
	name string
	args [][]byte
}

type client struct {
	id      int
	nc      net.Conn
	db      int
	authed  bool
	inMulti bool
	dirty   bool
	queue   []queuedCmd
	dead    bool
}

// Server is the modelled Redis server.  All state lives under one mutex so every command
// (and every EXEC) is atomic.
type Server struct {
	mu   sync.Mutex
	opt  Options
	dbs  []map[string]*obj
	log  []LogEntry
	seq  int64
	ln   net.Listener
	addr string
	port int

	conns    map[*client]struct{}
	nextConn int
	closed   bool
	acceptWG sync.WaitGroup

	scripts    [][]byte
	scriptSHAs map[string]bool

	hook       func(conn, db int, cmd string, args [][]byte) HookResult
	afterHook  func(e LogEntry)
	scanScript func(db int, cursor string, args [][]byte) (next string, keys [][]byte, handled bool)
}

// New creates a server (not yet listening).
func New(o Options) *Server {
	if o.Version == "" {
		o.Version = "5.0.7"
	}
	if o.Databases <= 0 {
		o.Databases = 16
	}
	if o.BusyText == "" {
		o.BusyText = "BUSYKEY Target key name already exists."
	}
	if o.MaxDumpVersion == 0 {
		o.MaxDumpVersion = 9
	}
	if o.Now == nil {
		o.Now = func() int64 { return time.Now().UnixNano() / int64(time.Millisecond) }
	}
	if o.Role == "" {
		o.Role = "master"
	}
	if o.RunID == "" {
		o.RunID = strings.Repeat("a", 40)
	}
	if o.RejectTypes != nil {
		m := make(map[byte]bool, len(o.RejectTypes))
		for k, v := range o.RejectTypes {
			m[k] = v
		}
		o.RejectTypes = m
	}
	s := &Server{opt: o, conns: map[*client]struct{}{}, scriptSHAs: map[string]bool{}}
	s.dbs = make([]map[string]*obj, o.Databases)
	for i := range s.dbs {
		s.dbs[i] = map[string]*obj{}
	}
	return s
}

// Listen binds 127.0.0.1:0 and starts the accept loop.
func (s *Server) Listen() (string, error) {
	s.mu.Lock()
	if s.ln != nil && !s.closed {
		addr := s.addr
		s.mu.Unlock()
		return addr, nil // already listening
	}
	s.mu.Unlock()
	ln, err := net.Listen("tcp", "127.0.0.1:0")
	if err != nil {
		return "", err
	}
	s.mu.Lock()
	s.ln = ln
	s.closed = false
	s.addr = ln.Addr().String()
	if ta, ok := ln.Addr().(*net.TCPAddr); ok {
		s.port = ta.Port
	}
	addr := s.addr
	s.acceptWG.Add(1)
	s.mu.Unlock()
	go s.acceptLoop(ln)
	return addr, nil
}

// Addr is the listening address ("" before Listen).
func (s *Server) Addr() string {
	s.mu.Lock()
	defer s.mu.Unlock()
	return s.addr
}

func (s *Server) acceptLoop(ln net.Listener) {
	defer s.acceptWG.Done()
	for {
		nc, err := ln.Accept()
		if err != nil {
			s.mu.Lock()
			closed := s.closed || s.ln != ln
			s.mu.Unlock()
			if closed {
				return
			}
			if ne, ok := err.(net.Error); ok && ne.Temporary() {
				time.Sleep(5 * time.Millisecond)
				continue
			}
			return
		}
		s.mu.Lock()
		if s.closed {
			s.mu.Unlock()
			nc.Close()
			return
		}
		s.nextConn++
		c := &client{id: s.nextConn, nc: nc}
		s.conns[c] = struct{}{}
		s.mu.Unlock()
		go s.serve(c)
	}
}

// Close stops listening and closes every connection.
func (s *Server) Close() {
	s.mu.Lock()
	s.closed = true
	ln := s.ln
	s.killLocked()
	s.mu.Unlock()
	if ln != nil {
		ln.Close()
	}
	s.acceptWG.Wait()
}

// KillConns closes all current client connections but keeps listening.  No command of a
// killed connection executes after KillConns returns.
func (s *Server) KillConns() {
	s.mu.Lock()
	s.killLocked()
	s.mu.Unlock()
}

func (s *Server) killLocked() {
	for c := range s.conns {
		c.dead = true
		c.inMulti, c.dirty, c.queue = false, false, nil
		c.nc.Close()
		delete(s.conns, c)
	}
}

// ConnCount is the number of currently open client connections.
func (s *Server) ConnCount() int {
	s.mu.Lock()
	defer s.mu.Unlock()
	return len(s.conns)
}

// Log returns a copy of the command log (Args are shared; treat them as read-only).
func (s *Server) Log() []LogEntry {
	s.mu.Lock()
	defer s.mu.Unlock()
	out := make([]LogEntry, len(s.log))
	copy(out, s.log)
	return out
}

// ResetLog empties the command log (sequence numbers keep increasing).
func (s *Server) ResetLog() {
	s.mu.Lock()
	s.log = nil
	s.mu.Unlock()
}

// Scripts returns the bodies given to SCRIPT LOAD, in order.
func (s *Server) Scripts() [][]byte {
	s.mu.Lock()
	defer s.mu.Unlock()
	out := make([][]byte, len(s.scripts))
	for i, b := range s.scripts {
		out[i] = dup(b)
	}
	return out
}

// SetHook installs the pre-execution hook.  It is called WITHOUT the server lock held, before
// a command is executed or queued (at queue time for commands inside MULTI, not again at
// EXEC).  It may block.
func (s *Server) SetHook(h func(conn, db int, cmd string, args [][]byte) HookResult) {
	s.mu.Lock()
	s.hook = h
	s.mu.Unlock()
}

// SetAfterHook installs a hook called with the server lock HELD right after every log entry
// is appended (in Seq order; for EXEC: the EXEC entry first, then each InExec entry right
// after that queued command ran).  It must not call back into the Server.
func (s *Server) SetAfterHook(h func(e LogEntry)) {
	s.mu.Lock()
	s.afterHook = h
	s.mu.Unlock()
}

// SetScanScript installs a scripted SCAN: if f returns handled=true, SCAN replies with
// (next, keys).  args are the SCAN arguments following the cursor.  f runs under the server lock.
func (s *Server) SetScanScript(f func(db int, cursor string, args [][]byte) (next string, keys [][]byte, handled bool)) {
	s.mu.Lock()
	s.scanScript = f
	s.mu.Unlock()
}

// Snapshot is a deep copy of the non-expired keys per db (only non-empty dbs).
func (s *Server) Snapshot() map[int]map[string]Entry {
	s.mu.Lock()
	defer s.mu.Unlock()
	now := s.opt.Now()
	out := map[int]map[string]Entry{}
	for i, db := range s.dbs {
		for k, o := range db {
			if o.e.ExpireAt != 0 && o.e.ExpireAt <= now {
				continue
			}
			m := out[i]
			if m == nil {
				m = map[string]Entry{}
				out[i] = m
			}
			m[k] = copyEntry(o.e)
		}
	}
	return out
}

// SetRole changes what INFO replication reports ("master" / "slave"): a fail-over.
func (s *Server) SetRole(role string) {
	s.mu.Lock()
	s.opt.Role = role
	s.mu.Unlock()
}

// Put installs state directly (deep copied).  It panics if db is out of range.
func (s *Server) Put(db int, key string, e Entry) {
	s.mu.Lock()
	defer s.mu.Unlock()
	if db < 0 || db >= len(s.dbs) {
		panic("mredis: Put: db index out of range: " + strconv.Itoa(db))
	}
	s.dbs[db][key] = &obj{e: copyEntry(e)}
}

// Delete removes a key directly.
func (s *Server) Delete(db int, key string) {
	s.mu.Lock()
	defer s.mu.Unlock()
	if db < 0 || db >= len(s.dbs) {
		return
	}
	delete(s.dbs[db], key)
}

func dup(b []byte) []byte {
	out := make([]byte, len(b))
	copy(out, b)
	return out
}

func dupList(l [][]byte) [][]byte {
	if l == nil {
		return nil
	}
	out := make([][]byte, len(l))
	for i, b := range l {
		out[i] = dup(b)
	}
	return out
}

func copyValue(v rdbref.Value) rdbref.Value {
	out := rdbref.Value{Kind: v.Kind}
	if v.Str != nil {
		out.Str = dup(v.Str)
	}
	out.List = dupList(v.List)
	out.Set = dupList(v.Set)
	if v.ZSet != nil {
		out.ZSet = make([]rdbref.ZM, len(v.ZSet))
		for i, m := range v.ZSet {
			out.ZSet[i] = rdbref.ZM{Member: dup(m.Member), Score: m.Score}
		}
	}
	if v.Hash != nil {
		out.Hash = make([]rdbref.HF, len(v.Hash))
		for i, f := range v.Hash {
			out.Hash[i] = rdbref.HF{Field: dup(f.Field), Value: dup(f.Value)}
		}
	}
	if v.Stream != nil {
		out.Stream = dup(v.Stream)
	}
	return out
}

func copyEntry(e Entry) Entry {
	e.Val = copyValue(e.Val)
	return e
}

// ---------------------------------------------------------------------------------------
// connection handling

func (s *Server) getHook() func(conn, db int, cmd string, args [][]byte) HookResult {
	s.mu.Lock()
	h := s.hook
	s.mu.Unlock()
	return h
}

func (s *Server) dropClient(c *client) {
	s.mu.Lock()
	c.dead = true
	c.inMulti, c.dirty, c.queue = false, false, nil
	delete(s.conns, c)
	s.mu.Unlock()
	c.nc.Close()
}

func (s *Server) serve(c *client) {
	defer s.dropClient(c)
	br := bufio.NewReaderSize(c.nc, 64<<10)
	bw := bufio.NewWriterSize(c.nc, 64<<10)
	var out []byte
	for {
		if br.Buffered() == 0 {
			if bw.Flush() != nil {
				return
			}
		}
		args, _, err := ReadCommand(br)
		if err != nil {
			if pe, ok := err.(*ProtocolError); ok {
				bw.Write(Err("ERR Protocol error: " + pe.Msg).Bytes())
				bw.Flush()
			}
			return
		}
		if len(args) == 0 {
			continue
		}
		name := strings.ToUpper(string(args[0]))
		if h := s.getHook(); h != nil {
			// replies to earlier pipelined commands must be visible before we may block
			if bw.Flush() != nil {
				return
			}
			// c.db is only ever written by this goroutine, so this read is race free
			res := h(c.id, c.db, name, args[1:])
			if res.DropConn {
				return
			}
			if res.Override != nil {
				out = res.Override.AppendTo(out[:0])
				if _, err := bw.Write(out); err != nil {
					return
				}
				continue
			}
		}
		s.mu.Lock()
		if c.dead {
			s.mu.Unlock()
			return
		}
		r, quit := s.process(c, name, args)
		s.mu.Unlock()
		out = r.AppendTo(out[:0])
		if _, err := bw.Write(out); err != nil {
			return
		}
		if quit {
			bw.Flush()
			return
		}
	}
}

func (s *Server) appendLog(c *client, db int, name string, args [][]byte, queued, inExec bool, r Reply) {
	s.seq++
	e := LogEntry{Seq: s.seq, Conn: c.id, DB: db, Cmd: name, Args: args, Queued: queued, InExec: inExec}
	if r.Kind == '-' {
		e.Err = string(r.Str)
	}
	s.log = append(s.log, e)
	if s.afterHook != nil {
		s.afterHook(e)
	}
}

func arityOK(arity, argc int) bool {
	if arity > 0 {
		return arity == argc
	}
	return argc >= -arity
}

// process runs (or queues) one command under the server lock.  full[0] is the name as typed.
func (s *Server) process(c *client, name string, full [][]byte) (Reply, bool) {
	args := full[1:]
	db := c.db
	fail := func(r Reply) (Reply, bool) {
		if c.inMulti {
			c.dirty = true
		}
		s.appendLog(c, db, name, args, false, false, r)
		return r, false
	}
	def, ok := commands[name]
	if !ok {
		if s.majorVersion() >= 5 {
			// Redis >= 5 echoes the arguments of a command it does not know (at most 128 bytes of them)
			echo := ""
			for _, a := range args {
				if rem := 128 - len(echo); rem > 0 {
					t := "`" + string(a) + "`, "
					if len(t) > rem {
						t = t[:rem]
					}
					echo += t
				}
			}
			return fail(Err("ERR unknown command `" + string(full[0]) + "`, with args beginning with: " + echo))
		}
		return fail(Err("ERR unknown command '" + string(full[0]) + "'"))
	}
	if !arityOK(def.arity, len(full)) {
		return fail(Err("ERR wrong number of arguments for '" + strings.ToLower(name) + "' command"))
	}
	if s.opt.Password != "" && !c.authed && name != "AUTH" {
		return fail(Err("NOAUTH Authentication required."))
	}
	if c.inMulti && name != "EXEC" && name != "DISCARD" && name != "MULTI" && name != "WATCH" {
		c.queue = append(c.queue, queuedCmd{name, args})
		r := Simple("QUEUED")
		s.appendLog(c, db, name, args, true, false, r)
		return r, false
	}
	switch name {
	case "EXEC":
		return s.exec(c), false
	case "QUIT":
		r := OK()
		s.appendLog(c, db, name, args, false, false, r)
		return r, true
	}
	r := def.fn(s, c, args)
	s.appendLog(c, db, name, args, false, false, r)
	return r, false
}

func (s *Server) exec(c *client) Reply {
	db := c.db
	if !c.inMulti {
		r := Err("ERR EXEC without MULTI")
		s.appendLog(c, db, "EXEC", nil, false, false, r)
		return r
	}
	queue := c.queue
	dirty := c.dirty
	c.inMulti, c.dirty, c.queue = false, false, nil
	if dirty {
		r := Err("EXECABORT Transaction discarded because of previous errors.")
		s.appendLog(c, db, "EXEC", nil, false, false, r)
		return r
	}
	s.appendLog(c, db, "EXEC", nil, false, false, Reply{Kind: '*'})
	elems := make([]Reply, 0, len(queue))
	for _, q := range queue {
		qdb := c.db
		var r Reply
		if q.name == "QUIT" {
			r = OK()
		} else {
			r = commands[q.name].fn(s, c, q.args)
		}
		s.appendLog(c, qdb, q.name, q.args, false, true, r)
		elems = append(elems, r)
	}
	return Array(elems...)
}

// ---------------------------------------------------------------------------------------
// keyspace helpers (all called with the lock held)

func (s *Server) now() int64 { return s.opt.Now() }

// lookup returns the live object at key or nil; expired keys are deleted on access.
func (s *Server) lookup(db int, key []byte) *obj {
	o := s.dbs[db][string(key)]
	if o == nil {
		return nil
	}
	if o.e.ExpireAt != 0 && o.e.ExpireAt <= s.now() {
		delete(s.dbs[db], string(key))
		return nil
	}
	return o
}

// lookupKind returns (obj, true) if the key is absent (obj nil) or of the given kind, and
// (nil, false) on a type mismatch.
func (s *Server) lookupKind(db int, key []byte, kind string) (*obj, bool) {
	o := s.lookup(db, key)
	if o == nil {
		return nil, true
	}
	if o.e.Val.Kind != kind {
		return nil, false
	}
	return o, true
}

func (s *Server) store(db int, key []byte, o *obj) { s.dbs[db][string(key)] = o }

func (s *Server) remove(db int, key []byte) bool {
	if s.lookup(db, key) == nil {
		return false
	}
	delete(s.dbs[db], string(key))
	return true
}

// liveKeys returns the sorted non-expired keys of db (expired ones are purged).
func (s *Server) liveKeys(db int) []string {
	now := s.now()
	keys := make([]string, 0, len(s.dbs[db]))
	for k, o := range s.dbs[db] {
		if o.e.ExpireAt != 0 && o.e.ExpireAt <= now {
			delete(s.dbs[db], k)
			continue
		}
		keys = append(keys, k)
	}
	sort.Strings(keys)
	return keys
}

func (s *Server) majorVersion() int {
	v := s.opt.Version
	if i := strings.IndexByte(v, '.'); i >= 0 {
		v = v[:i]
	}
	n, err := strconv.Atoi(v)
	if err != nil {
		return 5
	}
	return n
}

// AcceptedConns is the number of connections accepted so far; the next connection gets id AcceptedConns()+1.
func (s *Server) AcceptedConns() int {
	s.mu.Lock()
	defer s.mu.Unlock()
	return int(s.nextConn)
}
