// Package fakesrc is a scripted Redis replication source (master) over loopback TCP: it answers
// AUTH / REPLCONF / SYNC / PSYNC with a scripted reply (keep-alive newlines, +FULLRESYNC or
// +CONTINUE in any letter case, $<n>, n RDB bytes, the command stream), written in scripted
// fragments with pauses, records every REPLCONF ACK and PSYNC it receives together with its
// own count of stream bytes sent, and can drop the connection at scripted stream positions.
package fakesrc

import (
	"bufio"
	"fmt"
	"net"
	"strconv"
	"strings"
	"sync"
	"time"
)

type Script struct {
	RunID           string
	Offset          int64 // replication offset announced with +FULLRESYNC (stream byte i has offset Offset+i, i from 1)
	PreNewlines     int   // '\n' keep-alives before the +FULLRESYNC / +CONTINUE line
	MidNewlines     int   // '\n' keep-alives between the status line and $<n>
	StatusCase      int   // 0 upper, 1 lower, 2 mixed
	RDB             []byte
	Stream          []byte
	Frags           []int // write sizes, cycled; a 0 entry is a pause of PauseUs
	PauseUs         int
	DropAt          []int // drop the connection right after this many stream bytes (cumulative, ascending)
	RefuseNext      int   // answer the next N PSYNC attempts after a drop with -LOADING
	IdleAt          []int // after this many stream bytes stay idle for IdleMs before continuing
	IdleMs          int
	EOFAfter        bool // close the connection after the whole stream has been sent
	RefuseFirst     int  // answer the first N PSYNC attempts of all with -LOADING
	ContinueDelayMs int  // after +CONTINUE stay silent this long before the first stream byte
	// RdbGate (when not nil): every full resynchronisation stops after RdbGateAt bytes of the RDB until a value can be
	// received from the channel; the events "rdb-start" (before the first RDB byte) and "rdb-end" (before the last
	// part of it is written) are reported.
	RdbGate   chan struct{}
	RdbGateAt int
}

type Event struct {
	Kind  string // "psync", "sync", "sent", "ack", "drop", "conn", "idle"
	Conn  int
	RunID string
	Off   int64 // psync: requested offset; ack: acknowledged offset
	N     int64 // sent: cumulative stream bytes sent so far
}

type Server struct {
	mu      sync.Mutex
	sc      Script
	ln      net.Listener
	sink    func(Event)
	sent    int64 // stream bytes handed to the kernel so far (all connections)
	nconn   int
	dropIdx int
	idleIdx int
	refuse  int
	closed  bool
	conns   []net.Conn
}

func New(sc Script, sink func(Event)) *Server {
	return &Server{sc: sc, sink: sink, refuse: sc.RefuseFirst}
}

func (s *Server) Listen() (string, error) {
	ln, err := net.Listen("tcp", "127.0.0.1:0")
	if err != nil {
		return "", err
	}
	s.ln = ln
	go func() {
		for {
			c, err := ln.Accept()
			if err != nil {
				return
			}
			s.mu.Lock()
			if s.closed {
				// tombstone: the port stays taken (see Close) and late callers are hung up on at once
				s.mu.Unlock()
				c.Close()
				continue
			}
			s.nconn++
			id := s.nconn
			s.conns = append(s.conns, c)
			s.mu.Unlock()
			go s.serve(c, id)
		}
	}()
	return ln.Addr().String(), nil
}

// Close ends the scripted source: every connection is closed and no new one is served.  The listening
// socket itself is kept until the process exits ("tombstone"): the tool's reconnect loop keeps dialling
// the address of a vanished source once per second for ever, and a freed port could be handed to another
// listener of this or another process, which would then receive that stray PSYNC.  A late caller is
// accepted and hung up on, which ends the stray syncer (its handshake aborts).
func (s *Server) Close() {
	s.mu.Lock()
	s.closed = true
	for _, c := range s.conns {
		c.Close()
	}
	s.conns = nil
	s.mu.Unlock()
}

// DropAll hangs up on every connected replica and keeps serving new ones.
func (s *Server) DropAll() {
	s.mu.Lock()
	for _, c := range s.conns {
		c.Close()
	}
	s.conns = nil
	s.mu.Unlock()
}

// Shutdown also releases the port.
func (s *Server) Shutdown() {
	s.Close()
	s.ln.Close()
}

func (s *Server) Sent() int64 { s.mu.Lock(); defer s.mu.Unlock(); return s.sent }

func (s *Server) emit(e Event) {
	if s.sink != nil {
		s.sink(e)
	}
}

func readCommand(br *bufio.Reader) ([]string, error) {
	line, err := br.ReadString('\n')
	if err != nil {
		return nil, err
	}
	line = strings.TrimRight(line, "\r\n")
	if line == "" {
		return []string{}, nil
	}
	if line[0] != '*' {
		return strings.Fields(line), nil
	}
	n, err := strconv.Atoi(line[1:])
	if err != nil {
		return nil, err
	}
	args := make([]string, 0, n)
	for i := 0; i < n; i++ {
		l, err := br.ReadString('\n')
		if err != nil {
			return nil, err
		}
		ln, err := strconv.Atoi(strings.TrimRight(l[1:], "\r\n"))
		if err != nil {
			return nil, err
		}
		buf := make([]byte, ln+2)
		if _, err := readFull(br, buf); err != nil {
			return nil, err
		}
		args = append(args, string(buf[:ln]))
	}
	return args, nil
}

func readFull(br *bufio.Reader, b []byte) (int, error) {
	n := 0
	for n < len(b) {
		m, err := br.Read(b[n:])
		n += m
		if err != nil {
			return n, err
		}
	}
	return n, nil
}

func (s *Server) status(word string) string {
	switch s.sc.StatusCase {
	case 1:
		return strings.ToLower(word)
	case 2:
		b := []byte(strings.ToLower(word))
		for i := 0; i < len(b); i += 2 {
			b[i] = byte(strings.ToUpper(string(b[i]))[0])
		}
		return string(b)
	}
	return strings.ToUpper(word)
}

func (s *Server) serve(c net.Conn, id int) {
	defer c.Close()
	s.emit(Event{Kind: "conn", Conn: id})
	br := bufio.NewReader(c)
	for {
		args, err := readCommand(br)
		if err != nil {
			return
		}
		if len(args) == 0 {
			continue
		}
		switch strings.ToLower(args[0]) {
		case "auth", "replconf":
			if len(args) >= 3 && strings.ToLower(args[1]) == "ack" {
				off, _ := strconv.ParseInt(args[2], 10, 64)
				s.emit(Event{Kind: "ack", Conn: id, Off: off})
				continue
			}
			c.Write([]byte("+OK\r\n"))
		case "ping":
			c.Write([]byte("+PONG\r\n"))
		case "sync":
			s.emit(Event{Kind: "sync", Conn: id})
			go s.acks(br, id)
			s.send(c, id, true, 0, false)
			return
		case "psync":
			off := int64(-1)
			if len(args) >= 3 {
				off, _ = strconv.ParseInt(args[2], 10, 64)
			}
			runid := ""
			if len(args) >= 2 {
				runid = args[1]
			}
			s.emit(Event{Kind: "psync", Conn: id, RunID: runid, Off: off})
			s.mu.Lock()
			refuse := s.refuse > 0
			if refuse {
				s.refuse--
			}
			s.mu.Unlock()
			if refuse {
				s.emit(Event{Kind: "refused", Conn: id})
				c.Write([]byte("-LOADING Redis is loading the dataset in memory\r\n"))
				time.Sleep(5 * time.Millisecond)
				return // and hang up: the replica has to come back with a new connection
			}
			go s.acks(br, id)
			if runid == s.sc.RunID && off > s.sc.Offset && off <= s.sc.Offset+int64(len(s.sc.Stream))+1 {
				s.send(c, id, false, int(off-s.sc.Offset-1), true)
			} else {
				s.send(c, id, true, 0, true)
			}
			return
		default:
			c.Write([]byte("-ERR unknown command\r\n"))
		}
	}
}

// acks keeps reading what the replica sends after the handshake.
func (s *Server) acks(br *bufio.Reader, id int) {
	for {
		args, err := readCommand(br)
		if err != nil {
			return
		}
		if len(args) >= 3 && strings.ToLower(args[0]) == "replconf" && strings.ToLower(args[1]) == "ack" {
			off, _ := strconv.ParseInt(args[2], 10, 64)
			s.emit(Event{Kind: "ack", Conn: id, Off: off})
		}
	}
}

func (s *Server) send(c net.Conn, id int, full bool, from int, psync bool) {
	var head []byte
	for i := 0; i < s.sc.PreNewlines; i++ {
		head = append(head, '\n')
	}
	if psync {
		if full {
			head = append(head, []byte(fmt.Sprintf("+%s %s %d\r\n", s.status("FULLRESYNC"), s.sc.RunID, s.sc.Offset))...)
		} else {
			head = append(head, []byte("+"+s.status("CONTINUE")+"\r\n")...)
		}
	}
	if full {
		for i := 0; i < s.sc.MidNewlines; i++ {
			head = append(head, '\n')
		}
		head = append(head, []byte(fmt.Sprintf("$%d\r\n", len(s.sc.RDB)))...)
		head = append(head, s.sc.RDB...)
	}
	stream := s.sc.Stream[from:]
	if !full && psync && s.sc.ContinueDelayMs > 0 {
		if _, err := c.Write(head); err != nil {
			return
		}
		head = nil
		time.Sleep(time.Duration(s.sc.ContinueDelayMs) * time.Millisecond)
	}
	all := append(append([]byte{}, head...), stream...)
	pos := 0
	fi := 0
	streamStart := len(head)
	gated := full && s.sc.RdbGate != nil
	if gated {
		s.emit(Event{Kind: "rdb-start", Conn: id})
		stop := streamStart - len(s.sc.RDB) + s.sc.RdbGateAt
		if _, err := c.Write(all[:stop]); err != nil {
			return
		}
		pos = stop
		<-s.sc.RdbGate
	}
	for pos < len(all) {
		n := len(all) - pos
		if gated && pos < streamStart {
			// the rest of the RDB in one write of its own; "rdb-end" is reported BEFORE that write: the replica cannot
			// have finished its full synchronisation before the event, whatever the scheduling of the two processes
			s.emit(Event{Kind: "rdb-end", Conn: id})
			if _, err := c.Write(all[pos:streamStart]); err != nil {
				return
			}
			pos = streamStart
			continue
		}
		if len(s.sc.Frags) > 0 {
			f := s.sc.Frags[fi%len(s.sc.Frags)]
			fi++
			if f == 0 {
				time.Sleep(time.Duration(s.sc.PauseUs) * time.Microsecond)
				continue
			}
			if f < n {
				n = f
			}
		}
		// never write past a drop / idle position
		s.mu.Lock()
		abs := from + (pos - streamStart) // stream bytes of this connection already written (may be negative while in the head)
		limit := -1
		if s.dropIdx < len(s.sc.DropAt) {
			limit = s.sc.DropAt[s.dropIdx]
		}
		idle := -1
		if s.idleIdx < len(s.sc.IdleAt) {
			idle = s.sc.IdleAt[s.idleIdx]
		}
		s.mu.Unlock()
		if pos+n > streamStart {
			sb := abs
			if sb < from {
				sb = from
			}
			endAbs := from + (pos + n - streamStart)
			for _, lim := range []int{limit, idle} {
				if lim >= 0 && sb < lim && endAbs > lim {
					n = streamStart + (lim - from) - pos
					endAbs = lim
				}
			}
		}
		if n <= 0 {
			n = 1
		}
		if pos+n > streamStart {
			s.emit(Event{Kind: "sending", Conn: id, N: int64(from + pos + n - streamStart)})
		}
		if _, err := c.Write(all[pos : pos+n]); err != nil {
			return
		}
		pos += n
		if pos > streamStart {
			s.mu.Lock()
			cur := int64(from + pos - streamStart)
			if cur > s.sent {
				s.sent = cur
			}
			sent := s.sent
			s.mu.Unlock()
			s.emit(Event{Kind: "sent", Conn: id, N: sent})
			if idle >= 0 && int(cur) == idle {
				s.mu.Lock()
				s.idleIdx++
				s.mu.Unlock()
				s.emit(Event{Kind: "idle", Conn: id, N: sent})
				time.Sleep(time.Duration(s.sc.IdleMs) * time.Millisecond)
			}
			if limit >= 0 && int(cur) == limit {
				s.mu.Lock()
				s.dropIdx++
				s.refuse = s.sc.RefuseNext
				s.mu.Unlock()
				s.emit(Event{Kind: "drop", Conn: id, N: sent})
				time.Sleep(2 * time.Millisecond)
				return // deferred Close drops the connection
			}
		}
	}
	if s.sc.EOFAfter {
		return
	}
	// stay connected (idle master) until closed
	for {
		s.mu.Lock()
		closed := s.closed
		s.mu.Unlock()
		if closed {
			return
		}
		time.Sleep(20 * time.Millisecond)
	}
}
