package main

// C08 (and the end-to-end side of C04): a complete DbSyncer.Sync() between a scripted source
// (fakesrc: bursts, idle periods spanning several ACK ticks, connection drops, refused PSYNC) and
// the model Redis.  Source-side events (bytes sent, ACKs and PSYNCs received), the tool's own
// linearisation events (bytes received, offset acknowledged) and the checkpoint offsets stored
// on the target share one sequence; TLC judges them with OffsetsTrace.tla.

import (
	"bytes"
	"encoding/json"
	"fmt"
	"math/rand"
	"strconv"
	"time"

	"golang.org/x/sync/semaphore"

	utils "github.com/alibaba/RedisShake/redis-shake/common"
	conf "github.com/alibaba/RedisShake/redis-shake/configure"
	"github.com/alibaba/RedisShake/redis-shake/dbSync"
	"github.com/alibaba/RedisShake/redis-shake/dbSync/slot"

	"verif/harness/fakesrc"
	"verif/harness/mredis"
	"verif/harness/rdbref"
	"verif/harness/tracer"
)

type offIn struct {
	Seed     int64  `json:"seed"`
	Start    int64  `json:"start"`
	Commands int    `json:"commands"`
	Idles    []int  `json:"idles"` // command indices after which the source pauses
	IdleMs   int    `json:"idle_ms"`
	Drops    []int  `json:"drops"`     // command indices after which (plus DropSkew bytes) the connection is dropped
	DropSkew int    `json:"drop_skew"` // drop this many bytes INTO the next command (0 = at the boundary)
	Refuse   int    `json:"refuse"`
	Frags    []int  `json:"frags"`
	QuietMs  int    `json:"quiet_ms"`
	Trace    string `json:"trace"`
	BudgetMs int    `json:"budget_ms"`
	AuthType string `json:"auth_type"` // "" = auth; C19 also runs with an auth command the servers do not know
	ResumeAt int    `json:"resume_at"` // > 0: the target already holds a checkpoint at the end of this command
	ResumeDb int    `json:"resume_db"` // the database the stored checkpoint lives in (and the source's stream works in); with it the source stays
	//                                     silent for 1.2 s after +CONTINUE, so that the tool's opening SELECT is flushed on its own
	TargetDB *int `json:"target_db"` // target.db (default -1); with it the stream carries a SELECT every few commands
}

func offRun(in []byte) (interface{}, error) {
	var cfg offIn
	if err := json.Unmarshal(in, &cfg); err != nil {
		return nil, err
	}
	tr, err := tracer.New(cfg.Trace)
	if err != nil {
		return nil, err
	}
	defer tr.Close()
	sink.SetSecrets("src-SECRET-pw", "tgt-SECRET-pw")
	rnd := rand.New(rand.NewSource(cfg.Seed))
	// TLC integers are 32 bit: offsets are reported relative to the announced start offset (computed in
	// int64 here); anything absurdly far from the stream becomes the sentinel -999999
	rel := func(x int64) int64 {
		d := x - cfg.Start
		if d < -100000 || d > 100000000 {
			return -999999
		}
		return d
	}
	// the source's data: a small RDB and a command stream with known command boundaries
	f := rdbref.NewFile(9)
	f.Aux([]byte("redis-ver"), []byte("5.0.7"))
	f.SelectDB(0, rdbref.LenCanonical)
	_, body, _ := rdbref.EncodeValue(rdbref.Value{Kind: "string", Str: []byte("from-rdb")}, rdbref.Enc{Type: rdbref.TString})
	f.Key([]byte("rdbkey"), rdbref.TString, body)
	rdbBytes := f.Finish(true)
	var stream []byte
	var ends []int64
	pushAt := map[int]int{} // rpush number -> index into ends
	add := func(b []byte) {
		stream = append(stream, b...)
		ends = append(ends, cfg.Start+int64(len(stream)))
	}
	add(respCmd("SELECT", strconv.Itoa(cfg.ResumeDb)))
	var selectEnds []int
	for i := 0; i < cfg.Commands; i++ {
		if rnd.Intn(6) == 0 {
			stream = append(stream, '\n')
		}
		if rnd.Intn(7) == 0 {
			add(respCmd("PING"))
		}
		if (cfg.ResumeDb == 0 && rnd.Intn(9) == 0) || (cfg.TargetDB != nil && i%3 == 1) {
			db := rnd.Intn(2)
			add(respCmd("SELECT", strconv.Itoa(db)))
			if cfg.TargetDB != nil && db != *cfg.TargetDB {
				selectEnds = append(selectEnds, len(stream)) // the tool rewrites this one to SELECT <target.db>
			}
		}
		add(respCmd("rpush", "list", strconv.Itoa(i)))
		pushAt[i] = len(ends) - 1
	}
	cmdPos := func(idx int) int { // byte position in the stream right after the idx-th command boundary
		if idx >= len(ends) {
			idx = len(ends) - 1
		}
		return int(ends[idx] - cfg.Start)
	}
	var dropAt, idleAt []int
	for _, d := range cfg.Drops {
		p := cmdPos(d) + cfg.DropSkew
		if p > 0 && p < len(stream) {
			dropAt = append(dropAt, p)
		}
	}
	for _, d := range cfg.Idles {
		p := cmdPos(d)
		if p > 0 && p < len(stream) {
			idleAt = append(idleAt, p)
		}
	}
	if cfg.TargetDB != nil {
		// the source falls silent right after a SELECT (twice): the tool's batch ends with the rewritten SELECT
		idleAt = nil
		for k, p := range selectEnds {
			if (k == 1 || k == 3) && p < len(stream) {
				idleAt = append(idleAt, p)
			}
		}
	}
	runid := "FFeeddccbbaa00112233445566778899aabbCCDD" // (mixed case: an id is an opaque token)
	src := fakesrc.New(fakesrc.Script{RunID: runid, Offset: cfg.Start, RDB: rdbBytes, Stream: stream, Frags: cfg.Frags, PauseUs: 200,
		DropAt: dropAt, RefuseNext: cfg.Refuse, IdleAt: idleAt, IdleMs: cfg.IdleMs, ContinueDelayMs: map[bool]int{true: 1200}[cfg.ResumeDb != 0]}, func(e fakesrc.Event) {
		off := e.Off
		if e.Kind == "ack" && off != 0 || e.Kind == "psync" && off != -1 {
			off = rel(off)
		} else if e.Kind == "psync" {
			off = -1000000 // "psync ? -1": a full resynchronisation is requested
		}
		tr.Emit(tracer.Ev{"e": "src-" + e.Kind, "conn": e.Conn, "off": off, "zero": e.Off == 0, "n": e.N, "runid_ok": e.RunID == runid || e.RunID == "?", "runid_exact": e.RunID == runid})
	})
	srcAddr, err := src.Listen()
	if err != nil {
		return nil, err
	}
	defer src.Close()
	tgt := mredis.New(mredis.Options{Password: "tgt-SECRET-pw"})
	tgtAddr, err := tgt.Listen()
	if err != nil {
		return nil, err
	}
	defer tgt.Close()
	relEnds := []int64{}
	for _, e := range ends {
		relEnds = append(relEnds, rel(e))
	}
	if dropAt == nil {
		dropAt = []int{}
	}
	if idleAt == nil {
		idleAt = []int{}
	}
	pushIdx := make([]int, cfg.Commands) // rpush number i is the (pushIdx[i]+1)-th command of the stream
	for i := 0; i < cfg.Commands; i++ {
		pushIdx[i] = pushAt[i] + 1
	}
	tr.Emit(tracer.Ev{"e": "cfg", "start": 0, "real_start": fmt.Sprint(cfg.Start), "ends": relEnds, "stream_len": len(stream), "drops": dropAt, "idles": idleAt, "refuse": cfg.Refuse,
		"push_idx": pushIdx})
	// every transaction the target executes, on the shared sequence: which pushes it applied and which checkpoint it stored
	// (the hook sees EXEC, then the queued commands one by one; a transaction is reported when the next non-queued command arrives)
	var txPushes []int
	txCkpt, txOpen := int64(-1), false
	flushTx := func() {
		if txOpen {
			if txPushes == nil {
				txPushes = []int{}
			}
			tr.Emit(tracer.Ev{"e": "tgt-exec", "pushes": txPushes, "ckpt": txCkpt})
		}
		txPushes, txCkpt, txOpen = nil, -1, false
	}
	tgt.SetAfterHook(func(e mredis.LogEntry) {
		if e.Queued {
			return
		}
		if !e.InExec {
			flushTx()
		}
		switch {
		case e.Cmd == "EXEC":
			txOpen = true
		case e.Cmd == "RPUSH" && len(e.Args) == 2 && string(e.Args[0]) == "list":
			n, _ := strconv.Atoi(string(e.Args[1]))
			if n < 0 || n >= len(pushIdx) {
				n = -1
			} else {
				n = pushIdx[n]
			}
			if e.InExec {
				txPushes = append(txPushes, n)
			} else {
				tr.Emit(tracer.Ev{"e": "tgt-exec", "pushes": []int{n}, "ckpt": -1}) // a write outside any transaction
			}
		case e.Cmd == "HSET" && e.InExec && len(e.Args) == 3 && bytes.HasSuffix(e.Args[1], []byte("-"+utils.CheckpointOffset)):
			o, _ := strconv.ParseInt(string(e.Args[2]), 10, 64)
			txCkpt = rel(o)
		}
	})
	conf.Options.SourceType, conf.Options.TargetType = "standalone", "standalone"
	conf.Options.SourceAuthType, conf.Options.TargetAuthType = "auth", "auth"
	if cfg.AuthType != "" {
		conf.Options.SourceAuthType, conf.Options.TargetAuthType = cfg.AuthType, cfg.AuthType
	}
	conf.Options.ResumeFromBreakPoint = true
	conf.Options.Parallel = 2
	conf.Options.TargetDB = -1
	if cfg.TargetDB != nil {
		conf.Options.TargetDB = *cfg.TargetDB
	}
	conf.Options.HttpProfile = 9320
	conf.Options.SenderCount = 4
	conf.Options.SenderSize = 1 << 30
	conf.Options.SenderDelayChannelSize = 64
	conf.Options.Metric = false
	conf.Options.Psync = false
	conf.Options.KeyExists = "none"
	conf.Options.BigKeyThreshold = 524288000
	conf.Options.TargetVersion = "5.0"
	conf.Options.Id = "verif"
	dbSync.VerifEvent = func(ds *dbSync.DbSyncer, ev string, n int64) {
		if ev == "ack" {
			n = rel(n)
		}
		tr.Emit(tracer.Ev{"e": "tool-" + ev, "n": n})
	}
	first := 0
	if cfg.ResumeAt > 0 && cfg.ResumeAt < len(ends)-1 {
		first = cfg.ResumeAt
		o := ends[cfg.ResumeAt]
		tgt.Put(cfg.ResumeDb, utils.CheckpointKey, mredis.Entry{Val: rdbref.Value{Kind: "hash", Hash: []rdbref.HF{
			{Field: []byte(srcAddr + "-" + utils.CheckpointRunId), Value: []byte(runid)},
			{Field: []byte(srcAddr + "-" + utils.CheckpointVersion), Value: []byte("1")},
			{Field: []byte(srcAddr + "-" + utils.CheckpointOffset), Value: []byte(strconv.FormatInt(o, 10))}}}})
		tr.Emit(tracer.Ev{"e": "resume-from", "n": rel(o)})
	}
	node := &slot.SyncNode{Id: 0, Source: srcAddr, SourcePassword: "src-SECRET-pw", Target: []string{tgtAddr}, TargetPassword: "tgt-SECRET-pw", SlotLeftBoundary: -1, SlotRightBoundary: -1}
	ds := dbSync.NewDbSyncer(node, 9320, semaphore.NewWeighted(2))
	go func() { runAbortable(func() { ds.Sync() }) }()
	// wait until the source has sent everything, then a quiet period covering >= 2 ACK ticks
	deadline := time.Now().Add(time.Duration(cfg.BudgetMs) * time.Millisecond)
	for src.Sent() < int64(len(stream)) && time.Now().Before(deadline) {
		time.Sleep(20 * time.Millisecond)
	}
	complete := src.Sent() >= int64(len(stream))
	time.Sleep(time.Duration(cfg.QuietMs) * time.Millisecond)
	tgt.SetAfterHook(nil)
	flushTx()
	tr.Emit(tracer.Ev{"e": "quiet", "complete": complete, "sent": src.Sent()})
	// what the target holds: checkpoint offsets in write order, and the list built by the stream
	var ckpts []int64
	for _, e := range tgt.Log() {
		if e.Cmd == "HSET" && e.InExec && len(e.Args) == 3 && bytes.HasSuffix(e.Args[1], []byte("-"+utils.CheckpointOffset)) {
			o, _ := strconv.ParseInt(string(e.Args[2]), 10, 64)
			ckpts = append(ckpts, rel(o))
		}
	}
	if ckpts == nil {
		ckpts = []int64{}
	}
	var got []string
	for _, dbk := range tgt.Snapshot() {
		if e, ok := dbk["list"]; ok {
			for _, x := range e.Val.List {
				got = append(got, string(x))
			}
		}
	}
	// the stream pushes 0..Commands-1 onto "list" (of whichever db is selected): every number exactly once
	cnt := map[string]int{}
	for _, g := range got {
		cnt[g]++
	}
	missing, dup := 0, 0
	for i := 0; i < cfg.Commands; i++ {
		if first > 0 && pushAt[i] <= first {
			if cnt[strconv.Itoa(i)] > 0 {
				dup++ // a command before the checkpoint was applied again
			}
			continue
		}
		switch c := cnt[strconv.Itoa(i)]; {
		case c == 0:
			missing++
		case c > 1:
			dup++
		}
	}
	ab := takeAborts()
	abmsg := ""
	if len(ab) > 0 {
		abmsg = ab[0].Msg + " " + ab[0].Err
	}
	tr.Emit(tracer.Ev{"e": "target", "ckpts": ckpts, "missing": missing, "dup": dup, "applied": len(got), "abort": len(ab) > 0, "abortmsg": abmsg})
	return map[string]interface{}{"events": tr.Count(), "complete": complete, "leaks": sink.Leaks(), "note": fmt.Sprint("stream bytes ", len(stream))}, nil
}

func init() { register("offsets", offRun) }
