package main

// C09: pipe.  "pipe-replay": lock-step replay of PipeRing.tla behaviours through the gate
// hooks on the real pipe; "pipe-free": free-running writer/reader goroutines with random,
// byte-granular sizes.  Both record the linearised event trace for PipeTrace.tla.

import (
	"encoding/json"
	"errors"
	"fmt"
	"io"
	"io/ioutil"
	"math/rand"
	"os"
	"sync"
	"time"

	rerrors "github.com/alibaba/RedisShake/pkg/libs/errors"
	"github.com/alibaba/RedisShake/pkg/libs/io/pipe"

	"verif/harness/tracer"
)

var (
	errWE = errors.New("verif-writer-error")
	errRE = errors.New("verif-reader-error")
)

func pipeErrName(err error) string {
	switch {
	case err == nil:
		return "nil"
	case rerrors.Equal(err, io.EOF):
		return "EOF"
	case rerrors.Equal(err, io.ErrClosedPipe):
		return "CLOSED"
	case rerrors.Equal(err, errWE):
		return "WE"
	case rerrors.Equal(err, errRE):
		return "RE"
	}
	return "other:" + err.Error()
}

func pipeErrOf(name string) error {
	switch name {
	case "WE":
		return errWE
	case "RE":
		return errRE
	}
	return nil // EOF / CLOSED are the defaults of Close()
}

type pipeNote struct {
	kind string // "gate", "park", "ret"
	n    int
	err  string
	data []byte
}

type pipeRig struct {
	mu      sync.Mutex
	id      interface{}
	tr      *tracer.T
	free    bool // gates do not block
	note    map[byte]chan pipeNote
	goCh    map[byte]chan struct{}
	lastEv  map[byte]string
	watchMu sync.Mutex
}

var curPipe *pipeRig
var curPipeMu sync.RWMutex

func installPipeHooks() {
	pipe.VerifGate = func(p interface{}, side byte) {
		curPipeMu.RLock()
		r := curPipe
		curPipeMu.RUnlock()
		if r == nil || r.id != p {
			return
		}
		r.mu.Lock()
		free := r.free
		r.mu.Unlock()
		if free {
			return
		}
		r.note[side] <- pipeNote{kind: "gate"}
		<-r.goCh[side]
	}
	pipe.VerifEvent = func(p interface{}, ev string, n int) {
		curPipeMu.RLock()
		r := curPipe
		curPipeMu.RUnlock()
		if r == nil || r.id != p {
			return
		}
		r.tr.Emit(tracer.Ev{"e": ev, "n": n})
		side := ev[0]
		r.mu.Lock()
		r.lastEv[side] = ev
		free := r.free
		r.mu.Unlock()
		if !free && (ev == "rpark" || ev == "wpark") {
			r.note[side] <- pipeNote{kind: "park"}
		}
	}
}

func newPipeRig(tr *tracer.T, backend string, size int, dir string) (*pipeRig, pipe.Reader, pipe.Writer, func(), error) {
	var rd pipe.Reader
	var wr pipe.Writer
	cleanup := func() {}
	if backend == "file" {
		f, err := ioutil.TempFile(dir, "pipe-*.buf")
		if err != nil {
			return nil, nil, nil, nil, err
		}
		name := f.Name()
		cleanup = func() { os.Remove(name) }
		rd, wr = pipe.NewFilePipe(size, f)
	} else {
		rd, wr = pipe.NewSize(size)
	}
	r := &pipeRig{id: pipe.VerifID(rd), tr: tr,
		note:   map[byte]chan pipeNote{'r': make(chan pipeNote, 64), 'w': make(chan pipeNote, 64)},
		goCh:   map[byte]chan struct{}{'r': make(chan struct{}, 1), 'w': make(chan struct{}, 1)},
		lastEv: map[byte]string{}}
	curPipeMu.Lock()
	curPipe = r
	curPipeMu.Unlock()
	return r, rd, wr, cleanup, nil
}

type pipeReplayIn struct {
	Backend string                     `json:"backend"`
	Cap     int                        `json:"cap"`  // units
	Unit    int                        `json:"unit"` // bytes per unit
	Seed    uint64                     `json:"seed"`
	Paths   [][]map[string]interface{} `json:"paths"`
	Trace   string                     `json:"trace"`
	Dir     string                     `json:"dir"`
	HangMs  int                        `json:"hang_ms"`
}

type pipeReplayOut struct {
	Paths      int        `json:"paths"`
	Steps      int        `json:"steps"`
	Events     int64      `json:"events"`
	Drifts     int        `json:"drifts"`
	Mismatches []Mismatch `json:"mismatches"`
}

func pipeReplay(in []byte) (interface{}, error) {
	var cfg pipeReplayIn
	if err := json.Unmarshal(in, &cfg); err != nil {
		return nil, err
	}
	if cfg.HangMs == 0 {
		cfg.HangMs = 5000
	}
	tr, err := tracer.New(cfg.Trace)
	if err != nil {
		return nil, err
	}
	defer tr.Close()
	installPipeHooks()
	out := &pipeReplayOut{}
	hangs := 0
	for pi, path := range cfg.Paths {
		if hangs >= 3 {
			break
		}
		ms := pipeReplayOne(tr, &cfg, pi, path, out)
		for _, m := range ms {
			if m.Kind == "hang" {
				hangs++
			}
			if m.Kind == "drift" {
				out.Drifts++
				if out.Drifts > 20 {
					continue
				}
			}
			out.Mismatches = append(out.Mismatches, m)
		}
		out.Paths++
	}
	out.Events = tr.Count()
	return out, nil
}

func pipeReplayOne(tr *tracer.T, cfg *pipeReplayIn, pi int, path []map[string]interface{}, out *pipeReplayOut) (ms []Mismatch) {
	unit := cfg.Unit
	tr.Emit(tracer.Ev{"e": "Reset", "cap": cfg.Cap * unit, "case": pi})
	rig, rd, wr, cleanup, err := newPipeRig(tr, cfg.Backend, cfg.Cap*unit, cfg.Dir)
	if err != nil {
		return []Mismatch{{Case: pi, Kind: "harness", Detail: err.Error()}}
	}
	defer cleanup()
	var wg sync.WaitGroup
	seed := cfg.Seed + uint64(pi)*7919
	var wroteBytes, gotBytes uint64
	hang := time.Duration(cfg.HangMs) * time.Millisecond
	wait := func(side byte) (pipeNote, bool) {
		select {
		case n := <-rig.note[side]:
			return n, true
		case <-time.After(hang):
			return pipeNote{}, false
		}
	}
	add := func(step int, kind, detail string) {
		ms = append(ms, Mismatch{Case: pi, Step: step, Kind: kind, Detail: detail})
	}
	abort := false
	for si, st := range path {
		if abort {
			break
		}
		out.Steps++
		a := jstr(st, "a")
		switch a {
		case "WBegin":
			k := jnum(st, "k") * unit
			buf := make([]byte, k)
			streamFill(seed, wroteBytes, buf)
			tr.Emit(tracer.Ev{"e": "WBegin", "k": k})
			wg.Add(1)
			go func() {
				defer wg.Done()
				n, err := wr.Write(buf)
				rig.note['w'] <- pipeNote{kind: "ret", n: n, err: pipeErrName(err)}
			}()
			if n, ok := wait('w'); !ok || n.kind != "gate" {
				add(si, "hang", fmt.Sprintf("Write(%d) did not reach its first iteration: %+v", k, n))
				abort = true
			}
		case "RBegin":
			k := jnum(st, "k") * unit
			buf := make([]byte, k)
			tr.Emit(tracer.Ev{"e": "RBegin", "k": k})
			wg.Add(1)
			go func() {
				defer wg.Done()
				n, err := rd.Read(buf)
				en := pipeErrName(err)
				rig.note['r'] <- pipeNote{kind: "ret", n: n, err: en, data: buf[:n]}
			}()
			if n, ok := wait('r'); !ok || n.kind != "gate" {
				add(si, "hang", fmt.Sprintf("Read(%d) did not reach its first iteration: %+v", k, n))
				abort = true
			}
		case "WStep", "RStep":
			side := byte('w')
			if a == "RStep" {
				side = 'r'
			}
			rig.goCh[side] <- struct{}{}
			n, ok := wait(side)
			if !ok {
				add(si, "hang", fmt.Sprintf("%s: no gate/park/return within %v (last hook event %q)", a, hang, rig.lastEv[side]))
				abort = true
				break
			}
			res := jstr(st, "res")
			if side == 'r' && n.kind == "ret" {
				match := streamMatch(seed, gotBytes, n.data)
				tr.Emit(tracer.Ev{"e": "RRet", "n": n.n, "err": n.err, "match": match})
				if !match {
					add(si, "L1", fmt.Sprintf("Read returned %d bytes that are not the next bytes of the written stream (FIFO broken at byte %d)", n.n, gotBytes))
					abort = true
				}
				gotBytes += uint64(n.n)
			}
			if side == 'w' && n.kind == "ret" {
				tr.Emit(tracer.Ev{"e": "WRet", "n": n.n, "err": n.err})
				wroteBytes += uint64(n.n)
			}
			switch res {
			case "park":
				if n.kind != "park" {
					add(si, "drift", fmt.Sprintf("%s: spec parks, code did %s n=%d err=%s", a, n.kind, n.n, n.err))
					abort = true
				}
			case "some":
				if n.kind != "gate" {
					add(si, "drift", fmt.Sprintf("%s: spec makes partial progress, code did %s n=%d err=%s", a, n.kind, n.n, n.err))
					abort = true
				}
			case "ret", "someret":
				wantN := jnum(st, "n") * unit
				if res == "someret" {
					wantN = jnum(st, "tot") * unit
				}
				wantErr := jstr(st, "err")
				if res == "someret" {
					wantErr = "nil"
				}
				if n.kind != "ret" {
					add(si, "drift", fmt.Sprintf("%s: spec returns (%d,%s), code did %s", a, wantN, wantErr, n.kind))
					abort = true
				} else if n.n != wantN || n.err != wantErr {
					// return values are L1 observables: the path was followed exactly up to here
					add(si, "L1", fmt.Sprintf("%s returned (%d,%s), contract says (%d,%s)", a, n.n, n.err, wantN, wantErr))
					abort = true
				}
			}
		case "WWake", "RWake":
			side := byte('w')
			if a == "RWake" {
				side = 'r'
			}
			n, ok := wait(side)
			if !ok {
				add(si, "hang", fmt.Sprintf("%s: parked side was not woken within %v although the other side made progress or closed (last hook event %q)", a, hang, rig.lastEv[side]))
				abort = true
			} else if n.kind != "gate" {
				add(si, "drift", fmt.Sprintf("%s: expected re-arrival at the loop head, got %s", a, n.kind))
				abort = true
			}
		case "WClose":
			e := jstr(st, "e")
			tr.Emit(tracer.Ev{"e": "WCloseCall", "err": e})
			if e == "EOF" {
				wr.Close()
			} else {
				wr.CloseWithError(pipeErrOf(e))
			}
		case "RClose":
			e := jstr(st, "e")
			tr.Emit(tracer.Ev{"e": "RCloseCall", "err": e})
			if e == "CLOSED" {
				rd.Close()
			} else {
				rd.CloseWithError(pipeErrOf(e))
			}
		case "Buffered":
			n, err := rd.Buffered()
			en := pipeErrName(err)
			tr.Emit(tracer.Ev{"e": "Buffered", "n": n, "err": en})
			if n != jnum(st, "n")*unit || en != jstr(st, "err") {
				add(si, "L1", fmt.Sprintf("Buffered() = (%d,%s), contract says (%d,%s)", n, en, jnum(st, "n")*unit, jstr(st, "err")))
			}
		case "Available":
			n, err := wr.Available()
			en := pipeErrName(err)
			tr.Emit(tracer.Ev{"e": "Available", "n": n, "err": en})
			if n != jnum(st, "n")*unit || en != jstr(st, "err") {
				add(si, "L1", fmt.Sprintf("Available() = (%d,%s), contract says (%d,%s)", n, en, jnum(st, "n")*unit, jstr(st, "err")))
			}
		case "Init":
		default:
			add(si, "harness", "unknown action "+a)
		}
	}
	// tear down: let everything run free and close both ends
	hung := false
	for _, m := range ms {
		if m.Kind == "hang" {
			hung = true
		}
	}
	tr.Emit(tracer.Ev{"e": "End", "hung": hung})
	rig.mu.Lock()
	rig.free = true
	rig.mu.Unlock()
	curPipeMu.Lock()
	curPipe = nil
	curPipeMu.Unlock()
	for _, s := range []byte{'r', 'w'} {
		select {
		case rig.goCh[s] <- struct{}{}:
		default:
		}
	}
	rd.Close()
	wr.Close()
	done := make(chan struct{})
	go func() { wg.Wait(); close(done) }()
	drain := time.After(2 * hang)
loop:
	for {
		select {
		case <-done:
			break loop
		case <-rig.note['r']:
		case <-rig.note['w']:
		case <-drain:
			add(len(path), "hang", "goroutines still blocked after both ends were closed")
			break loop
		}
	}
	return ms
}

// ------------------------------------------------------------------ free-running

type pipeFreeIn struct {
	Backend string `json:"backend"`
	Size    int    `json:"size"` // requested buffer size (aligned up by the code)
	Cap     int    `json:"cap"`  // the capacity the contract expects (aligned)
	Seed    int64  `json:"seed"`
	Runs    int    `json:"runs"`
	Ops     int    `json:"ops"`
	Trace   string `json:"trace"`
	Dir     string `json:"dir"`
	HangMs  int    `json:"hang_ms"`
}

type pipeFreeOut struct {
	Runs   int        `json:"runs"`
	Events int64      `json:"events"`
	Bytes  uint64     `json:"bytes"`
	Hangs  []Mismatch `json:"mismatches"`
}

func pipeSizes(rnd *rand.Rand, cap int) int {
	c := []int{0, 1, 1, 2, 3, 7, cap - 1, cap, cap + 1, cap / 2, cap/2 + 1, 2*cap + 1, cap / 3}
	if rnd.Intn(3) == 0 {
		return rnd.Intn(cap + cap/4 + 2)
	}
	v := c[rnd.Intn(len(c))]
	if v < 0 {
		v = 0
	}
	return v
}

func pipeFree(in []byte) (interface{}, error) {
	var cfg pipeFreeIn
	if err := json.Unmarshal(in, &cfg); err != nil {
		return nil, err
	}
	if cfg.HangMs == 0 {
		cfg.HangMs = 5000
	}
	tr, err := tracer.New(cfg.Trace)
	if err != nil {
		return nil, err
	}
	defer tr.Close()
	installPipeHooks()
	out := &pipeFreeOut{}
	for run := 0; run < cfg.Runs; run++ {
		rnd := rand.New(rand.NewSource(cfg.Seed*1000003 + int64(run)))
		tr.Emit(tracer.Ev{"e": "Reset", "cap": cfg.Cap, "case": run})
		rig, rd, wr, cleanup, err := newPipeRig(tr, cfg.Backend, cfg.Size, cfg.Dir)
		if err != nil {
			return nil, err
		}
		rig.free = true
		seed := uint64(cfg.Seed)*31 + uint64(run)
		wseed, rseed := rnd.Int63(), rnd.Int63()
		wcloseAt, rcloseAt := cfg.Ops+1, cfg.Ops+1
		switch rnd.Intn(4) {
		case 0:
			wcloseAt = rnd.Intn(cfg.Ops + 1)
		case 1:
			rcloseAt = rnd.Intn(cfg.Ops + 1)
		case 2:
			wcloseAt = rnd.Intn(cfg.Ops + 1)
			rcloseAt = rnd.Intn(cfg.Ops + 1)
		default:
			wcloseAt = cfg.Ops // writer closes at the very end so that the reader terminates
		}
		var wg sync.WaitGroup
		var total uint64
		wg.Add(2)
		go func() { // writer
			defer wg.Done()
			r := rand.New(rand.NewSource(wseed))
			var pos uint64
			closed := false
			defer func() {
				if !closed {
					tr.Emit(tracer.Ev{"e": "WCloseCall", "err": "EOF"})
					wr.Close()
				}
			}()
			for i := 0; i <= cfg.Ops; i++ {
				if i == wcloseAt {
					closed = true
					e := "EOF"
					if r.Intn(2) == 0 {
						e = "WE"
					}
					tr.Emit(tracer.Ev{"e": "WCloseCall", "err": e})
					if e == "EOF" {
						wr.Close()
					} else {
						wr.CloseWithError(errWE)
					}
					if r.Intn(2) == 0 {
						break
					}
				}
				if i == cfg.Ops {
					break
				}
				k := pipeSizes(r, cfg.Cap)
				buf := make([]byte, k)
				streamFill(seed, pos, buf)
				tr.Emit(tracer.Ev{"e": "WBegin", "k": k})
				n, err := wr.Write(buf)
				pos += uint64(n)
				total = pos
				tr.Emit(tracer.Ev{"e": "WRet", "n": n, "err": pipeErrName(err)})
				if err != nil {
					if r.Intn(2) == 0 {
						break
					}
				}
				if r.Intn(8) == 0 {
					time.Sleep(time.Duration(r.Intn(200)) * time.Microsecond)
				}
			}
		}()
		go func() { // reader
			defer wg.Done()
			r := rand.New(rand.NewSource(rseed))
			var pos uint64
			for i := 0; ; i++ {
				if i == rcloseAt {
					e := "CLOSED"
					if r.Intn(2) == 0 {
						e = "RE"
					}
					tr.Emit(tracer.Ev{"e": "RCloseCall", "err": e})
					if e == "CLOSED" {
						rd.Close()
					} else {
						rd.CloseWithError(errRE)
					}
				}
				k := pipeSizes(r, cfg.Cap)
				buf := make([]byte, k)
				tr.Emit(tracer.Ev{"e": "RBegin", "k": k})
				n, err := rd.Read(buf)
				match := streamMatch(seed, pos, buf[:n])
				pos += uint64(n)
				tr.Emit(tracer.Ev{"e": "RRet", "n": n, "err": pipeErrName(err), "match": match})
				if err != nil {
					break
				}
				if r.Intn(8) == 0 {
					time.Sleep(time.Duration(r.Intn(200)) * time.Microsecond)
				}
			}
		}()
		done := make(chan struct{})
		go func() { wg.Wait(); close(done) }()
		hung := false
		select {
		case <-done:
		case <-time.After(time.Duration(cfg.HangMs) * time.Millisecond * 4):
			hung = true
		}
		tr.Emit(tracer.Ev{"e": "End", "hung": hung})
		if hung {
			rig.mu.Lock()
			le := fmt.Sprintf("reader last hook event %q, writer last hook event %q", rig.lastEv['r'], rig.lastEv['w'])
			rig.mu.Unlock()
			out.Hangs = append(out.Hangs, Mismatch{Case: run, Kind: "hang", Detail: "free run did not terminate: " + le})
			rd.Close()
			wr.Close()
			<-done
		}
		curPipeMu.Lock()
		curPipe = nil
		curPipeMu.Unlock()
		cleanup()
		out.Runs++
		out.Bytes += total
		if len(out.Hangs) >= 2 {
			break
		}
	}
	out.Events = tr.Count()
	return out, nil
}

func init() {
	register("pipe-replay", pipeReplay)
	register("pipe-free", pipeFree)
}
