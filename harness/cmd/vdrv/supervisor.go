package main

// C20: slot supervisor.  Every scenario enumerated by SupervisorCases.tla is replayed with an
// injected connection factory that serves the scripted answer per (node, round) as real
// "INFO replication" text / connect error / command error; result compared with the contract.

import (
	"encoding/json"
	"errors"
	"fmt"
	"math/rand"
	"sort"
	"sync"
	"time"

	redigo "github.com/garyburd/redigo/redis"

	conf "github.com/alibaba/RedisShake/redis-shake/configure"
	"github.com/alibaba/RedisShake/redis-shake/dbSync"
	"github.com/alibaba/RedisShake/redis-shake/dbSync/slot"
	"github.com/alibaba/RedisShake/redis-shake/dbSync/slotsupervisor"

	"verif/harness/mredis"
)

type svCase struct {
	Scn     [][]string `json:"scn"` // [round][node] (TLA functions over 0..R and 1..N rendered as arrays)
	First   int        `json:"first"`
	Masters []int      `json:"masters"`
}

type svIn struct {
	Seed         int64    `json:"seed"`
	MaxRetries   int      `json:"max_retries"`
	Cases        []svCase `json:"cases"`
	Orders       int      `json:"orders"`        // how many node-name orderings per scenario
	SyncerRounds int      `json:"syncer_rounds"` // how often to run the syncer-level re-discovery scenario (real TCP nodes, two fail-overs)
}

// credentials put into the supervised node (the secrets family sets its sentinels here)
var svSourcePassword, svTargetPassword = "pw", ""

type scriptConn struct {
	do func() (interface{}, error)
}

func (c *scriptConn) Close() error                                         { return nil }
func (c *scriptConn) Err() error                                           { return nil }
func (c *scriptConn) Do(cmd string, a ...interface{}) (interface{}, error) { return c.do() }
func (c *scriptConn) Send(string, ...interface{}) error                    { return errors.New("unexpected Send") }
func (c *scriptConn) Flush() error                                         { return nil }
func (c *scriptConn) Receive() (interface{}, error)                        { return nil, errors.New("unexpected Receive") }

var _ redigo.Conn = (*scriptConn)(nil)

func indexOf(l []string, x string) int {
	for i, y := range l {
		if y == x {
			return i
		}
	}
	return -1
}

func indexesOf(l []string, xs []string) []int {
	out := []int{}
	for _, x := range xs {
		out = append(out, indexOf(l, x)+1)
	}
	return out
}

func infoText(role string, rnd *rand.Rand) []byte {
	// realistic INFO replication: section header, CRLF lines, other fields before / after the role
	pre := []string{"# Replication\r\n", "# Replication\r\nsome_field:role:master-not\r\n", ""}[rnd.Intn(3)]
	post := "connected_slaves:1\r\nslave0:ip=10.0.0.2,port=6379,state=online,offset=1,lag=0\r\nmaster_repl_offset:123\r\n"
	if role == "slave" {
		post = "master_host:10.0.0.1\r\nmaster_port:6379\r\nmaster_link_status:up\r\n"
	}
	return []byte(pre + "role:" + role + "\r\n" + post)
}

func svRun(in []byte) (interface{}, error) {
	var cfg svIn
	if err := json.Unmarshal(in, &cfg); err != nil {
		return nil, err
	}
	if cfg.Orders == 0 {
		cfg.Orders = 1
	}
	var mu sync.Mutex
	var ms []Mismatch
	evals, nontrivial := 0, 0
	var wg sync.WaitGroup
	sem := make(chan struct{}, 4000)
	for ci := range cfg.Cases {
		for ord := 0; ord < cfg.Orders; ord++ {
			wg.Add(1)
			sem <- struct{}{}
			go func(ci, ord int) {
				defer wg.Done()
				defer func() { <-sem }()
				c := &cfg.Cases[ci]
				rnd := rand.New(rand.NewSource(cfg.Seed*7919 + int64(ci)*31 + int64(ord)))
				n := len(c.Scn[0])
				names := make([]string, n)
				for i := range names {
					names[i] = fmt.Sprintf("10.0.%d.%d:%d", ci%250, i+1, 6379+rnd.Intn(3))
				}
				var pmu sync.Mutex
				probes := map[string]int{} // per node: how many rounds have probed it
				factory := func(host, password string, tls bool) (redigo.Conn, error) {
					idx := -1
					for i, nm := range names {
						if nm == host {
							idx = i
						}
					}
					if idx < 0 {
						return nil, fmt.Errorf("unknown host %s", host)
					}
					pmu.Lock()
					round := probes[host]
					probes[host]++
					pmu.Unlock()
					if round >= len(c.Scn) {
						return nil, fmt.Errorf("probe beyond the retry budget (round %d)", round)
					}
					out := c.Scn[round][idx]
					errKind := rnd.Intn(3)
					if out == "err" && errKind == 0 {
						return nil, errors.New("dial tcp: connection refused")
					}
					return &scriptConn{do: func() (interface{}, error) {
						switch {
						case out == "master" || out == "slave":
							return infoText(out, rnd), nil
						case errKind == 1:
							return nil, errors.New("ERR command failed")
						default:
							return []byte("# Replication\r\nrepl_backlog_active:0\r\nroles:master\r\n"), nil
						}
					}}, nil
				}
				sup := slotsupervisor.VerifNew(slot.SyncNode{Id: ci, Source: names[0], Slaves: append([]string{}, names[1:]...),
					SourcePassword: svSourcePassword, TargetPassword: svTargetPassword, Target: []string{"10.2.2.2:6379"}, SlotLeftBoundary: 0, SlotRightBoundary: 100}, factory, cfg.MaxRetries)
				type outT struct {
					node *slot.SyncNode
					err  error
				}
				ch := make(chan outT, 1)
				t0 := time.Now()
				go func() {
					nd, err := sup.GetSlotState()
					ch <- outT{nd, err}
				}()
				var o outT
				budget := time.Duration((cfg.MaxRetries*(cfg.MaxRetries+1))/2)*time.Second + 20*time.Second
				hung := false
				select {
				case o = <-ch:
				case <-time.After(budget):
					hung = true
				}
				bad := ""
				idxOf := func(h string) int {
					for i, nm := range names {
						if nm == h {
							return i + 1
						}
					}
					return 0
				}
				switch {
				case hung:
					bad = fmt.Sprintf("GetSlotState did not return within %v", budget)
				case c.First < 0:
					if o.err == nil && o.node == nil {
						bad = "no node ever reports master, contract says error; got neither an error nor a node (nil, nil)"
					} else if o.err == nil {
						bad = fmt.Sprintf("no node ever reports master, contract says error; got source %q", o.node.Source)
					} else {
						pmu.Lock()
						for _, nm := range names {
							if probes[nm] != cfg.MaxRetries+1 {
								bad = fmt.Sprintf("no master: contract says exactly %d rounds, node %s was probed %d times", cfg.MaxRetries+1, nm, probes[nm])
							}
						}
						pmu.Unlock()
					}
				default:
					if o.err != nil {
						bad = fmt.Sprintf("a node reports master in round %d but GetSlotState failed: %v", c.First, o.err)
						break
					}
					if o.node == nil {
						bad = fmt.Sprintf("a node reports master in round %d but GetSlotState returned no node and no error", c.First)
						break
					}
					si := idxOf(o.node.Source)
					isM := false
					for _, m := range c.Masters {
						if m == si {
							isM = true
						}
					}
					if !isM {
						bad = fmt.Sprintf("chosen source %s (node %d) did not report master in round %d (masters there: %v)", o.node.Source, si, c.First, c.Masters)
						break
					}
					var got []int
					for _, s := range o.node.Slaves {
						got = append(got, idxOf(s))
					}
					sort.Ints(got)
					var want []int
					for i := 1; i <= n; i++ {
						if i != si {
							want = append(want, i)
						}
					}
					if fmt.Sprint(got) != fmt.Sprint(want) {
						bad = fmt.Sprintf("source is node %d; replicas listed %v, contract says every other known node exactly once: %v", si, got, want)
					}
				}
				mu.Lock()
				evals++
				if c.First != 0 {
					nontrivial++
				}
				if bad != "" && len(ms) < 300 {
					ms = append(ms, Mismatch{Case: ci, Kind: "L1", Detail: bad, Extra: map[string]interface{}{"scn": c.Scn, "masters": len(c.Masters), "first": c.First, "took_s": time.Since(t0).Seconds()}})
				}
				mu.Unlock()
			}(ci, ord)
		}
	}
	wg.Wait()
	// ---- the syncer's own step: updateSlotTopology over real TCP nodes through two fail-overs (A -> B, then back to A);
	// after each re-discovery the syncer's node must be the reporting master plus every other known node exactly once
	if cfg.SyncerRounds > 0 {
		conf.Options.SourceType = conf.RedisTypeCluster
		for round := 0; round < cfg.SyncerRounds; round++ {
			srv := []*mredis.Server{mredis.New(mredis.Options{Role: "master"}), mredis.New(mredis.Options{Role: "slave"}), mredis.New(mredis.Options{Role: "slave"})}
			var addrs []string
			for _, s := range srv {
				a, err := s.Listen()
				if err != nil {
					return nil, err
				}
				addrs = append(addrs, a)
			}
			node := &slot.SyncNode{Id: round, Source: addrs[0], Slaves: []string{addrs[1], addrs[2]}, Target: []string{"127.0.0.1:1"}, SlotLeftBoundary: 0, SlotRightBoundary: 100}
			// every other syncer is one that has synced before: resume enabled, a run id and an offset known from its earlier life
			ds := dbSync.VerifNewDbSyncer(node, false, "?", -1, 0, "ckpt", 4)
			if round%2 == 1 {
				ds = dbSync.VerifNewDbSyncer(node, true, "0123456789abcdef0123456789abcdef01234567", 4242, 0, "ckpt", 4)
			}
			master := 0
			// each step is one restart of Sync(): its retry accounting, then the re-discovery.  Three restarts within the hour
			// (the fourth would stop the tool), then a quiet period of two hours and two more restarts
			for step, next := range []int{1 + round%2, 0, 2 - round%2, 0, 1 + round%2} {
				srv[master].SetRole("slave")
				srv[next].SetRole("master")
				master = next
				if step == 3 {
					ds.VerifAgeLastRetry(2 * time.Hour)
				}
				ab, pan := runAbortableOwn(func() {
					if round%3 == 2 {
						ds.VerifUpdateSlotTopology() // the step alone
					} else {
						ds.VerifRestartPrefix()
					}
				})
				got := ds.VerifNode()
				want := []string{}
				for i, a := range addrs {
					if i != master {
						want = append(want, a)
					}
				}
				gs := append([]string{}, got.Slaves...)
				sort.Strings(gs)
				sort.Strings(want)
				evals++
				nontrivial++
				if ab != nil || pan != "" || got.Source != addrs[master] || fmt.Sprint(gs) != fmt.Sprint(want) {
					ms = append(ms, Mismatch{Case: 100000 + round, Step: step, Kind: "L1", Detail: fmt.Sprintf(
						"syncer re-discovery after fail-over %d: node %d reports master; the syncer's node is source node %d with replicas %v (abort %v %s), contract says source node %d and every other known node once",
						step+1, master+1, indexOf(addrs, got.Source)+1, indexesOf(addrs, got.Slaves), ab != nil, pan, master+1),
						Extra: map[string]interface{}{"scn": [][]string{}, "masters": 1, "first": 1, "took_s": 0.0, "syncer": true}})
				}
			}
			for _, s := range srv {
				s.Close()
			}
		}
		conf.Options.SourceType = "standalone"
	}
	return map[string]interface{}{"evaluations": evals, "nontrivial": nontrivial, "mismatches": ms}, nil
}

func init() { register("supervisor", svRun) }
