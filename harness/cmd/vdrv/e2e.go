package main

// End-to-end life cycle with REAL process crashes (C04, System.tla): the scripted source and the model
// Redis target live in one process ("e2e-servers"), the tool - a complete DbSyncer.Sync() - in another
// ("e2e-syncer") which the check kills with SIGKILL at arbitrary moments and starts again.  The servers
// log, on one sequence, what the source sends, every PSYNC it receives and every transaction the target
// executes; a restart is announced to them through a marker file, upon which they log the checkpoint
// the target holds at that moment.  SystemTrace.tla judges the result.

import (
	"bytes"
	"encoding/json"
	"fmt"
	"io/ioutil"
	"math/rand"
	"os"
	"path/filepath"
	"strconv"
	"time"

	"golang.org/x/sync/semaphore"

	utils "github.com/alibaba/RedisShake/redis-shake/common"
	conf "github.com/alibaba/RedisShake/redis-shake/configure"
	"github.com/alibaba/RedisShake/redis-shake/dbSync"
	"github.com/alibaba/RedisShake/redis-shake/dbSync/slot"

	"verif/harness/fakesrc"
	"verif/harness/mredis"
	"verif/harness/rdbref"
	"verif/harness/tracer"
)

type e2eIn struct {
	Seed     int64  `json:"seed"`
	Start    int64  `json:"start"`
	Commands int    `json:"commands"`
	Idles    []int  `json:"idles"`
	IdleMs   int    `json:"idle_ms"`
	Frags    []int  `json:"frags"`
	PauseUs  int    `json:"pause_us"`
	Trace    string `json:"trace"`
	Dir      string `json:"dir"` // control directory: addrs.json, restart.<k> / restart.<k>.done, finish / finish.done
	BudgetMs int    `json:"budget_ms"`
	Src      string `json:"src"` // e2e-syncer: addresses of the servers
	Tgt      string `json:"tgt"`
}

const e2eRunID = "FFeeddccbbaa00112233445566778899aabbCCDD" // (mixed case: an id is an opaque token, to be used verbatim)

func e2eServers(in []byte) (interface{}, error) {
	var cfg e2eIn
	if err := json.Unmarshal(in, &cfg); err != nil {
		return nil, err
	}
	tr, err := tracer.New(cfg.Trace)
	if err != nil {
		return nil, err
	}
	defer tr.Close()
	rnd := rand.New(rand.NewSource(cfg.Seed))
	rel := func(x int64) int64 {
		d := x - cfg.Start
		if d < -100000 || d > 100000000 {
			return -999999
		}
		return d
	}
	f := rdbref.NewFile(9)
	f.Aux([]byte("redis-ver"), []byte("5.0.7"))
	f.SelectDB(0, rdbref.LenCanonical)
	_, body, _ := rdbref.EncodeValue(rdbref.Value{Kind: "string", Str: []byte("from-rdb")}, rdbref.Enc{Type: rdbref.TString})
	f.Key([]byte("rdbkey"), rdbref.TString, body)
	rdbBytes := f.Finish(true)
	var stream []byte
	var ends []int64
	pushIdx := make([]int, cfg.Commands)
	add := func(b []byte) {
		stream = append(stream, b...)
		ends = append(ends, cfg.Start+int64(len(stream)))
	}
	add(respCmd("SELECT", "0"))
	for i := 0; i < cfg.Commands; i++ {
		if rnd.Intn(6) == 0 {
			stream = append(stream, '\n')
		}
		if rnd.Intn(7) == 0 {
			add(respCmd("PING"))
		}
		add(respCmd("rpush", "list", strconv.Itoa(i)))
		pushIdx[i] = len(ends)
	}
	var idleAt []int
	for _, d := range cfg.Idles {
		if d < len(ends) {
			if p := int(ends[d] - cfg.Start); p > 0 && p < len(stream) {
				idleAt = append(idleAt, p)
			}
		}
	}
	src := fakesrc.New(fakesrc.Script{RunID: e2eRunID, Offset: cfg.Start, RDB: rdbBytes, Stream: stream, Frags: cfg.Frags, PauseUs: cfg.PauseUs,
		IdleAt: idleAt, IdleMs: cfg.IdleMs}, func(e fakesrc.Event) {
		off := e.Off
		if e.Kind == "ack" && off != 0 || e.Kind == "psync" && off != -1 {
			off = rel(off)
		} else if e.Kind == "psync" {
			off = -1000000
		}
		tr.Emit(tracer.Ev{"e": "src-" + e.Kind, "conn": e.Conn, "off": off, "zero": e.Off == 0, "n": e.N, "runid_ok": e.RunID == e2eRunID || e.RunID == "?"})
	})
	srcAddr, err := src.Listen()
	if err != nil {
		return nil, err
	}
	tgt := mredis.New(mredis.Options{Password: "tgt-SECRET-pw"})
	tgtAddr, err := tgt.Listen()
	if err != nil {
		return nil, err
	}
	relEnds := []int64{}
	for _, e := range ends {
		relEnds = append(relEnds, rel(e))
	}
	tr.Emit(tracer.Ev{"e": "cfg", "start": 0, "real_start": fmt.Sprint(cfg.Start), "ends": relEnds, "stream_len": len(stream), "push_idx": pushIdx})
	var txPushes []int
	txCkpt, txOpen := int64(-1), false
	flushTx := func() {
		if txOpen {
			if txPushes == nil {
				txPushes = []int{}
			}
			tr.Emit(tracer.Ev{"e": "tgt-exec", "pushes": txPushes, "ckpt": txCkpt})
		}
		txPushes, txCkpt, txOpen = nil, -1, false
	}
	tgt.SetAfterHook(func(e mredis.LogEntry) {
		if e.Queued {
			return
		}
		if !e.InExec {
			flushTx()
		}
		switch {
		case e.Cmd == "EXEC":
			txOpen = true
		case e.Cmd == "RPUSH" && len(e.Args) == 2 && string(e.Args[0]) == "list":
			n, _ := strconv.Atoi(string(e.Args[1]))
			if n < 0 || n >= len(pushIdx) {
				n = -1
			} else {
				n = pushIdx[n]
			}
			if e.InExec {
				txPushes = append(txPushes, n)
			} else {
				tr.Emit(tracer.Ev{"e": "tgt-exec", "pushes": []int{n}, "ckpt": -1})
			}
		case e.Cmd == "HSET" && e.InExec && len(e.Args) == 3 && bytes.HasSuffix(e.Args[1], []byte("-"+utils.CheckpointOffset)):
			o, _ := strconv.ParseInt(string(e.Args[2]), 10, 64)
			txCkpt = rel(o)
		}
	})
	addrs, _ := json.Marshal(map[string]string{"src": srcAddr, "tgt": tgtAddr})
	if err := ioutil.WriteFile(filepath.Join(cfg.Dir, "addrs.json.tmp"), addrs, 0644); err != nil {
		return nil, err
	}
	os.Rename(filepath.Join(cfg.Dir, "addrs.json.tmp"), filepath.Join(cfg.Dir, "addrs.json"))
	// what checkpoint does the target hold right now?
	stored := func() int64 {
		best := int64(-1)
		for _, dbk := range tgt.Snapshot() {
			if e, ok := dbk[utils.CheckpointKey]; ok {
				for _, hf := range e.Val.Hash {
					if bytes.HasSuffix(hf.Field, []byte("-"+utils.CheckpointOffset)) {
						if o, err := strconv.ParseInt(string(hf.Value), 10, 64); err == nil && o > best {
							best = o
						}
					}
				}
			}
		}
		return best
	}
	deadline := time.Now().Add(time.Duration(cfg.BudgetMs) * time.Millisecond)
	k := 0
	for time.Now().Before(deadline) {
		time.Sleep(15 * time.Millisecond)
		mark := filepath.Join(cfg.Dir, fmt.Sprintf("restart.%d", k+1))
		if _, err := os.Stat(mark); err == nil {
			// the tool process has been killed (its connections are gone: an open target transaction was discarded)
			k++
			time.Sleep(30 * time.Millisecond)
			tgt.KillConns()
			src.DropAll()
			flushTx()
			if o := stored(); o >= 0 {
				tr.Emit(tracer.Ev{"e": "restart", "n": rel(o), "k": k})
			} else {
				tr.Emit(tracer.Ev{"e": "restart", "n": -1, "k": k})
			}
			ioutil.WriteFile(mark+".done", []byte("ok"), 0644)
		}
		if _, err := os.Stat(filepath.Join(cfg.Dir, "finish")); err == nil {
			break
		}
		st, _ := json.Marshal(map[string]interface{}{"sent": src.Sent(), "stream_len": len(stream), "stored": rel(stored())})
		ioutil.WriteFile(filepath.Join(cfg.Dir, "status.json.tmp"), st, 0644)
		os.Rename(filepath.Join(cfg.Dir, "status.json.tmp"), filepath.Join(cfg.Dir, "status.json"))
	}
	tgt.SetAfterHook(nil)
	flushTx()
	var got []string
	for _, dbk := range tgt.Snapshot() {
		if e, ok := dbk["list"]; ok {
			for _, x := range e.Val.List {
				got = append(got, string(x))
			}
		}
	}
	cnt := map[string]int{}
	for _, g := range got {
		cnt[g]++
	}
	missing, dup := 0, 0
	for i := 0; i < cfg.Commands; i++ {
		switch c := cnt[strconv.Itoa(i)]; {
		case c == 0:
			missing++
		case c > 1:
			dup++
		}
	}
	tr.Emit(tracer.Ev{"e": "e2e-end", "missing": missing, "dup": dup, "applied": len(got), "restarts": k, "stored": rel(stored()), "stream_len": len(stream), "sent": src.Sent()})
	ioutil.WriteFile(filepath.Join(cfg.Dir, "finish.done"), []byte("ok"), 0644)
	return map[string]interface{}{"events": tr.Count(), "restarts": k, "missing": missing, "dup": dup}, nil
}

// e2eSyncer is the tool: one complete DbSyncer.Sync() that runs until the process is killed.
func e2eSyncer(in []byte) (interface{}, error) {
	var cfg e2eIn
	if err := json.Unmarshal(in, &cfg); err != nil {
		return nil, err
	}
	conf.Options.SourceType, conf.Options.TargetType = "standalone", "standalone"
	conf.Options.SourceAuthType, conf.Options.TargetAuthType = "auth", "auth"
	conf.Options.ResumeFromBreakPoint = true
	conf.Options.Parallel = 2
	conf.Options.TargetDB = -1
	conf.Options.HttpProfile = 9320
	conf.Options.SenderCount = 4
	conf.Options.SenderSize = 1 << 30
	conf.Options.SenderDelayChannelSize = 64
	conf.Options.Metric = false
	conf.Options.Psync = false
	conf.Options.KeyExists = "rewrite" // a crash during the full sync is followed by a second full sync onto the same keys
	conf.Options.TargetReplace = true
	conf.Options.BigKeyThreshold = 524288000
	conf.Options.TargetVersion = "5.0"
	conf.Options.Id = "verif"
	node := &slot.SyncNode{Id: 0, Source: cfg.Src, SourcePassword: "src-SECRET-pw", Target: []string{cfg.Tgt}, TargetPassword: "tgt-SECRET-pw", SlotLeftBoundary: -1, SlotRightBoundary: -1}
	ds := dbSync.NewDbSyncer(node, 9320, semaphore.NewWeighted(2))
	// never outlive the check: a syncer left behind would re-dial its vanished source once per second for ever
	parent := os.Getppid()
	go func() {
		limit := time.Now().Add(time.Duration(cfg.BudgetMs+30000) * time.Millisecond)
		for {
			time.Sleep(200 * time.Millisecond)
			if os.Getppid() != parent || time.Now().After(limit) {
				os.Exit(3)
			}
		}
	}()
	// the tool's "panic = exit(1)" is kept as it is in production: the abort hook is removed
	uninstallAbortHook()
	ds.Sync()
	select {}
}

func init() {
	register("e2e-servers", e2eServers)
	register("e2e-syncer", e2eSyncer)
}
