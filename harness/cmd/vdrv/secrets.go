package main

// C19: passwords in logs / status output.  Runs the other families' scenarios (end-to-end sync with
// drop + reconnect, full sync, restore, checkpoint load, supervisor, ...) with distinct sentinel
// values in every credential field and the tool's logger at debug level; every emitted log line and
// every status / configuration document is reduced to (sink, fields whose sentinel occurs in it).

import (
	"encoding/json"
	"fmt"
	"strings"

	redigo "github.com/garyburd/redigo/redis"

	rlog "github.com/alibaba/RedisShake/pkg/libs/log"
	"github.com/alibaba/RedisShake/redis-shake/checkpoint"
	utils "github.com/alibaba/RedisShake/redis-shake/common"
	conf "github.com/alibaba/RedisShake/redis-shake/configure"
	"github.com/alibaba/RedisShake/redis-shake/dbSync"
	"github.com/alibaba/RedisShake/redis-shake/dbSync/slot"
	"github.com/alibaba/RedisShake/redis-shake/dbSync/slotsupervisor"
	"github.com/alibaba/RedisShake/redis-shake/metric"

	"verif/harness/mredis"
	"verif/harness/tracer"
)

var sentinels = map[string]string{
	"source.password_raw":      "src-SECRET-pw",
	"target.password_raw":      "tgt-SECRET-pw",
	"source.password_encoding": "src-SECRET-enc",
	"target.password_encoding": "tgt-SECRET-enc",
	"id":                       "verif",
}

func fieldsIn(text string) []string {
	out := []string{}
	for f, v := range sentinels {
		if f != "id" && strings.Contains(text, v) {
			out = append(out, f)
		}
	}
	return out
}

type stubRunner struct{ ds []*dbSync.DbSyncer }

func (s *stubRunner) Main() {}
func (s *stubRunner) GetDetailedInfo() interface{} {
	var ret []map[string]interface{}
	for _, d := range s.ds {
		ret = append(ret, d.GetExtraInfo())
	}
	return ret
}

type secIn struct {
	Seed  int64  `json:"seed"`
	Trace string `json:"trace"`
	Dir   string `json:"dir"`
	Sub   map[string]json.RawMessage `json:"sub"` // inputs for the sub-families to run: "offsets", "fs", ...
}

func secRun(in []byte) (interface{}, error) {
	var cfg secIn
	if err := json.Unmarshal(in, &cfg); err != nil {
		return nil, err
	}
	tr, err := tracer.New(cfg.Trace)
	if err != nil {
		return nil, err
	}
	defer tr.Close()
	rlog.StdLog.SetLevel(rlog.LEVEL_DEBUG)
	sink.mu.Lock()
	sink.keep = true
	sink.mu.Unlock()
	secrets := []string{}
	for f, v := range sentinels {
		if f != "id" {
			secrets = append(secrets, v)
		}
	}
	sink.SetSecrets(secrets...)
	conf.Options.SourcePasswordRaw = sentinels["source.password_raw"]
	conf.Options.TargetPasswordRaw = sentinels["target.password_raw"]
	conf.Options.SourcePasswordEncoding = sentinels["source.password_encoding"]
	conf.Options.TargetPasswordEncoding = sentinels["target.password_encoding"]
	conf.Options.SourceAuthType, conf.Options.TargetAuthType = "auth", "auth"
	conf.Options.LogLevel = "debug"
	paths := []string{}
	// ---- the other families' run paths
	if raw, ok := cfg.Sub["offsets"]; ok {
		if _, err := offRun(raw); err != nil {
			return nil, err
		}
		paths = append(paths, "sync: checkpoint load, PSYNC, full sync, incremental sync, drop + reconnect")
	}
	if raw, ok := cfg.Sub["offsets-badauth"]; ok {
		// the same whole run with an auth command the servers do not know: every connection is refused or unauthenticated, the
		// syncer reports the failures and restarts until the budget is used up
		if _, err := offRun(raw); err != nil {
			return nil, err
		}
		takeAborts()
		paths = append(paths, "sync with an unknown auth command: failed checkpoint load / connection errors / restarts")
	}
	if raw, ok := cfg.Sub["fanin"]; ok {
		// several syncers sharing the full-sync semaphore, one of them refused until its retries are exhausted: the restarts and the
		// tool's last words ("max amount of failures reached ...") are log lines like any other
		if _, err := faninRun(raw); err != nil {
			return nil, err
		}
		takeAborts()
		paths = append(paths, "several sources: refused PSYNCs, restarts, retries exhausted (abort message)")
	}
	if raw, ok := cfg.Sub["fs"]; ok {
		if _, err := fsRun(raw); err != nil {
			return nil, err
		}
		paths = append(paths, "full sync / restore / entry restore / incremental filter matrix")
	}
	if raw, ok := cfg.Sub["incr"]; ok {
		if _, err := incrRun(raw); err != nil {
			return nil, err
		}
		paths = append(paths, "incremental sync with cut + restart")
	}
	if raw, ok := cfg.Sub["rump"]; ok {
		if _, err := ruRun(raw); err != nil {
			return nil, err
		}
		conf.Options.SourcePasswordRaw = sentinels["source.password_raw"]
		conf.Options.TargetPasswordRaw = sentinels["target.password_raw"]
		paths = append(paths, "rump: scan, dump, restore, big-key expansion, vanished keys")
	}
	sink.SetSecrets(secrets...)
	// ---- checkpoint load and supervisor with credentials
	srv := mredis.New(mredis.Options{Password: sentinels["target.password_raw"]})
	addr, _ := srv.Listen()
	runAbortable(func() {
		checkpoint.LoadCheckpoint(0, "10.1.1.1:6379", []string{addr}, "auth", sentinels["target.password_raw"], utils.CheckpointKey, false, false)
	})
	srv.Close()
	sup := slotsupervisor.VerifNew(slot.SyncNode{Id: 1, Source: "10.1.1.1:6379", Slaves: []string{"10.1.1.2:6379"}, SourcePassword: sentinels["source.password_raw"],
		TargetPassword: sentinels["target.password_raw"], Target: []string{"10.2.2.2:6379"}}, func(host, password string, tls bool) (redigo.Conn, error) {
		return nil, fmt.Errorf("dial %s: connection refused", host)
	}, 0)
	runAbortable(func() { sup.GetSlotState() })
	paths = append(paths, "checkpoint load", "slot supervisor with failing nodes")
	// connection opening: right password, wrong password, and an auth command the server does not know (a Redis >= 5 answers
	// an unknown command by echoing its arguments, i.e. the password)
	for _, at := range []string{"auth", "adminauth"} {
		for _, pw := range []string{sentinels["source.password_raw"], sentinels["target.password_raw"]} {
			s2 := mredis.New(mredis.Options{Password: sentinels["source.password_raw"], Version: "5.0.7"})
			a2, _ := s2.Listen()
			runAbortable(func() {
				if c := utils.OpenNetConnSoft(a2, at, pw, false); c != nil {
					c.Close()
				}
			})
			runAbortable(func() {
				if c, err := utils.OpenNetConn(a2, at, pw, false); err == nil && c != nil {
					c.Close()
				}
			})
			runAbortable(func() {
				if c, err := utils.OpenRedisConn([]string{a2}, at, pw, false, false); err == nil && c != nil {
					c.Do("ping")
					c.Close()
				}
			})
			// ... and the callers that report a failed connection: checkpoint load, a dump-style SYNC connection
			runAbortable(func() {
				checkpoint.LoadCheckpoint(0, "10.1.1.1:6379", []string{a2}, at, pw, utils.CheckpointKey, false, false)
			})
			runAbortable(func() {
				if c, _ := utils.OpenSyncConn(a2, at, pw, false); c != nil {
					c.Close()
				}
			})
			s2.Close()
		}
	}
	paths = append(paths, "connection opening with auth / an unknown auth command, right and wrong password")
	if raw, ok := cfg.Sub["supervisor"]; ok {
		// the supervisor family's scenarios (master unchanged, fail-over to a remembered slave, nodes failing, nobody master)
		// with credentials in the supervised node
		svSourcePassword, svTargetPassword = sentinels["source.password_raw"], sentinels["target.password_raw"]
		if _, err := svRun(raw); err != nil {
			return nil, err
		}
		svSourcePassword, svTargetPassword = "pw", ""
		paths = append(paths, "slot supervisor: master unchanged / fail-over / errors / retries exhausted")
	}
	// ---- documents the tool shows / serves
	safe := conf.GetSafeOptions()
	js, _ := json.Marshal(safe)
	tr.Emit(tracer.Ev{"e": "emit", "sink": "config-echo", "fields": fieldsIn(string(js)), "bytes": len(js)})
	tr.Emit(tracer.Ev{"e": "config", "source_password_shown": safe.SourcePasswordRaw, "target_password_shown": safe.TargetPasswordRaw})
	tr.Emit(tracer.Ev{"e": "emit", "sink": "config-echo", "fields": fieldsIn(fmt.Sprintf("%v %+v", safe, safe)), "bytes": 0})
	// which credentials are configured must not matter: every subset of the four fields
	for m := 0; m < 16; m++ {
		saved := conf.Options
		set := func(bit int, dst *string, f string) {
			*dst = ""
			if m&(1<<bit) != 0 {
				*dst = sentinels[f]
			}
		}
		set(0, &conf.Options.SourcePasswordRaw, "source.password_raw")
		set(1, &conf.Options.TargetPasswordRaw, "target.password_raw")
		set(2, &conf.Options.SourcePasswordEncoding, "source.password_encoding")
		set(3, &conf.Options.TargetPasswordEncoding, "target.password_encoding")
		so := conf.GetSafeOptions()
		sj, _ := json.Marshal(so)
		tr.Emit(tracer.Ev{"e": "emit", "sink": "config-echo", "fields": fieldsIn(string(sj) + fmt.Sprintf("%v %+v", so, so)), "bytes": len(sj), "configured": m})
		conf.Options = saved
	}
	node := &slot.SyncNode{Id: 0, Source: "10.1.1.1:6379", SourcePassword: sentinels["source.password_raw"], Target: []string{"10.2.2.2:6379"}, TargetPassword: sentinels["target.password_raw"], SlotLeftBoundary: 0, SlotRightBoundary: 100}
	ds := dbSync.VerifNewDbSyncer(node, true, "rid", 100, 0, utils.CheckpointKey, 4)
	conf.Options.Type = conf.TypeSync
	conf.Options.SourceAddressList = []string{"10.1.1.1:6379"}
	metric.CreateMetric(&stubRunner{ds: []*dbSync.DbSyncer{ds}})
	// the status documents in every form they are served or printed in, with and without the `extra` option
	savedSrcType, savedTgtType := conf.Options.SourceType, conf.Options.TargetType
	for _, extra := range []bool{false, true} {
		for _, styp := range []string{"standalone", "cluster", "sentinel", "proxy"} {
			conf.Options.ExtraInfo = extra
			conf.Options.SourceType, conf.Options.TargetType = styp, styp
			st, _ := json.Marshal(ds.GetExtraInfo())
			tr.Emit(tracer.Ev{"e": "emit", "sink": "syncer-status", "fields": fieldsIn(string(st) + fmt.Sprintf("%v %+v", ds.GetExtraInfo(), ds.GetExtraInfo())), "bytes": len(st), "extra": extra, "type": styp})
			var rest []byte
			runAbortable(func() { rest, _ = json.Marshal(metric.NewMetricRest()) })
			tr.Emit(tracer.Ev{"e": "emit", "sink": "rest-metric", "fields": fieldsIn(string(rest)), "bytes": len(rest), "extra": extra, "type": styp})
		}
	}
	conf.Options.ExtraInfo = false
	conf.Options.SourceType, conf.Options.TargetType = savedSrcType, savedTgtType
	// ---- every log line that carried a sentinel (collected as the lines were written, whatever the volume), and the totals
	sink.mu.Lock()
	leaks := append([]string(nil), sink.leaks...)
	lines, nbytes := sink.lines, sink.bytes
	byLevel := map[string]int{}
	for k, v := range sink.byLevel {
		byLevel[k] = v
	}
	sink.mu.Unlock()
	leaking := len(leaks)
	for i, ln := range leaks {
		if i < 40 {
			tr.Emit(tracer.Ev{"e": "emit", "sink": "log", "fields": fieldsIn(ln), "bytes": len(ln), "text": ln})
		}
	}
	tr.Emit(tracer.Ev{"e": "emit", "sink": "log", "fields": []string{}, "bytes": nbytes, "lines": lines})
	return map[string]interface{}{"log_lines": lines, "log_bytes": nbytes, "by_level": byLevel, "leaking_lines": leaking, "paths": paths, "events": tr.Count()}, nil
}

func init() { register("secrets", secRun) }
