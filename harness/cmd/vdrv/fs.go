package main

// Full sync / restore / single-entry restore driver (C07, C02, C06, parts of C01).
// Builds an RDB with the harness's independent writer, runs the real syncRDBFile /
// restoreRDBFile / RestoreRdbEntry against the model Redis (optionally scheduling the target's
// command processing), records every target command and compares the final keyspace with the
// source's logical values.

import (
	"bufio"
	"bytes"
	"encoding/json"
	"fmt"
	"io/ioutil"
	"math/rand"
	"os"
	"path/filepath"
	"sort"
	"strconv"
	"strings"
	"sync"
	"time"

	"github.com/alibaba/RedisShake/pkg/rdb"
	run "github.com/alibaba/RedisShake/redis-shake"
	utils "github.com/alibaba/RedisShake/redis-shake/common"
	conf "github.com/alibaba/RedisShake/redis-shake/configure"
	"github.com/alibaba/RedisShake/redis-shake/dbSync"
	"github.com/alibaba/RedisShake/redis-shake/dbSync/slot"

	"verif/harness/mredis"
	"verif/harness/rdbref"
	"verif/harness/tracer"
)

type fsEntry struct {
	Id       int    `json:"id"`
	Db       int    `json:"db"`
	Key      string `json:"key"`
	Kind     string `json:"kind"` // string list set zset hash | lua
	N        int    `json:"n"`
	Elem     int    `json:"elem"`
	Enc      int    `json:"enc"`
	TypeByte int    `json:"type"`   // wanted RDB type byte (-1/absent: take Enc)
	ExpireMs int64  `json:"expire"` // relative to now; 0 = none
	Idle     int    `json:"idle"`
	Freq     int    `json:"freq"`
	Chunk    bool   `json:"chunk"` // a plain hash above the 16 MiB chunk limit
}

type fsPre struct {
	Db   int    `json:"db"`
	Key  string `json:"key"`
	Kind string `json:"kind"`
}

type fsTarget struct {
	Version     string `json:"version"`
	NoReplace   bool   `json:"no_replace"`
	BusyText    string `json:"busy_text"`
	RejectTypes []int  `json:"reject_types"`
	FaultKey    string `json:"fault_key"`  // the first RESTORE of this (destination) key is answered with FaultText instead of being executed
	FaultCmd    string `json:"fault_cmd"`  // the command that is refused (default RESTORE): RPUSH / HSET / SADD / ZADD ... for the element-wise routes
	FaultNth    int    `json:"fault_nth"`  // ... and which occurrence of it for that key (default the first)
	FaultText   string `json:"fault_text"`
	DelayMs     int    `json:"delay_ms"` // every RESTORE takes this long (a slow target: the run spans the tool's one-second progress ticks); sched "free" only // e.g. "BUSY Redis is busy running a script. ...", "OOM command not allowed when used memory > 'maxmemory'."
	NoIdleFreq  bool   `json:"no_idle_freq"`
}

type fsCfg struct {
	Mode           string   `json:"mode"` // sync | restore | entry
	Parallel       int      `json:"parallel"`
	Tdb            int      `json:"tdb"`
	KeyExists      string   `json:"key_exists"`
	TargetReplace  bool     `json:"target_replace"`
	BigThreshold   uint64   `json:"big_threshold"`
	TargetVersion  string   `json:"target_version"`
	FilterLua      bool     `json:"filter_lua"`
	ReplaceHashTag bool     `json:"replace_hash_tag"`
	ShiftMs        int64    `json:"shift_ms"`
	FdbWhite       []string `json:"fdb_white"`
	FdbBlack       []string `json:"fdb_black"`
	FkeyWhite      []string `json:"fkey_white"`
	FkeyBlack      []string `json:"fkey_black"`
	Fslot          []string `json:"fslot"`
	Target         fsTarget `json:"target"`
	Sched          string   `json:"sched"` // free | random | victim
	RdbVersion     int      `json:"rdb_version"`
	Files          int      `json:"files"`        // restore-main: the entries are spread over this many input files (default 1)
	RdbParallel    int      `json:"rdb_parallel"` // restore-main: source.rdb.parallel
}

type fsCase struct {
	Id      int       `json:"id"`
	Cfg     fsCfg     `json:"cfg"`
	Pre     []fsPre   `json:"pre"`
	Entries []fsEntry `json:"entries"`
}

type fsIn struct {
	Seed  int64    `json:"seed"`
	Cases []fsCase `json:"cases"`
	Trace string   `json:"trace"`
}

func fsApplyCfg(c *fsCfg) {
	conf.Options.Parallel = c.Parallel
	if conf.Options.Parallel <= 0 {
		conf.Options.Parallel = 1
	}
	conf.Options.TargetDB = c.Tdb
	conf.Options.KeyExists = c.KeyExists
	if conf.Options.KeyExists == "" {
		conf.Options.KeyExists = "none"
	}
	conf.Options.TargetReplace = c.TargetReplace
	conf.Options.BigKeyThreshold = c.BigThreshold
	if c.BigThreshold == 0 {
		conf.Options.BigKeyThreshold = 524288000
	}
	conf.Options.TargetVersion = c.TargetVersion
	conf.Options.FilterLua = c.FilterLua
	conf.Options.ReplaceHashTag = c.ReplaceHashTag
	conf.Options.ShiftTime = time.Duration(c.ShiftMs) * time.Millisecond
	conf.Options.FilterDBWhitelist, conf.Options.FilterDBBlacklist = c.FdbWhite, c.FdbBlack
	conf.Options.FilterKeyWhitelist, conf.Options.FilterKeyBlacklist = c.FkeyWhite, c.FkeyBlack
	conf.Options.FilterSlot = c.Fslot
	conf.Options.Metric = true
	conf.Options.TargetType = "standalone"
	conf.Options.SourceRdbSpecialCloud = ""
	conf.Options.Id = "verif"
}

// fsValue builds the logical value of an entry deterministically from (seed, id).
func fsValue(seed int64, e *fsEntry) rdbref.Value {
	if e.Kind == "incr-string" {
		return rdbref.Value{Kind: "string", Str: []byte(fmt.Sprintf("v%d", e.Id))}
	}
	r := rand.New(rand.NewSource(seed*7919 + int64(e.Id)*104729))
	if e.Chunk {
		v := rdbref.Value{Kind: "hash"}
		for i := 0; i < e.N; i++ {
			val := bytes.Repeat([]byte{byte('a' + i%26)}, e.Elem)
			copy(val, fmt.Sprintf("v%d-%d:", e.Id, i))
			v.Hash = append(v.Hash, rdbref.HF{Field: []byte(fmt.Sprintf("field-%d", i)), Value: val})
		}
		return v
	}
	n := e.N
	if n <= 0 {
		n = 1
	}
	el := e.Elem
	if el <= 0 {
		el = 8
	}
	v := rdbref.RandValue(r, e.Kind, n, el)
	if e.Kind == "string" && len(v.Str) == 0 {
		v.Str = []byte("s")
	}
	return v
}

func fsEncode(seed int64, e *fsEntry, v rdbref.Value) (byte, []byte, error) {
	if e.Chunk {
		return rdbref.EncodeValue(v, rdbref.Enc{Type: rdbref.THash})
	}
	encs := rdbref.RealisticEncodings(v.Kind)
	var cand []rdbref.Enc
	for _, x := range encs {
		if e.TypeByte < 0 || int(x.Type) == e.TypeByte {
			cand = append(cand, x)
		}
	}
	if len(cand) == 0 {
		cand = encs
	}
	var lastErr error
	for i := 0; i < len(cand); i++ {
		t, b, err := rdbref.EncodeValue(v, cand[(e.Enc+i)%len(cand)])
		if err == nil {
			return t, b, nil
		}
		lastErr = err
	}
	return 0, nil, lastErr
}

type fsSrcKey struct {
	e        *fsEntry
	val      rdbref.Value
	typ      byte
	expireAt int64 // abs ms, 0 none
	destDb   int
	destKey  string
}

// scheduler over the model Redis: every command of every connection waits until released.
type fsSched struct {
	mu       sync.Mutex
	strategy string
	rnd      *rand.Rand
	pending  map[int]chan struct{}
	arrive   chan int
	done     chan struct{}
	victim   int
	holds    int
	executed chan struct{}
}

// victimWait: the starved connection is held long (300 ms) the first time, so that commands of other
// workers - which may first have to parse megabytes - really overtake it; later only briefly.
func (s *fsSched) victimWait() time.Duration {
	s.holds++
	if s.holds <= 2 {
		return 300 * time.Millisecond
	}
	return 4 * time.Millisecond
}

func (s *fsSched) loop() {
	for {
		// gather arrivals for a short while
		timeout := time.After(400 * time.Microsecond)
	gather:
		for {
			select {
			case <-s.arrive:
			case <-timeout:
				break gather
			case <-s.done:
				s.mu.Lock()
				for _, ch := range s.pending {
					close(ch)
				}
				s.pending = map[int]chan struct{}{}
				s.mu.Unlock()
				return
			}
		}
		s.mu.Lock()
		var ids []int
		for id := range s.pending {
			ids = append(ids, id)
		}
		sort.Ints(ids)
		pick := -1
		if len(ids) > 0 {
			switch s.strategy {
			case "victim":
				if s.victim == 0 {
					s.victim = ids[0]
				}
				for _, id := range ids {
					if id != s.victim {
						pick = id
						break
					}
				}
				if pick < 0 {
					// only the victim is waiting: give the others a real chance to get ahead first
					s.mu.Unlock()
					select {
					case <-s.arrive:
						continue
					case <-time.After(s.victimWait()):
					case <-s.done:
						continue
					}
					s.mu.Lock()
					if _, ok := s.pending[s.victim]; ok && len(s.pending) == 1 {
						pick = s.victim
					} else {
						s.mu.Unlock()
						continue
					}
				}
			default:
				pick = ids[s.rnd.Intn(len(ids))]
			}
		}
		var ch chan struct{}
		if pick >= 0 {
			ch = s.pending[pick]
			delete(s.pending, pick)
		}
		s.mu.Unlock()
		if ch != nil {
			close(ch)
			select {
			case <-s.executed:
			case <-time.After(2 * time.Second):
			case <-s.done:
			}
		}
	}
}

func fsRun(in []byte) (interface{}, error) {
	var cfg fsIn
	if err := json.Unmarshal(in, &cfg); err != nil {
		return nil, err
	}
	tr, err := tracer.New(cfg.Trace)
	if err != nil {
		return nil, err
	}
	defer tr.Close()
	sink.SetSecrets("src-SECRET-pw", "tgt-SECRET-pw")
	nkeys := 0
	for ci := range cfg.Cases {
		nkeys += fsOne(tr, cfg.Seed, &cfg.Cases[ci])
	}
	return map[string]interface{}{"cases": len(cfg.Cases), "keys": nkeys, "events": tr.Count(), "leaks": sink.Leaks()}, nil
}

func fsOne(tr *tracer.T, seed int64, c *fsCase) int {
	fsApplyCfg(&c.Cfg)
	rej := map[byte]bool{}
	for _, t := range c.Cfg.Target.RejectTypes {
		rej[byte(t)] = true
	}
	srv := mredis.New(mredis.Options{Version: c.Cfg.Target.Version, NoReplace: c.Cfg.Target.NoReplace, BusyText: c.Cfg.Target.BusyText,
		RejectTypes: rej, NoIdleFreq: c.Cfg.Target.NoIdleFreq, Password: "tgt-SECRET-pw"})
	addr, err := srv.Listen()
	if err != nil {
		tr.Emit(tracer.Ev{"e": "harness", "err": err.Error()})
		return 0
	}
	defer srv.Close()
	now := time.Now().UnixNano() / 1e6
	// pre-existing target keys
	for _, p := range c.Pre {
		var v rdbref.Value
		switch p.Kind {
		case "string":
			v = rdbref.Value{Kind: "string", Str: []byte("OLD")}
		case "list":
			v = rdbref.Value{Kind: "list", List: [][]byte{[]byte("OLD1"), []byte("OLD2")}}
		case "set":
			v = rdbref.Value{Kind: "set", Set: [][]byte{[]byte("OLD")}}
		case "zset":
			v = rdbref.Value{Kind: "zset", ZSet: []rdbref.ZM{{Member: []byte("OLD"), Score: 1}}}
		default:
			v = rdbref.Value{Kind: "hash", Hash: []rdbref.HF{{Field: []byte("OLD"), Value: []byte("x")}}}
		}
		srv.Put(p.Db, p.Key, mredis.Entry{Val: v})
	}
	preSnap := srv.Snapshot()
	// the source RDB
	ver := c.Cfg.RdbVersion
	if ver == 0 {
		ver = 9
	}
	nfiles := 1
	if c.Cfg.Mode == "restore-main" && c.Cfg.Files > 1 {
		nfiles = c.Cfg.Files
	}
	fls := make([]*rdbref.File, nfiles)
	curDbs := make([]int, nfiles)
	for i := range fls {
		fls[i] = rdbref.NewFile(ver)
		if ver >= 7 {
			fls[i].Aux([]byte("redis-ver"), []byte("5.0.7"))
		}
		curDbs[i] = -1
	}
	f := fls[0]
	var keys []*fsSrcKey
	var scripts [][]byte
	curDb := -1
	for i := range c.Entries {
		e := &c.Entries[i]
		// (several input files: entry i goes to file i mod n; each file keeps its own selected database)
		fi := i % nfiles
		if e.Kind == "lua" {
			fi = 0
		}
		f = fls[fi]
		curDb = curDbs[fi]
		if e.Kind == "lua" {
			body := []byte(fmt.Sprintf("return %d", e.Id))
			f.Aux([]byte("lua"), body)
			scripts = append(scripts, body)
			continue
		}
		if e.Db != curDb {
			f.SelectDB(uint64(e.Db), rdbref.LenCanonical)
			if ver >= 7 {
				f.ResizeDB(uint64(len(c.Entries)), 1)
			}
			curDb = e.Db
			curDbs[fi] = e.Db
		}
		if c.Cfg.Mode == "incr" {
			e.Kind = "incr-string"
		}
		v := fsValue(seed, e)
		if c.Cfg.Mode == "incr" {
			k := &fsSrcKey{e: e, val: v, destDb: e.Db, destKey: e.Key}
			if c.Cfg.Tdb != -1 {
				k.destDb = c.Cfg.Tdb
			}
			keys = append(keys, k)
			continue
		}
		typ, body, err := fsEncode(seed, e, v)
		if err != nil {
			tr.Emit(tracer.Ev{"e": "harness", "err": "encode: " + err.Error()})
			return 0
		}
		k := &fsSrcKey{e: e, val: v, typ: typ}
		if e.ExpireMs != 0 {
			k.expireAt = now + e.ExpireMs
			f.ExpireMs(uint64(k.expireAt))
		}
		if ver >= 9 && e.Idle > 0 {
			f.Idle(uint64(e.Idle))
		}
		if ver >= 9 && e.Freq > 0 {
			f.Freq(byte(e.Freq))
		}
		f.Key([]byte(e.Key), typ, body)
		k.destDb = e.Db
		if c.Cfg.Tdb != -1 {
			k.destDb = c.Cfg.Tdb
		}
		k.destKey = e.Key
		if c.Cfg.ReplaceHashTag {
			k.destKey = strings.Replace(strings.Replace(e.Key, "{", "", 1), "}", "", 1)
		}
		keys = append(keys, k)
	}
	file := fls[0].Finish(true)
	var moreFiles [][]byte
	for _, x := range fls[1:] {
		moreFiles = append(moreFiles, x.Finish(true))
	}
	ents := []map[string]interface{}{}
	for _, k := range keys {
		ents = append(ents, map[string]interface{}{"id": k.e.Id, "db": k.e.Db, "key": k.e.Key, "kind": k.val.Kind, "type": int(k.typ),
			"chunk": k.e.Chunk, "dest_db": k.destDb, "dest_key": k.destKey, "keyb": bytesToInts([]byte(k.e.Key)), "dest_keyb": bytesToInts([]byte(k.destKey)), "expire": k.e.ExpireMs, "slot": rdbref.KeySlot([]byte(k.e.Key))})
	}
	ints := func(ss []string) []int {
		out := []int{}
		for _, x := range ss {
			n, _ := strconv.Atoi(x)
			out = append(out, n)
		}
		return out
	}
	bss := func(ss []string) [][]int {
		out := [][]int{}
		for _, x := range ss {
			out = append(out, bytesToInts([]byte(x)))
		}
		return out
	}
	pres := []map[string]interface{}{}
	for _, p := range c.Pre {
		pres = append(pres, map[string]interface{}{"db": p.Db, "keyb": bytesToInts([]byte(p.Key)), "kind": p.Kind})
	}
	cfgEv := map[string]interface{}{"mode": c.Cfg.Mode, "parallel": conf.Options.Parallel, "tdb": c.Cfg.Tdb, "key_exists": conf.Options.KeyExists,
		"target_replace": c.Cfg.TargetReplace, "filter_lua": c.Cfg.FilterLua, "sched": c.Cfg.Sched,
		"fdb_white": ints(c.Cfg.FdbWhite), "fdb_black": ints(c.Cfg.FdbBlack), "fkey_white": bss(c.Cfg.FkeyWhite), "fkey_black": bss(c.Cfg.FkeyBlack),
		"fslot": ints(c.Cfg.Fslot)}
	tr.Emit(tracer.Ev{"e": "case", "case": c.Id, "cfg": cfgEv, "entries": ents, "pre": pres, "scripts": len(scripts)})
	// a fault at the target: one RESTORE is refused with an error reply that has nothing to do with the key existing
	var faultMu sync.Mutex
	faultFired := false
	faultSeen := 0
	fault := func(cmd string, args [][]byte) *mredis.Reply {
		fcmd := c.Cfg.Target.FaultCmd
		if fcmd == "" {
			fcmd = "RESTORE"
		}
		if c.Cfg.Target.FaultKey == "" || cmd != fcmd || len(args) == 0 || string(args[0]) != c.Cfg.Target.FaultKey {
			return nil
		}
		faultMu.Lock()
		defer faultMu.Unlock()
		faultSeen++
		if faultFired || (c.Cfg.Target.FaultNth > 1 && faultSeen != c.Cfg.Target.FaultNth) {
			return nil
		}
		faultFired = true
		r := mredis.Err(c.Cfg.Target.FaultText)
		return &r
	}
	if c.Cfg.Target.FaultKey != "" || c.Cfg.Target.DelayMs > 0 {
		srv.SetHook(func(conn, db int, cmd string, args [][]byte) mredis.HookResult {
			if c.Cfg.Target.DelayMs > 0 && cmd == "RESTORE" {
				time.Sleep(time.Duration(c.Cfg.Target.DelayMs) * time.Millisecond)
			}
			return mredis.HookResult{Override: fault(cmd, args)}
		})
	}
	// scheduling of the target
	var sch *fsSched
	if c.Cfg.Sched == "random" || c.Cfg.Sched == "victim" {
		sch = &fsSched{strategy: c.Cfg.Sched, rnd: rand.New(rand.NewSource(seed + int64(c.Id))), pending: map[int]chan struct{}{},
			arrive: make(chan int, 1024), done: make(chan struct{}), executed: make(chan struct{}, 1024)}
		srv.SetHook(func(conn, db int, cmd string, args [][]byte) mredis.HookResult {
			if cmd == "AUTH" {
				return mredis.HookResult{}
			}
			ch := make(chan struct{})
			sch.mu.Lock()
			sch.pending[conn] = ch
			sch.mu.Unlock()
			select {
			case sch.arrive <- conn:
			default:
			}
			<-ch
			o := fault(cmd, args)
			if o != nil {
				select { // the refused command is not executed: tell the scheduler not to wait for it
				case sch.executed <- struct{}{}:
				default:
				}
			}
			return mredis.HookResult{Override: o}
		})
		srv.SetAfterHook(func(e mredis.LogEntry) {
			if e.Cmd != "AUTH" {
				select {
				case sch.executed <- struct{}{}:
				default:
				}
			}
		})
		go sch.loop()
	}
	// run the real code
	var runErr error
	var ab *abortInfo
	var pan string
	rdr := bufio.NewReaderSize(bytes.NewReader(file), 1<<16)
	t0 := time.Now()
	switch c.Cfg.Mode {
	case "incr":
		ab, pan = fsRunIncr(c, keys, scripts, addr, seed, func() int { return len(srv.Log()) })
		if ab != nil && strings.Contains(ab.Err+ab.Msg, "EOF") {
			ab = nil // the parser ends at the end of the scripted stream
		}
	case "restore":
		ab, pan = runAbortable(func() {
			run.VerifRestoreRDBFile(rdr, []string{addr}, "auth", "tgt-SECRET-pw", int64(len(file)), false)
		})
	case "restore-main":
		// the whole restore command: input files on disk, source.rdb.parallel workers over them, round-robin target choice
		dir, _ := ioutil.TempDir("", "vdrv-restore-")
		defer os.RemoveAll(dir)
		var inputs []string
		for i, b := range append([][]byte{file}, moreFiles...) {
			p := filepath.Join(dir, fmt.Sprintf("in-%d.rdb", i))
			ioutil.WriteFile(p, b, 0644)
			inputs = append(inputs, p)
		}
		conf.Options.Type = conf.TypeRestore
		conf.Options.SourceRdbInput = inputs
		conf.Options.SourceRdbParallel = c.Cfg.RdbParallel
		if conf.Options.SourceRdbParallel <= 0 {
			conf.Options.SourceRdbParallel = 1
		}
		conf.Options.TargetAddressList = []string{addr}
		conf.Options.TargetAuthType, conf.Options.TargetPasswordRaw = "auth", "tgt-SECRET-pw"
		conf.Options.TargetTLSEnable = false
		conf.Options.HttpProfile = -1
		conf.Options.ExtraInfo = false
		ab, pan = runAbortable(func() { (&run.CmdRestore{}).Main() })
	case "bigkey":
		// the element-by-element route of rump's writer (utils.RestoreBigkey on a DUMP payload), one call per entry on ONE connection
		// with its remembered database, in file order
		ab, pan = runAbortable(func() {
			conn, err := utils.OpenRedisConn([]string{addr}, "auth", "tgt-SECRET-pw", false, false)
			if err != nil {
				runErr = err
				return
			}
			defer conn.Close()
			l := rdb.NewLoader(rdr)
			if err := l.Header(); err != nil {
				runErr = err
				return
			}
			preDb := 0
			for {
				e, err := l.NextBinEntry()
				if err != nil {
					runErr = fmt.Errorf("loader: %v", err)
					return
				}
				if e == nil {
					return
				}
				dest := int(e.DB)
				if c.Cfg.Tdb != -1 {
					dest = c.Cfg.Tdb
				}
				utils.RestoreBigkey(conn, string(e.Key), string(e.Value), 0, dest, &preDb)
			}
		})
	case "entry":
		ab, pan = runAbortable(func() {
			conn, err := utils.OpenRedisConn([]string{addr}, "auth", "tgt-SECRET-pw", false, false)
			if err != nil {
				runErr = err
				return
			}
			defer conn.Close()
			l := rdb.NewLoader(rdr)
			if err := l.Header(); err != nil {
				runErr = err
				return
			}
			lastdb := 0
			for {
				e, err := l.NextBinEntry()
				if err != nil {
					runErr = fmt.Errorf("loader: %v", err)
					return
				}
				if e == nil {
					return
				}
				dest := int(e.DB)
				if c.Cfg.Tdb != -1 {
					dest = c.Cfg.Tdb
				}
				if dest != lastdb {
					utils.SelectDB(conn, uint32(dest))
					lastdb = dest
				}
				if err := utils.RestoreRdbEntry(conn, e); err != nil {
					runErr = err
					return
				}
			}
		})
	default:
		node := &slot.SyncNode{Id: 0, Source: "10.9.8.7:6379", SourcePassword: "src-SECRET-pw", Target: []string{addr}, TargetPassword: "tgt-SECRET-pw", SlotLeftBoundary: -1, SlotRightBoundary: -1}
		ds := dbSync.VerifNewDbSyncer(node, false, "rid", 0, 0, utils.CheckpointKey, 4)
		ab, pan = runAbortable(func() {
			runErr = ds.VerifSyncRDBFile(rdr, []string{addr}, "auth", "tgt-SECRET-pw", int64(len(file)), false)
		})
	}
	took := time.Since(t0)
	if sch != nil {
		close(sch.done)
	}
	time.Sleep(time.Millisecond)
	// what the target saw
	log := srv.Log()
	seenConn := map[int]bool{}
	for _, e := range log {
		switch e.Cmd {
		case "AUTH", "INFO", "PING":
			continue
		}
		seenConn[e.Conn] = true
		key := ""
		if len(e.Args) > 0 {
			key = string(e.Args[0])
		}
		if e.Cmd == "SCRIPT" && len(e.Args) > 1 {
			key = string(e.Args[1])
		}
		ev := tracer.Ev{"e": "cmd", "case": c.Id, "conn": e.Conn, "db": e.DB, "cmd": e.Cmd, "key": key, "keyb": bytesToInts([]byte(key)), "nargs": len(e.Args), "err": e.Err != ""}
		if e.Cmd == "RESTORE" {
			rep, idle, freq := false, false, false
			for _, a := range e.Args[3:] {
				switch strings.ToUpper(string(a)) {
				case "REPLACE":
					rep = true
				case "IDLETIME":
					idle = true
				case "FREQ":
					freq = true
				}
			}
			ev["replace"], ev["idle"], ev["freq"] = rep, idle, freq
		}
		if e.Cmd == "SELECT" && len(e.Args) > 0 {
			d, _ := strconv.Atoi(string(e.Args[0]))
			ev["arg"] = d
		}
		tr.Emit(ev)
	}
	abMsg := ""
	if ab != nil {
		abMsg = ab.Msg + " " + ab.Err
	}
	faultMu.Lock()
	ff := faultFired
	faultMu.Unlock()
	tr.Emit(tracer.Ev{"e": "done", "case": c.Id, "fault_fired": ff, "err": runErr != nil, "errmsg": fmt.Sprint(runErr), "abort": ab != nil, "abortmsg": abMsg, "panic": pan,
		"conns": len(seenConn), "took_ms": took.Milliseconds(), "scripts_loaded": len(srv.Scripts()), "script_db": fsScriptDb})
	// final keyspace against the source's logical values
	snap := srv.Snapshot()
	end := time.Now().UnixNano() / 1e6
	legit := map[string]bool{}
	for _, k := range keys {
		legit[fmt.Sprintf("%d/%s", k.destDb, k.destKey)] = true
	}
	for _, k := range keys {
		got, present := snap[k.destDb][k.destKey]
		pre, hadPre := preSnap[k.destDb][k.destKey]
		match := present && rdbref.Equal(got.Val, k.val)
		untouched := hadPre && present && rdbref.Equal(got.Val, pre.Val) && got.ExpireAt == pre.ExpireAt
		ttl := "none"
		if present && got.ExpireAt != 0 {
			ttl = "wrong"
			want := k.expireAt - c.Cfg.ShiftMs
			if k.expireAt != 0 && got.ExpireAt >= want-3000 && got.ExpireAt <= want+3000 {
				ttl = "ok"
			}
			if k.expireAt != 0 && k.expireAt-c.Cfg.ShiftMs <= end && got.ExpireAt <= end+3000 {
				ttl = "ok" // already expired at the source: any immediate expiry
			}
		}
		elsewhere := 0
		for d, ks := range snap {
			for kk := range ks {
				if (kk == k.destKey || kk == k.e.Key) && !(d == k.destDb && kk == k.destKey) {
					_, wasPre := preSnap[d][kk]
					if !wasPre && !legit[fmt.Sprintf("%d/%s", d, kk)] {
						elsewhere++
					}
				}
			}
		}
		tr.Emit(tracer.Ev{"e": "final", "case": c.Id, "id": k.e.Id, "db": k.destDb, "key": k.destKey, "present": present, "match": match,
			"untouched": untouched, "had_pre": hadPre, "ttl": ttl, "src_expire": k.e.ExpireMs, "elsewhere": elsewhere,
			"expired_at_source": k.expireAt != 0 && k.expireAt-c.Cfg.ShiftMs <= end})
	}
	return len(keys)
}

func init() { register("fs", fsRun) }

// fsRunIncr pushes the same keys through the incremental path: SELECT / SET commands (plus script and
// internal commands in assorted letter case) decoded by the real parser, batched by the real sender.
// database selected on the source when the script commands of the last incremental scenario were issued
var fsScriptDb = 0

func fsRunIncr(c *fsCase, keys []*fsSrcKey, scripts [][]byte, addr string, seed int64, seen func() int) (*abortInfo, string) {
	rnd := rand.New(rand.NewSource(seed + int64(c.Id)))
	var stream []byte
	cur := -1
	mix := func(s string) string {
		b := []byte(s)
		for i := range b {
			if rnd.Intn(2) == 0 {
				b[i] = byte(strings.ToUpper(string(b[i]))[0])
			}
		}
		return string(b)
	}
	for _, k := range keys {
		if k.e.Db != cur {
			stream = append(stream, respCmd(mix("select"), strconv.Itoa(k.e.Db))...)
			cur = k.e.Db
		}
		stream = append(stream, respCmd(mix("set"), k.e.Key, string(k.val.Str))...)
		if rnd.Intn(4) == 0 {
			stream = append(stream, respCmd(mix("opinfo"), "internal")...)
		}
	}
	for _, sc := range scripts {
		stream = append(stream, respCmd(mix("script"), mix("load"), string(sc))...)
	}
	fsScriptDb = cur
	stream = append(stream, respCmd(mix("opinfo"), "x")...)
	conf.Options.SenderCount = 3
	conf.Options.SenderSize = 1 << 30
	conf.Options.Metric = false
	node := &slot.SyncNode{Id: 0, Source: "10.9.8.7:6379", SourcePassword: "src-SECRET-pw", Target: []string{addr}, TargetPassword: "tgt-SECRET-pw", SlotLeftBoundary: -1, SlotRightBoundary: -1}
	ds := dbSync.VerifNewDbSyncer(node, false, "rid", 0, 0, utils.CheckpointKey, 3)
	tick := make(chan time.Time, 1)
	stopTick := make(chan struct{})
	dbSync.VerifGate = nil
	dbSync.VerifTicker = func(d *dbSync.DbSyncer, t *time.Ticker) {
		if d == ds {
			t.Stop()
			t.C = tick
		}
	}
	go func() {
		for {
			select {
			case <-stopTick:
				return
			case <-time.After(500 * time.Microsecond):
				select {
				case tick <- time.Now():
				default:
				}
			}
		}
	}()
	defer close(stopTick)
	conn, err := utils.OpenRedisConnWithTimeout([]string{addr}, "auth", "tgt-SECRET-pw", 0, 0, false, false)
	if err != nil {
		return &abortInfo{Msg: "open target: " + err.Error()}, ""
	}
	go func() {
		for {
			if _, err := conn.Receive(); err != nil && (utils.CheckHandleNetError(err) || strings.Contains(err.Error(), "closed")) {
				return
			}
		}
	}()
	go func() { runAbortable(func() { ds.VerifSendTargetCommand(conn) }) }()
	ab, pan := runAbortable(func() { ds.VerifParseSourceCommand(bufio.NewReaderSize(bytes.NewReader(stream), 256)) })
	// parser done (EOF): wait until the queue is drained and the ticker has flushed the rest
	for i := 0; i < 2000 && ds.VerifSendBufLen() > 0; i++ {
		time.Sleep(200 * time.Microsecond)
	}
	// ... and until the target has been quiet for a while (a stall budget, not a fixed pause: under load the sender may be
	// descheduled between taking the last command off the queue and writing it out)
	last, quiet := seen(), 0
	for i := 0; i < 1500 && quiet < 12; i++ {
		time.Sleep(2 * time.Millisecond)
		if n := seen(); n != last {
			last, quiet = n, 0
		} else {
			quiet++
		}
	}
	conn.Close()
	return ab, pan
}
