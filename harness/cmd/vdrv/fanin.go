package main

// Several sources into one target (the body of CmdSync.Main): N DbSyncer.Sync() runs share ONE full-sync
// semaphore of weight P (source.rdb.parallel) and one model Redis.  Every scripted source stops in the middle of
// its RDB until the driver lets it go, so the driver - not the Go scheduler - decides which full synchronisation
// ends next; sources may refuse their first PSYNC attempts (-LOADING), or continue from a checkpoint the target
// already holds.  The source-side events (PSYNC refused / full / continue, last part of the RDB about to be
// written), the "settled" observations of the driver and the final per-source state of the target go into one
// sequence that TLC judges with FanInTrace.tla.

import (
	"encoding/json"
	"fmt"
	"strconv"
	"strings"
	"sync"
	"time"

	"golang.org/x/sync/semaphore"

	utils "github.com/alibaba/RedisShake/redis-shake/common"
	conf "github.com/alibaba/RedisShake/redis-shake/configure"
	"github.com/alibaba/RedisShake/redis-shake/dbSync"
	"github.com/alibaba/RedisShake/redis-shake/dbSync/slot"

	"verif/harness/fakesrc"
	"verif/harness/mredis"
	"verif/harness/rdbref"
	"verif/harness/tracer"
)

type faninIn struct {
	Seed      int64  `json:"seed"`
	N         int    `json:"n"`
	P         int    `json:"p"`
	Refusals  []int  `json:"refusals"`  // per source: PSYNC attempts refused before one is accepted
	Resumable []bool `json:"resumable"` // per source: the target already holds its checkpoint (PSYNC continues)
	Policy    string `json:"policy"`    // which waiting full synchronisation is let go next: low | high | rot
	Commands  int    `json:"commands"`
	RdbKeys   int    `json:"rdb_keys"`
	Resume    bool   `json:"resume"` // resume_from_break_point
	SettleMs  int    `json:"settle_ms"`
	Trace     string `json:"trace"`
}

type faninSrc struct {
	srv     *fakesrc.Server
	addr    string
	runid   string
	start   int64
	stream  []byte
	gate    chan struct{}
	resumeK int // commands already applied before the run (resumable sources)
}

func faninRun(in []byte) (interface{}, error) {
	var cfg faninIn
	if err := json.Unmarshal(in, &cfg); err != nil {
		return nil, err
	}
	tr, err := tracer.New(cfg.Trace)
	if err != nil {
		return nil, err
	}
	defer tr.Close()
	sink.SetSecrets("src-SECRET-pw", "tgt-SECRET-pw")
	if cfg.SettleMs == 0 {
		cfg.SettleMs = 30000
	}
	tgt := mredis.New(mredis.Options{Password: "tgt-SECRET-pw"})
	tgtAddr, err := tgt.Listen()
	if err != nil {
		return nil, err
	}
	defer tgt.Close()

	var mu sync.Mutex // protects the observation state below; events are emitted under it, so their order is the order of the updates
	state := make([]string, cfg.N) // "", "held" (PSYNC accepted, RDB not finished), "past" (last RDB part on its way / stream continues)
	psyncs := make([]int, cfg.N)
	srcs := make([]*faninSrc, cfg.N)
	ckptFields := map[int][]rdbref.HF{}
	for i := 0; i < cfg.N; i++ {
		i := i
		fs := &faninSrc{gate: make(chan struct{}, 8), start: int64(1000*(i+1)) + int64(i)*(1<<33)}
		fs.runid = fmt.Sprintf("%02dAAbbccddeeff00112233445566778899aabbcc", i) // (mixed case, distinct per source)
		f := rdbref.NewFile(9)
		f.Aux([]byte("redis-ver"), []byte("5.0.7"))
		f.SelectDB(uint64(i%2), rdbref.LenCanonical)
		for k := 0; k < cfg.RdbKeys; k++ {
			_, body, _ := rdbref.EncodeValue(rdbref.Value{Kind: "string", Str: []byte(fmt.Sprintf("v-%d-%d", i, k))}, rdbref.Enc{Type: rdbref.TString})
			f.Key([]byte(fmt.Sprintf("s%d:k%d", i, k)), rdbref.TString, body)
		}
		rdbBytes := f.Finish(true)
		var ends []int
		fs.stream = append(fs.stream, respCmd("SELECT", strconv.Itoa(i%2))...)
		ends = append(ends, len(fs.stream))
		for c := 0; c < cfg.Commands; c++ {
			fs.stream = append(fs.stream, respCmd("rpush", fmt.Sprintf("s%d:list", i), strconv.Itoa(c))...)
			ends = append(ends, len(fs.stream))
		}
		sc := fakesrc.Script{RunID: fs.runid, Offset: fs.start, RDB: rdbBytes, Stream: fs.stream, PauseUs: 200, RefuseFirst: cfg.Refusals[i],
			RdbGate: fs.gate, RdbGateAt: len(rdbBytes) / 2}
		fs.srv = fakesrc.New(sc, func(e fakesrc.Event) {
			mu.Lock()
			defer mu.Unlock()
			switch e.Kind {
			case "psync":
				psyncs[i]++
				// what the source will answer is known here: refused while refusals are left, else continue iff the request names
				// this source's run id and an offset inside its stream (the same rule as in fakesrc.serve)
			case "refused":
				tr.Emit(tracer.Ev{"e": "psync", "src": i, "kind": "refused"})
			case "rdb-start":
				state[i] = "held"
				tr.Emit(tracer.Ev{"e": "psync", "src": i, "kind": "full"})
			case "rdb-end":
				state[i] = "past"
				tr.Emit(tracer.Ev{"e": "rdb-end", "src": i})
			case "sending":
				if state[i] == "" { // the first stream byte without an RDB before it: the PSYNC was continued
					state[i] = "past"
					tr.Emit(tracer.Ev{"e": "psync", "src": i, "kind": "continue"})
				}
			}
		})
		if fs.addr, err = fs.srv.Listen(); err != nil {
			return nil, err
		}
		defer fs.srv.Close()
		if cfg.Resumable[i] {
			// the target holds this source's checkpoint after its k-th command, and what those commands built
			fs.resumeK = 2 + i%3
			o := fs.start + int64(ends[fs.resumeK])
			db := i % 2
			var pre [][]byte
			for c := 0; c < fs.resumeK; c++ {
				pre = append(pre, []byte(strconv.Itoa(c)))
			}
			tgt.Put(db, fmt.Sprintf("s%d:list", i), mredis.Entry{Val: rdbref.Value{Kind: "list", List: pre}})
			for k := 0; k < cfg.RdbKeys; k++ {
				tgt.Put(db, fmt.Sprintf("s%d:k%d", i, k), mredis.Entry{Val: rdbref.Value{Kind: "string", Str: []byte(fmt.Sprintf("v-%d-%d", i, k))}})
			}
			ckptFields[db] = append(ckptFields[db], faninCkpt(fs.addr, fs.runid, o)...)
		}
		srcs[i] = fs
	}
	for db, hf := range ckptFields {
		tgt.Put(db, utils.CheckpointKey, mredis.Entry{Val: rdbref.Value{Kind: "hash", Hash: hf}})
	}
	res := make([]bool, cfg.N)
	copy(res, cfg.Resumable)
	if !cfg.Resume {
		for i := range res {
			res[i] = false
		}
	}
	tr.Emit(tracer.Ev{"e": "cfg", "n": cfg.N, "p": cfg.P, "refusals": cfg.Refusals, "resumable": res, "max_tries": 3})

	conf.Options.SourceType, conf.Options.TargetType = "standalone", "standalone"
	conf.Options.SourceAuthType, conf.Options.TargetAuthType = "auth", "auth"
	conf.Options.ResumeFromBreakPoint = cfg.Resume
	conf.Options.Parallel = 2
	conf.Options.SourceRdbParallel = cfg.P
	conf.Options.TargetDB = -1
	conf.Options.HttpProfile = 9320
	conf.Options.SenderCount = 4
	conf.Options.SenderSize = 1 << 30
	conf.Options.SenderDelayChannelSize = 64
	conf.Options.Metric = false
	conf.Options.Psync = false
	conf.Options.KeyExists = "none"
	conf.Options.BigKeyThreshold = 524288000
	conf.Options.TargetVersion = "5.0"
	conf.Options.Id = "verif"
	sem := semaphore.NewWeighted(int64(cfg.P)) // as CmdSync.Main does
	for i := 0; i < cfg.N; i++ {
		node := &slot.SyncNode{Id: i, Source: srcs[i].addr, SourcePassword: "src-SECRET-pw", Target: []string{tgtAddr}, TargetPassword: "tgt-SECRET-pw", SlotLeftBoundary: -1, SlotRightBoundary: -1}
		ds := dbSync.NewDbSyncer(node, 9320+i, sem)
		go func() { runAbortable(func() { ds.Sync() }) }()
	}

	// --- the driver: wait until as many full synchronisations are waiting at their gates as the semaphore allows, let one go
	snapshot := func() (held []int, pending int) {
		mu.Lock()
		defer mu.Unlock()
		held = []int{}
		for i := 0; i < cfg.N; i++ {
			switch state[i] {
			case "held":
				held = append(held, i)
				pending++
			case "":
				pending++
			}
		}
		return
	}
	var abortMsg string
	aborted := func() bool {
		if abortMsg != "" {
			return true
		}
		if ab := takeAborts(); len(ab) > 0 {
			abortMsg = ab[0].Msg + " " + ab[0].Err
			return true
		}
		return false
	}
	round := 0
	hang := false
	for {
		held, pending := snapshot()
		if pending == 0 {
			break
		}
		want := pending
		if want > cfg.P {
			want = cfg.P
		}
		deadline := time.Now().Add(time.Duration(cfg.SettleMs) * time.Millisecond)
		for len(held) < want && time.Now().Before(deadline) && !aborted() {
			time.Sleep(5 * time.Millisecond)
			held, pending = snapshot()
			want = pending
			if want > cfg.P {
				want = cfg.P
			}
		}
		if aborted() {
			break
		}
		// a short grace period: a syncer that got past the semaphore although it is full would show up now
		time.Sleep(60 * time.Millisecond)
		mu.Lock()
		h2 := []int{}
		for i := 0; i < cfg.N; i++ {
			if state[i] == "held" {
				h2 = append(h2, i)
			}
		}
		tr.Emit(tracer.Ev{"e": "settle", "held": h2, "timed_out": len(h2) < want})
		mu.Unlock()
		if len(h2) < want {
			hang = true // fewer full synchronisations under way than the semaphore admits and nothing arrives: the rest is stuck
			break
		}
		if len(h2) == 0 {
			continue // the last pending sources continued from their checkpoints meanwhile: nothing is waiting at a gate
		}
		var pick int
		switch cfg.Policy {
		case "high":
			pick = h2[len(h2)-1]
		case "rot":
			pick = h2[round%len(h2)]
		default:
			pick = h2[0]
		}
		round++
		srcs[pick].gate <- struct{}{}
		// wait for that source to get past its RDB
		dl := time.Now().Add(time.Duration(cfg.SettleMs) * time.Millisecond)
		for time.Now().Before(dl) {
			mu.Lock()
			past := state[pick] == "past"
			mu.Unlock()
			if past {
				break
			}
			time.Sleep(2 * time.Millisecond)
		}
	}
	if aborted() {
		tr.Emit(tracer.Ev{"e": "abort", "max_failures": strings.Contains(abortMsg, "max amount of failures"), "msg": abortMsg})
	}
	// every source sends its whole stream; then a quiet period longer than the sender's 500 ms tick
	if !aborted() && !hang {
		dl := time.Now().Add(time.Duration(cfg.SettleMs) * time.Millisecond)
		for time.Now().Before(dl) {
			all := true
			for _, fs := range srcs {
				rest := int64(len(fs.stream))
				if fs.srv.Sent() < rest {
					all = false
				}
			}
			if all {
				break
			}
			time.Sleep(10 * time.Millisecond)
		}
		// then until every source's list is complete in the target (the senders flush on a 500 ms tick; a loaded machine may be late) or
		// 12 s are over, plus a short quiet period
		for t0 := time.Now(); time.Since(t0) < 12*time.Second; time.Sleep(50 * time.Millisecond) {
			done := true
			snapNow := tgt.Snapshot()
			for i := range srcs {
				n := 0
				for _, m := range snapNow {
					if e, ok := m[fmt.Sprintf("s%d:list", i)]; ok {
						n += len(e.Val.List)
					}
				}
				if n < cfg.Commands {
					done = false
				}
			}
			if done {
				break
			}
		}
		time.Sleep(700 * time.Millisecond)
	}
	late := aborted()
	// --- what the target holds, per source
	snap := tgt.Snapshot()
	per := []map[string]interface{}{}
	for i, fs := range srcs {
		db := i % 2
		rdbOK := true
		for k := 0; k < cfg.RdbKeys; k++ {
			found := 0
			for d, m := range snap {
				if e, ok := m[fmt.Sprintf("s%d:k%d", i, k)]; ok {
					found++
					if d != db || string(e.Val.Str) != fmt.Sprintf("v-%d-%d", i, k) {
						rdbOK = false
					}
				}
			}
			if found != 1 {
				rdbOK = false
			}
		}
		var got []string
		lists := 0
		for d, m := range snap {
			if e, ok := m[fmt.Sprintf("s%d:list", i)]; ok {
				lists++
				if d != db {
					lists += 10
				}
				for _, x := range e.Val.List {
					got = append(got, string(x))
				}
			}
		}
		listOK := lists == 1 && len(got) == cfg.Commands
		for c := 0; listOK && c < cfg.Commands; c++ {
			if got[c] != strconv.Itoa(c) {
				listOK = false
			}
		}
		ckptOff, ckptRun, ckptN := "", "", 0
		for _, m := range snap {
			if e, ok := m[utils.CheckpointKey]; ok {
				for _, hf := range e.Val.Hash {
					switch string(hf.Field) {
					case fs.addr + "-" + utils.CheckpointOffset:
						ckptOff = string(hf.Value)
						ckptN++
					case fs.addr + "-" + utils.CheckpointRunId:
						ckptRun = string(hf.Value)
					}
				}
			}
		}
		wantOff := strconv.FormatInt(fs.start+int64(len(fs.stream)), 10)
		mu.Lock()
		np := psyncs[i]
		mu.Unlock()
		per = append(per, map[string]interface{}{"src": i, "rdb_ok": rdbOK, "list_ok": listOK, "applied": len(got),
			"ckpt_ok": !cfg.Resume || (ckptN == 1 && ckptOff == wantOff && ckptRun == fs.runid), "ckpt_off": ckptOff, "want_off": wantOff, "psyncs": np})
	}
	tr.Emit(tracer.Ev{"e": "final", "per": per, "aborted": abortMsg != "", "late_abort": late && abortMsg != "", "hang": hang})
	return map[string]interface{}{"events": tr.Count(), "leaks": sink.Leaks(), "abort": abortMsg, "hang": hang}, nil
}

func faninCkpt(addr, runid string, off int64) []rdbref.HF {
	return []rdbref.HF{
		{Field: []byte(addr + "-" + utils.CheckpointRunId), Value: []byte(runid)},
		{Field: []byte(addr + "-" + utils.CheckpointVersion), Value: []byte("1")},
		{Field: []byte(addr + "-" + utils.CheckpointOffset), Value: []byte(strconv.FormatInt(off, 10))}}
}

func init() { register("fanin", faninRun) }
