package main

// C13: key filtering of multi-key commands.  Every case enumerated by KeyFilter.tla (class of
// key positions x arity x pass vector, with the contract's expected rewrite) is instantiated for
// every command of the tool's table that belongs to the class and run through the real
// filter.HandleFilterKeyWithCommand under a whitelist and under a blacklist.

import (
	"encoding/json"
	"fmt"
	"sort"
	"strings"
	"sync"

	"github.com/alibaba/RedisShake/pkg/redis"
	conf "github.com/alibaba/RedisShake/redis-shake/configure"
	"github.com/alibaba/RedisShake/redis-shake/filter"
)

type kfCase struct {
	Cls  []int  `json:"cls"`
	N    int    `json:"n"`
	Keys []int  `json:"keys"`
	Pass []bool `json:"pass"`
	Cmds []string `json:"cmds"`
	Out  struct {
		Drop bool  `json:"drop"`
		Keep []int `json:"keep"`
	} `json:"out"`
}

type kfIn struct {
	Cases []kfCase `json:"cases"`
}

type kfResult struct {
	Evaluations int        `json:"evaluations"`
	Commands    []string   `json:"commands"`
	Missing     []string   `json:"missing_in_tool_table"`
	Mismatches  []Mismatch `json:"mismatches"`
}

func kfArgs(c *kfCase, passPrefix, failPrefix string) [][]byte {
	iskey := map[int]bool{}
	for _, k := range c.Keys {
		iskey[k] = true
	}
	args := make([][]byte, c.N)
	for i := 1; i <= c.N; i++ {
		switch {
		case iskey[i] && i%3 == 0 && c.Pass[i-1]:
			args[i-1] = []byte(passPrefix) // a key that IS a listed prefix, nothing after it
		case iskey[i] && i%3 == 0:
			args[i-1] = []byte(failPrefix)
		case iskey[i] && c.Pass[i-1]:
			args[i-1] = []byte(fmt.Sprintf("%s:k%d", passPrefix, i))
		case iskey[i]:
			args[i-1] = []byte(fmt.Sprintf("%s:k%d", failPrefix, i))
		default:
			// non-key arguments look like FAILING keys: a mis-classified position shows
			args[i-1] = []byte(fmt.Sprintf("%s:v%d", failPrefix, i))
		}
	}
	return args
}

func kfRun(in []byte) (interface{}, error) {
	var cfg kfIn
	if err := json.Unmarshal(in, &cfg); err != nil {
		return nil, err
	}
	res := &kfResult{}
	seen := map[string]bool{}
	call := func(cmd string, args [][]byte) (out [][]byte, drop bool, pan string) {
		defer func() {
			if r := recover(); r != nil {
				pan = fmt.Sprint(r)
			}
		}()
		cp := make([][]byte, len(args))
		copy(cp, args)
		out, drop = filter.HandleFilterKeyWithCommand(cmd, cp)
		return
	}
	// the command as it arrives from the source: the name in the case the client used (a master propagates
	// commands verbatim; clients conventionally send upper case), through the codec and ParseArgs - the
	// path of parseSourceCommand - and only then through the key filter
	wire := func(name string, args [][]byte) (out [][]byte, drop bool, pan string) {
		defer func() {
			if r := recover(); r != nil {
				pan = fmt.Sprint(r)
			}
		}()
		arr := redis.NewArray()
		arr.AppendBulkBytes([]byte(name))
		for _, a := range args {
			arr.AppendBulkBytes(append([]byte(nil), a...))
		}
		raw, err := redis.EncodeToBytes(arr)
		if err != nil {
			return nil, false, "encode: " + err.Error()
		}
		resp, err := redis.DecodeFromBytes(raw)
		if err != nil {
			return nil, false, "decode: " + err.Error()
		}
		cmd, argv, err := redis.ParseArgs(resp)
		if err != nil {
			return nil, false, "ParseArgs: " + err.Error()
		}
		out, drop = filter.HandleFilterKeyWithCommand(cmd, argv)
		return
	}
	mixed := func(s string) string { // Zadd, Sinterstore: first letter upper case
		if s == "" {
			return s
		}
		return strings.ToUpper(s[:1]) + s[1:]
	}
	render := func(a [][]byte) string {
		s := make([]string, len(a))
		for i := range a {
			s[i] = string(a[i])
		}
		return strings.Join(s, " ")
	}
	for ci, c := range cfg.Cases {
		for _, cmd := range c.Cmds {
			if _, ok := filter.RedisCommands[cmd]; !ok {
				if !seen["!"+cmd] {
					seen["!"+cmd] = true
					res.Missing = append(res.Missing, cmd)
				}
				continue
			}
			seen[cmd] = true
			for _, mode := range []string{"white", "black", "none"} {
				conf.Options.FilterKeyWhitelist, conf.Options.FilterKeyBlacklist = nil, nil
				switch mode {
				case "white":
					conf.Options.FilterKeyWhitelist = []string{"ok:a-prefix-longer-than-any-key", "ok"} // (the first prefix never matches: lists are scanned in order)
				case "black":
					conf.Options.FilterKeyBlacklist = []string{"no:a-prefix-longer-than-any-key", "no"}
				}
				args := kfArgs(&c, "ok", "no")
				var want [][]byte
				wantDrop := c.Out.Drop
				for _, idx := range c.Out.Keep {
					want = append(want, args[idx-1])
				}
				if mode == "none" { // no key filter configured: forwarded unchanged
					want, wantDrop = args, false
				}
				got, drop, pan := call(cmd, args)
				res.Evaluations++
				bad := ""
				switch {
				case pan != "":
					bad = "panic: " + pan
				case drop != wantDrop:
					bad = fmt.Sprintf("dropped=%v, contract says dropped=%v", drop, wantDrop)
				case !drop && render(got) != render(want):
					bad = fmt.Sprintf("forwarded [%s], contract says [%s]", render(got), render(want))
				}
				if bad != "" && len(res.Mismatches) < 400 {
					res.Mismatches = append(res.Mismatches, Mismatch{Case: ci, Kind: "L1",
						Detail: fmt.Sprintf("%s %s (filter %s): %s", cmd, render(args), mode, bad),
						Extra:  map[string]interface{}{"cmd": cmd, "cls": c.Cls, "n": c.N, "pass": c.Pass, "mode": mode}})
				}
				for _, name := range []string{strings.ToUpper(cmd), mixed(cmd)} {
					got, drop, pan := wire(name, args)
					res.Evaluations++
					bad := ""
					switch {
					case pan != "":
						bad = "panic / error: " + pan
					case drop != wantDrop:
						bad = fmt.Sprintf("dropped=%v, contract says dropped=%v", drop, wantDrop)
					case !drop && render(got) != render(want):
						bad = fmt.Sprintf("forwarded [%s], contract says [%s]", render(got), render(want))
					}
					if bad != "" && len(res.Mismatches) < 400 {
						res.Mismatches = append(res.Mismatches, Mismatch{Case: ci, Kind: "L1",
							Detail: fmt.Sprintf("%s %s as received from the source (codec, ParseArgs, filter %s): %s", name, render(args), mode, bad),
							Extra:  map[string]interface{}{"cmd": cmd, "cls": c.Cls, "n": c.N, "pass": c.Pass, "mode": mode + "-wire"}})
					}
				}
			}
		}
	}
	// the same cases from several goroutines at once: one DbSyncer goroutine per source runs the filter concurrently
	for _, mode := range []string{"white", "black"} {
		conf.Options.FilterKeyWhitelist, conf.Options.FilterKeyBlacklist = nil, nil
		if mode == "white" {
			conf.Options.FilterKeyWhitelist = []string{"ok:a-prefix-longer-than-any-key", "ok"} // (the first prefix never matches: lists are scanned in order)
		} else {
			conf.Options.FilterKeyBlacklist = []string{"no:a-prefix-longer-than-any-key", "no"}
		}
		var wg sync.WaitGroup
		var mu sync.Mutex
		for g := 0; g < 8; g++ {
			wg.Add(1)
			go func(g int) {
				defer wg.Done()
				for rep := 0; rep < 20; rep++ {
					for ci := range cfg.Cases {
						c := cfg.Cases[(ci+g*37)%len(cfg.Cases)]
						for _, cmd := range c.Cmds {
							if _, ok := filter.RedisCommands[cmd]; !ok {
								continue
							}
							args := kfArgs(&c, "ok", "no")
							var want [][]byte
							for _, idx := range c.Out.Keep {
								want = append(want, args[idx-1])
							}
							got, drop, pan := call(cmd, args)
							if pan != "" || drop != c.Out.Drop || (!drop && render(got) != render(want)) {
								mu.Lock()
								if len(res.Mismatches) < 400 {
									res.Mismatches = append(res.Mismatches, Mismatch{Case: ci, Kind: "L1",
										Detail: fmt.Sprintf("%s %s (filter %s, 8 concurrent syncers): dropped=%v forwarded [%s] %s; contract says dropped=%v [%s]", cmd, render(args), mode, drop, render(got), pan, c.Out.Drop, render(want)),
										Extra:  map[string]interface{}{"cmd": cmd, "cls": c.Cls, "n": c.N, "pass": c.Pass, "mode": mode + "-concurrent"}})
								}
								mu.Unlock()
								return
							}
						}
					}
				}
			}(g)
		}
		wg.Wait()
		res.Evaluations += 8 * 20 * len(cfg.Cases)
	}
	// commands outside the table (not key-addressed for the tool) are forwarded unchanged
	conf.Options.FilterKeyWhitelist = []string{"ok:a-prefix-longer-than-any-key", "ok"} // (the first prefix never matches: lists are scanned in order)
	for _, cmd := range []string{"zunionstore", "eval", "publish", "flushall", "nosuchcmd"} {
		args := [][]byte{[]byte("no:a"), []byte("no:b")}
		got, drop, pan := call(cmd, args)
		res.Evaluations++
		if pan != "" || drop || render(got) != render(args) {
			res.Mismatches = append(res.Mismatches, Mismatch{Kind: "L1", Detail: fmt.Sprintf("%s is not key-addressed for the tool but was not forwarded unchanged: drop=%v got [%s] %s", cmd, drop, render(got), pan),
				Extra: map[string]interface{}{"cmd": cmd, "mode": "untabled"}})
		}
	}
	conf.Options.FilterKeyWhitelist = nil
	for k := range seen {
		if !strings.HasPrefix(k, "!") {
			res.Commands = append(res.Commands, k)
		}
	}
	sort.Strings(res.Commands)
	// table commands the spec's table does not know
	known := map[string]bool{}
	for _, c := range cfg.Cases {
		for _, x := range c.Cmds {
			known[x] = true
		}
	}
	for name := range filter.RedisCommands {
		if !known[name] && name != "restore-asking" {
			res.Missing = append(res.Missing, "tool-only:"+name)
		}
	}
	return res, nil
}

func init() { register("keyfilter", kfRun) }
