// vdrv is the Go side of the /verif checks: it replays TLC-generated behaviours into the
// real RedisShake code (direction A) and records traces of free-running real code for TLC
// to validate (direction B).  One sub-command per family; input JSON on stdin, result JSON
// on stdout, diagnostics on stderr.  Exit status: 0 = ran (verdict is in the JSON),
// 3 = harness failure.
package main

import (
	"encoding/json"
	"fmt"
	"io/ioutil"
	"os"
	"sort"
)

type family func(in []byte) (interface{}, error)

var families = map[string]family{}

func register(name string, f family) { families[name] = f }

func main() {
	if len(os.Args) < 2 {
		names := []string{}
		for n := range families {
			names = append(names, n)
		}
		sort.Strings(names)
		fmt.Fprintln(os.Stderr, "usage: vdrv <family> < input.json; families:", names)
		os.Exit(3)
	}
	f, ok := families[os.Args[1]]
	if !ok {
		fmt.Fprintln(os.Stderr, "unknown family", os.Args[1])
		os.Exit(3)
	}
	in, err := ioutil.ReadAll(os.Stdin)
	if err != nil {
		fmt.Fprintln(os.Stderr, "read stdin:", err)
		os.Exit(3)
	}
	out, err := f(in)
	if err != nil {
		fmt.Fprintln(os.Stderr, "harness failure:", err)
		os.Exit(3)
	}
	enc := json.NewEncoder(os.Stdout)
	if err := enc.Encode(out); err != nil {
		fmt.Fprintln(os.Stderr, "encode:", err)
		os.Exit(3)
	}
}

// ---- small shared helpers ----

type Mismatch struct {
	Case   int         `json:"case"`
	Step   int         `json:"step"`
	Kind   string      `json:"kind"` // "L1" (property-level), "hang", "drift" (L2 diagnostic only)
	Detail string      `json:"detail"`
	Extra  interface{} `json:"extra,omitempty"`
}

func jnum(m map[string]interface{}, k string) int {
	if v, ok := m[k]; ok {
		switch x := v.(type) {
		case float64:
			return int(x)
		case int:
			return x
		}
	}
	return 0
}

func jstr(m map[string]interface{}, k string) string {
	if v, ok := m[k]; ok {
		if s, ok := v.(string); ok {
			return s
		}
	}
	return ""
}

// stream is the deterministic byte stream written by the pipe / backlog drivers.
func streamByte(seed uint64, pos uint64) byte {
	x := pos*0x9E3779B97F4A7C15 + seed*0xBF58476D1CE4E5B9
	x ^= x >> 29
	x *= 0x94D049BB133111EB
	x ^= x >> 32
	return byte(x)
}

func streamFill(seed uint64, pos uint64, b []byte) {
	for i := range b {
		b[i] = streamByte(seed, pos+uint64(i))
	}
}

func streamMatch(seed uint64, pos uint64, b []byte) bool {
	for i := range b {
		if b[i] != streamByte(seed, pos+uint64(i)) {
			return false
		}
	}
	return true
}
