package main

// C15: key -> slot.  Emits one observation per key / slot range; TLC (SlotTrace.tla) judges them.

import (
	"encoding/json"
	"math/rand"
	"strconv"
	"sync"

	utils "github.com/alibaba/RedisShake/redis-shake/common"
	conf "github.com/alibaba/RedisShake/redis-shake/configure"
	"github.com/alibaba/RedisShake/redis-shake/dbSync/latencymonitor"
	"github.com/alibaba/RedisShake/redis-shake/filter"
	rcluster "github.com/vinllen/redis-go-cluster"

	"verif/harness/tracer"
)

type slotIn struct {
	Seed     int64  `json:"seed"`
	Random   int    `json:"random"`
	MaxLen   int    `json:"maxlen"`
	Ranges   int    `json:"ranges"`
	AllSlots bool   `json:"all_slots"`
	Trace    string `json:"trace"`
}

func bytesToInts(b []byte) []int {
	out := make([]int, len(b))
	for i, c := range b {
		out[i] = int(c)
	}
	return out
}

func slotRun(in []byte) (interface{}, error) {
	var cfg slotIn
	if err := json.Unmarshal(in, &cfg); err != nil {
		return nil, err
	}
	tr, err := tracer.New(cfg.Trace)
	if err != nil {
		return nil, err
	}
	defer tr.Close()
	rnd := rand.New(rand.NewSource(cfg.Seed))
	emitKey := func(k []byte) {
		lib, _ := rcluster.GetSlot(k)
		tr.Emit(tracer.Ev{"e": "slot", "k": bytesToInts(k), "slot": int(utils.KeyToSlot(string(k))),
			"lmcrc": int(latencymonitor.VerifCrc16(string(k))), "lib": int(lib)})
	}
	nkeys := 0
	var sample [][]byte // keys for the concurrent phase below
	// every string up to MaxLen over { } a b : all brace layouts
	alpha := []byte{'{', '}', 'a', 'b'}
	var rec func(prefix []byte)
	rec = func(prefix []byte) {
		emitKey(prefix)
		nkeys++
		if nkeys%5 == 0 && len(sample) < 3000 {
			sample = append(sample, append([]byte{}, prefix...))
		}
		if len(prefix) == cfg.MaxLen {
			return
		}
		for _, c := range alpha {
			rec(append(append([]byte{}, prefix...), c))
		}
	}
	rec(nil)
	for i := 0; i < cfg.Random; i++ {
		n := rnd.Intn(41)
		k := make([]byte, n)
		for j := range k {
			switch rnd.Intn(6) {
			case 0:
				k[j] = '{'
			case 1:
				k[j] = '}'
			default:
				k[j] = byte(rnd.Intn(256))
			}
		}
		emitKey(k)
		nkeys++
	}
	// the same function from several goroutines at once (the restore workers of a full sync all call it): every answer that differs
	// from the sequential one is reported as an observation of its own, which TLC then judges like any other
	{
		want := make([]uint16, len(sample))
		for i, k := range sample {
			want[i] = utils.KeyToSlot(string(k))
		}
		var cmu sync.Mutex
		var cwg sync.WaitGroup
		wrong := 0
		for g := 0; g < 8; g++ {
			cwg.Add(1)
			go func(g int) {
				defer cwg.Done()
				r := rand.New(rand.NewSource(cfg.Seed + int64(g)))
				for rep := 0; rep < 4; rep++ {
					for _, i := range r.Perm(len(sample)) {
						if got := utils.KeyToSlot(string(sample[i])); got != want[i] {
							cmu.Lock()
							if wrong < 50 {
								lib, _ := rcluster.GetSlot(sample[i])
								tr.Emit(tracer.Ev{"e": "slot", "k": bytesToInts(sample[i]), "slot": int(got), "concurrent": true,
									"lmcrc": int(latencymonitor.VerifCrc16(string(sample[i]))), "lib": int(lib)})
							}
							wrong++
							cmu.Unlock()
						}
					}
				}
			}(g)
		}
		cwg.Wait()
	}
	// slot ranges
	type rg struct{ lo, hi int }
	var ranges []rg
	bounds := []int{0, 1, 5460, 5461, 10922, 10923, 16382, 16383}
	for _, a := range bounds {
		for _, b := range bounds {
			if a <= b {
				ranges = append(ranges, rg{a, b})
			}
		}
	}
	for i := 0; i < cfg.Ranges; i++ {
		a := rnd.Intn(16384)
		switch rnd.Intn(3) {
		case 0:
			ranges = append(ranges, rg{a, a})
		case 1:
			b := a + rnd.Intn(8)
			if b > 16383 {
				b = 16383
			}
			ranges = append(ranges, rg{a, b})
		default:
			b := a + rnd.Intn(16384-a)
			ranges = append(ranges, rg{a, b})
		}
	}
	// pairs of ranges whose decimal bounds concatenate to the same digits (1,234 / 12,34): whatever is remembered between two
	// calls must not confuse them
	for i := 0; i < 60+cfg.Ranges/5; i++ {
		lo := rnd.Intn(16384)
		hi := lo + rnd.Intn(16384-lo)
		d := strconv.Itoa(lo) + strconv.Itoa(hi)
		for k := 1; k < len(d); k++ {
			if len(d[k:]) > 1 && d[k] == '0' {
				continue
			}
			lo2, _ := strconv.Atoi(d[:k])
			hi2, _ := strconv.Atoi(d[k:])
			if lo2 <= hi2 && hi2 <= 16383 && (lo2 != lo || hi2 != hi) {
				ranges = append(ranges, rg{lo, hi}, rg{lo2, hi2}, rg{lo, hi})
			}
		}
	}
	ranges = append(ranges, rg{1, 234}, rg{12, 34}, rg{2, 10922}, rg{210, 922}, rg{1, 234})
	if cfg.AllSlots {
		for s := 0; s < 16384; s++ {
			ranges = append(ranges, rg{s, s})
		}
	}
	// the key filter configuration must not matter for checkpoint keys: try with a whitelist that does not match
	conf.Options.FilterKeyWhitelist = []string{"zzz"}
	type res struct {
		ck, lat string
		flt     bool
	}
	out := make([]res, len(ranges))
	var wg sync.WaitGroup
	sem := make(chan struct{}, 16)
	for i := range ranges {
		wg.Add(1)
		sem <- struct{}{}
		go func(i int) {
			defer wg.Done()
			defer func() { <-sem }()
			ck := utils.ChoseSlotInRange(utils.CheckpointKey, ranges[i].lo, ranges[i].hi)
			out[i] = res{ck: ck, lat: latencymonitor.VerifFindKeyInRange(ranges[i].lo, ranges[i].hi)}
		}(i)
	}
	wg.Wait()
	for i, r := range ranges {
		// the checkpoint key must be excluded whatever key filter is configured
		flt := true
		for _, c := range [][2][]string{{nil, nil}, {{"zzz"}, nil}, {nil, {"zzz"}}, {{"r"}, nil}, {{"redis-shake"}, nil},
			{{"redis-shake-checkpoint"}, nil}, {{out[i].ck}, nil}, {nil, {"r"}}, {{"a", "redis-shake-checkpoint-"}, nil}} {
			conf.Options.FilterKeyWhitelist = c[0]
			conf.Options.FilterKeyBlacklist = c[1]
			if !filter.FilterKey(out[i].ck) {
				flt = false
			}
		}
		conf.Options.FilterKeyWhitelist, conf.Options.FilterKeyBlacklist = nil, nil
		tr.Emit(tracer.Ev{"e": "range", "kind": "ckpt", "lo": r.lo, "hi": r.hi, "k": bytesToInts([]byte(out[i].ck)), "filtered": flt})
		tr.Emit(tracer.Ev{"e": "range", "kind": "lat", "lo": r.lo, "hi": r.hi, "k": bytesToInts([]byte(out[i].lat)), "filtered": false})
	}
	return map[string]interface{}{"keys": nkeys, "ranges": len(ranges), "events": tr.Count()}, nil
}

func init() { register("slot", slotRun) }
