package main

// C16: rump mode.  A scenario (source keyspace over several databases, scripted scan pagination with
// arbitrary cursors and empty pages, keys vanishing before DUMP / before PTTL, thresholds, policies,
// target.db, filters, key-file scans) is installed in two model Redis servers (TCP); the REAL
// CmdRump.Main() runs; the final target state and the way the run ended are logged for TLC (RumpTrace).

import (
	"encoding/json"
	"fmt"
	"math/rand"
	"os"
	"path/filepath"
	"strconv"
	"sync"
	"time"

	run "github.com/alibaba/RedisShake/redis-shake"
	conf "github.com/alibaba/RedisShake/redis-shake/configure"

	"verif/harness/mredis"
	"verif/harness/rdbref"
	"verif/harness/tracer"
)

type ruKey struct {
	Id     int    `json:"id"`
	Src    int    `json:"src"` // which source holds it (several sources are migrated at once into the one target)
	Db     int    `json:"db"`
	Name   string `json:"name"`
	Kind   string `json:"kind"`
	N      int    `json:"n"`
	Elem   int    `json:"elem"`
	TtlMs  int64  `json:"ttl"`    // 0: no expiry
	Vanish string `json:"vanish"` // never | dump (gone when DUMP arrives) | pttl (gone when PTTL arrives)
	// the scenario generator's own statement of what the contract needs to know (independent of the tool's filter code)
	Scanned bool `json:"scanned"` // the scan (or key file) returns it, in a database that is visited
	Passes  bool `json:"passes"`  // passes the key filter
}

type ruDb struct {
	Src   int     `json:"src"`
	Db    int     `json:"db"`
	Pages [][]int `json:"pages"` // key ids per page
}

type ruCfg struct {
	ScanKeyNumber uint32   `json:"scan_key_number"`
	BigThreshold  uint64   `json:"big_threshold"`
	KeyExists     string   `json:"key_exists"`
	Tdb           int      `json:"tdb"`
	FdbWhite      []string `json:"fdb_white"`
	FdbBlack      []string `json:"fdb_black"`
	FkeyWhite     []string `json:"fkey_white"`
	FkeyBlack     []string `json:"fkey_black"`
	KeyFile       bool     `json:"key_file"`
	Qps           int      `json:"qps"`          // 0: effectively unlimited
	ScanLullMs    int      `json:"scan_lull_ms"` // the source takes this long to answer its second SCAN (a lull in which the QoS bucket fills up)
	FaultKey      string   `json:"fault_key"`    // the target refuses the RESTORE of this key (OOM): the run must not end as a success
	BlankAt       []int    `json:"blank_at"`     // key file: an empty line (the name of a key that does not exist) before the line with this index
	TargetVersion string   `json:"target_version"`
}

type ruPre struct {
	Db   int    `json:"db"`
	Name string `json:"name"`
}

type ruCase struct {
	Id      int     `json:"id"`
	Sources int     `json:"sources"` // number of sources (default 1)
	Cfg     ruCfg   `json:"cfg"`
	Keys    []ruKey `json:"keys"`
	Dbs     []ruDb  `json:"dbs"`
	Pre     []ruPre `json:"pre"` // keys already in the target (for key_exists = rewrite)
	Seed    int64   `json:"seed"`
}

type ruIn struct {
	SrcPw string   `json:"src_pw"` // credentials of the two servers (C19 runs this family with its sentinel passwords)
	TgtPw string   `json:"tgt_pw"`
	Seed  int64    `json:"seed"`
	Trace string   `json:"trace"`
	Dir   string   `json:"dir"`
	Cases []ruCase `json:"cases"`
}

const ruNow = int64(1700000000000)

func ruRun(in []byte) (interface{}, error) {
	var cfg ruIn
	if err := json.Unmarshal(in, &cfg); err != nil {
		return nil, err
	}
	tr, err := tracer.New(cfg.Trace)
	if err != nil {
		return nil, err
	}
	defer tr.Close()
	stats := map[string]int{}
	for ci := range cfg.Cases {
		c := &cfg.Cases[ci]
		now := func() int64 { return ruNow }
		if c.Sources < 1 {
			c.Sources = 1
		}
		var srcs []*mredis.Server
		var saddrs []string
		for si := 0; si < c.Sources; si++ {
			s := mredis.New(mredis.Options{Now: now, Password: cfg.SrcPw})
			a, err := s.Listen()
			if err != nil {
				return nil, err
			}
			srcs = append(srcs, s)
			saddrs = append(saddrs, a)
		}
		tgt := mredis.New(mredis.Options{Now: now, Version: c.Cfg.TargetVersion, Password: cfg.TgtPw})
		taddr, err := tgt.Listen()
		if err != nil {
			return nil, err
		}
		byId := map[int]*ruKey{}
		vals := map[int]rdbref.Value{}
		var mu sync.Mutex
		vanishAt := map[string]string{} // db/name -> phase
		for i := range c.Keys {
			k := &c.Keys[i]
			byId[k.Id] = k
			r := rand.New(rand.NewSource(c.Seed*7919 + int64(k.Id)*104729))
			v := rdbref.RandValue(r, k.Kind, k.N, k.Elem)
			vals[k.Id] = v
			e := mredis.Entry{Val: v}
			if k.TtlMs > 0 {
				e.ExpireAt = ruNow + k.TtlMs
			}
			srcs[k.Src].Put(k.Db, k.Name, e)
			if k.Vanish != "never" {
				vanishAt[fmt.Sprintf("%d/%d/%s", k.Src, k.Db, k.Name)] = k.Vanish
			}
		}
		for _, p := range c.Pre {
			tgt.Put(p.Db, p.Name, mredis.Entry{Val: rdbref.Value{Kind: "string", Str: []byte("old")}})
		}
		// scripted pagination: arbitrary, non-sequential cursor values; "0" starts and ends a database
		// scripted pagination per source: arbitrary, non-sequential cursor values; "0" starts and ends a database
		cursorOf := func(i int) string { return strconv.Itoa(1000003*i + 17) }
		scans := 0
		nscan := 0
		for si := range srcs {
			si := si
			src := srcs[si]
			pages := map[int][][]int{}
			for _, d := range c.Dbs {
				if d.Src == si {
					pages[d.Db] = d.Pages
				}
			}
			src.SetScanScript(func(db int, cursor string, args [][]byte) (string, [][]byte, bool) {
				mu.Lock()
				scans++
				mu.Unlock()
				ps := pages[db]
				idx := 0
				if cursor != "0" {
					idx = -1
					for i := range ps {
						if cursorOf(i) == cursor {
							idx = i
						}
					}
				}
				if idx < 0 || idx >= len(ps) {
					return "0", nil, true
				}
				var out [][]byte
				for _, id := range ps[idx] {
					out = append(out, []byte(byId[id].Name))
				}
				next := "0"
				if idx+1 < len(ps) {
					next = cursorOf(idx + 1)
				}
				return next, out, true
			})
			src.SetHook(func(conn, db int, cmd string, args [][]byte) mredis.HookResult {
				if cmd == "SCAN" && c.Cfg.ScanLullMs > 0 {
					mu.Lock()
					nscan++
					n := nscan
					mu.Unlock()
					if n == 2 {
						time.Sleep(time.Duration(c.Cfg.ScanLullMs) * time.Millisecond)
					}
				}
				if (cmd == "DUMP" || cmd == "PTTL") && len(args) == 1 {
					mu.Lock()
					ph := vanishAt[fmt.Sprintf("%d/%d/%s", si, db, args[0])]
					mu.Unlock()
					if (cmd == "DUMP" && ph == "dump") || (cmd == "PTTL" && ph == "pttl") {
						src.Delete(db, string(args[0]))
					}
				}
				return mredis.HookResult{}
			})
		}
		faultFired := false
		if c.Cfg.FaultKey != "" {
			tgt.SetHook(func(conn, db int, cmd string, args [][]byte) mredis.HookResult {
				if cmd == "RESTORE" && len(args) > 0 && string(args[0]) == c.Cfg.FaultKey {
					mu.Lock()
					first := !faultFired
					faultFired = true
					mu.Unlock()
					if first {
						r := mredis.Err("OOM command not allowed when used memory > 'maxmemory'.")
						return mredis.HookResult{Override: &r}
					}
				}
				return mredis.HookResult{}
			})
		}
		// ---- configuration
		conf.Options.SourceAddressList = saddrs
		conf.Options.TargetAddressList = []string{taddr}
		conf.Options.SourceAuthType, conf.Options.TargetAuthType = "auth", "auth"
		conf.Options.SourcePasswordRaw, conf.Options.TargetPasswordRaw = cfg.SrcPw, cfg.TgtPw
		conf.Options.SourceTLSEnable, conf.Options.TargetTLSEnable = false, false
		conf.Options.TargetType = "standalone"
		conf.Options.ScanSpecialCloud = ""
		conf.Options.ScanKeyNumber = c.Cfg.ScanKeyNumber
		conf.Options.ScanKeyFile = ""
		conf.Options.BigKeyThreshold = c.Cfg.BigThreshold
		conf.Options.KeyExists = c.Cfg.KeyExists
		conf.Options.TargetDB = c.Cfg.Tdb
		conf.Options.TargetVersion = c.Cfg.TargetVersion
		conf.Options.TargetReplace = true
		conf.Options.Qps = 200000
		if c.Cfg.Qps > 0 {
			conf.Options.Qps = c.Cfg.Qps
		}
		conf.Options.FilterDBWhitelist, conf.Options.FilterDBBlacklist = c.Cfg.FdbWhite, c.Cfg.FdbBlack
		conf.Options.FilterKeyWhitelist, conf.Options.FilterKeyBlacklist = c.Cfg.FkeyWhite, c.Cfg.FkeyBlack
		conf.Options.FilterSlot = nil
		conf.Options.Id = "verif"
		if c.Cfg.KeyFile {
			// the key file lists the keys of the (single) populated database, in page order
			path := filepath.Join(cfg.Dir, fmt.Sprintf("keys-%d.txt", c.Id))
			f, err := os.Create(path)
			if err != nil {
				return nil, err
			}
			line := 0
			for _, d := range c.Dbs {
				for _, pg := range d.Pages {
					for _, id := range pg {
						for _, b := range c.Cfg.BlankAt {
							if b == line {
								fmt.Fprintln(f, "")
							}
						}
						fmt.Fprintln(f, byId[id].Name)
						line++
					}
				}
			}
			f.Close()
			conf.Options.ScanKeyFile = path
		}
		// ---- the real command
		finished := false
		doneCh := make(chan struct{})
		var ab *abortInfo
		var pan string
		t0 := time.Now()
		go func() {
			ab, pan = runAbortable(func() {
				cmd := &run.CmdRump{}
				cmd.Main()
				finished = true
			})
			close(doneCh)
		}()
		hung := false
		limit := time.After(time.Duration(25+len(c.Keys)/maxInt(1, c.Cfg.Qps)) * time.Second)
	wait:
		for {
			select {
			case <-doneCh:
				break wait
			case <-limit:
				hung = true
				break wait
			case <-time.After(100 * time.Millisecond):
				// a goroutine of the command stopped on log.Panic (the tool would have exited): the others wait for it for ever
				if c.Cfg.FaultKey != "" {
					if a := takeAborts(); len(a) > 0 {
						ab = &a[0]
						hung = true
						break wait
					}
				}
			}
		}
		wall := time.Since(t0)
		errText := ""
		if hung {
			// one of the command's goroutines may have stopped on log.Panic (the tool would have exited) while the others wait for it
			if a := takeAborts(); len(a) > 0 {
				ab = &a[0]
			}
		}
		if ab != nil {
			errText = "abort: " + ab.Msg + " " + ab.Err
		}
		if pan != "" {
			errText += " panic: " + pan
		}
		if len(errText) > 400 {
			errText = errText[:400]
		}
		// ---- the final target state
		snap := tgt.Snapshot()
		preSet := map[string]bool{}
		for _, p := range c.Pre {
			preSet[fmt.Sprintf("%d/%s", p.Db, p.Name)] = true
		}
		tdbOf := func(db int) int {
			if c.Cfg.Tdb != -1 {
				return c.Cfg.Tdb
			}
			return db
		}
		target := []map[string]interface{}{}
		foreign := 0
		for db, m := range snap {
			for name, e := range m {
				if preSet[fmt.Sprintf("%d/%s", db, name)] && e.Val.Kind == "string" && string(e.Val.Str) == "old" && e.ExpireAt == 0 {
					// what the target held before the run, untouched
					// (which source key has this name in this - mapped - database, if any: under key_exists = ignore it must stay like this)
					preOf := 0
					for i := range c.Keys {
						if c.Keys[i].Name == name && tdbOf(c.Keys[i].Db) == db {
							preOf = c.Keys[i].Id
						}
					}
					target = append(target, map[string]interface{}{"db": db, "id": 0, "pre": true, "pre_of": preOf, "val_ok": true, "ttl_ok": true})
					continue
				}
				// which source key is this?  (same name, mapped database; prefer the one whose value matches)
				id := 0
				for i := range c.Keys {
					k := &c.Keys[i]
					if k.Name == name && tdbOf(k.Db) == db {
						if id == 0 || rdbref.Equal(e.Val, vals[k.Id]) {
							id = k.Id
						}
					}
				}
				if id == 0 {
					foreign++
					continue
				}
				k := byId[id]
				ttlOK := (k.TtlMs == 0 && e.ExpireAt == 0) || (k.TtlMs > 0 && e.ExpireAt == ruNow+k.TtlMs)
				target = append(target, map[string]interface{}{"db": db, "id": id, "pre": false, "pre_of": 0, "val_ok": rdbref.Equal(e.Val, vals[id]), "ttl_ok": ttlOK})
			}
		}
		// expanded restores are recognisable in the target's log (no RESTORE for the key)
		expanded := 0
		for _, le := range tgt.Log() {
			switch le.Cmd {
			case "RPUSH", "SADD", "ZADD", "HSET", "HMSET":
				expanded++
			}
		}
		jkeys := []map[string]interface{}{}
		for i := range c.Keys {
			k := &c.Keys[i]
			jkeys = append(jkeys, map[string]interface{}{"id": k.Id, "src": k.Src, "db": k.Db, "pre": preSet[fmt.Sprintf("%d/%s", tdbOf(k.Db), k.Name)], "vanish": k.Vanish, "ttl": k.TtlMs > 0, "scanned": k.Scanned, "passes": k.Passes})
		}
		tr.Emit(tracer.Ev{"e": "rcase", "case": c.Id, "keys": jkeys, "scans": scans, "tdb": c.Cfg.Tdb, "sources": c.Sources, "key_exists": c.Cfg.KeyExists})
		tr.Emit(tracer.Ev{"e": "rend", "case": c.Id, "finished": finished, "hung": hung, "err": errText, "target": target, "foreign": foreign, "fault_fired": faultFired,
			"expanded_cmds": expanded, "wall_ms": int(wall / time.Millisecond)})
		if !hung {
			for _, s := range srcs {
				s.Close()
			}
			tgt.Close()
		} else {
			stats["hung"]++
			for _, s := range srcs {
				s.KillConns()
			}
			tgt.KillConns()
		}
		if conf.Options.ScanKeyFile != "" {
			os.Remove(conf.Options.ScanKeyFile)
		}
		stats["cases"]++
		stats["keys"] += len(c.Keys)
		stats["expanded_cmds"] += expanded
		if hung {
			break // goroutines of the hung run still use the global configuration
		}
	}
	return map[string]interface{}{"events": tr.Count(), "stats": stats}, nil
}

func init() { register("rump", ruRun) }
