package main

// C03 / C04: incremental sync.  Lock-step replay of IncrSync.tla behaviours into the real
// parseSourceCommand / sendTargetCommand (gate hooks, substituted ticker) against the model
// Redis, whose per-command hook is the gate for "the target processes the next command".
// After every step the observable target state (applied data commands, checkpoints) is
// recorded; TLC validates the recorded snapshots against the contract (IncrTrace.tla).

import (
	"bufio"
	"bytes"
	"encoding/json"
	"fmt"
	"io"
	"math/rand"
	"strconv"
	"strings"
	"sync"
	"time"

	redigo "github.com/garyburd/redigo/redis"

	"github.com/alibaba/RedisShake/redis-shake/checkpoint"
	utils "github.com/alibaba/RedisShake/redis-shake/common"
	conf "github.com/alibaba/RedisShake/redis-shake/configure"
	"github.com/alibaba/RedisShake/redis-shake/dbSync"
	"github.com/alibaba/RedisShake/redis-shake/dbSync/slot"

	"verif/harness/mredis"
	"verif/harness/tracer"
)

type incrCfg struct {
	Fdbs        []int `json:"fdbs"`
	Kf          bool  `json:"kf"`
	Lua         bool  `json:"lua"`
	Tdb         int   `json:"tdb"`
	Resume      bool  `json:"resume"`
	SenderCount int   `json:"sender_count"`
	BufCap      int   `json:"buf_cap"`
}

type incrIn struct {
	Seed   int64                      `json:"seed"`
	Cfg    incrCfg                    `json:"cfg"`
	Paths  [][]map[string]interface{} `json:"paths"`
	Trace  string                     `json:"trace"`
	HangMs int                        `json:"hang_ms"`
	Free   bool                       `json:"free"` // free-running mode: real ticker, no gates
}

// feed is a blocking byte source for the parser.
type feed struct {
	mu     sync.Mutex
	cond   *sync.Cond
	buf    []byte
	closed bool
}

func newFeed() *feed { f := &feed{}; f.cond = sync.NewCond(&f.mu); return f }
func (f *feed) Write(p []byte) {
	f.mu.Lock()
	f.buf = append(f.buf, p...)
	f.cond.Broadcast()
	f.mu.Unlock()
}
func (f *feed) Close() { f.mu.Lock(); f.closed = true; f.cond.Broadcast(); f.mu.Unlock() }
func (f *feed) Read(p []byte) (int, error) {
	f.mu.Lock()
	defer f.mu.Unlock()
	for len(f.buf) == 0 && !f.closed {
		f.cond.Wait()
	}
	if len(f.buf) == 0 {
		return 0, io.EOF
	}
	n := copy(p, f.buf)
	f.buf = f.buf[n:]
	return n, nil
}

func respCmd(args ...string) []byte {
	var b bytes.Buffer
	fmt.Fprintf(&b, "*%d\r\n", len(args))
	for _, a := range args {
		fmt.Fprintf(&b, "$%d\r\n%s\r\n", len(a), a)
	}
	return b.Bytes()
}

func itemBytes(it map[string]interface{}, rnd *rand.Rand) []byte {
	t := jstr(it, "t")
	id := strconv.Itoa(jnum(it, "id"))
	var b []byte
	if rnd.Intn(5) == 0 {
		b = append(b, '\n') // keep-alive newline in front of the command
	}
	switch t {
	case "sel":
		b = append(b, respCmd([]string{"SELECT", "select", "Select"}[rnd.Intn(3)], strconv.Itoa(jnum(it, "d")))...)
	case "w":
		b = append(b, respCmd("rpush", "ok:k"+strconv.Itoa(jnum(it, "id")%2), id)...)
	case "wf":
		b = append(b, respCmd("RPUSH", "no:k", id)...)
	case "wm":
		b = append(b, respCmd("mset", "ok:m"+id, id, "no:m"+id, id)...)
	case "ping":
		b = append(b, respCmd("PING")...)
	case "multi":
		b = append(b, respCmd("MULTI")...)
	case "exec":
		b = append(b, respCmd("EXEC")...)
	case "eval":
		b = append(b, respCmd([]string{"eval", "EVAL"}[rnd.Intn(2)], "return "+id, "0")...)
	case "opinfo":
		b = append(b, respCmd("opinfo", "x"+id)...)
	case "hello":
		b = append(b, respCmd("PUBLISH", "__sentinel__:hello", "10.0.0.1,26379,abc,"+id)...)
	default:
		b = append(b, respCmd("PING")...)
	}
	return b
}

type appliedEnt struct {
	Id   int    `json:"id"`
	Db   int    `json:"db"`
	Form string `json:"form"`
}

const incrSrc = "10.9.8.7:6379"

// observe derives the contract-level observables from the model Redis.
// the run id the current parser / sender pair runs with and the length of the target's log when it started
var incrCurRunId string
var incrCurSince int

func incrObserve(srv *mredis.Server, resume bool, ends []int, ndb int) (applied []appliedEnt, ckpt []int, rid []int, markers, errs int, notes []string) {
	applied = []appliedEnt{}
	notes = []string{}
	log := srv.Log()
	// databases whose checkpoint offset the CURRENT pair has written: their stored run id must be the one it runs with
	writtenNow := map[int]bool{}
	for i := incrCurSince; i < len(log); i++ {
		e := &log[i]
		if e.Cmd == "HSET" && e.InExec && e.Err == "" && len(e.Args) == 3 && string(e.Args[1]) == incrSrc+"-"+utils.CheckpointOffset {
			writtenNow[e.DB] = true
		}
	}
	inBlockBy := map[int]bool{}
	lastQueuedBy := map[int]*mredis.LogEntry{}
	for i := range log {
		e := &log[i]
		inBlock := inBlockBy[e.Conn]
		lastQueued := lastQueuedBy[e.Conn]
		if e.Err != "" {
			errs++
			notes = append(notes, fmt.Sprintf("target error on %s: %s", e.Cmd, e.Err))
		}
		switch e.Cmd {
		case "MULTI":
			if !resume || inBlock || e.Queued {
				markers++
			}
			inBlockBy[e.Conn] = true
			lastQueuedBy[e.Conn] = nil
			continue
		case "EXEC":
			if e.InExec {
				continue
			}
			if !resume || !inBlock || e.Queued {
				markers++
			} else if lastQueued == nil || lastQueued.Cmd != "HSET" || len(lastQueued.Args) < 2 || !strings.HasSuffix(string(lastQueued.Args[1]), "-"+utils.CheckpointOffset) {
				markers++
				notes = append(notes, "a MULTI/EXEC block on the target does not end with the checkpoint offset HSET")
			}
			inBlockBy[e.Conn] = false
			continue
		}
		if e.Queued {
			lastQueuedBy[e.Conn] = e
			continue
		}
		if e.Err != "" {
			continue
		}
		// executed (directly or inside EXEC)
		if resume && !e.InExec && e.Cmd != "PING" && e.Cmd != "AUTH" && e.Cmd != "INFO" && e.Cmd != "EXISTS" && e.Cmd != "HGETALL" && e.Cmd != "HDEL" && e.Cmd != "SELECT" {
			notes = append(notes, "command executed outside MULTI/EXEC in resume mode: "+e.Cmd)
			markers++
		}
		arg := func(i int) string {
			if i < len(e.Args) {
				return string(e.Args[i])
			}
			return ""
		}
		switch e.Cmd {
		case "RPUSH":
			id, _ := strconv.Atoi(arg(1))
			form := "garbled"
			if len(e.Args) == 2 && strings.HasPrefix(arg(0), "ok:k") && arg(0) == "ok:k"+strconv.Itoa(id%2) {
				form = "w"
			} else if len(e.Args) == 2 && arg(0) == "no:k" {
				form = "wf"
			}
			applied = append(applied, appliedEnt{id, e.DB, form})
		case "MSET":
			id, _ := strconv.Atoi(arg(1))
			form := "garbled"
			if len(e.Args) == 4 && arg(0) == "ok:m"+arg(1) && arg(2) == "no:m"+arg(1) && arg(3) == arg(1) {
				form = "wm"
			} else if len(e.Args) == 2 && arg(0) == "ok:m"+arg(1) {
				form = "wmp"
			}
			applied = append(applied, appliedEnt{id, e.DB, form})
		case "EVAL":
			id, _ := strconv.Atoi(strings.TrimPrefix(arg(0), "return "))
			form := "eval"
			if len(e.Args) != 2 || arg(1) != "0" {
				form = "garbled"
			}
			applied = append(applied, appliedEnt{id, e.DB, form})
		case "OPINFO", "PUBLISH":
			applied = append(applied, appliedEnt{0, e.DB, "internal:" + e.Cmd})
		}
	}
	snap := srv.Snapshot()
	ckpt = make([]int, ndb)
	rid = []int{}
	for d := 0; d < ndb; d++ {
		ckpt[d] = -1
		if e, ok := snap[d][utils.CheckpointKey]; ok {
			for _, f := range e.Val.Hash {
				switch string(f.Field) {
				case incrSrc + "-" + utils.CheckpointOffset:
					o, _ := strconv.Atoi(string(f.Value))
					ckpt[d] = -2 // not the end of a command
					for i, end := range ends {
						if end == o {
							ckpt[d] = i + 1
						}
					}
					if ckpt[d] == -2 {
						notes = append(notes, fmt.Sprintf("checkpoint offset %d in db %d is not the end offset of a source command (ends %v)", o, d, ends))
					}
				case incrSrc + "-" + utils.CheckpointRunId:
					if writtenNow[d] && incrCurRunId != "" && string(f.Value) != incrCurRunId {
						notes = append(notes, fmt.Sprintf("db %d: the offset was written by a syncer running with run id %q but the stored run id is %q", d, incrCurRunId, f.Value))
					} else {
						rid = append(rid, d)
					}
				}
			}
		}
	}
	return
}

type incrRig struct {
	mu      sync.Mutex
	ds      *dbSync.DbSyncer
	free    bool
	arrive  map[byte]chan struct{}
	release map[byte]chan struct{}
	tick    chan time.Time
	goids   map[int64]bool // goroutines of this pair (parser, sender)
}

func (r *incrRig) addGoid(g int64) {
	r.mu.Lock()
	if r.goids == nil {
		r.goids = map[int64]bool{}
	}
	r.goids[g] = true
	r.mu.Unlock()
}

// rigAborts takes the recorded aborts and keeps those of the given pair.
func rigAborts(r *incrRig) []abortInfo {
	var out []abortInfo
	for _, a := range takeAborts() {
		if r == nil {
			continue
		}
		r.mu.Lock()
		ok := r.goids[a.Goid]
		r.mu.Unlock()
		if ok {
			out = append(out, a)
		}
	}
	return out
}

var curIncr *incrRig
var curIncrMu sync.RWMutex

func installIncrHooks() {
	dbSync.VerifGate = func(ds *dbSync.DbSyncer, who byte) {
		curIncrMu.RLock()
		r := curIncr
		curIncrMu.RUnlock()
		if r == nil || r.ds != ds {
			return
		}
		r.mu.Lock()
		free := r.free
		r.mu.Unlock()
		if free {
			return
		}
		r.arrive[who] <- struct{}{}
		<-r.release[who]
	}
	dbSync.VerifTicker = func(ds *dbSync.DbSyncer, t *time.Ticker) {
		curIncrMu.RLock()
		r := curIncr
		curIncrMu.RUnlock()
		if r == nil || r.free {
			return
		}
		t.Stop()
		t.C = r.tick
	}
}

type countConn struct {
	redigo.Conn
	mu   sync.Mutex
	sent int
}

func (c *countConn) Send(cmd string, args ...interface{}) error {
	c.mu.Lock()
	c.sent++
	c.mu.Unlock()
	return c.Conn.Send(cmd, args...)
}
func (c *countConn) Sent() int { c.mu.Lock(); defer c.mu.Unlock(); return c.sent }

func incrRun(in []byte) (interface{}, error) {
	var cfg incrIn
	if err := json.Unmarshal(in, &cfg); err != nil {
		return nil, err
	}
	if cfg.HangMs == 0 {
		cfg.HangMs = 5000
	}
	tr, err := tracer.New(cfg.Trace)
	if err != nil {
		return nil, err
	}
	defer tr.Close()
	installIncrHooks()
	sink.SetSecrets("src-SECRET-pw", "tgt-SECRET-pw")
	// configuration (process global)
	conf.Options.FilterDBBlacklist = nil
	for _, d := range cfg.Cfg.Fdbs {
		conf.Options.FilterDBBlacklist = append(conf.Options.FilterDBBlacklist, strconv.Itoa(d))
	}
	conf.Options.FilterKeyWhitelist, conf.Options.FilterKeyBlacklist = nil, nil
	if cfg.Cfg.Kf {
		if cfg.Seed%2 == 0 {
			conf.Options.FilterKeyWhitelist = []string{"ok"}
		} else {
			conf.Options.FilterKeyBlacklist = []string{"no"}
		}
	}
	conf.Options.FilterLua = cfg.Cfg.Lua
	conf.Options.TargetDB = -1
	if cfg.Cfg.Tdb != 9 {
		conf.Options.TargetDB = cfg.Cfg.Tdb
	}
	conf.Options.SenderCount = uint(cfg.Cfg.SenderCount)
	conf.Options.SenderSize = 1 << 30
	conf.Options.Metric = false
	conf.Options.Id = "verif"
	conf.Options.LogLevel = "info"
	out := map[string]interface{}{}
	var ms []Mismatch
	steps, drifts := 0, 0
	hang := time.Duration(cfg.HangMs) * time.Millisecond
	for pi, path := range cfg.Paths {
		m, st, dr := incrOne(tr, &cfg, pi, path, hang)
		ms = append(ms, m...)
		steps += st
		drifts += dr
		hangs, l1 := 0, 0
		for _, x := range ms {
			if x.Kind == "hang" {
				hangs++
			}
			if x.Kind == "L1" {
				l1++
			}
		}
		if hangs >= 3 || l1 >= 12 {
			break // the verdict is in; every further aborted / hung behaviour costs a watchdog period and adds nothing
		}
	}
	out["paths"] = len(cfg.Paths)
	out["steps"] = steps
	out["drifts"] = drifts
	out["mismatches"] = ms
	out["events"] = tr.Count()
	out["leaks"] = sink.Leaks()
	return out, nil
}

func incrOne(tr *tracer.T, cfg *incrIn, pi int, path []map[string]interface{}, hang time.Duration) (ms []Mismatch, steps, drifts int) {
	rnd := rand.New(rand.NewSource(cfg.Seed*1000003 + int64(pi)))
	srv := mredis.New(mredis.Options{Password: "tgt-SECRET-pw"})
	addr, err := srv.Listen()
	if err != nil {
		return []Mismatch{{Case: pi, Kind: "harness", Detail: err.Error()}}, 0, 0
	}
	defer srv.Close()
	add := func(step int, kind, detail string) {
		ms = append(ms, Mismatch{Case: pi, Step: step, Kind: kind, Detail: detail})
	}
	tr.Emit(tracer.Ev{"e": "cfg", "case": pi, "cfg": map[string]interface{}{"fdbs": append([]int{}, cfg.Cfg.Fdbs...), "kf": cfg.Cfg.Kf, "lua": cfg.Cfg.Lua, "tdb": cfg.Cfg.Tdb, "resume": cfg.Cfg.Resume}})
	// target-side gate: one command of the sync connection per release
	var gmu sync.Mutex
	syncConn := -1
	tArrive := make(chan struct{}, 4096)
	tRelease := make(chan struct{}, 4096)
	tDone := make(chan struct{}, 4096)
	gateOn := true
	srv.SetHook(func(conn, db int, cmd string, args [][]byte) mredis.HookResult {
		gmu.Lock()
		on := gateOn && conn == syncConn && cmd != "AUTH"
		gmu.Unlock()
		if on {
			tArrive <- struct{}{}
			<-tRelease
		}
		return mredis.HookResult{}
	})
	srv.SetAfterHook(func(e mredis.LogEntry) {
		gmu.Lock()
		on := gateOn && e.Conn == syncConn && !e.InExec && e.Cmd != "AUTH"
		gmu.Unlock()
		if on {
			tDone <- struct{}{}
		}
	})
	var stream []byte
	var ends []int
	var rig *incrRig
	var fd *feed
	var cc *countConn
	released := 0 // commands of the current connection released to the target
	node := &slot.SyncNode{Id: 0, Source: incrSrc, SourcePassword: "src-SECRET-pw", Target: []string{addr}, TargetPassword: "tgt-SECRET-pw", SlotLeftBoundary: -1, SlotRightBoundary: -1}
	waitCh := func(ch chan struct{}) bool {
		select {
		case <-ch:
			return true
		case <-time.After(hang):
			return false
		}
	}
	start := func(offset int64, startDb int, runId string) bool {
		incrCurRunId, incrCurSince = runId, len(srv.Log())
		gmu.Lock()
		syncConn = srv.AcceptedConns() + 1
		gmu.Unlock()
		c, err := utils.OpenRedisConnWithTimeout([]string{addr}, "auth", "tgt-SECRET-pw", 0, 0, false, false)
		if err != nil {
			add(0, "harness", "open target conn: "+err.Error())
			return false
		}
		cc = &countConn{Conn: c}
		released = 0
		ds := dbSync.VerifNewDbSyncer(node, cfg.Cfg.Resume, runId, offset, startDb, utils.CheckpointKey, cfg.Cfg.BufCap)
		rig = &incrRig{ds: ds, free: cfg.Free, arrive: map[byte]chan struct{}{'p': make(chan struct{}, 4), 's': make(chan struct{}, 4)},
			release: map[byte]chan struct{}{'p': make(chan struct{}, 4), 's': make(chan struct{}, 4)}, tick: make(chan time.Time, 4)}
		curIncrMu.Lock()
		curIncr = rig
		curIncrMu.Unlock()
		fd = newFeed()
		if int(offset) < len(stream) {
			fd.Write(stream[offset:])
		}
		// replies are drained by the harness: the tool's receiveTargetReply spins forever on a dead
		// connection when metrics are off, which would leak one busy goroutine per scenario
		go func() {
			for {
				if _, err := c.Receive(); err != nil && (utils.CheckHandleNetError(err) || strings.Contains(err.Error(), "closed")) {
					return
				}
			}
		}()
		// the pair's goroutine ids: an abort (the tool's "panic = exit") is attributed to THIS pair only if it comes from one
		// of them - the pair of before a cut ends by such an abort some time after its connections were killed
		myRig := rig
		// (plain goroutines: the recorded abort stays in the list until the step that misses the goroutine asks for it)
		pair := func(f func()) {
			go func() {
				defer func() {
					if r := recover(); r != nil {
						abortMu.Lock()
						aborts = append(aborts, abortInfo{Msg: "go panic", Err: fmt.Sprint(r), Goid: goid()})
						abortMu.Unlock()
					}
				}()
				myRig.addGoid(goid())
				f()
			}()
		}
		pair(func() { ds.VerifSendTargetCommand(cc) })
		pair(func() { ds.VerifParseSourceCommand(bufio.NewReaderSize(fd, 64)) })
		if cfg.Free {
			return true
		}
		if !waitCh(rig.arrive['p']) || !waitCh(rig.arrive['s']) {
			add(0, "hang", "parser/sender did not reach their loops")
			return false
		}
		return true
	}
	stop := func() {
		// cut first: a command waiting in the target's gate must not execute any more
		srv.KillConns()
		gmu.Lock()
		gateOn = false
		gmu.Unlock()
		for i := 0; i < 64; i++ {
			select {
			case tRelease <- struct{}{}:
			default:
			}
		}
		if rig != nil {
			rig.mu.Lock()
			rig.free = true
			rig.mu.Unlock()
			for _, w := range []byte{'p', 's'} {
				select {
				case rig.release[w] <- struct{}{}:
				default:
				}
			}
		}
		srv.KillConns()
		if fd != nil {
			fd.Close()
		}
		if rig != nil {
			select {
			case rig.tick <- time.Now():
			default:
			}
		}
		time.Sleep(2 * time.Millisecond)
		takeAborts()
		for len(tArrive) > 0 {
			<-tArrive
		}
		for len(tDone) > 0 {
			<-tDone
		}
		for len(tRelease) > 0 {
			<-tRelease
		}
		gmu.Lock()
		gateOn = true
		gmu.Unlock()
	}
	defer stop()
	if cfg.Free {
		// free-running: real goroutine scheduling and the REAL 500 ms ticker; no gates anywhere
		gmu.Lock()
		gateOn = false
		gmu.Unlock()
	}
	if !start(0, 0, "0123456789abcdef0123456789abcdef01234567") {
		return
	}
	snap := func(step int, action string, quiet bool) {
		applied, ckpt, rid, markers, errs, notes := incrObserve(srv, cfg.Cfg.Resume, ends, 2)
		tr.Emit(tracer.Ev{"e": "snap", "case": pi, "step": step, "a": action, "applied": applied, "ckpt": ckpt, "rid": rid,
			"markers": markers, "errors": errs, "quiet": quiet, "nstream": len(ends), "notes": notes, "resume": cfg.Cfg.Resume})
	}
	if cfg.Free {
		for _, st := range path {
			it := st["item"].(map[string]interface{})
			b := itemBytes(it, rnd)
			stream = append(stream, b...)
			ends = append(ends, len(stream))
			tr.Emit(tracer.Ev{"e": "emit", "case": pi, "item": map[string]interface{}{"t": jstr(it, "t"), "d": jnum(it, "d"), "id": jnum(it, "id")}})
			// arbitrary fragmentation and timing of the arrival
			for len(b) > 0 {
				n := 1 + rnd.Intn(len(b))
				fd.Write(b[:n])
				b = b[n:]
				if rnd.Intn(3) == 0 {
					time.Sleep(time.Duration(rnd.Intn(3000)) * time.Microsecond)
				}
			}
			steps++
		}
		// the stream is idle now: everything must reach the target within two ticker periods (+ slack)
		// (at least 1.4 s, then until the target has not changed for 1.2 s - more than two ticker periods - or 6 s are over: a loaded machine
		// may deliver a tick late, a flush that never comes still ends the wait)
		t0 := time.Now()
		lastN, stableSince := -1, time.Now()
		for time.Since(t0) < 6*time.Second {
			applied, _, _, _, _, _ := incrObserve(srv, cfg.Cfg.Resume, ends, 2)
			if n := len(applied); n != lastN {
				lastN, stableSince = n, time.Now()
			}
			if time.Since(t0) >= 1400*time.Millisecond && time.Since(stableSince) >= 1200*time.Millisecond {
				break
			}
			time.Sleep(100 * time.Millisecond)
		}
		snap(len(path), "IdleAfterTwoTicks", true)
		return
	}
	dead := false
	drifted := false
	parserBusy := false // the parser was released and has not come back to its gate yet
	lastRestart := ""
	// quiesce: parse everything, dequeue everything, two ticks, let the target process all
	quiesce := func(at int) {
		// run to quiescence: parse everything, dequeue everything, a final tick, let the target process all
		for guard := 0; guard < 400; guard++ {
			progressed := false
			fd.mu.Lock()
			pending := len(fd.buf) > 0
			fd.mu.Unlock()
			_ = pending
			if rig.ds.VerifSendBufLen() > 0 {
				rig.release['s'] <- struct{}{}
				if !waitCh(rig.arrive['s']) {
					add(at, "hang", "sender stuck while draining")
					dead = true
					break
				}
				progressed = true
			}
			for cc.Sent() > released {
				if !waitCh(tArrive) {
					add(at, "hang", "flushed command did not arrive at the target while draining")
					dead = true
					break
				}
				tRelease <- struct{}{}
				released++
				waitCh(tDone)
				progressed = true
			}
			if dead {
				break
			}
			if !progressed {
				// anything left unparsed?  release the parser; it blocks on the empty feed when done
				if !parserBusy {
					select {
					case rig.release['p'] <- struct{}{}:
					default:
					}
				}
				parserBusy = false
				select {
				case <-rig.arrive['p']:
					progressed = true
				case <-time.After(3 * time.Millisecond):
				}
			}
			if !progressed {
				break
			}
		}
		if !dead {
			// at most two ticks flush whatever is cached
			for k := 0; k < 2; k++ {
				rig.tick <- time.Now()
				rig.release['s'] <- struct{}{}
				if !waitCh(rig.arrive['s']) {
					add(at, "hang", "sender stuck on the final tick")
					dead = true
					break
				}
				for cc.Sent() > released {
					if !waitCh(tArrive) {
						dead = true
						break
					}
					tRelease <- struct{}{}
					released++
					waitCh(tDone)
				}
			}
		}
	}
	for si, st := range path {
		if dead || drifted {
			break
		}
		steps++
		a := jstr(st, "a")
		switch a {
		case "SrcEmit":
			it := st["item"].(map[string]interface{})
			b := itemBytes(it, rnd)
			stream = append(stream, b...)
			ends = append(ends, len(stream))
			tr.Emit(tracer.Ev{"e": "emit", "case": pi, "item": map[string]interface{}{"t": jstr(it, "t"), "d": jnum(it, "d"), "id": jnum(it, "id")}})
			fd.Write(b)
		case "Parse":
			wasFull := rig.ds.VerifSendBufLen() >= cfg.Cfg.BufCap
			rig.release['p'] <- struct{}{}
			ok := false
			if wasFull {
				// fine if the command is dropped by a filter; if the real parser wants to enqueue it blocks: the
				// model took another road (drift), the contract judges the outcome after draining
				select {
				case <-rig.arrive['p']:
					ok = true
				case <-time.After(300 * time.Millisecond):
				}
				if !ok && rig.ds.VerifSendBufLen() >= cfg.Cfg.BufCap {
					add(si, "drift", "model parses a command without enqueuing, the real parser is blocked on the full send queue")
					drifts++
					drifted = true
					parserBusy = true
					break
				}
			}
			if !ok && !waitCh(rig.arrive['p']) {
				if ab := rigAborts(rig); len(ab) > 0 {
					add(si, "L1", "the tool aborted while parsing the source stream: "+ab[0].Msg+" "+ab[0].Err)
				} else {
					fd.mu.Lock()
					pend := len(fd.buf)
					fd.mu.Unlock()
					add(si, "hang", fmt.Sprintf("parser did not finish one command (unread source bytes %d, send queue %d/%d, stream bytes %d, ends %v)", pend, rig.ds.VerifSendBufLen(), cfg.Cfg.BufCap, len(stream), ends)+" "+lastRestart)
				}
				dead = true
			}
		case "Deq", "Tick":
			if a == "Deq" && rig.ds.VerifSendBufLen() == 0 {
				// the model dequeues an item the real parser never enqueued: the code took another road;
				// stop following the path, run the real code to quiescence and let the contract judge it
				add(si, "drift", "model dequeues an item, the real send queue is empty")
				drifts++
				drifted = true
				break
			}
			if a == "Tick" {
				rig.tick <- time.Now()
			}
			rig.release['s'] <- struct{}{}
			if !waitCh(rig.arrive['s']) {
				if ab := rigAborts(rig); len(ab) > 0 {
					add(si, "L1", "the tool aborted while sending to the target: "+ab[0].Msg+" "+ab[0].Err)
				} else {
					add(si, "hang", "sender did not finish one iteration")
				}
				dead = true
			}
		case "TargetRecv":
			if cc.Sent() <= released {
				add(si, "drift", fmt.Sprintf("model says the target has a command to process, the tool has sent only %d (released %d)", cc.Sent(), released))
				drifts++
				drifted = true
				break
			}
			if !waitCh(tArrive) {
				add(si, "hang", "flushed command did not arrive at the target")
				dead = true
				break
			}
			tRelease <- struct{}{}
			released++
			if !waitCh(tDone) {
				add(si, "hang", "target did not execute the released command")
				dead = true
			}
		case "Crash":
			stop()
			wantOff := jnum(st, "off")
			var runid string
			var off int64
			var db int
			var lerr error
			ab, pan := runAbortableOwn(func() {
				runid, off, db, lerr = checkpoint.LoadCheckpoint(0, incrSrc, []string{addr}, "auth", "tgt-SECRET-pw", utils.CheckpointKey, false, false)
			})
			tr.Emit(tracer.Ev{"e": "restart", "case": pi, "runid_known": runid != "?" && runid != "", "offset": off, "db": db, "err": lerr != nil || ab != nil || pan != ""})
			if lerr != nil || ab != nil || pan != "" {
				add(si, "L1", fmt.Sprintf("LoadCheckpoint failed after a cut: %v %v %s", lerr, ab, pan))
				dead = true
				break
			}
			anywhere := wantOff == -2 // a hand-picked path: resume from whatever the real loader says
			if off < 0 || runid == "?" {
				if wantOff >= 0 {
					add(si, "drift", fmt.Sprintf("model resumes from item %d, the loader found no usable checkpoint (%q,%d,%d)", wantOff, runid, off, db))
					drifts++
				}
				dead = true // full resync: outside this family
				break
			}
			lastRestart = fmt.Sprintf("restart at (%q,%d,%d), model expected item %d", runid, off, db, wantOff)
			if !anywhere && (wantOff < 1 || wantOff > len(ends) || int(off) != ends[wantOff-1]) {
				// the real target holds another checkpoint than the model: stop following the path, run the
				// real code to quiescence from where the real loader says; the contract judges the outcome
				add(si, "drift", "after the cut the real loader resumes elsewhere than the model: "+lastRestart)
				drifts++
				drifted = true
			}
			// sometimes the restarted syncer runs with ANOTHER run id than the stored one (the state after the source answered the
			// resume attempt with a new replication id): whatever it writes from now on must carry that id
			if rnd.Intn(3) == 0 {
				runid = fmt.Sprintf("%040x", 0xabc000+pi*16+si)
			}
			if !start(off, db, runid) {
				dead = true
			}
		case "Quiesce":
			// (hand-picked paths) everything emitted so far is parsed, sent and executed before the next step
			quiesce(si)
			drifted = false
		case "Init":
		}
		if (!dead && !drifted) || a == "Crash" {
			snap(si, a, false)
		}
	}
	if !dead {
		quiesce(len(path))
		if !dead {
			snap(len(path), "Quiesce", true)
		}
	}
	return
}

func init() { register("incr", incrRun) }
