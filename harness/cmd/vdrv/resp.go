package main

// C10: RESP codec.  Records observations of the real encoder / decoder; TLC judges each one with
// Resp.tla (RespTrace.tla).

import (
	"fmt"
	"bufio"
	"bytes"
	"encoding/json"
	"io"
	"math"
	"math/rand"
	"regexp"
	"strconv"
	"sync"

	"github.com/alibaba/RedisShake/pkg/redis"

	"verif/harness/tracer"
)

type rv struct {
	T   string `json:"t"`
	Nil bool   `json:"nil"`
	B   []int  `json:"b"`
	A   []rv   `json:"a"`
}

func mkrv(t string, isnil bool, b []byte, a []rv) rv {
	if a == nil {
		a = []rv{}
	}
	return rv{T: t, Nil: isnil, B: bytesToInts(b), A: a}
}

func (v rv) bytes() []byte {
	out := make([]byte, len(v.B))
	for i, x := range v.B {
		out[i] = byte(x)
	}
	return out
}

func (v rv) toResp() redis.Resp {
	switch v.T {
	case "str":
		return &redis.String{Value: v.bytes()}
	case "err":
		return &redis.Error{Value: v.bytes()}
	case "int":
		n, _ := strconv.ParseInt(string(v.bytes()), 10, 64)
		return &redis.Int{Value: n}
	case "bulk":
		if v.Nil {
			return &redis.BulkBytes{Value: nil}
		}
		return &redis.BulkBytes{Value: append([]byte{}, v.bytes()...)}
	default:
		if v.Nil {
			return &redis.Array{Value: nil}
		}
		a := make([]redis.Resp, len(v.A))
		for i := range v.A {
			a[i] = v.A[i].toResp()
		}
		return &redis.Array{Value: a}
	}
}

func fromResp(r redis.Resp) rv {
	switch x := r.(type) {
	case *redis.String:
		return mkrv("str", false, x.Value, nil)
	case *redis.Error:
		return mkrv("err", false, x.Value, nil)
	case *redis.Int:
		return mkrv("int", false, []byte(strconv.FormatInt(x.Value, 10)), nil)
	case *redis.BulkBytes:
		return mkrv("bulk", x.Value == nil, x.Value, nil)
	case *redis.Array:
		a := make([]rv, len(x.Value))
		for i := range x.Value {
			a[i] = fromResp(x.Value[i])
		}
		return mkrv("arr", x.Value == nil, nil, a)
	}
	return mkrv("unknown", false, nil, nil)
}

// fragReader hands out the stream in small random pieces.
type fragReader struct {
	b   []byte
	rnd *rand.Rand
	max int
}

func (f *fragReader) Read(p []byte) (int, error) {
	if len(f.b) == 0 {
		return 0, io.EOF
	}
	n := 1 + f.rnd.Intn(f.max)
	if n > len(p) {
		n = len(p)
	}
	if n > len(f.b) {
		n = len(f.b)
	}
	copy(p, f.b[:n])
	f.b = f.b[n:]
	return n, nil
}

type respIn struct {
	Seed    int64  `json:"seed"`
	Trees   int    `json:"trees"`
	Streams int    `json:"streams"`
	Mutate  int    `json:"mutate"` // number of encodings to corrupt exhaustively
	Trace   string `json:"trace"`
	ConcReps int   `json:"conc_reps"` // encodings per goroutine in the concurrent phase
}

func respRun(in []byte) (interface{}, error) {
	var cfg respIn
	if err := json.Unmarshal(in, &cfg); err != nil {
		return nil, err
	}
	tr, err := tracer.New(cfg.Trace)
	if err != nil {
		return nil, err
	}
	defer tr.Close()
	rnd := rand.New(rand.NewSource(cfg.Seed))
	big := make([]byte, 300)
	rnd.Read(big)
	atoms := [][]byte{{}, []byte("a"), []byte("\r\n"), {0, 255, ' '}, []byte("$-1"), []byte("PING"), []byte("*2\r\n$1\r\na\r\n"), big, []byte("with space"), {'\n'}}
	ints := []int64{0, 1, -1, 9, 10, -1023, -1024, -1025, 1023, 524286, 524287, 524288, 524289, 1048576, math.MaxInt64, math.MinInt64, math.MaxInt32, -99999999999}
	var leaves []rv
	for _, a := range atoms {
		leaves = append(leaves, mkrv("bulk", false, a, nil))
		if !bytes.ContainsAny(a, "\r\n") {
			leaves = append(leaves, mkrv("str", false, a, nil), mkrv("err", false, a, nil))
		}
	}
	for _, n := range ints {
		leaves = append(leaves, mkrv("int", false, []byte(strconv.FormatInt(n, 10)), nil))
	}
	leaves = append(leaves, mkrv("bulk", true, nil, nil), mkrv("arr", true, nil, nil), mkrv("arr", false, nil, nil))
	var randTree func(d int) rv
	randTree = func(d int) rv {
		if d == 0 || rnd.Intn(3) != 0 {
			if rnd.Intn(4) == 0 {
				return mkrv("int", false, []byte(strconv.FormatInt(rnd.Int63n(1100000)-2000, 10)), nil)
			}
			if rnd.Intn(5) == 0 {
				b := make([]byte, rnd.Intn(40))
				rnd.Read(b)
				return mkrv("bulk", false, b, nil)
			}
			return leaves[rnd.Intn(len(leaves))]
		}
		n := rnd.Intn(4)
		a := make([]rv, n)
		for i := range a {
			a[i] = randTree(d - 1)
		}
		return mkrv("arr", false, nil, a)
	}
	trees := append([]rv{}, leaves...)
	for _, a := range leaves[:12] {
		trees = append(trees, mkrv("arr", false, nil, []rv{a}))
		trees = append(trees, mkrv("arr", false, nil, []rv{a, leaves[len(leaves)-1-rnd.Intn(5)], mkrv("arr", false, nil, []rv{a})}))
	}
	for len(trees) < cfg.Trees {
		trees = append(trees, randTree(3))
	}
	cmdTree := func() rv { // command-shaped: array of bulks
		n := 1 + rnd.Intn(4)
		a := make([]rv, n)
		words := []string{"SET", "set", "MSet", "k", "v", "DEL", "key:1", "", "with space", "SeLeCt", "1"}
		for i := range a {
			a[i] = mkrv("bulk", false, []byte(words[rnd.Intn(len(words))]), nil)
		}
		return mkrv("arr", false, nil, a)
	}
	nenc := 0
	encs := make([][]byte, len(trees))
	for i, t := range trees {
		out, err := redis.EncodeToBytes(t.toResp())
		if err != nil {
			return nil, err
		}
		encs[i] = out
		tr.Emit(tracer.Ev{"e": "enc", "val": t, "out": bytesToInts(out)})
		nenc++
	}
	// the encoder from eight goroutines at once (one sender per source encodes concurrently): integers outside the
	// pre-rendered table, each goroutine with its own digit patterns; an output that differs from the single-threaded
	// one is handed to the trace validation like any other (the model says what the encoding must be)
	{
		var cmu sync.Mutex
		var cev []tracer.Ev
		var wg sync.WaitGroup
		for g := 0; g < 8; g++ {
			wg.Add(1)
			go func(g int) {
				defer wg.Done()
				base := []int64{int64(g+1) * 1111111111111111, -int64(g+1) * 111111111, 524288 + int64(g), math.MaxInt64 - int64(g), math.MinInt64 + int64(g), -1025 - int64(g)}
				var ts []rv
				var want [][]byte
				for k := range base {
					a := []rv{}
					for j := 0; j < 3; j++ {
						a = append(a, mkrv("int", false, []byte(strconv.FormatInt(base[(k+j)%len(base)], 10)), nil))
					}
					t := mkrv("arr", false, nil, a)
					ts = append(ts, t)
					w := []byte("*3\r\n")
					for _, x := range a {
						w = append(append(append(w, ':'), x.bytes()...), '\r', '\n')
					}
					want = append(want, w)
				}
				resps := make([]redis.Resp, len(ts))
				for k := range ts {
					resps[k] = ts[k].toResp()
				}
				for rep := 0; rep < cfg.ConcReps; rep++ {
					k := rep % len(ts)
					out, err := redis.EncodeToBytes(resps[k])
					if err != nil || !bytes.Equal(out, want[k]) || rep == cfg.ConcReps-1 {
						cmu.Lock()
						cev = append(cev, tracer.Ev{"e": "enc", "val": ts[k], "out": bytesToInts(out), "src": "concurrent"})
						cmu.Unlock()
						if err != nil || !bytes.Equal(out, want[k]) {
							return
						}
					}
				}
			}(g)
		}
		wg.Wait()
		for _, ev := range cev {
			tr.Emit(ev)
			nenc++
		}
	}
	hugeLen := regexp.MustCompile(`[$*][+-]?[0-9]{8,}`)
	decode := func(stream []byte, kind string) {
		if hugeLen.Match(stream) {
			return // a length of >= 10^7: the real decoder would try to allocate it
		}
		defer func() { recover() }()
		bs := []int{16, 17, 32, 64, 4096}[rnd.Intn(5)]
		br := bufio.NewReaderSize(&fragReader{b: append([]byte{}, stream...), rnd: rnd, max: 1 + rnd.Intn(9)}, bs)
		d := redis.NewDecoder(br)
		vals := []map[string]interface{}{}
		var reenc []tracer.Ev
		for {
			r, off, err := redis.VerifDecode(d)
			if err != nil {
				break
			}
			snap := fromResp(r) // (a deep copy, taken before the value is handed to the encoder)
			vals = append(vals, map[string]interface{}{"val": snap, "off": off})
			if kind == "stream" && len(reenc) < 4 {
				// what the decoder returned goes back through the encoder (as restore / decode modes do): the arguments of an
				// inline command are views into one line buffer; encoding must neither depend on nor disturb its input
				if out, err := redis.EncodeToBytes(r); err == nil {
					reenc = append(reenc, tracer.Ev{"e": "enc", "val": snap, "out": bytesToInts(out), "src": "decoded"})
					after := fromResp(r)
					if fmt.Sprint(after) != fmt.Sprint(snap) {
						reenc = append(reenc, tracer.Ev{"e": "enc", "val": snap, "out": []int{}, "src": "input-modified-by-encoder"})
					}
				}
			}
			if len(vals) > 64 {
				break
			}
		}
		tr.Emit(tracer.Ev{"e": "dec", "kind": kind, "in": bytesToInts(stream), "vals": vals, "buf": bs})
		for _, e := range reenc {
			tr.Emit(e)
		}
	}
	// streams: values, keep-alive newlines, inline command lines
	inl := [][]byte{[]byte("PING\r\n"), []byte("SET k v\r\n"), []byte("  get   a  \r\n"), []byte("x\r\n"), []byte("\r\n"), []byte("a b\n")}
	nstream := 0
	for i := 0; i < cfg.Streams; i++ {
		var s []byte
		for j := 0; j < 1+rnd.Intn(4); j++ {
			switch rnd.Intn(6) {
			case 0:
				s = append(s, '\n')
			case 1:
				s = append(s, inl[rnd.Intn(len(inl))]...)
			case 2:
				e, _ := redis.EncodeToBytes(cmdTree().toResp())
				s = append(s, e...)
			default:
				s = append(s, encs[rnd.Intn(len(encs))]...)
			}
		}
		decode(s, "stream")
		nstream++
	}
	// command extraction on command-shaped values
	for i := 0; i < cfg.Streams/4; i++ {
		t := cmdTree()
		cmd, args, err := redis.ParseArgs(t.toResp())
		ai := [][]int{}
		for _, a := range args {
			ai = append(ai, bytesToInts(a))
		}
		tr.Emit(tracer.Ev{"e": "args", "val": t, "ok": err == nil, "cmd": bytesToInts([]byte(cmd)), "args": ai})
		if err == nil {
			out, _ := redis.EncodeToBytes(redis.ChangeArgsToResp(t.A[0].bytes(), args))
			tr.Emit(tracer.Ev{"e": "chg", "val": t, "out": bytesToInts(out)})
			// the same arguments as views into ONE buffer with spare capacity behind each (as a receive buffer has)
			var shared []byte
			var lens []int
			for _, a := range args {
				shared = append(shared, a...)
				lens = append(lens, len(a))
			}
			shared = append(shared, "tail-of-the-buffer"...)
			views := make([][]byte, len(args))
			p := 0
			for j, n := range lens {
				views[j] = shared[p : p+n]
				p += n
			}
			out2, _ := redis.EncodeToBytes(redis.ChangeArgsToResp(t.A[0].bytes(), views))
			tr.Emit(tracer.Ev{"e": "chg", "val": t, "out": bytesToInts(out2), "src": "views"})
		}
	}
	// every single-point substitution (a few byte classes) and every truncation of small encodings
	subst := []byte{'\n', '\r', '0', '9', '-', 'x', '$', '*', 0, ':', ' '}
	nmut := 0
	order := rnd.Perm(len(trees))
	done := 0
	for _, ti := range order {
		e := encs[ti]
		if len(e) > 48 || len(e) < 4 {
			continue
		}
		if done >= cfg.Mutate {
			break
		}
		done++
		tail := []byte{}
		if rnd.Intn(2) == 0 {
			tail = []byte("+OK\r\n")
		}
		for p := 0; p < len(e); p++ {
			for _, c := range subst {
				if e[p] == c {
					continue
				}
				m := append([]byte{}, e...)
				m[p] = c
				decode(append(m, tail...), "subst")
				nmut++
			}
		}
		for n := 0; n < len(e); n++ {
			decode(e[:n], "trunc")
			nmut++
		}
	}
	return map[string]interface{}{"enc": nenc, "streams": nstream, "mutations": nmut, "events": tr.Count()}, nil
}

func init() { register("resp", respRun) }
