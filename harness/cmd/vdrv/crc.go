package main

// C11: checksums.  Observations of the three CRC-64 copies under arbitrary chunkings and of the
// three verifiers (RDB footer, verifyDump, CheckVersionChecksum) on artefacts with every
// single-byte substitution / truncation; TLC judges them with Crc.tla (CrcTrace.tla).

import (
	"fmt"
	"sync"
	"sort"
	"bufio"
	"bytes"
	"io"
	"testing/iotest"
	"encoding/binary"
	"encoding/json"
	"hash"
	"math/rand"
	"runtime/debug"
	"strings"
	"time"

	extcrc "github.com/cupcake/rdb/crc64"

	repocrc "github.com/alibaba/RedisShake/pkg/libs/cupcake/rdb/crc64"
	"github.com/alibaba/RedisShake/pkg/rdb"
	"github.com/alibaba/RedisShake/pkg/rdb/digest"
	utils "github.com/alibaba/RedisShake/redis-shake/common"

	"verif/harness/rdbref"
	"verif/harness/tracer"
)

func limbs(x uint64) []int {
	return []int{int(x & 0xffff), int((x >> 16) & 0xffff), int((x >> 32) & 0xffff), int((x >> 48) & 0xffff)}
}

type crcIn struct {
	Seed      int64  `json:"seed"`
	Msgs      int    `json:"msgs"`
	Artefacts int    `json:"artefacts"`
	AllSubst  int    `json:"all_subst"` // number of artefacts on which all 255 substitutions are tried at every position
	Trace     string `json:"trace"`
	BudgetS   int    `json:"budget_s"`
}

// loadFile runs the real loader over a whole RDB; accepted = header, every entry and the footer verify.
var lastLoadStage string
var loadVariant int
var loadRnd = rand.New(rand.NewSource(99))

func loadFile(b []byte) (accepted bool, entries []*rdb.BinEntry) {
	lastLoadStage = "parse"
	// corrupted lengths make the parser allocate (and never touch) gigabyte slices; releasing each one
	// costs ~10 ms of page-table work, so this driver runs with the collector off and a bounded
	// number of artefacts per process (the orchestrator starts several processes)
	defer func() {
		if r := recover(); r != nil {
			accepted = false
		}
	}()
	// the way the bytes arrive must not matter: whole buffer, tiny bufio, short random reads, one byte at a time
	var src io.Reader = bytes.NewReader(b)
	loadVariant++
	switch loadVariant % 4 {
	case 1:
		src = bufio.NewReaderSize(bytes.NewReader(b), 16)
	case 2:
		src = &fragReader{b: append([]byte{}, b...), rnd: loadRnd, max: 7}
	case 3:
		src = iotest.OneByteReader(bytes.NewReader(b))
	}
	l := rdb.NewLoader(src)
	if err := l.Header(); err != nil {
		return false, nil
	}
	for {
		e, err := l.NextBinEntry()
		if err != nil {
			return false, entries
		}
		if e == nil {
			break
		}
		entries = append(entries, e)
		if len(entries) > 10000 {
			return false, entries
		}
	}
	lastLoadStage = "footer"
	if err := l.Footer(); err != nil {
		return false, entries
	}
	return true, entries
}

var lastDumpErr string

func verifyDumpAccepts(p []byte) (ok bool) {
	lastDumpErr = ""
	defer func() {
		if r := recover(); r != nil {
			ok = false
			lastDumpErr = "panic"
		}
	}()
	_, err := rdb.DecodeDump(p)
	if err != nil {
		lastDumpErr = err.Error()
	}
	return err == nil
}

func checkVersionAccepts(p []byte) (ok bool) {
	defer func() {
		if r := recover(); r != nil {
			ok = false
		}
	}()
	_, _, err := utils.CheckVersionChecksum(p)
	return err == nil
}

func crcRun(in []byte) (interface{}, error) {
	var cfg crcIn
	if err := json.Unmarshal(in, &cfg); err != nil {
		return nil, err
	}
	tr, err := tracer.New(cfg.Trace)
	if err != nil {
		return nil, err
	}
	defer tr.Close()
	rnd := rand.New(rand.NewSource(cfg.Seed))
	defer debug.SetGCPercent(debug.SetGCPercent(-1))
	impls := map[string]func() hash.Hash64{
		"pkg/rdb/digest":                func() hash.Hash64 { return digest.New() },
		"github.com/cupcake/rdb/crc64":   func() hash.Hash64 { return extcrc.New() },
		"pkg/libs/cupcake/rdb/crc64":     func() hash.Hash64 { return repocrc.New() },
	}
	ncrc := 0
	feed := func(msg []byte, cuts []int) {
		for name, mk := range impls {
			h := mk()
			var partial [][]int
			prev := 0
			for _, c := range cuts {
				h.Write(msg[prev:c])
				// Sum must not disturb the running state
				_ = h.Sum(nil)
				partial = append(partial, limbs(h.Sum64()))
				prev = c
			}
			h.Write(msg[prev:])
			if partial == nil {
				partial = [][]int{}
			}
			tr.Emit(tracer.Ev{"e": "crc", "impl": name, "msg": bytesToInts(msg), "cuts": cuts, "partial": partial, "sum": limbs(h.Sum64())})
			ncrc++
		}
		tr.Emit(tracer.Ev{"e": "ref", "msg": bytesToInts(msg), "sum": limbs(rdbref.CRC64(0, msg))})
	}
	for b := 0; b < 256; b++ { // every table row of every copy
		feed([]byte{byte(b)}, []int{})
	}
	for i := 0; i < cfg.Msgs; i++ {
		n := rnd.Intn(25)
		msg := make([]byte, n)
		rnd.Read(msg)
		var cuts []int
		for c := 0; c < n; c++ {
			if rnd.Intn(4) == 0 {
				cuts = append(cuts, c)
			}
		}
		if cuts == nil {
			cuts = []int{}
		}
		feed(msg, cuts)
	}
	// ---- long messages (single large writes, writes at 8-byte and power-of-two boundaries): judged by the lifted reference,
	// which the "ref" events above bind to the TLA+ definition
	sizes := []int{63, 64, 65, 255, 256, 257, 511, 512, 1016, 1023, 1024, 1025, 1032, 1040, 2040, 2047, 2048, 2049, 4096, 8191, 8192, 16384, 65536, 1 << 20}
	for i := 0; i < 40; i++ {
		sizes = append(sizes, 1000+rnd.Intn(9000), 8*(125+rnd.Intn(1000)))
	}
	for _, n := range sizes {
		msg := make([]byte, n)
		rnd.Read(msg)
		for _, cuts := range [][]int{{}, {n / 2}, {1}, {n - 1}, {n - 8}, {8}, {1024 % n}, {rnd.Intn(n)}, {rnd.Intn(n), n - rnd.Intn(9)}} {
			sort.Ints(cuts)
			for name, mk := range impls {
				h := mk()
				ok := true
				prev := 0
				for _, c := range cuts {
					if c < prev || c > n {
						continue
					}
					h.Write(msg[prev:c])
					if h.Sum64() != rdbref.CRC64(0, msg[:c]) {
						ok = false
					}
					prev = c
				}
				h.Write(msg[prev:])
				if h.Sum64() != rdbref.CRC64(0, msg) {
					ok = false
				}
				tr.Emit(tracer.Ev{"e": "bigcrc", "impl": name, "n": n, "cuts": cuts, "ok": ok})
				ncrc++
			}
		}
	}
	// ---- several loaders at work at the same time (several sources / several input files): every DUMP payload a loader emits
	// carries the CRC-64 of its own bytes
	mkRdb := func(tag string) []byte {
		w := rdbref.NewFile(9)
		for i := 0; i < 60; i++ {
			v := make([]byte, 16384+rnd.Intn(49152))
			rnd.Read(v)
			_, body, _ := rdbref.EncodeValue(rdbref.Value{Kind: "string", Str: v}, rdbref.Enc{Type: rdbref.TString})
			w.Key([]byte(fmt.Sprintf("%s:%d", tag, i)), rdbref.TString, body)
		}
		return w.Finish(true)
	}
	for _, nl := range []int{1, 2, 4} {
		files := make([][]byte, nl)
		for i := range files {
			files[i] = mkRdb(fmt.Sprint("l", i))
		}
		var wg sync.WaitGroup
		var cmu sync.Mutex
		total, bad := 0, 0
		for i := 0; i < nl; i++ {
			wg.Add(1)
			go func(b []byte) {
				defer wg.Done()
				defer func() { recover() }()
				l := rdb.NewLoader(bytes.NewReader(b))
				if l.Header() != nil {
					return
				}
				for {
					e, err := l.NextBinEntry()
					if err != nil || e == nil {
						return
					}
					_, _, _, perr := rdbref.ParseDump(e.Value) // verifies the trailer against the reference CRC-64
					cmu.Lock()
					total++
					if perr != nil {
						bad++
					}
					cmu.Unlock()
				}
			}(files[i])
		}
		wg.Wait()
		tr.Emit(tracer.Ev{"e": "conc", "loaders": nl, "payloads": total, "bad": bad, "expected": nl * 60})
		ncrc++
	}
	// ---- artefacts and fault enumeration
	nfault := 0
	deadline := time.Now().Add(time.Duration(cfg.BudgetS) * time.Second)
	fault := func(verifier, class string, accepted bool, detail map[string]interface{}) {
		ev := tracer.Ev{"e": "fault", "verifier": verifier, "class": class, "accepted": accepted}
		for k, v := range detail {
			ev[k] = v
		}
		tr.Emit(ev)
		nfault++
	}
	substs := func(orig byte, all bool) []byte {
		if all {
			out := make([]byte, 0, 255)
			for c := 0; c < 256; c++ {
				if byte(c) != orig {
					out = append(out, byte(c))
				}
			}
			return out
		}
		r := byte(rnd.Intn(255) + 1)
		return []byte{orig ^ 0x01, orig ^ 0x80, orig ^ r}
	}
	putTrailer := func(body []byte, version uint16) []byte {
		p := append([]byte{}, body...)
		var v [2]byte
		binary.LittleEndian.PutUint16(v[:], version)
		p = append(p, v[:]...)
		var c [8]byte
		binary.LittleEndian.PutUint64(c[:], rdbref.CRC64(0, p))
		return append(p, c[:]...)
	}
	dumpFaults := func(p []byte, verifier string, accepts func([]byte) bool, all bool, art int) {
		okIntact := accepts(p)
		if !okIntact && verifier == "verifyDump" && !strings.Contains(lastDumpErr, "CRC") && !strings.Contains(lastDumpErr, "version") && !strings.Contains(lastDumpErr, "dump length") {
			// the payload check passed, decoding the value failed: not a checksum matter (C12)
			tr.Emit(tracer.Ev{"e": "note", "what": "payload verifies but does not decode: " + lastDumpErr, "art": art})
			return
		}
		fault(verifier, "none", okIntact, map[string]interface{}{"art": art, "len": len(p)})
		L := len(p)
		for pos := 0; pos < L; pos++ {
			class := "data"
			if pos >= L-8 {
				class = "crc"
			} else if pos >= L-10 {
				class = "version_byte"
			}
			for _, c := range substs(p[pos], all) {
				m := append([]byte{}, p...)
				m[pos] = c
				fault(verifier, class, accepts(m), map[string]interface{}{"art": art, "pos": pos, "to": int(c)})
			}
		}
		for n := 0; n < L; n++ {
			if n > 12 && n < L-12 && n%7 != 0 {
				continue
			}
			fault(verifier, "trunc", accepts(p[:n]), map[string]interface{}{"art": art, "len": n})
		}
		{
			z := append([]byte{}, p...)
			for i := L - 8; i < L; i++ {
				z[i] = 0
			}
			fault(verifier, "crc_zeroed", accepts(z), map[string]interface{}{"art": art})
		}
		// a version above the supported one, with a VALID checksum
		for _, v := range []uint16{10, 11, 255, 256 + 6, 512 + 9, 0x0906, 65535} {
			if verifier == "verifyDump" && v == 0 {
				continue
			}
			fault(verifier, "version_above_valid", accepts(putTrailer(p[:L-10], v)), map[string]interface{}{"art": art, "version": int(v)})
		}
		if verifier == "verifyDump" {
			for _, v := range []uint16{7, 8, 9} {
				fault(verifier, "version_above_valid", accepts(putTrailer(p[:L-10], v)), map[string]interface{}{"art": art, "version": int(v)})
			}
		}
	}
	kinds := []string{"string", "list", "set", "zset", "hash", "string", "set:int", "hash"}
	for a := 0; a < cfg.Artefacts; a++ {
		all := a < cfg.AllSubst
		f := rdbref.NewFile(6 + rnd.Intn(4))
		f.Aux([]byte("redis-ver"), []byte("5.0.7"))
		nk := 1 + rnd.Intn(3)
		type kv struct {
			typ  byte
			body []byte
		}
		var kvs []kv
		for i := 0; i < nk; i++ {
			kind := kinds[rnd.Intn(len(kinds))]
			v := rdbref.RandValue(rnd, kind, 1+rnd.Intn(3), 6)
			encs := rdbref.RealisticEncodings(v.Kind)
			var typ byte
			var body []byte
			for try := 0; try < 20; try++ {
				t, b, err := rdbref.EncodeValue(v, encs[rnd.Intn(len(encs))])
				if err == nil {
					typ, body = t, b
					break
				}
			}
			if body == nil {
				continue
			}
			if i == 1 {
				f.SelectDB(uint64(1+rnd.Intn(3)), rdbref.LenCanonical)
			}
			if rnd.Intn(3) == 0 {
				f.ExpireMs(uint64(1700000000000 + rnd.Int63n(1e9)))
			}
			f.Key([]byte{'k', byte('0' + i)}, typ, body)
			kvs = append(kvs, kv{typ, body})
		}
		file := f.Finish(true)
		ok, entries := loadFile(file)
		if !ok && lastLoadStage == "parse" {
			// the parser gave up before the checksum was compared: not a checksum matter (C01)
			tr.Emit(tracer.Ev{"e": "note", "what": "intact file does not parse", "art": a, "file": bytesToInts(file)})
			continue
		}
		fault("footer", "none", ok, map[string]interface{}{"art": a, "len": len(file)})
		intactOK := true
		for rep := 0; rep < 4; rep++ { // the intact file through every reader variant
			acc, _ := loadFile(file)
			fault("footer", "none", acc, map[string]interface{}{"art": a, "len": len(file), "variant": loadVariant % 4})
			intactOK = intactOK && acc
		}
		if !intactOK || time.Now().After(deadline) {
			continue // the verifier already failed on the intact artefact (or time is up): no point in corrupting it
		}
		for pos := 0; pos < len(file); pos++ {
			class := "data"
			if pos >= len(file)-8 {
				class = "crc"
			}
			// the header (magic + version digits) and the end-of-file opcode decide HOW the file is read: every substitution there
			for _, c := range substs(file[pos], (all && len(file) < 80) || pos < 9 || pos == len(file)-9) {
				m := append([]byte{}, file...)
				m[pos] = c
				acc, _ := loadFile(m)
				fault("footer", class, acc, map[string]interface{}{"art": a, "pos": pos, "to": int(c)})
			}
		}
		{
			z := append([]byte{}, file...)
			for i := len(z) - 8; i < len(z); i++ {
				z[i] = 0
			}
			acc, _ := loadFile(z)
			fault("footer", "crc_zeroed", acc, map[string]interface{}{"art": a})
			z[12+rnd.Intn(len(z)-8-12)] ^= 0x20
			acc, _ = loadFile(z)
			fault("footer", "crc_zeroed", acc, map[string]interface{}{"art": a, "with_data_change": true})
		}
		for n := 0; n < len(file); n++ {
			acc, _ := loadFile(file[:n])
			fault("footer", "trunc", acc, map[string]interface{}{"art": a, "len": n})
		}
		// DUMP payloads made by the tool's own parser from this file
		for i, e := range entries {
			if i >= 2 || len(e.Value) > 120 {
				continue
			}
			dumpFaults(e.Value, "verifyDump", verifyDumpAccepts, all && len(e.Value) < 40, a)
			dumpFaults(e.Value, "checkVersion", checkVersionAccepts, all && len(e.Value) < 40, a)
		}
		// a DUMP payload made by the tool's encoder
		if p, err := rdb.EncodeDump(rdb.String([]byte{'v', byte(a), 0, 255})); err == nil {
			dumpFaults(p, "verifyDump", verifyDumpAccepts, false, a)
			dumpFaults(p, "checkVersion", checkVersionAccepts, false, a)
		}
	}
	return map[string]interface{}{"crc": ncrc, "faults": nfault, "events": tr.Count()}, nil
}

func init() { register("crc", crcRun) }
