package main

// Shared plumbing: the tool's logger is redirected into a sink that (a) keeps the run quiet,
// (b) scans every emitted line for the sentinel secrets of C19, and the tool's "panic = exit(1)"
// is turned into an observable, goroutine-local abort.

import (
	"bytes"
	"fmt"
	"os"
	"runtime"
	"sync"

	rlog "github.com/alibaba/RedisShake/pkg/libs/log"
)

type logSink struct {
	mu       sync.Mutex
	lines    int
	bytes    int
	secrets  [][]byte
	leaks    []string
	keep     bool
	kept     bytes.Buffer
	byLevel  map[string]int
	passthru bool
}

var sink = &logSink{}

func (s *logSink) Write(p []byte) (int, error) {
	s.mu.Lock()
	defer s.mu.Unlock()
	s.lines++
	s.bytes += len(p)
	for _, sec := range s.secrets {
		if len(sec) > 0 && bytes.Contains(p, sec) && len(s.leaks) < 200 {
			s.leaks = append(s.leaks, string(p))
			break
		}
	}
	for _, lv := range []string{"[DEBUG]", "[INFO]", "[WARN]", "[ERROR]", "[PANIC]"} {
		if bytes.Contains(p, []byte(lv)) {
			if s.byLevel == nil {
				s.byLevel = map[string]int{}
			}
			s.byLevel[lv]++
			break
		}
	}
	if s.keep && s.kept.Len() < 8<<20 {
		s.kept.Write(p)
	}
	if s.passthru {
		os.Stderr.Write(p)
	}
	return len(p), nil
}

func (s *logSink) SetSecrets(secs ...string) {
	s.mu.Lock()
	defer s.mu.Unlock()
	// (a union: a sub-family that names its own two passwords must not narrow what the C19 run looks for)
	for _, x := range secs {
		dup := false
		for _, y := range s.secrets {
			if string(y) == x {
				dup = true
			}
		}
		if !dup {
			s.secrets = append(s.secrets, []byte(x))
		}
	}
}

func (s *logSink) Leaks() []string {
	s.mu.Lock()
	defer s.mu.Unlock()
	return append([]string(nil), s.leaks...)
}

func (s *logSink) Stats() (int, int) {
	s.mu.Lock()
	defer s.mu.Unlock()
	return s.lines, s.bytes
}

// abortInfo is what a goroutine that hit log.Panic* leaves behind.
type abortInfo struct {
	Msg  string
	Err  string
	Goid int64
}

var (
	abortMu   sync.Mutex
	aborts    []abortInfo
	onAbort   func(abortInfo) // optional: e.g. cut the fake peers
)

func takeAborts() []abortInfo {
	abortMu.Lock()
	defer abortMu.Unlock()
	a := aborts
	aborts = nil
	return a
}

func installAbortHook() {
	rlog.VerifOnPanic = func(msg string, err error) {
		ai := abortInfo{Msg: msg, Goid: goid()}
		if err != nil {
			ai.Err = err.Error()
		}
		abortMu.Lock()
		aborts = append(aborts, ai)
		f := onAbort
		abortMu.Unlock()
		if f != nil {
			f(ai)
		}
		runtime.Goexit()
	}
}

// uninstallAbortHook restores the tool's own behaviour: log.Panic* ends the process.
func uninstallAbortHook() { rlog.VerifOnPanic = nil }

// runAbortable runs f in its own goroutine; returns (aborted info or nil, panic text or "").
func runAbortable(f func()) (ab *abortInfo, pan string) {
	done := make(chan struct{})
	before := len(aborts)
	_ = before
	go func() {
		defer close(done)
		defer func() {
			if r := recover(); r != nil {
				pan = fmt.Sprint(r)
			}
		}()
		f()
	}()
	<-done
	if a := takeAborts(); len(a) > 0 {
		ab = &a[len(a)-1]
	}
	return
}

func init() {
	if os.Getenv("VERIF_LOG") != "" {
		sink.passthru = true
	}
	rlog.StdLog = rlog.New(rlog.NopCloser(sink), "")
	if os.Getenv("VERIF_LOG_DEBUG") == "" {
		rlog.StdLog.SetLevel(rlog.LEVEL_INFO) // all levels are exercised by the C19 driver
	}
	installAbortHook()
}

// runAbortableOwn is runAbortable, but only an abort of f's own goroutine counts (families whose
// earlier scenarios leave goroutines behind that may abort later, e.g. reconnect loops).
func runAbortableOwn(f func()) (ab *abortInfo, pan string) {
	done := make(chan struct{})
	var me int64
	go func() {
		defer close(done)
		defer func() {
			if r := recover(); r != nil {
				pan = fmt.Sprint(r)
			}
		}()
		me = goid()
		f()
	}()
	<-done
	for _, a := range takeAborts() {
		if a.Goid == me {
			x := a
			ab = &x
		}
	}
	return
}
