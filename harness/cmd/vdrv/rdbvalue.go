package main

// C12: value and file serialisation round trips.
//
//	enc    logical value -> REAL rdb.EncodeDump -> payload -> REAL rdb.DecodeDump, ObjEntry <-> BinEntry
//	dec    known logical value -> every compact encoding (independent writer rdbref) -> REAL rdb.DecodeDump
//	file   (db, key, expiry, value)* -> REAL rdb.NewEncoder -> file -> REAL rdb.Loader (+ ObjEntry)
//	load   keys in compact encodings inside a file -> REAL Loader -> BinEntry.ObjEntry() (payloads produced by the tool's own parser)
//
// Small payloads are logged byte for byte ("val") and judged in TLC by RdbValue!Materialise; large ones
// are judged by the lifted Go reference (rdbref.DecodeValue) and logged as verdict bits ("bulk").

import (
	"bytes"
	"encoding/json"
	"fmt"
	"math"
	"math/rand"
	"runtime"
	"sort"
	"strconv"
	"sync"
	"sync/atomic"

	"github.com/alibaba/RedisShake/pkg/rdb"

	"verif/harness/rdbref"
	"verif/harness/tracer"
)

type rvIn struct {
	Seed     int64  `json:"seed"`
	Trace    string `json:"trace"`
	NEnc     int    `json:"n_enc"`
	NDec     int    `json:"n_dec"`
	NFiles   int    `json:"n_files"`
	JudgeMax int    `json:"judge_max"` // payloads up to this many bytes are judged by TLC
	Vals     []struct {
		Kind  string  `json:"kind"`
		Items [][]int `json:"items"`
	} `json:"vals"` // TLC-enumerated boundary values (RdbValueMC) to push through the real codecs
}

// score tokens shared with RdbValue.tla
var (
	tokNaN, tokPInf, tokNInf, tokNegZero, tokFin = []int{-1}, []int{-2}, []int{-3}, []int{-4}, []int{-5}
)

func scoreTok(f float64) []int {
	switch {
	case math.IsNaN(f):
		return tokNaN
	case math.IsInf(f, 1):
		return tokPInf
	case math.IsInf(f, -1):
		return tokNInf
	case f == 0 && math.Signbit(f):
		return tokNegZero
	}
	return tokFin
}

func ints(b []byte) []int {
	out := make([]int, len(b))
	for i, c := range b {
		out[i] = int(c)
	}
	return out
}

// items renders a logical value as RdbValue.tla does
func rvItems(v rdbref.Value) [][]int {
	out := [][]int{}
	switch v.Kind {
	case "string":
		out = append(out, ints(v.Str))
	case "list":
		for _, e := range v.List {
			out = append(out, ints(e))
		}
	case "set":
		for _, e := range v.Set {
			out = append(out, ints(e))
		}
	case "hash":
		for _, e := range v.Hash {
			out = append(out, ints(e.Field), ints(e.Value))
		}
	case "zset":
		for _, e := range v.ZSet {
			out = append(out, ints(e.Member), scoreTok(e.Score))
		}
	}
	return out
}

// the real decoder's result as a reference value
func rvFromReal(o interface{}) (rdbref.Value, bool) {
	switch x := o.(type) {
	case rdb.String:
		return rdbref.Value{Kind: "string", Str: []byte(x)}, true
	case rdb.List:
		return rdbref.Value{Kind: "list", List: [][]byte(x)}, true
	case rdb.Set:
		return rdbref.Value{Kind: "set", Set: [][]byte(x)}, true
	case rdb.Hash:
		v := rdbref.Value{Kind: "hash"}
		for _, e := range x {
			v.Hash = append(v.Hash, rdbref.HF{Field: e.Field, Value: e.Value})
		}
		return v, true
	case rdb.ZSet:
		v := rdbref.Value{Kind: "zset"}
		for _, e := range x {
			v.ZSet = append(v.ZSet, rdbref.ZM{Member: e.Member, Score: e.Score})
		}
		return v, true
	}
	return rdbref.Value{}, false
}

func rvToReal(v rdbref.Value) interface{} {
	switch v.Kind {
	case "string":
		return rdb.String(v.Str)
	case "list":
		return rdb.List(v.List)
	case "set":
		return rdb.Set(v.Set)
	case "hash":
		h := rdb.Hash{}
		for _, e := range v.Hash {
			h = append(h, &rdb.HashElement{Field: e.Field, Value: e.Value})
		}
		return h
	case "zset":
		z := rdb.ZSet{}
		for _, e := range v.ZSet {
			z = append(z, &rdb.ZSetElement{Member: e.Member, Score: e.Score})
		}
		return z
	}
	return nil
}

// same logical value, same element order; scores: same class, finite ones numerically equal (num)
func rvSame(a, b rdbref.Value) (same, num bool) {
	if a.Kind != b.Kind {
		return false, false
	}
	eq := func(x, y [][]byte) bool {
		if len(x) != len(y) {
			return false
		}
		for i := range x {
			if !bytes.Equal(x[i], y[i]) {
				return false
			}
		}
		return true
	}
	num = true
	switch a.Kind {
	case "string":
		return bytes.Equal(a.Str, b.Str), true
	case "list":
		return eq(a.List, b.List), true
	case "set":
		return eq(a.Set, b.Set), true
	case "hash":
		if len(a.Hash) != len(b.Hash) {
			return false, true
		}
		for i := range a.Hash {
			if !bytes.Equal(a.Hash[i].Field, b.Hash[i].Field) || !bytes.Equal(a.Hash[i].Value, b.Hash[i].Value) {
				return false, true
			}
		}
		return true, true
	case "zset":
		if len(a.ZSet) != len(b.ZSet) {
			return false, true
		}
		same = true
		for i := range a.ZSet {
			if !bytes.Equal(a.ZSet[i].Member, b.ZSet[i].Member) {
				same = false
			}
			x, y := a.ZSet[i].Score, b.ZSet[i].Score
			if fmt.Sprint(scoreTok(x)) != fmt.Sprint(scoreTok(y)) {
				same = false
			} else if !math.IsNaN(x) && math.Float64bits(x) != math.Float64bits(y) {
				num = false
			}
		}
		return same, num
	}
	return false, false
}

var rvStrPool = []string{"", "0", "-0", "00", "-1", "+1", " 1", "1 ", "12", "13", "127", "128", "-128", "-129", "32767", "32768", "-32768", "-32769",
	"8388607", "8388608", "-8388608", "-8388609", "2147483647", "2147483648", "-2147483648", "-2147483649", "4294967295", "4294967296",
	"9223372036854775807", "9223372036854775808", "-9223372036854775808", "-9223372036854775809", "18446744073709551615", "99999999999",
	"012", "-012", "1e3", "1.0", "0x10", "a", "\x00\xff\r\n", "-", "--1", "12345678901234567890", "-200", "-70000", "300", "-32000", "70000"}

func rvString(rnd *rand.Rand) []byte {
	switch rnd.Intn(10) {
	case 0, 1, 2, 3:
		return []byte(rvStrPool[rnd.Intn(len(rvStrPool))])
	case 4:
		return []byte(strconv.FormatInt(int64(int32(rnd.Uint32()))>>uint(rnd.Intn(32)), 10))
	case 5:
		return bytes.Repeat([]byte{byte('a' + rnd.Intn(3))}, []int{20, 21, 63, 64, 300}[rnd.Intn(5)])
	case 6:
		return []byte(strconv.FormatInt(int64(rnd.Uint64())>>uint(rnd.Intn(64)), 10))
	default:
		b := make([]byte, rnd.Intn(12))
		rnd.Read(b)
		return b
	}
}

var rvScores = []float64{0, math.Copysign(0, -1), 1, -1, 1.5, math.Inf(1), math.Inf(-1), math.NaN(), math.MaxFloat64, -math.MaxFloat64, math.SmallestNonzeroFloat64,
	-math.SmallestNonzeroFloat64, 2.2250738585072014e-308, 2.2250738585072009e-308, 0.1, 1.0 / 3, 3.141592653589793, 9007199254740992, 9007199254740993, -9007199254740992,
	1e17, 1e21, 1e22, 123456789012345678, 4.35, 0.30000000000000004, 1e-7, 5e-324, 17, -70000, 2147483648, -2147483649}

func rvScore(rnd *rand.Rand, nan bool) float64 {
	for {
		var f float64
		if rnd.Intn(3) > 0 {
			f = rvScores[rnd.Intn(len(rvScores))]
		} else {
			f = math.Float64frombits(rnd.Uint64())
		}
		if !nan && math.IsNaN(f) {
			continue
		}
		return f
	}
}

func rvValue(rnd *rand.Rand, kind string, n int, nan bool) rdbref.Value {
	v := rdbref.Value{Kind: kind}
	seen := map[string]bool{}
	distinct := func() []byte {
		for i := 0; ; i++ {
			s := rvString(rnd)
			if i > 20 {
				s = append(s, []byte(fmt.Sprint("#", i, rnd.Intn(1000000)))...)
			}
			if !seen[string(s)] {
				seen[string(s)] = true
				return s
			}
		}
	}
	switch kind {
	case "string":
		v.Str = rvString(rnd)
	case "list":
		for i := 0; i < n; i++ {
			v.List = append(v.List, rvString(rnd))
		}
	case "set":
		for i := 0; i < n; i++ {
			v.Set = append(v.Set, distinct())
		}
	case "hash":
		for i := 0; i < n; i++ {
			v.Hash = append(v.Hash, rdbref.HF{Field: distinct(), Value: rvString(rnd)})
		}
	case "zset":
		for i := 0; i < n; i++ {
			v.ZSet = append(v.ZSet, rdbref.ZM{Member: distinct(), Score: rvScore(rnd, nan)})
		}
	}
	return v
}

// an intset is kept sorted: the serialisation order of the known value is its numeric order
func rvIntsetOrder(want rdbref.Value) (rdbref.Value, bool) {
	type iv struct {
		n int64
		b []byte
	}
	var xs []iv
	for _, m := range want.Set {
		n, err := strconv.ParseInt(string(m), 10, 64)
		if err != nil {
			return want, false
		}
		xs = append(xs, iv{n, m})
	}
	sort.Slice(xs, func(i, j int) bool { return xs[i].n < xs[j].n })
	sorted := rdbref.Value{Kind: "set"}
	for _, x := range xs {
		sorted.Set = append(sorted.Set, x.b)
	}
	return sorted, true
}

func rvRun(in []byte) (interface{}, error) {
	var cfg rvIn
	if err := json.Unmarshal(in, &cfg); err != nil {
		return nil, err
	}
	tr, err := tracer.New(cfg.Trace)
	if err != nil {
		return nil, err
	}
	defer tr.Close()
	rnd := rand.New(rand.NewSource(cfg.Seed))
	if cfg.JudgeMax == 0 {
		cfg.JudgeMax = 160
	}
	kinds := []string{"string", "list", "set", "hash", "zset"}
	stats := map[string]int{}
	encs := map[string]int{}
	id := 0
	// judge one (type, body) against want / got
	judge := func(src string, typ byte, body []byte, want rdbref.Value, gotObj interface{}, gotErr error, extra tracer.Ev) {
		id++
		ev := tracer.Ev{"e": "bulk", "id": id, "src": src, "t": int(typ), "kind": want.Kind, "bytes": len(body)}
		for k, v := range extra {
			ev[k] = v
		}
		got, ok := rvFromReal(gotObj)
		errText := ""
		if gotErr != nil {
			errText = gotErr.Error()
			ok = false
		}
		same, num := false, false
		if ok {
			same, num = rvSame(want, got)
		}
		ev["decoded"], ev["same"], ev["num_ok"], ev["err"] = ok, same, num, errText
		// the lifted oracle: what a Redis server materialises from these bytes
		ov, consumed, oerr := rdbref.DecodeValue(typ, body)
		osame, onum := false, false
		if oerr == nil && consumed == len(body) {
			osame, onum = rvSame(want, ov)
		}
		ev["oracle_same"], ev["oracle_num_ok"] = osame, onum
		if len(body) <= cfg.JudgeMax {
			ev["e"] = "val"
			ev["body"] = ints(body)
			ev["want"] = rvItems(want)
			if ok {
				ev["got"] = rvItems(got)
				ev["got_kind"] = got.Kind
			} else {
				ev["got"] = [][]int{{-10}}
				ev["got_kind"] = "error"
			}
			stats["judged_by_tlc"]++
		} else {
			stats["judged_by_reference"]++
		}
		stats[src]++
		tr.Emit(ev)
	}
	// ---------------------------------------------------------------- enc: the tool's own encoder and decoder
	encOne := func(want rdbref.Value, src string) {
		var payload []byte
		var eerr error
		var gotObj interface{}
		var derr error
		entryOK := true
		ab, pan := runAbortable(func() {
			payload, eerr = rdb.EncodeDump(rvToReal(want))
			if eerr != nil {
				return
			}
			gotObj, derr = rdb.DecodeDump(payload)
			// BinEntry -> ObjEntry -> BinEntry keeps the value and the metadata
			be := &rdb.BinEntry{DB: 3, Key: []byte("k\x00"), Type: payload[0], Value: payload, ExpireAt: 1700000000123, RealMemberCount: 0, NeedReadLen: 1}
			oe, err := be.ObjEntry()
			if err != nil {
				entryOK = false
				return
			}
			be2, err := oe.BinEntry()
			if err != nil || be2.DB != 3 || string(be2.Key) != "k\x00" || be2.Type != payload[0] || be2.ExpireAt != 1700000000123 || be2.NeedReadLen != 1 {
				entryOK = false
				return
			}
			o2, err := rdb.DecodeDump(be2.Value)
			v2, ok := rvFromReal(o2)
			s2, n2 := rvSame(want, v2)
			entryOK = err == nil && ok && s2 && n2
		})
		if ab != nil || pan != "" {
			derr = fmt.Errorf("abort/panic: %v %s", ab, pan)
		}
		if eerr != nil {
			id++
			tr.Emit(tracer.Ev{"e": "bulk", "id": id, "src": src, "t": -1, "kind": want.Kind, "bytes": 0, "decoded": false, "same": false, "num_ok": false, "err": "encode: " + eerr.Error(),
				"oracle_same": false, "oracle_num_ok": false, "entry_ok": false, "footer_ok": false})
			return
		}
		typ, body, ver, perr := rdbref.ParseDump(payload) // checks the CRC-64 trailer
		judge(src, typ, body, want, gotObj, derr, tracer.Ev{"entry_ok": entryOK, "footer_ok": perr == nil && ver == 6})
	}
	for _, tv := range cfg.Vals {
		v := rdbref.Value{Kind: tv.Kind}
		bs := func(x []int) []byte {
			out := make([]byte, len(x))
			for i, c := range x {
				out[i] = byte(c)
			}
			return out
		}
		sc := func(x []int) float64 {
			if len(x) == 1 && x[0] < 0 {
				return map[int]float64{-1: math.NaN(), -2: math.Inf(1), -3: math.Inf(-1), -4: math.Copysign(0, -1)}[x[0]]
			}
			f, _ := strconv.ParseFloat(string(bs(x)), 64)
			return f
		}
		switch tv.Kind {
		case "string":
			v.Str = bs(tv.Items[0])
		case "list":
			for _, it := range tv.Items {
				v.List = append(v.List, bs(it))
			}
		case "set":
			for _, it := range tv.Items {
				v.Set = append(v.Set, bs(it))
			}
		case "hash":
			for i := 0; i+1 < len(tv.Items); i += 2 {
				v.Hash = append(v.Hash, rdbref.HF{Field: bs(tv.Items[i]), Value: bs(tv.Items[i+1])})
			}
		case "zset":
			for i := 0; i+1 < len(tv.Items); i += 2 {
				v.ZSet = append(v.ZSet, rdbref.ZM{Member: bs(tv.Items[i]), Score: sc(tv.Items[i+1])})
			}
		}
		encOne(v, "enc-model")
	}
	for i := 0; i < cfg.NEnc; i++ {
		kind := kinds[rnd.Intn(len(kinds))]
		n := []int{0, 1, 2, 3, 5, 63, 64, 300}[rnd.Intn(8)]
		if i%97 == 0 {
			n = []int{16383, 16384}[rnd.Intn(2)]
		}
		encOne(rvValue(rnd, kind, n, true), "enc")
	}
	// long strings at the length-form boundaries
	for _, n := range []int{63, 64, 16383, 16384, 70000} {
		encOne(rdbref.Value{Kind: "string", Str: bytes.Repeat([]byte{'z'}, n)}, "enc")
		encOne(rdbref.Value{Kind: "list", List: [][]byte{bytes.Repeat([]byte{'y'}, n), []byte("-129")}}, "enc")
	}
	// ---------------------------------------------------------------- payloads that are KEPT: a batch serialised before any of it is used, and
	// several workers serialising at once - what EncodeDump returned for one value must stay what it was
	{
		check := func(v rdbref.Value, p []byte) bool {
			typ, body, _, perr := rdbref.ParseDump(p)
			if perr != nil {
				return false
			}
			got, _, derr := rdbref.DecodeValue(typ, body)
			if derr != nil {
				return false
			}
			same, num := rvSame(v, got)
			return same && num
		}
		var vals []rdbref.Value
		var pays [][]byte
		for i := 0; i < 40; i++ {
			v := rvValue(rnd, kinds[i%len(kinds)], 1+rnd.Intn(5), true)
			if p, err := rdb.EncodeDump(rvToReal(v)); err == nil {
				vals, pays = append(vals, v), append(pays, p)
			}
		}
		bad := 0
		for i := range pays {
			if !check(vals[i], pays[i]) {
				bad++
			}
		}
		tr.Emit(tracer.Ev{"e": "batch", "mode": "held", "n": len(pays), "bad": bad, "ok": bad == 0})
		var wg sync.WaitGroup
		var cbad, cn int64
		for g := 0; g < 8; g++ {
			wg.Add(1)
			go func(g int) {
				defer wg.Done()
				r := rand.New(rand.NewSource(cfg.Seed*31 + int64(g)))
				for i := 0; i < 300; i++ {
					v := rvValue(r, kinds[(i+g)%len(kinds)], 1+r.Intn(5), true)
					p, err := rdb.EncodeDump(rvToReal(v))
					if err != nil {
						continue
					}
					runtime.Gosched()
					atomic.AddInt64(&cn, 1)
					if !check(v, p) {
						atomic.AddInt64(&cbad, 1)
					}
				}
			}(g)
		}
		wg.Wait()
		tr.Emit(tracer.Ev{"e": "batch", "mode": "concurrent", "n": cn, "bad": cbad, "ok": cbad == 0})
	}
	// ---------------------------------------------------------------- dec: compact encodings of a known value
	decOne := func(want rdbref.Value, enc rdbref.Enc) {
		if enc.Type == rdbref.TSetIntset {
			var ok bool
			if want, ok = rvIntsetOrder(want); !ok {
				return
			}
		}
		typ, body, err := rdbref.EncodeValue(want, enc)
		if err != nil {
			return // this encoding cannot hold this value
		}
		payload := rdbref.Dump(typ, body, 6)
		var gotObj interface{}
		var derr error
		ab, pan := runAbortable(func() { gotObj, derr = rdb.DecodeDump(payload) })
		if ab != nil || pan != "" {
			derr = fmt.Errorf("abort/panic: %v %s", ab, pan)
		}
		encs[fmt.Sprintf("t%d/len%d/str%d/int%d/zi%v/lzf%v/p5%v/q%d/f%d", enc.Type, enc.Len, enc.Str, enc.IntSize, enc.ZipInts, enc.BlobLZF, enc.ZipPrevlen5, enc.QuicklistNode, enc.ZipmapFree)]++
		judge("dec", typ, body, want, gotObj, derr, tracer.Ev{"entry_ok": true, "footer_ok": true})
	}
	for i := 0; i < cfg.NDec; i++ {
		kind := kinds[rnd.Intn(len(kinds))]
		n := []int{1, 1, 2, 3, 5, 17, 63, 64, 253, 254, 255, 300}[rnd.Intn(12)]
		var want rdbref.Value
		switch rnd.Intn(3) {
		case 0:
			want = rvValue(rnd, kind, n, false)
		case 1:
			want = rdbref.RandValue(rnd, kind, n, []int{1, 8, 63, 64, 300}[rnd.Intn(5)])
		default:
			want = rdbref.RandValue(rnd, kind+":int", n, 8)
		}
		all := rdbref.RealisticEncodings(kind)
		for _, enc := range all {
			if enc.Type <= 5 && rnd.Intn(3) != 0 { // the plain forms are many: sample them
				continue
			}
			decOne(want, enc)
		}
	}
	// ---------------------------------------------------------------- file: the tool's file encoder and loader
	expiries := []uint64{0, 1, 2, 1700000000000, 1700000000001, 1<<63 - 1}
	for fi := 0; fi < cfg.NFiles; fi++ {
		nobj := rnd.Intn(7)
		if fi == 0 {
			nobj = 0
		}
		type obj struct {
			db   uint32
			key  []byte
			ex   int
			want rdbref.Value
		}
		var objs []obj
		used := map[string]bool{}
		for i := 0; i < nobj; i++ {
			var key []byte
			for {
				key = rvString(rnd)
				if rnd.Intn(3) == 0 {
					key = []byte(fmt.Sprint([]int{-129, -200, -32768, -32769, -1, -128, 127, 128, 32767, 32768, -8388609, 2147483647, -2147483648, 2147483648}[rnd.Intn(14)] - i*rnd.Intn(2)))
				}
				if !used[string(key)] {
					used[string(key)] = true
					break
				}
			}
			db := uint32([]int{0, 0, 1, 2, 15, 63, 64, 16384}[rnd.Intn(8)])
			if i > 0 && rnd.Intn(2) == 0 {
				db = objs[i-1].db
			}
			objs = append(objs, obj{db: db, key: key, ex: rnd.Intn(len(expiries)), want: rvValue(rnd, kinds[rnd.Intn(len(kinds))], []int{0, 1, 2, 5, 70}[rnd.Intn(5)], true)})
		}
		var file bytes.Buffer
		var werr error
		ab, pan := runAbortable(func() {
			e := rdb.NewEncoder(&file)
			if werr = e.EncodeHeader(); werr != nil {
				return
			}
			for _, o := range objs {
				if werr = e.EncodeObject(o.db, o.key, expiries[o.ex], rvToReal(o.want)); werr != nil {
					return
				}
			}
			werr = e.EncodeFooter()
		})
		if ab != nil || pan != "" {
			werr = fmt.Errorf("abort/panic: %v %s", ab, pan)
		}
		// what the independent reader sees in the file
		jobjs := []map[string]int{}
		for i, o := range objs {
			jobjs = append(jobjs, map[string]int{"db": int(o.db), "id": i + 1, "ex": o.ex})
		}
		jops := []map[string]interface{}{}
		walkErr := ""
		if werr != nil {
			walkErr = "write: " + werr.Error()
		} else {
			ver, wops, err := rdbref.Walk(file.Bytes())
			if err != nil {
				walkErr = err.Error()
			} else if ver != 6 {
				walkErr = fmt.Sprint("version ", ver)
			}
			next := 0
			for _, w := range wops {
				o := map[string]interface{}{"o": w.Op, "v": int(w.N), "parts": 0}
				switch w.Op {
				case "exms", "exs":
					o["v"] = -1
					for xi, x := range expiries {
						if x == w.N {
							o["v"] = xi
						}
					}
				case "key":
					o["v"], o["parts"] = -1, 1
					if next < len(objs) && bytes.Equal(objs[next].key, w.Key) {
						if s, n := rvSame(objs[next].want, w.Value); s && n {
							o["v"] = next + 1
						}
					}
					next++
				}
				jops = append(jops, o)
			}
		}
		tr.Emit(tracer.Ev{"e": "efile", "file": fi, "objs": jobjs, "ops": jops, "walk_err": walkErr, "bytes": file.Len()})
		// the real loader on the real writer's output
		nr, footerOK, lerr := 0, false, ""
		var kept []*rdb.BinEntry // what a consumer holds on to while the loader moves on
		lateOK := true
		ab, pan = runAbortable(func() {
			l := rdb.NewLoader(bytes.NewReader(file.Bytes()))
			if err := l.Header(); err != nil {
				lerr = "header: " + err.Error()
				return
			}
			for {
				e, err := l.NextBinEntry()
				if err != nil {
					lerr = "entry: " + err.Error()
					return
				}
				if e == nil {
					break
				}
				nr++
				kept = append(kept, e)
				ev := tracer.Ev{"e": "erec", "file": fi, "i": nr, "db": int(e.DB), "ex": -1, "id": -1, "key_ok": false, "val_ok": false}
				for xi, x := range expiries {
					if x == e.ExpireAt {
						ev["ex"] = xi
					}
				}
				if nr <= len(objs) {
					o := objs[nr-1]
					ev["id"] = nr
					ev["key_ok"] = bytes.Equal(e.Key, o.key)
					oe, err := e.ObjEntry()
					if err == nil {
						got, ok := rvFromReal(oe.Value)
						s, n := rvSame(o.want, got)
						ev["val_ok"] = ok && s && n && oe.DB == e.DB && bytes.Equal(oe.Key, e.Key) && oe.ExpireAt == e.ExpireAt
					}
				}
				tr.Emit(ev)
			}
			if err := l.Footer(); err != nil {
				lerr = "footer: " + err.Error()
				return
			}
			footerOK = true
			// the records delivered earlier must still say the same after the loader has moved on to the end of the file
			for i, e := range kept {
				if i < len(objs) {
					o := objs[i]
					got, derr := rdb.DecodeDump(e.Value)
					gv, ok := rvFromReal(got)
					sm, nm := rvSame(o.want, gv)
					if !bytes.Equal(e.Key, o.key) || e.DB != o.db || e.ExpireAt != expiries[o.ex] || derr != nil || !ok || !sm || !nm {
						lateOK = false
						lerr += fmt.Sprintf(" record %d changed after the loader advanced: key %q (written %q)", i+1, e.Key, o.key)
					}
				}
			}
		})
		if ab != nil || pan != "" {
			lerr += fmt.Sprintf(" abort/panic: %v %s", ab, pan)
		}
		tr.Emit(tracer.Ev{"e": "eend", "file": fi, "records": nr, "footer_ok": footerOK, "late_ok": lateOK, "err": lerr})
		stats["files"]++
		stats["file_objects"] += len(objs)
	}
	// ---------------------------------------------------------------- load: payloads produced by the tool's own parser
	for fi := 0; fi < cfg.NFiles; fi++ {
		w := rdbref.NewFile([]int{6, 7, 9}[rnd.Intn(3)])
		type lk struct {
			key  []byte
			want rdbref.Value
		}
		var keys []lk
		for i := 0; i < 1+rnd.Intn(6); i++ {
			kind := kinds[rnd.Intn(len(kinds))]
			var want rdbref.Value
			if rnd.Intn(2) == 0 {
				want = rvValue(rnd, kind, []int{1, 2, 5, 40}[rnd.Intn(4)], false)
			} else {
				want = rdbref.RandValue(rnd, kind+":int", []int{1, 2, 5, 40}[rnd.Intn(4)], 8)
			}
			all := rdbref.RealisticEncodings(kind)
			enc := all[rnd.Intn(len(all))]
			if enc.Type == rdbref.TSetIntset {
				var ok bool
				if want, ok = rvIntsetOrder(want); !ok {
					continue
				}
			}
			typ, body, err := rdbref.EncodeValue(want, enc)
			if err != nil {
				continue
			}
			key := []byte(fmt.Sprintf("%d", -129-100*i))
			if rnd.Intn(2) == 0 {
				key = []byte(fmt.Sprintf("key:%d:%s", i, bytes.Repeat([]byte("ab"), rnd.Intn(30))))
			}
			w.KeyStr(key, rdbref.StrAuto, rdbref.LenCanonical, typ, body)
			keys = append(keys, lk{key, want})
		}
		file := w.Finish(true)
		ok, n, lerr := true, 0, ""
		ab, pan := runAbortable(func() {
			l := rdb.NewLoader(bytes.NewReader(file))
			if err := l.Header(); err != nil {
				ok, lerr = false, err.Error()
				return
			}
			for {
				e, err := l.NextBinEntry()
				if err != nil {
					ok, lerr = false, err.Error()
					return
				}
				if e == nil {
					break
				}
				if n >= len(keys) {
					ok, lerr = false, "more records than keys"
					return
				}
				k := keys[n]
				n++
				oe, err := e.ObjEntry()
				if err != nil {
					ok, lerr = false, "ObjEntry: "+err.Error()
					continue
				}
				got, gok := rvFromReal(oe.Value)
				s, nm := rvSame(k.want, got)
				if !gok || !s || !nm || !bytes.Equal(e.Key, k.key) {
					ok = false
					lerr = fmt.Sprintf("key %q (type %d): value or name differs after Loader + ObjEntry", k.key, e.Type)
				}
			}
			if err := l.Footer(); err != nil {
				ok, lerr = false, "footer: "+err.Error()
			}
		})
		if ab != nil || pan != "" {
			ok, lerr = false, lerr+fmt.Sprintf(" abort/panic: %v %s", ab, pan)
		}
		tr.Emit(tracer.Ev{"e": "load", "file": fi, "keys": len(keys), "records": n, "ok": ok && n == len(keys), "err": lerr})
		stats["load_files"]++
		stats["load_keys"] += len(keys)
	}
	return map[string]interface{}{"events": tr.Count(), "stats": stats, "encodings": len(encs)}, nil
}

func init() { register("rdbvalue", rvRun) }
