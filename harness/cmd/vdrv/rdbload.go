package main

// C01: RDB parsing.  Abstract operation sequences (from RdbFile.tla) are concretised by the harness's
// independent RDB writer, which remembers the exact byte range of every value; the REAL Loader
// (Header / NextBinEntry / Footer) is stepped and every record compared.

import (
	"bufio"
	"bytes"
	"encoding/json"
	"fmt"
	"io"
	"math/rand"

	"github.com/alibaba/RedisShake/pkg/rdb"

	"verif/harness/rdbref"
	"verif/harness/tracer"
)

type rlOp struct {
	O     string `json:"o"`
	V     int    `json:"v"`
	Parts int    `json:"parts"`
}

type rlFile struct {
	Id      int    `json:"id"`
	Version int    `json:"version"`
	Ops     []rlOp `json:"ops"`
	Float   bool   `json:"float"`  // module aux data may contain a float sub-opcode
	Chunked bool   `json:"chunked"` // parts > 1 really builds a hash above the chunk limit (else parts is forced to 1)
	Big     int    `json:"big"`    // element-count class for the keys of this file
}

type rlIn struct {
	Seed  int64    `json:"seed"`
	Files []rlFile `json:"files"`
	Trace string   `json:"trace"`
}

const rlBaseMs = 1700000000000

type rlKey struct {
	id    int
	key   []byte
	typ   byte
	body  []byte
	parts int
}

func rlRun(in []byte) (interface{}, error) {
	var cfg rlIn
	if err := json.Unmarshal(in, &cfg); err != nil {
		return nil, err
	}
	tr, err := tracer.New(cfg.Trace)
	if err != nil {
		return nil, err
	}
	defer tr.Close()
	nrec := 0
	typesSeen := map[int]int{}
	nfile := 0
	for fi := range cfg.Files {
		f := &cfg.Files[fi]
		rnd := rand.New(rand.NewSource(cfg.Seed*100003 + int64(f.Id)))
		w := rdbref.NewFile(f.Version)
		keys := map[int]*rlKey{}
		usedEmpty := false
		var scripts [][]byte
		forms := []rdbref.LenForm{rdbref.LenCanonical, rdbref.LenCanonical, rdbref.Len14, rdbref.Len32}
		ops := make([]map[string]interface{}, 0, len(f.Ops))
		for oi := range f.Ops {
			op := &f.Ops[oi]
			parts := op.Parts
			switch op.O {
			case "aux":
				w.Aux([]byte([]string{"redis-ver", "redis-bits", "ctime", "used-mem", "luax"}[rnd.Intn(5)]), []byte(fmt.Sprint(rnd.Intn(1000000))))
			case "lua":
				body := []byte(fmt.Sprintf("return %d -- %d", f.Id, oi))
				if rnd.Intn(2) == 0 {
					body = append(body, bytes.Repeat([]byte(" ababab"), 10)...)
					body = append(body, []byte(" -- redis.call redis.call r")...) // a back reference one byte longer than its distance
					if rnd.Intn(2) == 0 {
						// a phrase that comes back several hundred bytes later: back references at distances beyond 255 (two offset bytes)
						body = append(body, farRepeat(rnd, 280+rnd.Intn(1500))...)
					}
					scripts = append(scripts, body)
					w.AuxStr([]byte("lua"), body, rdbref.StrLZF)
				} else {
					scripts = append(scripts, body)
					w.Aux([]byte("lua"), body)
				}
			case "resize":
				w.ResizeDB(uint64(rnd.Intn(100000)), uint64(rnd.Intn(70000)))
			case "modaux":
				mops := []rdbref.ModOp{{Kind: "uint", Uint: uint64(1 + rnd.Intn(2))}}
				for k := 0; k < rnd.Intn(4); k++ {
					switch rnd.Intn(5) {
					case 0:
						mops = append(mops, rdbref.ModOp{Kind: "sint", Int: int64(rnd.Intn(100000))})
					case 1:
						mops = append(mops, rdbref.ModOp{Kind: "uint", Uint: uint64(1)<<40 + uint64(rnd.Intn(1000))}) // 64-bit form
					case 2:
						// a module string as a server stores it: raw, integer-encoded (8 / 16 / 32 bit), or compressed
						switch rnd.Intn(4) {
						case 0:
							mops = append(mops, rdbref.ModOp{Kind: "string", Str: []byte("module-data\xff\x00")})
						case 1:
							mops = append(mops, rdbref.ModOp{Kind: "string", Str: []byte(fmt.Sprint([]int{7, -100, 30000, -40000, 2000000000}[rnd.Intn(5)])), Form: rdbref.StrInt})
						case 2:
							mops = append(mops, rdbref.ModOp{Kind: "string", Str: bytes.Repeat([]byte("module state "), 8), Form: rdbref.StrLZF})
						default:
							mops = append(mops, rdbref.ModOp{Kind: "string", Str: []byte("12345"), Form: rdbref.StrAuto})
						}
					case 3:
						mops = append(mops, rdbref.ModOp{Kind: "double", F: rnd.NormFloat64()})
					default:
						if f.Float {
							mops = append(mops, rdbref.ModOp{Kind: "float", F: float64(float32(rnd.NormFloat64()))})
						}
					}
				}
				w.ModuleAux(uint64(rnd.Int63())|1<<62, mops)
			case "exms":
				w.ExpireMs(uint64(rlBaseMs + op.V))
			case "exs":
				w.ExpireSec(uint32(rlBaseMs/1000 + op.V))
			case "idle":
				w.Idle(uint64(op.V))
			case "freq":
				w.Freq(byte(op.V))
			case "sel":
				w.SelectDB(uint64(op.V), forms[rnd.Intn(len(forms))])
			case "key":
				k := &rlKey{id: op.V, parts: 1}
				idb := []byte(fmt.Sprintf("%d:", op.V))
				keyNames := [][]byte{[]byte(fmt.Sprintf("key:%d", op.V)), {}, []byte(fmt.Sprintf("k\x00\xff\r\n%d", op.V)),
					append(append([]byte{}, idb...), bytes.Repeat([]byte{'K'}, 64-len(idb))...), append(append([]byte{}, idb...), bytes.Repeat([]byte{'L'}, 16384-len(idb))...)}
				k.key = keyNames[rnd.Intn(len(keyNames))]
				if len(k.key) == 0 {
					if usedEmpty {
						k.key = keyNames[0]
					}
					usedEmpty = true
				}
				if op.Parts > 1 && f.Chunked {
					v := rdbref.Value{Kind: "hash"}
					for i := 0; i < 2*op.Parts-1; i++ { // a record is cut after the pair that takes it above 16 MiB: two pairs per record, one in the last
						val := bytes.Repeat([]byte{byte('a' + i)}, 9*1024*1024)
						v.Hash = append(v.Hash, rdbref.HF{Field: []byte(fmt.Sprintf("f%d", i)), Value: val})
					}
					k.typ, k.body, _ = rdbref.EncodeValue(v, rdbref.Enc{Type: rdbref.THash})
					k.parts = op.Parts
				} else {
					parts = 1
					kind := []string{"string", "list", "set", "zset", "hash", "stream", "set:int", "list:int", "hash:int", "zset"}[rnd.Intn(10)]
					n := []int{0, 1, 2, 7, 63, 64, 300}[rnd.Intn(7)]
					if f.Big > 0 && rnd.Intn(3) == 0 {
						n = f.Big
					}
					if n == 0 && kind != "string" {
						n = 1
					}
					el := []int{0, 1, 5, 63, 64, 300}[rnd.Intn(6)]
					if kind == "string" {
						el = []int{0, 1, 20, 63, 64, 16383, 16384, 70000}[rnd.Intn(8)]
					}
					v := rdbref.RandValue(rnd, kind, n, el+1)
					if kind == "stream" {
						var lps []rdbref.StreamListpack
						for i := 0; i < 1+rnd.Intn(3); i++ {
							lps = append(lps, rdbref.BuildStreamListpack([]rdbref.StreamEntry{{Ms: uint64(1700000000000 + i), Seq: 0, Fields: []rdbref.HF{{Field: []byte("f"), Value: []byte(fmt.Sprint(i))}}}}))
						}
						spec := rdbref.StreamSpec{Listpacks: lps, Length: uint64(len(lps)), LastMs: 1700000000005, LastSeq: 0}
						if rnd.Intn(2) == 0 {
							spec.Groups = []rdbref.StreamGroup{{Name: []byte("grp"), LastMs: 1700000000003, LastSeq: 1,
								PEL:       []rdbref.StreamPEL{{ID: rdbref.StreamID(1700000000001, 0), DeliveryTime: 1700000000999, DeliveryCount: 3}},
								Consumers: []rdbref.StreamConsumer{{Name: []byte("c1"), SeenTime: 1700000000888, PEL: [][16]byte{rdbref.StreamID(1700000000001, 0)}}}}}
						}
						k.typ, k.body = rdbref.TStream, rdbref.BuildStream(spec, rdbref.LenCanonical) // ids (ms timestamps) are above 2^32: canonical = the 64-bit form
					} else {
						encs := rdbref.RealisticEncodings(v.Kind)
						for try := 0; try < 40 && k.body == nil; try++ {
							t, b, err := rdbref.EncodeValue(v, encs[rnd.Intn(len(encs))])
							if err == nil {
								k.typ, k.body = t, b
							}
						}
						if k.body == nil {
							k.typ, k.body, _ = rdbref.EncodeValue(rdbref.Value{Kind: "string", Str: []byte("fallback")}, rdbref.Enc{Type: rdbref.TString})
						}
					}
				}
				if f.Version < 9 && k.typ == rdbref.TStream || f.Version < 8 && k.typ == rdbref.TZSet2 || f.Version < 7 && k.typ == rdbref.TQuicklist {
					k.typ, k.body, _ = rdbref.EncodeValue(rdbref.Value{Kind: "string", Str: []byte("old-format")}, rdbref.Enc{Type: rdbref.TString})
				}
				// key names use the server's string encoder too: raw (any length form), integer-encoded, LZF
				switch rnd.Intn(4) {
				case 0:
					if rnd.Intn(2) == 0 {
						// numeric key name at / around the limits of the integer string forms, both signs (op.V keeps the names distinct)
						edges := []int64{0, -1, 127, 128, -128, -129, -200, 32767, 32768, -32768, -32769, -30000, 2147483647, -2147483648, 2147483648, -2147483649}
						k.key = []byte(fmt.Sprint(edges[rnd.Intn(len(edges))] - 16*int64(op.V)*int64(rnd.Intn(2))))
						for _, o := range keys {
							if bytes.Equal(o.key, k.key) {
								k.key = []byte(fmt.Sprint(-1000 - op.V))
							}
						}
					}
					w.KeyStr(k.key, rdbref.StrAuto, rdbref.LenCanonical, k.typ, k.body)
				case 1:
					// LZF-stored key name.  Besides the names drawn above (long runs: overlapping back references), names whose
					// back reference is exactly one byte longer than its distance (a block, the block again, its first byte) and
					// names with several short repeated words
					switch rnd.Intn(3) {
					case 0:
						blk := make([]byte, 3+rnd.Intn(22))
						for i := range blk {
							blk[i] = byte('a' + rnd.Intn(26))
						}
						k.key = []byte(fmt.Sprintf("%s%s%c-%d", blk, blk, blk[0], op.V))
					case 1:
						words := []string{"user:", "session:", "cache:", "{tag}", "0000"}
						var nm []byte
						for i := 0; i < 6; i++ {
							nm = append(nm, words[rnd.Intn(len(words))]...)
						}
						k.key = append(nm, []byte(fmt.Sprint("#", op.V))...)
					case 2:
						if rnd.Intn(2) == 0 {
							// a long name whose opening phrase returns beyond 255 bytes (a back reference with a two-byte offset)
							k.key = append(farRepeat(rnd, 260+rnd.Intn(3000)), []byte(fmt.Sprint("#", op.V))...)
						}
					}
					w.KeyStr(k.key, rdbref.StrLZF, rdbref.LenCanonical, k.typ, k.body)
				default:
					w.KeyForm(k.key, forms[rnd.Intn(len(forms))], k.typ, k.body)
				}
				keys[op.V] = k
				typesSeen[int(k.typ)]++
			}
			o := map[string]interface{}{"o": op.O}
			if op.O == "key" {
				o["v"], o["parts"] = op.V, parts
				if keys[op.V] != nil {
					o["parts"] = keys[op.V].parts
				}
			} else if op.O != "aux" && op.O != "lua" && op.O != "resize" && op.O != "modaux" {
				o["v"] = op.V
			}
			ops = append(ops, o)
		}
		file := w.Finish(f.Version >= 5)
		tr.Emit(tracer.Ev{"e": "file", "file": f.Id, "version": f.Version, "ops": ops, "bytes": len(file)})
		// ---- the real loader, one record at a time
		var errMsg string
		nr := 0
		footerOK := true
		chunksOK := true
		var held []heldRec
		ab, pan := runAbortable(func() {
			// the loader's source delivers the file whole, or in pieces (short reads), as the tool's sources do: a
			// bufio.Reader over a socket / pipe (utils.NewRDBLoader) hands out what it has buffered
			var src io.Reader = bytes.NewReader(file)
			frnd := rand.New(rand.NewSource(int64(len(file))*7919 + int64(nfile)))
			switch nfile % 3 {
			case 1:
				src = bufio.NewReaderSize(&fragReader{b: file, rnd: frnd, max: 8192}, 4096)
			case 2:
				if len(file) < 1<<20 {
					src = &fragReader{b: file, rnd: frnd, max: 7}
				} else {
					src = bufio.NewReaderSize(&fragReader{b: file, rnd: frnd, max: 100000}, 64)
				}
			}
			nfile++
			l := rdb.NewLoader(src)
			if err := l.Header(); err != nil {
				errMsg = "header: " + err.Error()
				return
			}
			si := 0
			held = held[:0]
			var chunkBody []byte
			part := 0
			for {
				e, err := l.NextBinEntry()
				if err != nil {
					errMsg = "entry: " + err.Error()
					return
				}
				if e == nil {
					break
				}
				nr++
				// every delivered record is KEPT until the end of the file, as the consumers of the loader do (a queue between the
				// parser and the restore workers): what was delivered must not change afterwards
				held = append(held, heldRec{e.Key, e.Value, rdbref.CRC64(0, e.Key), rdbref.CRC64(0, e.Value)})
				ev := tracer.Ev{"e": "rec", "file": f.Id, "i": nr, "db": int(e.DB), "idle": int(e.IdleTime), "freq": int(e.Freq)}
				ex := int64(0)
				if e.ExpireAt != 0 {
					ex = int64(e.ExpireAt) - rlBaseMs
					if ex < -1000000 || ex > 1000000 {
						ex = -999999
					}
				}
				ev["ex"] = ex
				if e.Type == rdb.RdbFlagAUX {
					ok := si < len(scripts) && bytes.Equal(e.Value, scripts[si]) && string(e.Key) == "lua"
					si++
					ev["kind"], ev["id"], ev["part"], ev["key_ok"], ev["type_ok"], ev["payload_ok"] = "lua", 0, 1, ok, true, ok
					tr.Emit(ev)
					continue
				}
				// which key is this?  (by name; names are unique per file except for the fixed ones -> use order as tie-break)
				var k *rlKey
				if part > 0 {
					// continuation of the chunked key
				}
				for _, cand := range keys {
					if bytes.Equal(cand.key, e.Key) && (k == nil || cand.id < k.id) && !doneKeys[fmt.Sprintf("%d/%d", f.Id, cand.id)] {
						k = cand
					}
				}
				if k == nil {
					ev["kind"], ev["id"], ev["part"], ev["key_ok"], ev["type_ok"], ev["payload_ok"] = "key", -1, 1, false, false, false
					tr.Emit(ev)
					continue
				}
				ev["kind"], ev["id"], ev["key_ok"], ev["type_ok"] = "key", k.id, true, e.Type == k.typ
				if k.parts == 1 {
					ev["part"] = 1
					ev["payload_ok"] = bytes.Equal(e.Value, rdbref.Dump(k.typ, k.body, 6)) && e.NeedReadLen == 1 && e.RealMemberCount == 0
					doneKeys[fmt.Sprintf("%d/%d", f.Id, k.id)] = true
				} else {
					part++
					ev["part"] = part
					t, body, ver, perr := rdbref.ParseDump(e.Value)
					ev["payload_ok"] = perr == nil && t == k.typ && ver == 6 && ((part == 1) == (e.NeedReadLen == 1)) && e.RealMemberCount > 0
					chunkBody = append(chunkBody, body...)
					if len(chunkBody) >= len(k.body) {
						if !bytes.Equal(chunkBody, k.body) {
							chunksOK = false
						}
						doneKeys[fmt.Sprintf("%d/%d", f.Id, k.id)] = true
						chunkBody, part = nil, 0
					}
				}
				tr.Emit(ev)
			}
			if f.Version >= 5 {
				if err := l.Footer(); err != nil {
					footerOK = false
					errMsg = "footer: " + err.Error()
				}
			}
		})
		if errMsg != "" {
			n := len(file)
			if n > 120 {
				n = 120
			}
			errMsg += fmt.Sprintf(" | file head: %x", file[:n])
		}
		if ab != nil {
			errMsg += " abort: " + ab.Msg + " " + ab.Err
		}
		if pan != "" {
			errMsg += " panic: " + pan
		}
		nrec += nr
		heldOK := true
		for i, h := range held {
			if rdbref.CRC64(0, h.key) != h.keyCrc || rdbref.CRC64(0, h.val) != h.valCrc {
				heldOK = false
				if errMsg == "" {
					errMsg = fmt.Sprintf("record %d (key %.40q) changed after it had been delivered", i+1, h.key)
				}
			}
		}
		held = nil
		tr.Emit(tracer.Ev{"e": "end", "file": f.Id, "records": nr, "err": errMsg != "" && footerOK && heldOK, "errmsg": errMsg, "footer_ok": footerOK, "chunks_ok": chunksOK, "held_ok": heldOK})
	}
	return map[string]interface{}{"files": len(cfg.Files), "records": nrec, "events": tr.Count(), "types": typesSeen}, nil
}

var doneKeys = map[string]bool{}

type heldRec struct {
	key, val       []byte
	keyCrc, valCrc uint64
}

// farRepeat: a 14-byte phrase, `gap` bytes that compress badly, the phrase again, a tail.
func farRepeat(rnd *rand.Rand, gap int) []byte {
	letters := func(n int) []byte {
		b := make([]byte, n)
		for i := range b {
			b[i] = byte('a' + rnd.Intn(26))
		}
		return b
	}
	phrase := append([]byte("PHRASE:"), letters(7)...)
	out := append([]byte{}, phrase...)
	out = append(out, letters(gap)...)
	out = append(out, phrase...)
	return append(out, letters(5)...)
}

func init() { register("rdbload", rlRun) }
