package main

// C17: decode mode.  RDB files with known content (independent writer: classic value types in every
// encoding, binary keys, special scores, Lua scripts) -> the REAL CmdDecode.Main() with parallel 1..N ->
// the output file is parsed line by line; each line is attributed to (entry, element) by its base64
// fields and its content compared with the known value; the resulting <<entry, element>> sequence is
// judged by TLC against Decode.tla's contract (DecodeTrace.tla).

import (
	"bufio"
	"bytes"
	"encoding/base64"
	"encoding/json"
	"fmt"
	"io"
	"math"
	"math/rand"
	"os"
	"path/filepath"
	"sort"
	"strconv"
	"strings"
	"syscall"
	"time"

	run "github.com/alibaba/RedisShake/redis-shake"
	conf "github.com/alibaba/RedisShake/redis-shake/configure"

	"verif/harness/rdbref"
	"verif/harness/tracer"
)

type dcCase struct {
	Id       int   `json:"id"`
	Parallel int   `json:"parallel"`
	Entries  int   `json:"entries"`
	Big      bool  `json:"big"`     // large binary values (long rendering per line: overlap between workers)
	Chunked  bool  `json:"chunked"` // one hash above the loader's 16 MiB chunk limit
	InfScore bool  `json:"inf"`     // sorted sets may carry +-inf scores
	Twice    bool  `json:"twice"`   // the same file is given as input twice (rdb.input = [f, f]): the second output must say what the first says
	Slow     bool  `json:"slow"`    // input and output are FIFOs: the input arrives in two parts 1.5 s apart, the output is not read for 2.5 s
	Seed     int64 `json:"seed"`
}

type dcIn struct {
	Seed  int64    `json:"seed"`
	Trace string   `json:"trace"`
	Dir   string   `json:"dir"`
	Cases []dcCase `json:"cases"`
}

type dcEntry struct {
	db     int
	key    []byte
	exp    uint64
	kind   string // string list hash set zset lua
	want   rdbref.Value
	script []byte
	lines  int
}

type dcLine struct {
	DB       *uint32         `json:"db"`
	Type     string          `json:"type"`
	ExpireAt *uint64         `json:"expireat"`
	Key      string          `json:"key"`
	Key64    *string         `json:"key64"`
	Value64  *string         `json:"value64"`
	Index    *int            `json:"index"`
	Field64  *string         `json:"field64"`
	Member64 *string         `json:"member64"`
	Score    json.RawMessage `json:"score"`
}

// a score as rendered: a JSON number, or (JSON has no infinities) a string spelling of one
func dcScore(raw json.RawMessage) (float64, bool) {
	if len(raw) == 0 {
		return 0, false
	}
	var f float64
	if err := json.Unmarshal(raw, &f); err == nil {
		return f, true
	}
	var s string
	if err := json.Unmarshal(raw, &s); err == nil {
		switch strings.ToLower(s) {
		case "inf", "+inf", "infinity", "+infinity":
			return math.Inf(1), true
		case "-inf", "-infinity":
			return math.Inf(-1), true
		}
		if v, err := strconv.ParseFloat(s, 64); err == nil {
			return v, true
		}
	}
	return 0, false
}

func dcRun(in []byte) (interface{}, error) {
	var cfg dcIn
	if err := json.Unmarshal(in, &cfg); err != nil {
		return nil, err
	}
	tr, err := tracer.New(cfg.Trace)
	if err != nil {
		return nil, err
	}
	defer tr.Close()
	stats := map[string]int{}
	for _, c := range cfg.Cases {
		rnd := rand.New(rand.NewSource(c.Seed))
		w := rdbref.NewFile([]int{6, 7, 8, 9}[rnd.Intn(4)])
		var ents []*dcEntry
		db := 0
		used := map[string]bool{}
		kinds := []string{"string", "list", "hash", "set", "zset"}
		chunkAt := -1
		if c.Chunked {
			chunkAt = c.Entries / 3 // a split hash in the middle of the file: the keys after it matter
		}
		putChunked := func() {
			v := rdbref.Value{Kind: "hash"}
			for i := 0; i < 3; i++ {
				v.Hash = append(v.Hash, rdbref.HF{Field: []byte(fmt.Sprintf("f%d", i)), Value: bytes.Repeat([]byte{byte('a' + i)}, 9*1024*1024)})
			}
			typ, body, _ := rdbref.EncodeValue(v, rdbref.Enc{Type: rdbref.THash})
			w.Key([]byte("bighash"), typ, body)
			used[fmt.Sprintf("%d/%x", db, "bighash")] = true
			ents = append(ents, &dcEntry{db: db, key: []byte("bighash"), kind: "hash", want: v, lines: 3})
			// always right behind it: a key that is not a hash, then a small plain hash (whatever the loader remembers of the split hash must
			// not colour them), whatever the random entries after them are
			sv := rdbref.Value{Kind: "string", Str: []byte("after-the-split-hash")}
			st, sb, _ := rdbref.EncodeValue(sv, rdbref.Enc{Type: rdbref.TString})
			w.Key([]byte("after:s"), st, sb)
			used[fmt.Sprintf("%d/%x", db, "after:s")] = true
			ents = append(ents, &dcEntry{db: db, key: []byte("after:s"), kind: "string", want: sv, lines: 1})
			hv := rdbref.Value{Kind: "hash", Hash: []rdbref.HF{{Field: []byte("x"), Value: []byte("1")}, {Field: []byte("y"), Value: []byte("two")}}}
			ht, hb, _ := rdbref.EncodeValue(hv, rdbref.Enc{Type: rdbref.THash})
			w.Key([]byte("after:h"), ht, hb)
			used[fmt.Sprintf("%d/%x", db, "after:h")] = true
			ents = append(ents, &dcEntry{db: db, key: []byte("after:h"), kind: "hash", want: hv, lines: 2})
		}
		for i := 0; i < c.Entries; i++ {
			if i == chunkAt {
				putChunked()
				chunkAt = -1
			}
			if rnd.Intn(4) == 0 {
				db = []int{0, 1, 2, 15}[rnd.Intn(4)]
				w.SelectDB(uint64(db), rdbref.LenCanonical)
			}
			if rnd.Intn(12) == 0 {
				sc := []byte(fmt.Sprintf("return redis.call('set', KEYS[1], '%d')", rnd.Intn(1000000)))
				if rnd.Intn(2) == 0 {
					// a longer script, stored compressed as a server does: indentation runs, a repeated call
					sc = append(sc, []byte("\n        -- padding\n        redis.call('incr', KEYS[2]) redis.call('incr', KEYS[2]) r")...)
					w.AuxStr([]byte("lua"), sc, rdbref.StrLZF)
				} else {
					w.Aux([]byte("lua"), sc)
				}
				ents = append(ents, &dcEntry{db: db, kind: "lua", script: sc, lines: 1})
				continue
			}
			e := &dcEntry{db: db, kind: kinds[rnd.Intn(len(kinds))]}
			for {
				switch rnd.Intn(5) {
				case 4:
					// a long name with runs and a short period (stored compressed: overlapping back references)
					e.key = []byte(fmt.Sprintf("session:%s%06d:abababababab", strings.Repeat("0", 10+rnd.Intn(30)), rnd.Intn(1000000)))
				case 0:
					e.key = []byte(fmt.Sprintf("key:%d", rnd.Intn(1000000)))
				case 1:
					e.key = make([]byte, 1+rnd.Intn(12)) // arbitrary bytes: non-printable, non-UTF-8
					rnd.Read(e.key)
				case 2:
					e.key = []byte(fmt.Sprint(int64(rnd.Intn(70000)) - 35000))
				default:
					e.key = append([]byte("k\xff\xfe\x00\"\\\n<>& "), byte(rnd.Intn(256)), byte(rnd.Intn(256)))
				}
				id := fmt.Sprintf("%d/%x", db, e.key)
				if !used[id] {
					used[id] = true
					break
				}
			}
			n := []int{0, 1, 2, 3, 7, 40}[rnd.Intn(6)]
			if e.kind != "list" && e.kind != "string" && n == 0 {
				n = 1 // an empty set / hash / zset cannot exist in a file written by a server; an empty list neither, but keep n >= 1 for all
			}
			if e.kind == "list" && n == 0 {
				n = 1
			}
			if c.Big {
				e.want = rdbref.Value{Kind: e.kind}
				big := func() []byte {
					b := make([]byte, 1000+rnd.Intn(30000))
					rnd.Read(b)
					return b
				}
				switch e.kind {
				case "string":
					e.want.Str = big()
				case "list":
					for j := 0; j < n; j++ {
						e.want.List = append(e.want.List, big())
					}
				case "set":
					for j := 0; j < n; j++ {
						e.want.Set = append(e.want.Set, big())
					}
				case "hash":
					for j := 0; j < n; j++ {
						e.want.Hash = append(e.want.Hash, rdbref.HF{Field: big(), Value: big()})
					}
				case "zset":
					for j := 0; j < n; j++ {
						e.want.ZSet = append(e.want.ZSet, rdbref.ZM{Member: big(), Score: rnd.NormFloat64()})
					}
				}
			} else if rnd.Intn(3) == 0 {
				e.want = rdbref.RandValue(rnd, e.kind+":int", n, 8)
			} else {
				e.want = rvValue(rnd, e.kind, n, false)
			}
			if e.kind == "zset" {
				for j := range e.want.ZSet {
					s := e.want.ZSet[j].Score
					if math.IsNaN(s) || (math.IsInf(s, 0) && !c.InfScore) {
						e.want.ZSet[j].Score = float64(j) - 0.5
					}
				}
				if c.InfScore && len(e.want.ZSet) > 0 {
					e.want.ZSet[rnd.Intn(len(e.want.ZSet))].Score = math.Inf(1 - 2*rnd.Intn(2))
				}
			}
			all := rdbref.RealisticEncodings(e.kind)
			var typ byte
			var body []byte
			for try := 0; ; try++ {
				enc := all[rnd.Intn(len(all))]
				want := e.want
				if enc.Type == rdbref.TSetIntset {
					var ok bool
					if want, ok = rvIntsetOrder(want); !ok {
						continue
					}
				}
				var err error
				if typ, body, err = rdbref.EncodeValue(want, enc); err == nil {
					e.want = want
					break
				}
			}
			switch rnd.Intn(4) {
			case 0:
				e.exp = 1700000000000 + uint64(rnd.Intn(1000000))
				w.ExpireMs(e.exp)
			case 1:
				e.exp = uint64(1700000000+rnd.Intn(1000)) * 1000
				w.ExpireSec(uint32(e.exp / 1000))
			}
			if len(e.key) > 20 {
				w.KeyStr(e.key, rdbref.StrLZF, rdbref.LenCanonical, typ, body) // long names are stored compressed
			} else {
				w.KeyStr(e.key, rdbref.StrAuto, rdbref.LenCanonical, typ, body)
			}
			switch e.kind {
			case "string":
				e.lines = 1
			case "list":
				e.lines = len(e.want.List)
			case "set":
				e.lines = len(e.want.Set)
			case "hash":
				e.lines = len(e.want.Hash)
			case "zset":
				e.lines = len(e.want.ZSet)
			}
			ents = append(ents, e)
		}
		if chunkAt >= 0 {
			putChunked()
		}
		file := w.Finish(true)
		inPath := filepath.Join(cfg.Dir, fmt.Sprintf("in-%d.rdb", c.Id))
		outBase := filepath.Join(cfg.Dir, fmt.Sprintf("out-%d", c.Id))
		slowDone := make(chan struct{})
		if c.Slow {
			// input and output are FIFOs: the run spans several of the tool's one-second progress ticks, with output pending
			// (nobody reads it for 2.5 s) while the second part of the input arrives
			os.Remove(inPath)
			os.Remove(outBase + ".0")
			if err := syscall.Mkfifo(inPath, 0644); err != nil {
				return nil, err
			}
			if err := syscall.Mkfifo(outBase+".0", 0644); err != nil {
				return nil, err
			}
			go func() {
				f, err := os.OpenFile(inPath, os.O_WRONLY, 0)
				if err != nil {
					return
				}
				defer f.Close()
				cut := len(file) * 6 / 10
				f.Write(file[:cut])
				time.Sleep(1500 * time.Millisecond)
				f.Write(file[cut:])
			}()
			go func() {
				defer close(slowDone)
				r, err := os.Open(outBase + ".0")
				if err != nil {
					return
				}
				defer r.Close()
				time.Sleep(2500 * time.Millisecond)
				cp, err := os.Create(outBase + ".copy")
				if err != nil {
					return
				}
				defer cp.Close()
				io.Copy(cp, r)
			}()
		} else if err := os.WriteFile(inPath, file, 0644); err != nil {
			return nil, err
		}
		lines := make([]int, len(ents))
		for i, e := range ents {
			lines[i] = e.lines
		}
		tr.Emit(tracer.Ev{"e": "dfile", "file": c.Id, "parallel": c.Parallel, "lines": lines, "bytes": len(file), "chunked": c.Chunked, "inf": c.InfScore})
		// ---- the real command
		conf.Options.SourceRdbInput = []string{inPath}
		if c.Twice && !c.Slow {
			conf.Options.SourceRdbInput = []string{inPath, inPath}
		}
		conf.Options.TargetRdbOutput = outBase
		conf.Options.Parallel = c.Parallel
		finished := false
		doneCh := make(chan struct{})
		var ab *abortInfo
		var pan string
		go func() {
			ab, pan = runAbortable(func() {
				cmd := &run.CmdDecode{}
				cmd.Main()
				finished = true
			})
			close(doneCh)
		}()
		hung := false
		select {
		case <-doneCh:
		case <-time.After(60 * time.Second):
			hung = true
		}
		if c.Slow && !hung {
			select {
			case <-slowDone:
			case <-time.After(20 * time.Second):
			}
			os.Remove(outBase + ".0")
			os.Rename(outBase+".copy", outBase+".0")
		}
		errText := ""
		if ab != nil {
			errText = "abort: " + ab.Msg + " " + ab.Err
			if len(errText) > 300 {
				errText = errText[:300]
			}
		}
		if pan != "" {
			errText += " panic: " + pan
		}
		if hung {
			// the command's goroutines may still hold the output file; judge what is there and stop using this process for further cases
			tr.Emit(tracer.Ev{"e": "dend", "file": c.Id, "finished": false, "hung": true, "err": errText, "lines": 0, "chunked": c.Chunked, "inf": c.InfScore, "parallel": c.Parallel, "second_ok": true})
			stats["hung"]++
			break
		}
		// ---- parse the output
		index := map[string]int{} // db/key64 -> entry (1-based)
		for i, e := range ents {
			if e.kind != "lua" {
				index[fmt.Sprintf("%d/%s", e.db, base64.StdEncoding.EncodeToString(e.key))] = i + 1
			}
		}
		luaSeen := map[int]bool{}
		nlines := 0
		f, err := os.Open(outBase + ".0")
		if err == nil {
			sc := bufio.NewScanner(f)
			sc.Buffer(make([]byte, 1<<20), 256<<20)
			for sc.Scan() {
				nlines++
				raw := sc.Bytes()
				ev := tracer.Ev{"e": "line", "file": c.Id, "n": nlines, "entry": 0, "j": 0, "content_ok": false}
				var ln dcLine
				if err := json.Unmarshal(raw, &ln); err != nil {
					ev["why"] = "not JSON: " + err.Error()
					tr.Emit(ev)
					continue
				}
				if ln.Type == "aux" {
					// a script line: attribute it to the first script record with this text not yet seen
					for i, e := range ents {
						if e.kind == "lua" && !luaSeen[i] && ln.Key == "lua" && ln.Value64 != nil && *ln.Value64 == string(e.script) {
							luaSeen[i] = true
							ev["entry"], ev["j"], ev["content_ok"] = i+1, 1, true
							break
						}
					}
					tr.Emit(ev)
					continue
				}
				if ln.DB == nil || ln.Key64 == nil || ln.ExpireAt == nil {
					ev["why"] = "db / key64 / expireat missing"
					tr.Emit(ev)
					continue
				}
				ei := index[fmt.Sprintf("%d/%s", *ln.DB, *ln.Key64)]
				if ei == 0 {
					ev["why"] = "no such key in this database"
					tr.Emit(ev)
					continue
				}
				e := ents[ei-1]
				ev["entry"] = ei
				dec := func(s *string) ([]byte, bool) {
					if s == nil {
						return nil, false
					}
					b, err := base64.StdEncoding.DecodeString(*s)
					return b, err == nil
				}
				ok := ln.Type == e.kind && *ln.ExpireAt == e.exp
				why := ""
				if !ok {
					why = fmt.Sprintf("type %q / expireat %d, want %q / %d", ln.Type, *ln.ExpireAt, e.kind, e.exp)
				}
				j := 0
				switch e.kind {
				case "string":
					v, vok := dec(ln.Value64)
					j = 1
					if !vok || !bytes.Equal(v, e.want.Str) {
						ok, why = false, "value64 does not decode to the string"
					}
				case "list":
					v, vok := dec(ln.Value64)
					if ln.Index != nil && *ln.Index >= 0 && *ln.Index < len(e.want.List) {
						j = *ln.Index + 1
						if !vok || !bytes.Equal(v, e.want.List[*ln.Index]) {
							ok, why = false, "value64 does not decode to the element at this index"
						}
					}
				case "set":
					m, mok := dec(ln.Member64)
					for x, y := range e.want.Set {
						if mok && bytes.Equal(y, m) {
							j = x + 1
						}
					}
				case "hash":
					fl, fok := dec(ln.Field64)
					v, vok := dec(ln.Value64)
					for x, y := range e.want.Hash {
						if fok && bytes.Equal(y.Field, fl) {
							j = x + 1
							if !vok || !bytes.Equal(v, y.Value) {
								ok, why = false, "value64 does not decode to the value of this field"
							}
						}
					}
				case "zset":
					m, mok := dec(ln.Member64)
					for x, y := range e.want.ZSet {
						if mok && bytes.Equal(y.Member, m) {
							j = x + 1
							if sv, sok := dcScore(ln.Score); !sok || sv != y.Score {
								ok, why = false, fmt.Sprintf("score %s, want %v", ln.Score, y.Score)
							}
						}
					}
				}
				if j == 0 {
					ok, why = false, "no such element in this key"
				}
				ev["j"], ev["content_ok"] = j, ok
				if why != "" {
					ev["why"] = why
				}
				tr.Emit(ev)
			}
			if err := sc.Err(); err != nil {
				errText += " scan: " + err.Error()
			}
			f.Close()
		} else {
			errText += " open output: " + err.Error()
		}
		secondOK := true
		if c.Twice && !c.Slow {
			// the inputs are decoded one after the other by the same command object: nothing of the first may colour the second
			a, _ := os.ReadFile(outBase + ".0")
			b, _ := os.ReadFile(outBase + ".1")
			la, lb := strings.Split(string(a), "\n"), strings.Split(string(b), "\n")
			sort.Strings(la)
			sort.Strings(lb)
			secondOK = len(la) == len(lb)
			for i := 0; secondOK && i < len(la); i++ {
				secondOK = la[i] == lb[i]
			}
			os.Remove(outBase + ".1")
		}
		tr.Emit(tracer.Ev{"e": "dend", "file": c.Id, "finished": finished, "hung": false, "err": errText, "lines": nlines, "chunked": c.Chunked, "inf": c.InfScore, "parallel": c.Parallel,
			"second_ok": secondOK})
		os.Remove(inPath)
		os.Remove(outBase + ".0")
		stats["files"]++
		stats["entries"] += len(ents)
		stats["lines"] += nlines
	}
	return map[string]interface{}{"events": tr.Count(), "stats": stats}, nil
}

func init() { register("decode", dcRun) }
