package main

// C05: the RDB / command-stream hand-off.  A scripted source (fakesrc) answers SYNC / PSYNC with
// arbitrary framing and fragmentation; the real sendPSyncCmd (+ runIncrementalSync / Iocopy /
// pSyncPipeCopy) or the real dump-mode worker consumes it; what comes out is compared byte for
// byte with what the source sent, and the run id / offset / size used afterwards with the announced ones.

import (
	"bytes"
	"encoding/json"
	"fmt"
	"io"
	"io/ioutil"
	"math/rand"
	"os"
	"path/filepath"
	"sync"
	"time"

	run "github.com/alibaba/RedisShake/redis-shake"
	utils "github.com/alibaba/RedisShake/redis-shake/common"
	conf "github.com/alibaba/RedisShake/redis-shake/configure"
	"github.com/alibaba/RedisShake/redis-shake/dbSync"
	"github.com/alibaba/RedisShake/redis-shake/dbSync/slot"

	"verif/harness/fakesrc"
	"verif/harness/tracer"
)

type hoCase struct {
	Id          int    `json:"id"`
	Mode        string `json:"mode"` // psync | dump
	N           int    `json:"n"`    // rdb size
	StreamLen   int    `json:"stream_len"`
	PreNewlines int    `json:"pre_newlines"`
	MidNewlines int    `json:"mid_newlines"`
	StatusCase  int    `json:"status_case"`
	Frags       []int  `json:"frags"`
	PauseUs     int    `json:"pause_us"`
	Offset      int64  `json:"offset"`
	ReadMax     int    `json:"read_max"` // consumer read size bound
	DropAt      int    `json:"drop_at"`  // psync mode: the source hangs up after this many stream bytes (0: never); the tool must come back for the next byte
}

type hoIn struct {
	Seed  int64    `json:"seed"`
	Cases []hoCase `json:"cases"`
	Trace string   `json:"trace"`
	Dir   string   `json:"dir"`
}

// hoBudget: generous time for the tool to finish a hand-off whose bytes have all been written
func hoBudget(c *hoCase) time.Duration {
	return 15*time.Second + time.Duration((c.N+c.StreamLen)/(1<<20))*time.Second
}

func minInt(a, b int) int {
	if a < b {
		return a
	}
	return b
}

func maxInt(a, b int) int {
	if a > b {
		return a
	}
	return b
}

func firstDiff(a, b []byte) int {
	n := len(a)
	if len(b) < n {
		n = len(b)
	}
	for i := 0; i < n; i++ {
		if a[i] != b[i] {
			return i
		}
	}
	if len(a) != len(b) {
		return n
	}
	return -1
}

func hoRun(in []byte) (interface{}, error) {
	var cfg hoIn
	if err := json.Unmarshal(in, &cfg); err != nil {
		return nil, err
	}
	tr, err := tracer.New(cfg.Trace)
	if err != nil {
		return nil, err
	}
	defer tr.Close()
	sink.SetSecrets("src-SECRET-pw", "tgt-SECRET-pw")
	conf.Options.HttpProfile = 9320
	conf.Options.SourceAuthType = "auth"
	conf.Options.Id = "verif"
	hungCases, shortCases := 0, 0
	for ci := range cfg.Cases {
		if hungCases >= 3 || shortCases >= 6 {
			break // every further case would cost another watchdog period; three hangs are a verdict already
		}
		c := &cfg.Cases[ci]
		rnd := rand.New(rand.NewSource(cfg.Seed*7919 + int64(c.Id)))
		rdbBytes := make([]byte, c.N)
		rnd.Read(rdbBytes)
		copy(rdbBytes, "REDIS0009")
		stream := make([]byte, c.StreamLen)
		streamFill(uint64(cfg.Seed)+uint64(c.Id), 0, stream)
		runid := "aAbBccDDeeff00112233445566778899aabbCCdd" // (mixed case: the announced id is an opaque token, to be used verbatim)
		var dropAt []int
		if c.DropAt > 0 && c.DropAt < len(stream) && c.Mode != "dump" {
			dropAt = []int{c.DropAt}
		}
		var pmu sync.Mutex
		var psyncs []fakesrc.Event
		var sentAt []int64 // stream bytes the source had written when each PSYNC arrived
		var src *fakesrc.Server
		src = fakesrc.New(fakesrc.Script{RunID: runid, Offset: c.Offset, PreNewlines: c.PreNewlines, MidNewlines: c.MidNewlines, StatusCase: c.StatusCase,
			RDB: rdbBytes, Stream: stream, Frags: c.Frags, PauseUs: c.PauseUs, DropAt: dropAt}, func(e fakesrc.Event) {
			if e.Kind == "psync" {
				pmu.Lock()
				psyncs = append(psyncs, e)
				sentAt = append(sentAt, src.Sent())
				pmu.Unlock()
			}
		})
		addr, err := src.Listen()
		if err != nil {
			return nil, err
		}
		ev := tracer.Ev{"e": "handoff", "hung": false, "case": c.Id, "mode": c.Mode, "n": c.N, "stream_len": c.StreamLen, "pre_newlines": c.PreNewlines, "mid_newlines": c.MidNewlines,
			"frags": c.Frags, "announced_offset": c.Offset}
		want := append(append([]byte{}, rdbBytes...), stream...)
		var got []byte
		readAll := func(r io.Reader, need int) {
			// the budget is a STALL budget, renewed by every byte that arrives: a slow machine (or byte-sized reads of a large
			// volume) must not look like lost bytes; bytes the tool never delivers still end the wait
			deadline := time.Now().Add(hoBudget(c))
			buf := make([]byte, 1<<16)
			type res struct {
				n   int
				err error
			}
			for len(got) < need && time.Now().Before(deadline) {
				max := c.ReadMax
				if max <= 0 {
					max = 4096
				}
				// tiny reads matter at the start and around the RDB / stream boundary; far from both, a large volume is read in bigger pieces
				if pos := len(got); max < 4096 && pos > 1<<16 && (pos < c.N-(1<<16) || pos > c.N+(1<<16)) {
					max = 1 << 16
				}
				k := 1 + rnd.Intn(max)
				ch := make(chan res, 1)
				go func() { n, err := r.Read(buf[:k]); ch <- res{n, err} }()
				select {
				case x := <-ch:
					got = append(got, buf[:x.n]...)
					if x.err != nil {
						return
					}
					if x.n > 0 {
						deadline = time.Now().Add(hoBudget(c))
					}
				case <-time.After(time.Until(deadline)):
					return
				}
			}
		}
		switch c.Mode {
		case "dump-main":
			// the whole dump command over TWO sources (the second one serves another RDB), source.rdb.parallel 1 or 2:
			// every source ends up, byte for byte, in its own output file <output>.<i>
			rdb2 := make([]byte, c.N/2+1)
			rnd.Read(rdb2)
			copy(rdb2, "REDIS0008")
			src2 := fakesrc.New(fakesrc.Script{RunID: runid, Offset: c.Offset, PreNewlines: c.MidNewlines, RDB: rdb2, Stream: stream, Frags: c.Frags, PauseUs: c.PauseUs}, nil)
			addr2, err := src2.Listen()
			if err != nil {
				return nil, err
			}
			base := filepath.Join(cfg.Dir, fmt.Sprintf("dumpmain-%d", c.Id))
			if c.Id%2 == 1 {
				ioutil.WriteFile(base+".0", bytes.Repeat([]byte{0xEE}, c.N+1000), 0644) // earlier, longer outputs at both paths
				ioutil.WriteFile(base+".1", bytes.Repeat([]byte{0xEE}, c.N+1000), 0644)
			}
			conf.Options.SourceAddressList = []string{addr, addr2}
			conf.Options.SourcePasswordRaw = ""
			conf.Options.TargetRdbOutput = base
			conf.Options.SourceRdbParallel = 1 + c.Id%2
			conf.Options.ExtraInfo = false
			var ab *abortInfo
			var pan string
			fin := make(chan struct{})
			go func() {
				ab, pan = runAbortableOwn(func() { (&run.CmdDump{}).Main() })
				close(fin)
			}()
			select {
			case <-fin:
			case <-time.After(2 * hoBudget(c)):
				ev["hung"] = true
				src.Close()
				src2.Close()
				<-fin
			}
			f0, _ := ioutil.ReadFile(base + ".0")
			f1, _ := ioutil.ReadFile(base + ".1")
			os.Remove(base + ".0")
			os.Remove(base + ".1")
			src2.Close()
			ev["abort"] = ab != nil
			ev["panic"] = pan
			ev["n_reported"] = int64(c.N)
			ev["file_len"] = len(f0)
			ev["file_diff"] = firstDiff(f0, rdbBytes)
			if d2 := firstDiff(f1, rdb2); d2 != -1 || len(f1) != len(rdb2) {
				// the second source's file is wrong: report it in the same fields
				ev["file_len"], ev["file_diff"] = len(f1)-len(rdb2)+c.N, d2
				if d2 == -1 {
					ev["file_diff"] = len(f1)
				}
			}
			ev["rest_len"], ev["rest_diff"] = 0, -1
			ev["out_len"], ev["out_diff"] = len(want), -1
			ev["runid_ok"], ev["offset_used"], ev["full"] = true, c.Offset, true
			ev["reconnects"], ev["re_runid_ok"], ev["re_off_ok"] = 0, true, true
			ev["mode"] = "dump"
			ev["dump_main"] = true
		case "dump":
			f, _ := ioutil.TempFile(cfg.Dir, "dump-*.rdb")
			name := f.Name()
			if c.Id%2 == 1 {
				// the output path already holds a LONGER file (an earlier dump): nothing of it may survive
				f.Write(bytes.Repeat([]byte{0xEE}, c.N+1000))
			}
			f.Close()
			var rd io.Reader
			var nsize int64
			var ab *abortInfo
			var pan string
			fin := make(chan struct{})
			go func() {
				ab, pan = runAbortableOwn(func() {
					r, n := run.VerifDump(addr, "", name)
					rd, nsize = r, n
				})
				close(fin)
			}()
			select {
			case <-fin:
			case <-time.After(hoBudget(c)):
				// the source has written everything long ago; the tool is still waiting for bytes
				ev["hung"] = true
				src.Close()
				<-fin
			}
			file, _ := ioutil.ReadFile(name)
			os.Remove(name)
			ev["abort"] = ab != nil
			ev["panic"] = pan
			ev["n_reported"] = nsize
			ev["file_len"] = len(file)
			ev["file_diff"] = firstDiff(file, rdbBytes)
			got = nil
			if rd != nil {
				readAll(rd, len(stream))
			}
			ev["rest_len"] = len(got)
			ev["rest_diff"] = firstDiff(got, stream)
			ev["out_len"] = len(file) + len(got)
			ev["out_diff"] = firstDiff(append(append([]byte{}, file...), got...), want)
			ev["runid_ok"] = true
			ev["offset_used"] = c.Offset
			ev["full"] = true
			ev["reconnects"], ev["re_runid_ok"], ev["re_off_ok"] = 0, true, true
		default:
			node := &slot.SyncNode{Id: c.Id, Source: addr, SourcePassword: "", Target: []string{"127.0.0.1:1"}, SlotLeftBoundary: -1, SlotRightBoundary: -1}
			ds := dbSync.VerifNewDbSyncer(node, false, "?", -1, 0, utils.CheckpointKey, 4)
			var rd io.Reader
			var nsize int64
			var full bool
			var rid string
			var perr error
			var ab *abortInfo
			var pan string
			fin := make(chan struct{})
			go func() {
				ab, pan = runAbortableOwn(func() {
					r, n, isFull, id, err := ds.VerifSendPSyncCmd(addr, "auth", "", false, "?")
					if r != nil {
						rd = r
					}
					nsize, full, rid, perr = n, isFull, id, err
				})
				close(fin)
			}()
			select {
			case <-fin:
			case <-time.After(hoBudget(c)):
				ev["hung"] = true
				src.Close()
				<-fin
			}
			ev["abort"] = ab != nil
			ev["panic"] = pan
			ev["err"] = perr != nil
			ev["n_reported"] = nsize
			ev["full"] = full
			ev["runid_ok"] = rid == runid
			ev["offset_used"] = ds.VerifSourceOffset()
			if rd != nil {
				readAll(rd, len(want))
			}
			ev["out_len"] = len(got)
			ev["out_diff"] = firstDiff(got, want)
			ev["file_len"], ev["file_diff"], ev["rest_len"], ev["rest_diff"] = 0, -1, 0, -1
			// what the tool used afterwards: every later PSYNC must carry the announced run id and ask for the byte after what it holds
			pmu.Lock()
			reRunid, reOff := true, true
			for i, e := range psyncs {
				if i == 0 {
					continue
				}
				if e.RunID != runid {
					reRunid = false
				}
				if e.Off < c.Offset+1 || e.Off > c.Offset+sentAt[i]+1 { // never beyond the byte after everything written so far
					reOff = false
				}
			}
			ev["reconnects"], ev["re_runid_ok"], ev["re_off_ok"] = maxInt(0, len(psyncs)-1), reRunid, reOff
			pmu.Unlock()
		}
		ev["want_len"] = len(want)
		if h, _ := ev["hung"].(bool); h {
			hungCases++
		}
		if ol, _ := ev["out_len"].(int); ol < len(want) {
			shortCases++ // bytes never arrived: the reader waited its whole (generous) budget for them
		}
		tr.Emit(ev)
		src.Close()
	}
	return map[string]interface{}{"cases": len(cfg.Cases), "events": tr.Count(), "leaks": sink.Leaks()}, nil
}

func init() { register("handoff", hoRun) }
