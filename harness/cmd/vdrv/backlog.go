package main

// C18: backlog ring.  "backlog-replay": lock-step replay of Backlog.tla behaviours;
// "backlog-free": free-running writer + readers (Reader.Read / ReadAt / SeekTo / DataRange).

import (
	"bytes"
	"encoding/json"
	"fmt"
	"io/ioutil"
	"math/rand"
	"os"
	"runtime"
	"strconv"
	"sync"
	"time"

	rerrors "github.com/alibaba/RedisShake/pkg/libs/errors"
	"github.com/alibaba/RedisShake/pkg/libs/io/backlog"

	"verif/harness/tracer"
)

func goid() int64 {
	var buf [64]byte
	n := runtime.Stack(buf[:], false)
	f := bytes.Fields(buf[:n])
	if len(f) < 2 {
		return -1
	}
	id, _ := strconv.ParseInt(string(f[1]), 10, 64)
	return id
}

func blErrName(err error) string {
	switch {
	case err == nil:
		return "nil"
	case rerrors.Equal(err, backlog.ErrClosedBacklog):
		return "CLOSED"
	case rerrors.Equal(err, backlog.ErrInvalidOffset):
		return "INVALID"
	}
	return "other:" + err.Error()
}

type blNote struct {
	kind string
	n    int
	err  string
	data []byte
}

type blRig struct {
	mu    sync.Mutex
	bl    *backlog.Backlog
	tr    *tracer.T
	free  bool
	who   map[int64]int // goroutine id -> actor (0 = writer, r = reader r)
	note  map[int]chan blNote
	goCh  map[int]chan struct{}
	lastE map[int]string
}

var curBl *blRig
var curBlMu sync.RWMutex

func (r *blRig) actor() int {
	r.mu.Lock()
	defer r.mu.Unlock()
	if a, ok := r.who[goid()]; ok {
		return a
	}
	return -1
}

func installBlHooks() {
	backlog.VerifGate = func(bl *backlog.Backlog, side byte, pos uint64) {
		curBlMu.RLock()
		r := curBl
		curBlMu.RUnlock()
		if r == nil || r.bl != bl {
			return
		}
		r.mu.Lock()
		free := r.free
		r.mu.Unlock()
		if free {
			return
		}
		a := r.actor()
		if a < 0 {
			return
		}
		r.note[a] <- blNote{kind: "gate"}
		<-r.goCh[a]
	}
	backlog.VerifEvent = func(bl *backlog.Backlog, ev string, n int, pos uint64) {
		curBlMu.RLock()
		r := curBl
		curBlMu.RUnlock()
		if r == nil || r.bl != bl {
			return
		}
		a := r.actor()
		r.tr.Emit(tracer.Ev{"e": ev, "n": n, "pos": pos, "r": a})
		r.mu.Lock()
		r.lastE[a] = ev
		free := r.free
		r.mu.Unlock()
		if !free && ev == "rpark" && a >= 0 {
			r.note[a] <- blNote{kind: "park"}
		}
	}
}

// the file behind the most recently created file-backed backlog (a run may close it under the backlog, as an owner could)
var lastBlFile *os.File

func newBlRig(tr *tracer.T, backend string, size int, dir string, actors int) (*blRig, func(), error) {
	var bl *backlog.Backlog
	cleanup := func() {}
	if backend == "file" {
		f, err := ioutil.TempFile(dir, "backlog-*.buf")
		if err != nil {
			return nil, nil, err
		}
		name := f.Name()
		cleanup = func() { os.Remove(name) }
		bl = backlog.NewFileBacklog(size, f)
		lastBlFile = f
	} else {
		bl = backlog.NewSize(size)
	}
	r := &blRig{bl: bl, tr: tr, who: map[int64]int{}, note: map[int]chan blNote{}, goCh: map[int]chan struct{}{}, lastE: map[int]string{}}
	for a := 0; a <= actors; a++ {
		r.note[a] = make(chan blNote, 64)
		r.goCh[a] = make(chan struct{}, 1)
	}
	curBlMu.Lock()
	curBl = r
	curBlMu.Unlock()
	return r, cleanup, nil
}

type blReplayIn struct {
	Backend string                     `json:"backend"`
	Cap     int                        `json:"cap"`
	Unit    int                        `json:"unit"`
	Seed    uint64                     `json:"seed"`
	Readers int                        `json:"readers"`
	Paths   [][]map[string]interface{} `json:"paths"`
	Trace   string                     `json:"trace"`
	Dir     string                     `json:"dir"`
	HangMs  int                        `json:"hang_ms"`
}

func blReplay(in []byte) (interface{}, error) {
	var cfg blReplayIn
	if err := json.Unmarshal(in, &cfg); err != nil {
		return nil, err
	}
	if cfg.HangMs == 0 {
		cfg.HangMs = 5000
	}
	tr, err := tracer.New(cfg.Trace)
	if err != nil {
		return nil, err
	}
	defer tr.Close()
	installBlHooks()
	out := &pipeReplayOut{}
	hangs := 0
	for pi, path := range cfg.Paths {
		if hangs >= 3 {
			break
		}
		for _, m := range blReplayOne(tr, &cfg, pi, path, out) {
			if m.Kind == "hang" {
				hangs++
			}
			if m.Kind == "drift" {
				out.Drifts++
				if out.Drifts > 20 {
					continue
				}
			}
			out.Mismatches = append(out.Mismatches, m)
		}
		out.Paths++
	}
	out.Events = tr.Count()
	return out, nil
}

func blReplayOne(tr *tracer.T, cfg *blReplayIn, pi int, path []map[string]interface{}, out *pipeReplayOut) (ms []Mismatch) {
	unit := cfg.Unit
	tr.Emit(tracer.Ev{"e": "Reset", "cap": cfg.Cap * unit, "case": pi})
	rig, cleanup, err := newBlRig(tr, cfg.Backend, cfg.Cap*unit, cfg.Dir, cfg.Readers)
	if err != nil {
		return []Mismatch{{Case: pi, Kind: "harness", Detail: err.Error()}}
	}
	defer cleanup()
	bl := rig.bl
	seed := cfg.Seed + uint64(pi)*104729
	var wg sync.WaitGroup
	var wrote uint64
	hang := time.Duration(cfg.HangMs) * time.Millisecond
	wait := func(a int) (blNote, bool) {
		select {
		case n := <-rig.note[a]:
			return n, true
		case <-time.After(hang):
			return blNote{}, false
		}
	}
	add := func(step int, kind, detail string) {
		ms = append(ms, Mismatch{Case: pi, Step: step, Kind: kind, Detail: detail})
	}
	roff := map[int]uint64{}
	abort := false
	for si, st := range path {
		if abort {
			break
		}
		out.Steps++
		a := jstr(st, "a")
		switch a {
		case "WBegin":
			k := jnum(st, "k") * unit
			buf := make([]byte, k)
			streamFill(seed, wrote, buf)
			tr.Emit(tracer.Ev{"e": "WBegin", "k": k})
			started := make(chan struct{})
			wg.Add(1)
			go func() {
				defer wg.Done()
				rig.mu.Lock()
				rig.who[goid()] = 0
				rig.mu.Unlock()
				close(started)
				n, err := bl.Write(buf)
				rig.note[0] <- blNote{kind: "ret", n: n, err: blErrName(err)}
			}()
			<-started
			if n, ok := wait(0); !ok || n.kind != "gate" {
				add(si, "hang", fmt.Sprintf("Write(%d) did not reach its first iteration: %+v", k, n))
				abort = true
			}
		case "RBegin":
			r := jnum(st, "r")
			o := uint64(jnum(st, "o") * unit)
			k := jnum(st, "k") * unit
			roff[r] = o
			buf := make([]byte, k)
			tr.Emit(tracer.Ev{"e": "RBegin", "r": r, "o": o, "k": k})
			started := make(chan struct{})
			wg.Add(1)
			go func() {
				defer wg.Done()
				rig.mu.Lock()
				rig.who[goid()] = r
				rig.mu.Unlock()
				close(started)
				n, err := bl.ReadAt(buf, o)
				rig.note[r] <- blNote{kind: "ret", n: n, err: blErrName(err), data: buf[:n]}
			}()
			<-started
			if n, ok := wait(r); !ok || n.kind != "gate" {
				add(si, "hang", fmt.Sprintf("ReadAt(%d,%d) did not reach its first iteration: %+v", o, k, n))
				abort = true
			}
		case "WStep", "RStep":
			actor := 0
			if a == "RStep" {
				actor = jnum(st, "r")
			}
			rig.goCh[actor] <- struct{}{}
			n, ok := wait(actor)
			if !ok {
				add(si, "hang", fmt.Sprintf("%s(actor %d): no gate/park/return within %v (last hook event %q)", a, actor, hang, rig.lastE[actor]))
				abort = true
				break
			}
			res := jstr(st, "res")
			if n.kind == "ret" {
				if actor == 0 {
					tr.Emit(tracer.Ev{"e": "WRet", "n": n.n, "err": n.err})
					wrote += uint64(n.n)
				} else {
					match := streamMatch(seed, roff[actor], n.data)
					tr.Emit(tracer.Ev{"e": "RRet", "r": actor, "n": n.n, "err": n.err, "match": match})
					if !match {
						add(si, "L1", fmt.Sprintf("ReadAt(offset %d) returned %d bytes that are not the bytes written at that offset", roff[actor], n.n))
						abort = true
					}
				}
			}
			switch res {
			case "park":
				if n.kind != "park" {
					add(si, "drift", fmt.Sprintf("%s: spec parks, code did %s n=%d err=%s", a, n.kind, n.n, n.err))
					abort = true
				}
			case "some":
				if n.kind != "gate" {
					add(si, "drift", fmt.Sprintf("%s: spec makes partial progress, code did %s n=%d err=%s", a, n.kind, n.n, n.err))
					abort = true
				}
			case "ret", "someret":
				wantN := jnum(st, "n") * unit
				wantErr := jstr(st, "err")
				if res == "someret" {
					wantN = jnum(st, "tot") * unit
					wantErr = "nil"
				}
				if n.kind != "ret" {
					add(si, "drift", fmt.Sprintf("%s: spec returns (%d,%s), code did %s", a, wantN, wantErr, n.kind))
					abort = true
				} else if n.err != wantErr || (actor == 0 && n.n != wantN) {
					add(si, "L1", fmt.Sprintf("%s returned (%d,%s), contract says (%d,%s)", a, n.n, n.err, wantN, wantErr))
					abort = true
				} else if actor != 0 && n.n != wantN {
					// a shorter non-empty read is allowed by the contract; the model predicted the exact amount
					if n.n == 0 || n.n > wantN {
						add(si, "L1", fmt.Sprintf("%s returned %d bytes, contract allows 1..%d", a, n.n, wantN))
					} else {
						add(si, "drift", fmt.Sprintf("%s returned %d bytes, model predicted %d", a, n.n, wantN))
					}
					abort = true
				}
			}
		case "RWake":
			r := jnum(st, "r")
			n, ok := wait(r)
			if !ok {
				add(si, "hang", fmt.Sprintf("RWake: reader %d waiting at offset %d was not woken within %v although a write or close happened (last hook event %q)", r, roff[r], hang, rig.lastE[r]))
				abort = true
			} else if n.kind != "gate" {
				add(si, "drift", fmt.Sprintf("RWake: expected re-arrival at the loop head, got %s", n.kind))
				abort = true
			}
		case "Close":
			tr.Emit(tracer.Ev{"e": "CloseCall"})
			bl.Close()
		case "DataRange":
			lo, hi, err := bl.DataRange()
			tr.Emit(tracer.Ev{"e": "DataRange", "lo": lo, "hi": hi, "err": blErrName(err)})
			if err != nil || lo != uint64(jnum(st, "lo")*unit) || hi != uint64(jnum(st, "hi")*unit) {
				add(si, "L1", fmt.Sprintf("DataRange() = (%d,%d,%s), contract says (%d,%d,nil)", lo, hi, blErrName(err), jnum(st, "lo")*unit, jnum(st, "hi")*unit))
			}
		case "Init":
		default:
			add(si, "harness", "unknown action "+a)
		}
	}
	hung := false
	for _, m := range ms {
		if m.Kind == "hang" {
			hung = true
		}
	}
	tr.Emit(tracer.Ev{"e": "End", "hung": hung})
	rig.mu.Lock()
	rig.free = true
	rig.mu.Unlock()
	curBlMu.Lock()
	curBl = nil
	curBlMu.Unlock()
	for a := range rig.goCh {
		select {
		case rig.goCh[a] <- struct{}{}:
		default:
		}
	}
	bl.Close()
	done := make(chan struct{})
	go func() { wg.Wait(); close(done) }()
	deadline := time.After(2 * hang)
	for {
		select {
		case <-done:
			return ms
		case <-deadline:
			add(len(path), "hang", "goroutines still blocked after Close")
			return ms
		default:
			for a := range rig.note {
				select {
				case <-rig.note[a]:
				default:
				}
			}
			time.Sleep(50 * time.Microsecond)
		}
	}
}

// ------------------------------------------------------------------ free-running

type blFreeIn struct {
	Backend string `json:"backend"`
	Size    int    `json:"size"`
	Cap     int    `json:"cap"`
	Seed    int64  `json:"seed"`
	Runs    int    `json:"runs"`
	Ops     int    `json:"ops"`
	Readers int    `json:"readers"`
	Trace   string `json:"trace"`
	Dir     string `json:"dir"`
	HangMs  int    `json:"hang_ms"`
	// every CloseFaultEvery-th run (file back end) the file is closed under the backlog right before Close: releasing the
	// store then fails, and Close must still wake every waiting reader
	CloseFaultEvery int `json:"close_fault_every"`
}

func blFree(in []byte) (interface{}, error) {
	var cfg blFreeIn
	if err := json.Unmarshal(in, &cfg); err != nil {
		return nil, err
	}
	if cfg.HangMs == 0 {
		cfg.HangMs = 5000
	}
	if cfg.Readers == 0 {
		cfg.Readers = 2
	}
	tr, err := tracer.New(cfg.Trace)
	if err != nil {
		return nil, err
	}
	defer tr.Close()
	installBlHooks()
	out := &pipeFreeOut{}
	for run := 0; run < cfg.Runs; run++ {
		rnd := rand.New(rand.NewSource(cfg.Seed*1000003 + int64(run)))
		tr.Emit(tracer.Ev{"e": "Reset", "cap": cfg.Cap, "case": run})
		rig, cleanup, err := newBlRig(tr, cfg.Backend, cfg.Size, cfg.Dir, cfg.Readers)
		if err != nil {
			return nil, err
		}
		rig.free = true
		bl := rig.bl
		seed := uint64(cfg.Seed)*131 + uint64(run)
		var wg sync.WaitGroup
		var total uint64
		wseed := rnd.Int63()
		wg.Add(1)
		go func() { // writer; closes the backlog at the end so that waiting readers terminate
			defer wg.Done()
			rig.mu.Lock()
			rig.who[goid()] = 0
			rig.mu.Unlock()
			r := rand.New(rand.NewSource(wseed))
			var pos uint64
			for i := 0; i < cfg.Ops; i++ {
				k := pipeSizes(r, cfg.Cap)
				buf := make([]byte, k)
				streamFill(seed, pos, buf)
				tr.Emit(tracer.Ev{"e": "WBegin", "k": k})
				n, err := bl.Write(buf)
				pos += uint64(n)
				total = pos
				tr.Emit(tracer.Ev{"e": "WRet", "n": n, "err": blErrName(err)})
				if err != nil {
					break
				}
				if r.Intn(4) == 0 {
					time.Sleep(time.Duration(r.Intn(300)) * time.Microsecond)
				}
			}
			time.Sleep(time.Duration(r.Intn(500)) * time.Microsecond)
			if cfg.Backend == "file" && cfg.CloseFaultEvery > 0 && run%cfg.CloseFaultEvery == 0 && lastBlFile != nil {
				// only when every reader is parked at the head (nobody is inside a file read): then the only thing the closed
				// file affects is the release of the store inside Close
				for try := 0; try < 200; try++ {
					parked := 0
					rig.mu.Lock()
					for ri := 1; ri <= cfg.Readers; ri++ {
						if rig.lastE[ri] == "rpark" {
							parked++
						}
					}
					rig.mu.Unlock()
					if parked == cfg.Readers {
						lastBlFile.Close()
						break
					}
					time.Sleep(time.Millisecond)
				}
			}
			tr.Emit(tracer.Ev{"e": "CloseCall"})
			bl.Close()
		}()
		for ri := 1; ri <= cfg.Readers; ri++ {
			ri := ri
			rseed := rnd.Int63()
			wg.Add(1)
			go func() {
				defer wg.Done()
				rig.mu.Lock()
				rig.who[goid()] = ri
				rig.mu.Unlock()
				r := rand.New(rand.NewSource(rseed))
				var seek uint64
				for {
					// mostly sequential reads (like Reader.Read), sometimes a jump: far back, ahead, around the boundaries
					switch r.Intn(10) {
					case 0:
						lo, hi, err := bl.DataRange()
						if err == nil {
							c := []uint64{lo, hi, lo + 1, hi + 1, (lo + hi) / 2}
							if lo > 0 {
								c = append(c, lo-1)
							}
							seek = c[r.Intn(len(c))]
						}
					case 1:
						if seek > uint64(cfg.Cap) {
							seek -= uint64(cfg.Cap) // exactly one capacity back
						}
					}
					k := pipeSizes(r, cfg.Cap)
					buf := make([]byte, k)
					tr.Emit(tracer.Ev{"e": "RBegin", "r": ri, "o": seek, "k": k})
					n, err := bl.ReadAt(buf, seek)
					match := streamMatch(seed, seek, buf[:n])
					tr.Emit(tracer.Ev{"e": "RRet", "r": ri, "n": n, "err": blErrName(err), "match": match})
					seek += uint64(n)
					if blErrName(err) == "CLOSED" {
						return
					}
					if r.Intn(6) == 0 {
						time.Sleep(time.Duration(r.Intn(200)) * time.Microsecond)
					}
				}
			}()
		}
		done := make(chan struct{})
		go func() { wg.Wait(); close(done) }()
		hung := false
		select {
		case <-done:
		case <-time.After(time.Duration(cfg.HangMs) * time.Millisecond * 4):
			hung = true
		}
		tr.Emit(tracer.Ev{"e": "End", "hung": hung})
		curBlMu.Lock()
		curBl = nil
		curBlMu.Unlock()
		if hung {
			out.Hangs = append(out.Hangs, Mismatch{Case: run, Kind: "hang", Detail: fmt.Sprintf("free run did not terminate; last hook events %v", rig.lastE)})
			bl.Close()
			select {
			case <-done:
			case <-time.After(10 * time.Second):
			}
		}
		cleanup()
		out.Runs++
		out.Bytes += total
		if len(out.Hangs) >= 2 {
			break
		}
	}
	out.Events = tr.Count()
	return out, nil
}

func init() {
	register("backlog-replay", blReplay)
	register("backlog-free", blFree)
}
