module verif/harness

go 1.14

require (
	github.com/alibaba/RedisShake v0.0.0
	github.com/cupcake/rdb v0.0.0-20161107195141-43ba34106c76
	github.com/garyburd/redigo v1.6.2
	golang.org/x/sync v0.0.0-20181221193216-37e7f081c4d4
	github.com/vinllen/redis-go-cluster v1.0.1-0.20200724054240-c957918bbc61
)

replace github.com/alibaba/RedisShake => /repo/src
