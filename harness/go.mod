module verif/harness

go 1.14

require github.com/alibaba/RedisShake v0.0.0

replace github.com/alibaba/RedisShake => /repo/src
