package rdbref

import (
	"errors"
	"fmt"
)

// Zipmap layout (zipmap.c):
//
//	<zmlen> { <len> key <len> <free> value <free unused bytes> }... <0xFF>
//
// zmlen is the pair count when it is below 254, otherwise 254 meaning "walk the map to
// count".  <len> is one byte for 0..253, or 0xFE followed by a 4-byte little-endian length.
// <free> is a single byte: the number of unused bytes that follow the value.

// ---------------------------------------------------------------------------------------
// writer side

func appendZmLen(dst []byte, n int) ([]byte, error) {
	if n < 254 {
		return append(dst, byte(n)), nil
	}
	if uint64(n) > 0xFFFFFFFF {
		return dst, errors.New("rdbref: zipmap: item longer than 4 GiB")
	}
	return append(dst, 0xFE, byte(n), byte(n>>8), byte(n>>16), byte(n>>24)), nil
}

// buildZipmap serialises the pairs, leaving free unused bytes after every value.
func buildZipmap(pairs []HF, free int) ([]byte, error) {
	if free < 0 || free > 255 {
		return nil, fmt.Errorf("rdbref: zipmap: free byte count %d out of range", free)
	}
	est := 2
	for _, p := range pairs {
		est += len(p.Field) + len(p.Value) + 11 + free
	}
	buf := make([]byte, 0, est)
	if len(pairs) < 254 {
		buf = append(buf, byte(len(pairs)))
	} else {
		buf = append(buf, 254)
	}
	var err error
	for _, p := range pairs {
		if buf, err = appendZmLen(buf, len(p.Field)); err != nil {
			return nil, err
		}
		buf = append(buf, p.Field...)
		if buf, err = appendZmLen(buf, len(p.Value)); err != nil {
			return nil, err
		}
		buf = append(buf, byte(free))
		buf = append(buf, p.Value...)
		for i := 0; i < free; i++ {
			buf = append(buf, 0xA5) // junk: readers must skip it, not interpret it
		}
	}
	return append(buf, 0xFF), nil
}

// ---------------------------------------------------------------------------------------
// reader side

// parseZipmap returns the pairs in stored order.
func parseZipmap(b []byte) ([]HF, error) {
	if len(b) < 2 {
		return nil, fmt.Errorf("rdbref: zipmap: blob of %d bytes is too short", len(b))
	}
	zmlen := int(b[0])
	p := 1
	// itemLen decodes a <len> at p.
	itemLen := func() (uint64, error) {
		if p >= len(b) {
			return 0, errors.New("rdbref: zipmap: truncated length")
		}
		c := b[p]
		switch {
		case c < 254:
			p++
			return uint64(c), nil
		case c == 254:
			if len(b)-p < 5 {
				return 0, errors.New("rdbref: zipmap: truncated 4-byte length")
			}
			n := uint64(b[p+1]) | uint64(b[p+2])<<8 | uint64(b[p+3])<<16 | uint64(b[p+4])<<24
			p += 5
			return n, nil
		}
		return 0, fmt.Errorf("rdbref: zipmap: end marker at %d where a value length is required", p)
	}
	var out []HF
	for {
		if p >= len(b) {
			return nil, errors.New("rdbref: zipmap: missing end marker")
		}
		if b[p] == 0xFF {
			if p != len(b)-1 {
				return nil, fmt.Errorf("rdbref: zipmap: end marker at %d, %d trailing bytes", p, len(b)-1-p)
			}
			break
		}
		klen, err := itemLen()
		if err != nil {
			return nil, err
		}
		if klen > uint64(len(b)-p) {
			return nil, errors.New("rdbref: zipmap: key overruns the blob")
		}
		key := make([]byte, klen)
		copy(key, b[p:])
		p += int(klen)

		vlen, err := itemLen()
		if err != nil {
			return nil, err
		}
		if p >= len(b) {
			return nil, errors.New("rdbref: zipmap: truncated free byte")
		}
		free := uint64(b[p])
		p++
		if vlen+free > uint64(len(b)-p) {
			return nil, errors.New("rdbref: zipmap: value overruns the blob")
		}
		val := make([]byte, vlen)
		copy(val, b[p:])
		p += int(vlen + free)
		out = append(out, HF{Field: key, Value: val})
	}
	if zmlen < 254 && zmlen != len(out) {
		return nil, fmt.Errorf("rdbref: zipmap: zmlen=%d but %d pairs found", zmlen, len(out))
	}
	return out, nil
}
