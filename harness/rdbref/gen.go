package rdbref

import (
	"math"
	"math/rand"
	"strconv"
	"strings"
)

// RandValue draws a random logical value of the given kind with n elements whose strings
// are at most maxElem bytes long.
//
// kind is "string", "list", "set", "zset", "hash" or "stream", optionally followed by a
// modifier:
//
//	"set:int", "list:int", "hash:int", ...   every element is a canonical integer (so that
//	                                         e.g. the intset encoding applies)
//	"zset:nan"                               scores may also be NaN (never otherwise)
//
// Elements are a mix of arbitrary binary strings, compressible strings, integer-looking
// strings (including the boundaries of every integer encoding and near-misses such as
// "007", "-0", "+1"), empty strings and strings with CR LF, 0x00 and 0xFF bytes.  Set
// members, hash fields and zset members are distinct.  For "string" n is ignored.  For
// "stream" the result is an opaque body with n listpack nodes of random bytes plus random
// consumer groups.
func RandValue(r *rand.Rand, kind string, n int, maxElem int) Value {
	mod := ""
	if i := strings.IndexByte(kind, ':'); i >= 0 {
		kind, mod = kind[:i], kind[i+1:]
	}
	if n < 0 {
		n = 0
	}
	elem := func() []byte {
		if mod == "int" {
			return randInt(r)
		}
		return randElem(r, maxElem)
	}
	distinct := func() func() []byte {
		seen := make(map[string]bool, n)
		return func() []byte {
			for try := 0; try < 64; try++ {
				e := elem()
				if !seen[string(e)] {
					seen[string(e)] = true
					return e
				}
			}
			// The element space is too small: fall back to a counter.
			for i := len(seen); ; i++ {
				e := strconv.AppendInt(nil, int64(i), 10)
				if !seen[string(e)] {
					seen[string(e)] = true
					return e
				}
			}
		}
	}
	v := Value{Kind: kind}
	switch kind {
	case "string":
		v.Str = elem()
	case "list":
		v.List = make([][]byte, n)
		for i := range v.List {
			v.List[i] = elem()
		}
	case "set":
		next := distinct()
		v.Set = make([][]byte, n)
		for i := range v.Set {
			v.Set[i] = next()
		}
	case "hash":
		next := distinct()
		v.Hash = make([]HF, n)
		for i := range v.Hash {
			v.Hash[i] = HF{Field: next(), Value: elem()}
		}
	case "zset":
		next := distinct()
		v.ZSet = make([]ZM, n)
		for i := range v.ZSet {
			v.ZSet[i] = ZM{Member: next(), Score: randScore(r, mod == "nan")}
		}
	case "stream":
		v.Stream = BuildStream(randStreamSpec(r, n, maxElem), LenForm(r.Intn(4)))
	}
	return v
}

// intEdges are the boundaries of the RDB, ziplist and intset integer encodings.
var intEdges = []int64{
	0, 1, 12, 13, -1,
	math.MaxInt8, math.MinInt8, math.MaxInt8 + 1, math.MinInt8 - 1,
	math.MaxInt16, math.MinInt16, math.MaxInt16 + 1, math.MinInt16 - 1,
	1<<23 - 1, -1 << 23, 1 << 23, -1<<23 - 1,
	math.MaxInt32, math.MinInt32, math.MaxInt32 + 1, math.MinInt32 - 1,
	math.MaxInt64, math.MinInt64,
}

var nearInts = []string{
	"007", "-0", "+1", " 1", "1 ", "1.0", "1e3", "0x10", "-", "00", "--1",
	"9223372036854775808", "-9223372036854775809", "18446744073709551616",
	"12345678901234567890123456789012", "1\x00", "12a",
}

// randInt draws the canonical decimal text of an integer, biased towards encoding edges.
func randInt(r *rand.Rand) []byte {
	var v int64
	switch r.Intn(8) {
	case 0:
		v = intEdges[r.Intn(len(intEdges))]
	case 1:
		v = int64(r.Intn(14)) // around the 4-bit immediates
	case 2:
		v = int64(int8(r.Uint32()))
	case 3:
		v = int64(int16(r.Uint32()))
	case 4:
		v = int64(int32(r.Uint32())) >> 8 // 24 bit
	case 5:
		v = int64(int32(r.Uint32()))
	case 6:
		v = int64(r.Uint64())
	default:
		v = int64(r.Uint64()) >> uint(r.Intn(64))
	}
	return strconv.AppendInt(nil, v, 10)
}

func randLen(r *rand.Rand, max int) int {
	if max <= 0 {
		return 0
	}
	// Mostly short, sometimes using the full range (to cross the 63 / 253 / 16383 limits).
	switch r.Intn(4) {
	case 0:
		return r.Intn(max + 1)
	case 1:
		if max > 300 {
			return 60 + r.Intn(241) // straddles 63, 253 and 254
		}
	}
	small := max
	if small > 24 {
		small = 24
	}
	return r.Intn(small + 1)
}

func clip(b []byte, max int) []byte {
	if max < 0 {
		max = 0
	}
	if len(b) > max {
		return b[:max]
	}
	return b
}

// randElem draws one element string of at most max bytes.
func randElem(r *rand.Rand, max int) []byte {
	switch p := r.Intn(100); {
	case p < 25:
		return clip(randInt(r), max)
	case p < 32:
		return clip([]byte(nearInts[r.Intn(len(nearInts))]), max)
	case p < 38:
		return []byte{}
	case p < 50: // protocol-hostile bytes
		b := make([]byte, randLen(r, max))
		hostile := []byte{'\r', '\n', 0x00, 0xFF, ' ', '"', '$', '*'}
		for i := range b {
			if r.Intn(2) == 0 {
				b[i] = hostile[r.Intn(len(hostile))]
			} else {
				b[i] = byte(r.Intn(256))
			}
		}
		if len(b) >= 2 && r.Intn(2) == 0 {
			k := r.Intn(len(b) - 1)
			b[k], b[k+1] = '\r', '\n'
		}
		return b
	case p < 70: // compressible: a short motif repeated, with occasional noise
		b := make([]byte, randLen(r, max))
		motif := make([]byte, 1+r.Intn(6))
		for i := range motif {
			motif[i] = byte('a' + r.Intn(26))
		}
		for i := range b {
			b[i] = motif[i%len(motif)]
			if r.Intn(40) == 0 {
				b[i] = byte(r.Intn(256))
			}
		}
		return b
	default: // uniformly random bytes
		b := make([]byte, randLen(r, max))
		for i := range b {
			b[i] = byte(r.Intn(256))
		}
		return b
	}
}

var scoreEdges = []float64{
	0, math.Copysign(0, -1), 1, -1, 0.1, -0.1, 1.5, 3.0000000000000004,
	math.Inf(1), math.Inf(-1),
	math.MaxFloat64, -math.MaxFloat64,
	math.SmallestNonzeroFloat64, -math.SmallestNonzeroFloat64, // denormals
	2.2250738585072009e-308, 2.2250738585072014e-308, // largest denormal, smallest normal
	1 << 52, 1<<52 - 1, 1<<53 - 1, 1 << 53, 1<<53 + 2, -(1 << 53), 9007199254740993,
	9.2233720368547758e18, -9.2233720368547758e18, 1e17, 1e21, 1e-5, 1e-4, 123456789012345678,
	0.30000000000000004, 1.7976931348623157e308, 5e-324, 12345.678901234567,
}

// randScore draws a sorted-set score; NaN only when nan is set.
func randScore(r *rand.Rand, nan bool) float64 {
	switch p := r.Intn(100); {
	case p < 25:
		return scoreEdges[r.Intn(len(scoreEdges))]
	case p < 45:
		return float64(int64(r.Intn(2001) - 1000)) // small integers
	case p < 55:
		return float64(int64(r.Uint64()) >> uint(r.Intn(64))) // integers of every size
	case p < 70:
		return (r.Float64()*2 - 1) * math.Pow(10, float64(r.Intn(40)-20)) // 17 significant digits
	case p < 80:
		return math.Float64frombits(r.Uint64()&(1<<52-1) | uint64(r.Intn(2))<<63) // denormal
	case p < 85 && nan:
		return math.NaN()
	}
	for {
		f := math.Float64frombits(r.Uint64()) // any bit pattern
		if !math.IsNaN(f) {
			return f
		}
	}
}

func randStreamSpec(r *rand.Rand, n, maxElem int) StreamSpec {
	bin := func(min int) []byte {
		b := make([]byte, min+randLen(r, maxElem))
		for i := range b {
			b[i] = byte(r.Intn(256))
		}
		return b
	}
	big := func() uint64 { return r.Uint64() >> uint(r.Intn(64)) }
	s := StreamSpec{Length: big(), LastMs: big(), LastSeq: big()}
	for i := 0; i < n; i++ {
		s.Listpacks = append(s.Listpacks, StreamListpack{MasterID: StreamID(big(), big()), Listpack: bin(1)})
	}
	for g := r.Intn(3); g > 0; g-- {
		grp := StreamGroup{Name: bin(1), LastMs: big(), LastSeq: big()}
		for p := r.Intn(4); p > 0; p-- {
			grp.PEL = append(grp.PEL, StreamPEL{ID: StreamID(big(), big()), DeliveryTime: big(), DeliveryCount: big()})
		}
		for c := r.Intn(3); c > 0; c-- {
			con := StreamConsumer{Name: bin(1), SeenTime: big()}
			for _, p := range grp.PEL {
				if r.Intn(2) == 0 {
					con.PEL = append(con.PEL, p.ID)
				}
			}
			grp.Consumers = append(grp.Consumers, con)
		}
		s.Groups = append(s.Groups, grp)
	}
	return s
}

// EncodingsFor lists a representative set of encodings for a kind (the optional ":modifier"
// accepted by RandValue is ignored): every RDB type able to hold the kind, crossed with a
// selection of length forms, string forms and blob options.  Not every encoding can hold
// every value (intset needs integers, Len14 needs short items, ...): EncodeValue reports
// that with an error and the caller skips the combination.
func EncodingsFor(kind string) []Enc {
	if i := strings.IndexByte(kind, ':'); i >= 0 {
		kind = kind[:i]
	}
	lens := []LenForm{LenCanonical, Len14, Len32, Len64}
	strs := []StrForm{StrRaw, StrInt, StrLZF, StrAuto}
	var out []Enc
	plain := func(types ...byte) {
		for _, t := range types {
			for _, s := range strs {
				out = append(out, Enc{Type: t, Str: s})
			}
			for _, l := range lens[1:] {
				out = append(out, Enc{Type: t, Len: l})
			}
			out = append(out, Enc{Type: t, Len: Len64, Str: StrLZF}, Enc{Type: t, Len: Len32, Str: StrAuto})
		}
	}
	zip := func(t byte) []Enc {
		return []Enc{
			{Type: t},
			{Type: t, ZipInts: true},
			{Type: t, ZipInts: true, BlobLZF: true},
			{Type: t, ZipInts: true, ZipPrevlen5: true},
			{Type: t, BlobLZF: true, Len: Len64},
			{Type: t, Len: Len14},
			{Type: t, ZipInts: true, Len: Len32},
			{Type: t, ZipInts: true, Len: Len64},
		}
	}
	switch kind {
	case "string":
		plain(TString)
	case "list":
		plain(TList)
		out = append(out, zip(TListZiplist)...)
		for _, e := range zip(TQuicklist) {
			out = append(out, e)
			e.QuicklistNode = 1
			out = append(out, e)
			e.QuicklistNode = 128
			out = append(out, e)
		}
	case "set":
		plain(TSet)
		for _, w := range []int{0, 2, 4, 8} {
			out = append(out,
				Enc{Type: TSetIntset, IntSize: w},
				Enc{Type: TSetIntset, IntSize: w, BlobLZF: true},
				Enc{Type: TSetIntset, IntSize: w, Len: Len64})
		}
		out = append(out, Enc{Type: TSetIntset, Len: Len14}, Enc{Type: TSetIntset, Len: Len32, BlobLZF: true})
	case "zset":
		plain(TZSet, TZSet2)
		out = append(out, zip(TZSetZiplist)...)
	case "hash":
		plain(THash)
		out = append(out, zip(THashZiplist)...)
		out = append(out,
			Enc{Type: THashZipmap},
			Enc{Type: THashZipmap, ZipmapFree: 1},
			Enc{Type: THashZipmap, ZipmapFree: 4, BlobLZF: true},
			Enc{Type: THashZipmap, ZipmapFree: 255, Len: Len32},
			Enc{Type: THashZipmap, Len: Len14},
			Enc{Type: THashZipmap, Len: Len64, BlobLZF: true})
	case "stream":
		out = append(out, Enc{Type: TStream})
	}
	return out
}
