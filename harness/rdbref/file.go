package rdbref

import (
	"bytes"
	"fmt"
	"math"
)

// File builds an RDB file piece by piece.  Methods that take a LenForm treat it as a
// minimum width: a number that does not fit the requested form is written in the next
// wider form that holds it (the builder has no error returns).
type File struct {
	buf bytes.Buffer
}

// ModOp is one item of a module-aux record.
//
//	Kind "sint"    opcode 1 + Int written as a length (two's complement cast, as Redis does)
//	Kind "uint"    opcode 2 + Uint written as a length
//	Kind "float"   opcode 3 + float32(F) as 4 raw little-endian bytes
//	Kind "double"  opcode 4 + F as 8 raw little-endian bytes
//	Kind "string"  opcode 5 + Str as an RDB string in the given Form (default raw)
type ModOp struct {
	Kind string
	Int  int64
	Uint uint64
	F    float64
	Str  []byte
	Form StrForm // Kind "string": how the string is stored (a server integer-encodes short numeric strings and compresses long ones)
}

// NewFile starts a file with the magic "REDIS" and the 4-digit version.
func NewFile(version int) *File {
	f := &File{}
	fmt.Fprintf(&f.buf, "REDIS%04d", version)
	return f
}

func (f *File) putLen(n uint64, form LenForm) {
	var tmp [9]byte
	f.buf.Write(appendLenWiden(tmp[:0], n, form))
}

func (f *File) putString(s []byte, form LenForm) {
	f.putLen(uint64(len(s)), form)
	f.buf.Write(s)
}

// Aux writes an auxiliary field: 0xFA key-string val-string (both raw).
func (f *File) Aux(key, val []byte) {
	f.buf.WriteByte(OpAux)
	f.putString(key, LenCanonical)
	f.putString(val, LenCanonical)
}

// SelectDB writes 0xFE followed by the database number as a length.
func (f *File) SelectDB(n uint64, form LenForm) {
	f.buf.WriteByte(OpSelectDB)
	f.putLen(n, form)
}

// ResizeDB writes 0xFB followed by the two hash-table size hints.
func (f *File) ResizeDB(dbSize, expires uint64) {
	f.buf.WriteByte(OpResizeDB)
	f.putLen(dbSize, LenCanonical)
	f.putLen(expires, LenCanonical)
}

// ExpireMs writes 0xFC and an absolute expiry in milliseconds (8 bytes LE).
func (f *File) ExpireMs(ms uint64) {
	f.buf.WriteByte(OpExpireMs)
	f.buf.Write(appendU64LE(nil, ms))
}

// ExpireSec writes 0xFD and an absolute expiry in seconds (4 bytes LE).
func (f *File) ExpireSec(s uint32) {
	f.buf.WriteByte(OpExpireSec)
	f.buf.Write([]byte{byte(s), byte(s >> 8), byte(s >> 16), byte(s >> 24)})
}

// Idle writes 0xF8 and the LRU idle time as a length.
func (f *File) Idle(n uint64) {
	f.buf.WriteByte(OpIdle)
	f.putLen(n, LenCanonical)
}

// Freq writes 0xF9 and the one-byte LFU counter.
func (f *File) Freq(b byte) {
	f.buf.WriteByte(OpFreq)
	f.buf.WriteByte(b)
}

// ModuleAux writes 0xF7, the module id as a length, the given items each preceded by its
// opcode (as a length), and the terminating EOF opcode 0.  It panics on an unknown Kind.
//
// Note that a real Redis expects the first item to be the "when" marker, i.e. a
// ModOp{Kind: "uint"}; supplying it is the caller's business.
func (f *File) ModuleAux(moduleID uint64, ops []ModOp) {
	f.buf.WriteByte(OpModuleAux)
	f.putLen(moduleID, LenCanonical)
	for _, op := range ops {
		switch op.Kind {
		case "sint":
			f.putLen(1, LenCanonical)
			f.putLen(uint64(op.Int), LenCanonical)
		case "uint":
			f.putLen(2, LenCanonical)
			f.putLen(op.Uint, LenCanonical)
		case "float":
			f.putLen(3, LenCanonical)
			u := math.Float32bits(float32(op.F))
			f.buf.Write([]byte{byte(u), byte(u >> 8), byte(u >> 16), byte(u >> 24)})
		case "double":
			f.putLen(4, LenCanonical)
			f.buf.Write(appendU64LE(nil, math.Float64bits(op.F)))
		case "string":
			f.putLen(5, LenCanonical)
			if enc, err := appendString(nil, op.Str, op.Form, LenCanonical); err == nil {
				f.buf.Write(enc)
			} else {
				f.putString(op.Str, LenCanonical)
			}
		default:
			panic(fmt.Sprintf("rdbref: unknown ModOp kind %q", op.Kind))
		}
	}
	f.putLen(0, LenCanonical)
}

// Key writes one key-value pair: the type byte, the key as a raw string with a canonical
// length, and the value body.  It returns the offsets of the body inside the file.
func (f *File) Key(key []byte, typ byte, body []byte) (bodyStart, bodyEnd int) {
	return f.KeyForm(key, LenCanonical, typ, body)
}

// KeyForm is Key with a chosen form for the key's length prefix.
func (f *File) KeyForm(key []byte, keyLen LenForm, typ byte, body []byte) (bodyStart, bodyEnd int) {
	f.buf.WriteByte(typ)
	f.putString(key, keyLen)
	bodyStart = f.buf.Len()
	f.buf.Write(body)
	return bodyStart, f.buf.Len()
}

// Raw appends arbitrary bytes.
func (f *File) Raw(b []byte) { f.buf.Write(b) }

// Len is the number of bytes written so far.
func (f *File) Len() int { return f.buf.Len() }

// Bytes returns a copy of what has been written so far (no EOF opcode).
func (f *File) Bytes() []byte { return append([]byte{}, f.buf.Bytes()...) }

// Finish appends the EOF opcode 0xFF and the 8-byte little-endian CRC-64 of everything
// before the checksum (or 8 zero bytes when withCRC is false, which Redis reads as
// "checksum disabled") and returns a copy of the whole file.  Files of version < 5 have no
// checksum at all: such callers strip the last 8 bytes.
func (f *File) Finish(withCRC bool) []byte {
	f.buf.WriteByte(OpEOF)
	var crc uint64
	if withCRC {
		crc = CRC64(0, f.buf.Bytes())
	}
	f.buf.Write(appendU64LE(nil, crc))
	return f.Bytes()
}
