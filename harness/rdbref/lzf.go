package rdbref

import (
	"errors"
	"fmt"
)

// LZF stream format (liblzf):
//
//	ctrl < 32            literal run: the next ctrl+1 bytes are copied verbatim
//	ctrl = LLLooooo      back reference: L = ctrl>>5 (1..7); if L == 7 one extra length byte
//	                     follows and is added to L; then one byte with the low 8 bits of the
//	                     offset.  offset = (ooooo<<8 | low) + 1 counted back from the current
//	                     output position; L+2 bytes are copied (overlap allowed).
const (
	lzfMaxLit = 32      // longest literal run
	lzfMaxOff = 1 << 13 // largest back-reference distance
	lzfMaxRef = 264     // longest match: (7 + 255) + 2
	lzfMinRef = 3       // shortest match worth a back reference
)

// LZFCompress returns a valid LZF stream for in.  The output is not required to be smaller
// than the input: incompressible data is emitted as literal runs.  The empty input yields
// the empty stream.
func LZFCompress(in []byte) []byte {
	n := len(in)
	out := make([]byte, 0, n+n/lzfMaxLit+2)
	if n == 0 {
		return out
	}

	// Hash table of the most recent position of each 3-byte sequence.  The table is sized
	// to the input so that compressing many short strings stays cheap.
	hbits := uint(8)
	for hbits < 16 && (1<<hbits) < n {
		hbits++
	}
	var htab []int // position+1, 0 = empty
	if n >= lzfMinRef {
		htab = make([]int, 1<<hbits)
	}
	hash := func(p int) uint32 {
		v := uint32(in[p])<<16 | uint32(in[p+1])<<8 | uint32(in[p+2])
		return (v * 2654435761) >> (32 - hbits)
	}

	lit := 0 // start of the literals not yet written
	flush := func(end int) {
		for lit < end {
			run := end - lit
			if run > lzfMaxLit {
				run = lzfMaxLit
			}
			out = append(out, byte(run-1))
			out = append(out, in[lit:lit+run]...)
			lit += run
		}
	}

	i := 0
	for i+lzfMinRef <= n {
		h := hash(i)
		cand := htab[h] - 1
		htab[h] = i + 1
		if cand >= 0 && i-cand <= lzfMaxOff &&
			in[cand] == in[i] && in[cand+1] == in[i+1] && in[cand+2] == in[i+2] {
			max := n - i
			if max > lzfMaxRef {
				max = lzfMaxRef
			}
			l := lzfMinRef
			for l < max && in[cand+l] == in[i+l] {
				l++
			}
			flush(i)
			off := i - cand - 1
			ml := l - 2
			if ml < 7 {
				out = append(out, byte(ml<<5)|byte(off>>8))
			} else {
				out = append(out, byte(7<<5)|byte(off>>8), byte(ml-7))
			}
			out = append(out, byte(off))
			end := i + l
			for j := i + 1; j < end && j+lzfMinRef <= n; j++ {
				htab[hash(j)] = j + 1
			}
			i = end
			lit = end
			continue
		}
		i++
	}
	flush(n)
	return out
}

// LZFDecompress expands the LZF stream in, which must produce exactly outLen bytes.
func LZFDecompress(in []byte, outLen int) ([]byte, error) {
	if outLen < 0 {
		return nil, errors.New("rdbref: lzf: negative output length")
	}
	// Three input bytes can produce at most 264 output bytes.
	if outLen/lzfMaxRef > len(in) {
		return nil, fmt.Errorf("rdbref: lzf: %d input bytes cannot expand to %d", len(in), outLen)
	}
	hint := outLen
	if lim := 4*len(in) + 64; hint > lim {
		hint = lim // grow on demand: the claimed length is not trusted for allocation
	}
	out := make([]byte, 0, hint)
	ip := 0
	for ip < len(in) {
		ctrl := int(in[ip])
		ip++
		if ctrl < 32 {
			run := ctrl + 1
			if run > len(in)-ip {
				return nil, errors.New("rdbref: lzf: literal run past end of input")
			}
			if run > outLen-len(out) {
				return nil, errors.New("rdbref: lzf: output longer than declared")
			}
			out = append(out, in[ip:ip+run]...)
			ip += run
			continue
		}
		l := ctrl >> 5
		if l == 7 {
			if ip >= len(in) {
				return nil, errors.New("rdbref: lzf: truncated back reference")
			}
			l += int(in[ip])
			ip++
		}
		if ip >= len(in) {
			return nil, errors.New("rdbref: lzf: truncated back reference")
		}
		off := (ctrl&0x1f)<<8 | int(in[ip])
		ip++
		l += 2
		ref := len(out) - off - 1
		if ref < 0 {
			return nil, errors.New("rdbref: lzf: back reference before start of output")
		}
		if l > outLen-len(out) {
			return nil, errors.New("rdbref: lzf: output longer than declared")
		}
		if ref+l <= len(out) {
			out = append(out, out[ref:ref+l]...)
		} else {
			for k := 0; k < l; k++ { // overlapping copy replicates the pattern
				out = append(out, out[ref+k])
			}
		}
	}
	if len(out) != outLen {
		return nil, fmt.Errorf("rdbref: lzf: produced %d bytes, declared %d", len(out), outLen)
	}
	return out, nil
}
