package rdbref

import "math/bits"

// crc64Poly is the CRC-64 "Jones" polynomial in its normal (MSB-first) notation.  Redis uses
// the reflected variant of the algorithm (input and output reflected, init 0, xorout 0), so
// the shift register below runs LSB-first with the bit-reversed polynomial.
const crc64Poly = 0xad93d23594c935a9

// CRC64 continues a Redis CRC-64 (Jones, reflected, init 0) over data; bit-serial, no table.
func CRC64(crc uint64, data []byte) uint64 {
	rpoly := bits.Reverse64(crc64Poly)
	for _, b := range data {
		crc ^= uint64(b)
		for i := 0; i < 8; i++ {
			if crc&1 != 0 {
				crc = (crc >> 1) ^ rpoly
			} else {
				crc >>= 1
			}
		}
	}
	return crc
}

// CRC16 is CRC16/XMODEM (poly 0x1021, init 0, not reflected); bit-serial, no table.
func CRC16(data []byte) uint16 {
	var crc uint16
	for _, b := range data {
		crc ^= uint16(b) << 8
		for i := 0; i < 8; i++ {
			if crc&0x8000 != 0 {
				crc = (crc << 1) ^ 0x1021
			} else {
				crc <<= 1
			}
		}
	}
	return crc
}

// KeySlot is the Redis Cluster key slot of key.
//
// Hash-tag rule: locate the first '{'; locate the first '}' to the right of it; when both
// exist and there is at least one byte between them only that content is hashed, otherwise
// the whole key is hashed.
func KeySlot(key []byte) int {
	hashed := key
	open := -1
	for i, c := range key {
		if c == '{' {
			open = i
			break
		}
	}
	if open >= 0 {
		for j := open + 1; j < len(key); j++ {
			if key[j] == '}' {
				if j > open+1 {
					hashed = key[open+1 : j]
				}
				break
			}
		}
	}
	return int(CRC16(hashed)) % 16384
}
