package rdbref

import (
	"fmt"
	"strconv"
)

// RDB string:
//
//	<len> bytes                  raw
//	0xC0 int8                    the decimal rendering of the integer
//	0xC1 int16 LE
//	0xC2 int32 LE
//	0xC3 <clen> <ulen> bytes     LZF-compressed, clen compressed bytes expanding to ulen

// ---------------------------------------------------------------------------------------
// writer side

// canonicalInt reports whether s is exactly the decimal rendering Redis itself would print
// for a signed 64-bit integer (no sign for non-negatives, no leading zeros, no "-0", no
// surrounding blanks) -- the test Redis performs by converting to a number and back and
// comparing the two strings.
func canonicalInt(s []byte) (int64, bool) {
	if len(s) == 0 || len(s) > 20 {
		return 0, false
	}
	v, err := strconv.ParseInt(string(s), 10, 64)
	if err != nil {
		return 0, false
	}
	if strconv.FormatInt(v, 10) != string(s) {
		return 0, false
	}
	return v, true
}

// appendIntString appends the RDB integer-string form of s if rdb.c would use one: at most
// 11 characters, canonical, and within the int32 range.
func appendIntString(dst, s []byte) ([]byte, bool) {
	if len(s) > 11 {
		return dst, false
	}
	v, ok := canonicalInt(s)
	if !ok {
		return dst, false
	}
	switch {
	case v >= -1<<7 && v < 1<<7:
		return append(dst, 0xC0, byte(v)), true
	case v >= -1<<15 && v < 1<<15:
		return append(dst, 0xC1, byte(v), byte(v>>8)), true
	case v >= -1<<31 && v < 1<<31:
		return append(dst, 0xC2, byte(v), byte(v>>8), byte(v>>16), byte(v>>24)), true
	}
	return dst, false
}

func appendRawString(dst, s []byte, lf LenForm) ([]byte, error) {
	dst, err := appendLen(dst, uint64(len(s)), lf)
	if err != nil {
		return dst, err
	}
	return append(dst, s...), nil
}

func appendLZFString(dst, s, compressed []byte, lf LenForm) ([]byte, error) {
	dst = append(dst, 0xC3)
	dst, err := appendLen(dst, uint64(len(compressed)), lf)
	if err != nil {
		return dst, err
	}
	dst, err = appendLen(dst, uint64(len(s)), lf)
	if err != nil {
		return dst, err
	}
	return append(dst, compressed...), nil
}

// appendString appends s as an RDB string in the requested form.  lf governs the length
// prefix of the raw form and the two lengths of the LZF form.
//
// The empty string has no LZF form Redis could load (its decompressor rejects a zero-length
// result), so StrLZF writes it raw.
func appendString(dst, s []byte, sf StrForm, lf LenForm) ([]byte, error) {
	switch sf {
	case StrRaw:
		return appendRawString(dst, s, lf)
	case StrInt:
		if out, ok := appendIntString(dst, s); ok {
			return out, nil
		}
		return appendRawString(dst, s, lf)
	case StrLZF:
		if len(s) == 0 {
			return appendRawString(dst, s, lf)
		}
		return appendLZFString(dst, s, LZFCompress(s), lf)
	case StrAuto:
		if out, ok := appendIntString(dst, s); ok {
			return out, nil
		}
		// rdb.c: compress only strings longer than 20 bytes, and keep the result only if
		// it saves at least 4 bytes.
		if len(s) > 20 {
			if c := LZFCompress(s); len(c) <= len(s)-4 {
				return appendLZFString(dst, s, c, lf)
			}
		}
		return appendRawString(dst, s, lf)
	}
	return dst, fmt.Errorf("rdbref: unknown StrForm %d", int(sf))
}

// ---------------------------------------------------------------------------------------
// reader side

// str reads one RDB string in any of its forms and returns freshly allocated bytes holding
// what Redis would materialise (integers as their decimal rendering).
func (r *reader) str() ([]byte, error) {
	n, special, err := r.lenOrEnc()
	if err != nil {
		return nil, err
	}
	if !special {
		s, err := r.take(n)
		if err != nil {
			return nil, err
		}
		out := make([]byte, len(s))
		copy(out, s)
		return out, nil
	}
	switch n {
	case 0:
		s, err := r.take(1)
		if err != nil {
			return nil, err
		}
		return strconv.AppendInt(nil, int64(int8(s[0])), 10), nil
	case 1:
		s, err := r.take(2)
		if err != nil {
			return nil, err
		}
		return strconv.AppendInt(nil, int64(int16(uint16(s[0])|uint16(s[1])<<8)), 10), nil
	case 2:
		s, err := r.take(4)
		if err != nil {
			return nil, err
		}
		u := uint32(s[0]) | uint32(s[1])<<8 | uint32(s[2])<<16 | uint32(s[3])<<24
		return strconv.AppendInt(nil, int64(int32(u)), 10), nil
	case 3:
		clen, err := r.length()
		if err != nil {
			return nil, err
		}
		ulen, err := r.length()
		if err != nil {
			return nil, err
		}
		if ulen == 0 || clen == 0 {
			return nil, r.errf("LZF string with zero length (clen=%d ulen=%d)", clen, ulen)
		}
		c, err := r.take(clen)
		if err != nil {
			return nil, err
		}
		if ulen > 1<<40 {
			return nil, r.errf("LZF string claims %d uncompressed bytes", ulen)
		}
		out, err := LZFDecompress(c, int(ulen))
		if err != nil {
			return nil, r.errf("%v", err)
		}
		return out, nil
	}
	r.p--
	return nil, r.errf("unknown string encoding %d", n)
}
