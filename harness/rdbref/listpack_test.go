package rdbref

import (
	"bytes"
	"fmt"
	"math/rand"
	"strconv"
	"testing"
)

// lpWalk is a test-local listpack reader: it returns every element as text and checks the
// header and every backlen (by also walking the pack right to left).
func lpWalk(b []byte) ([]string, error) {
	if len(b) < 7 || b[len(b)-1] != 0xFF {
		return nil, fmt.Errorf("frame")
	}
	total := int(b[0]) | int(b[1])<<8 | int(b[2])<<16 | int(b[3])<<24
	if total != len(b) {
		return nil, fmt.Errorf("total %d, have %d", total, len(b))
	}
	num := int(b[4]) | int(b[5])<<8
	var out []string
	var starts []int
	p := 6
	for b[p] != 0xFF {
		starts = append(starts, p)
		c := b[p]
		var size int // encoding + payload
		sx := func(u uint64, bits uint) int64 { return int64(u<<(64-bits)) >> (64 - bits) }
		le := func(o, n int) uint64 {
			var u uint64
			for i := n - 1; i >= 0; i-- {
				u = u<<8 | uint64(b[o+i])
			}
			return u
		}
		switch {
		case c < 0x80:
			size = 1
			out = append(out, strconv.Itoa(int(c)))
		case c < 0xC0:
			n := int(c & 0x3f)
			size = 1 + n
			out = append(out, string(b[p+1:p+1+n]))
		case c < 0xE0:
			size = 2
			out = append(out, strconv.FormatInt(sx(uint64(c&0x1f)<<8|uint64(b[p+1]), 13), 10))
		case c < 0xF0:
			n := int(c&0x0f)<<8 | int(b[p+1])
			size = 2 + n
			out = append(out, string(b[p+2:p+2+n]))
		case c == 0xF0:
			n := int(le(p+1, 4))
			size = 5 + n
			out = append(out, string(b[p+5:p+5+n]))
		case c == 0xF1:
			size = 3
			out = append(out, strconv.FormatInt(sx(le(p+1, 2), 16), 10))
		case c == 0xF2:
			size = 4
			out = append(out, strconv.FormatInt(sx(le(p+1, 3), 24), 10))
		case c == 0xF3:
			size = 5
			out = append(out, strconv.FormatInt(sx(le(p+1, 4), 32), 10))
		case c == 0xF4:
			size = 9
			out = append(out, strconv.FormatInt(int64(le(p+1, 8)), 10))
		default:
			return nil, fmt.Errorf("encoding %#x", c)
		}
		p += size
		// backlen: its width follows from the element size; the first byte carries no
		// flag, every later byte carries 0x80.
		width := 1
		for lim := 127; size > lim && width < 5; lim = lim<<7 | 127 {
			width++
		}
		bl := 0
		for i := 0; i < width; i++ {
			d := b[p+i]
			if (i == 0) == (d&0x80 != 0) {
				return nil, fmt.Errorf("backlen flag of byte %d at %d", i, p)
			}
			bl = bl<<7 | int(d&0x7f)
		}
		p += width
		if bl != size {
			return nil, fmt.Errorf("backlen %d for element of %d bytes at %d", bl, size, starts[len(starts)-1])
		}
	}
	if p != len(b)-1 {
		return nil, fmt.Errorf("terminator at %d of %d", p, len(b))
	}
	if num != 0xFFFF && num != len(out) || num == 0xFFFF && len(out) < 0xFFFF {
		return nil, fmt.Errorf("header says %d elements, found %d", num, len(out))
	}
	return out, nil
}

// streamItems interprets the elements of a stream node.
func streamItems(master [16]byte, el []string) ([]StreamEntry, error) {
	var mms, mseq uint64
	for i := 0; i < 8; i++ {
		mms = mms<<8 | uint64(master[i])
		mseq = mseq<<8 | uint64(master[8+i])
	}
	p := 0
	next := func() string { s := el[p]; p++; return s }
	num := func() int64 { v, _ := strconv.ParseInt(next(), 10, 64); return v }
	count, deleted, nf := num(), num(), num()
	var mf []string
	for i := int64(0); i < nf; i++ {
		mf = append(mf, next())
	}
	if num() != 0 {
		return nil, fmt.Errorf("master terminator")
	}
	var out []StreamEntry
	for p < len(el) {
		begin := p
		flags := num()
		e := StreamEntry{Ms: mms + uint64(num()), Seq: mseq + uint64(num()), Deleted: flags&1 != 0}
		if flags&2 != 0 {
			for _, f := range mf {
				e.Fields = append(e.Fields, HF{[]byte(f), []byte(next())})
			}
		} else {
			for n := num(); n > 0; n-- {
				f := next()
				e.Fields = append(e.Fields, HF{[]byte(f), []byte(next())})
			}
		}
		if lpCount := num(); lpCount != int64(p-1-begin) {
			return nil, fmt.Errorf("lp-count %d, entry has %d elements", lpCount, p-1-begin)
		}
		out = append(out, e)
	}
	live := int64(0)
	for _, e := range out {
		if !e.Deleted {
			live++
		}
	}
	if live != count || int64(len(out))-live != deleted {
		return nil, fmt.Errorf("count %d deleted %d, found %d/%d", count, deleted, live, int64(len(out))-live)
	}
	return out, nil
}

func TestStreamListpackVector(t *testing.T) {
	node := BuildStreamListpack([]StreamEntry{{Ms: 1, Seq: 1, Fields: []HF{{[]byte("a"), []byte("1")}}}})
	want := []byte{
		0x1C, 0, 0, 0, 0x0A, 0,
		0x01, 0x01, 0x00, 0x01, 0x01, 0x01, 0x81, 'a', 0x02, 0x00, 0x01, // master: 1 0 1 "a" 0
		0x02, 0x01, 0x00, 0x01, 0x00, 0x01, 0x01, 0x01, 0x04, 0x01, // entry: flags 2, 0, 0, 1, lp-count 4
		0xFF,
	}
	wantBytes(t, "listpack", node.Listpack, want)
	if node.MasterID != StreamID(1, 1) {
		t.Fatalf("master id % x", node.MasterID)
	}
	// Integer and string encodings.
	cases := []struct {
		s    string
		want []byte
	}{
		{"127", []byte{0x7F, 0x01}},
		{"128", []byte{0xC0, 0x80, 0x02}},
		{"-1", []byte{0xDF, 0xFF, 0x02}},
		{"4095", []byte{0xCF, 0xFF, 0x02}},
		{"-4096", []byte{0xD0, 0x00, 0x02}},
		{"4096", []byte{0xF1, 0x00, 0x10, 0x03}},
		{"-32768", []byte{0xF1, 0x00, 0x80, 0x03}},
		{"32768", []byte{0xF2, 0x00, 0x80, 0x00, 0x04}},
		{"8388608", []byte{0xF3, 0x00, 0x00, 0x80, 0x00, 0x05}},
		{"2147483648", []byte{0xF4, 0x00, 0x00, 0x00, 0x80, 0, 0, 0, 0, 0x09}},
		{"-0", []byte{0x82, '-', '0', 0x03}},
		{"", []byte{0x80, 0x01}},
	}
	for _, c := range cases {
		wantBytes(t, c.s, lpAppendString(nil, []byte(c.s)), c.want)
	}
	long := lpAppendString(nil, bytes.Repeat([]byte{'x'}, 200))
	wantBytes(t, "12-bit string", cat(long[:2], long[len(long)-2:]), []byte{0xE0, 200, 0x01, 0x80 | (202 & 127)})
	huge := lpAppendString(nil, bytes.Repeat([]byte{'x'}, 5000))
	wantBytes(t, "32-bit string", cat(huge[:5], huge[len(huge)-2:]), []byte{0xF0, 0x88, 0x13, 0, 0, 5005 >> 7, 0x80 | (5005 & 127)})
}

func TestStreamListpackRandom(t *testing.T) {
	r := rand.New(rand.NewSource(3))
	for round := 0; round < 200; round++ {
		ms, seq := uint64(r.Int63()), uint64(r.Intn(1000))
		fields := 1 + r.Intn(4)
		names := make([][]byte, fields)
		for i := range names {
			names[i] = []byte(fmt.Sprintf("f%d", i))
		}
		var entries []StreamEntry
		for n := 1 + r.Intn(12); n > 0; n-- {
			e := StreamEntry{Ms: ms, Seq: seq, Deleted: r.Intn(5) == 0}
			if r.Intn(3) == 0 { // different field set
				for k := r.Intn(4); k >= 0; k-- {
					e.Fields = append(e.Fields, HF{randElem(r, 12), randElem(r, 5000)})
				}
			} else {
				for _, nm := range names {
					e.Fields = append(e.Fields, HF{nm, randElem(r, 100)})
				}
			}
			entries = append(entries, e)
			if r.Intn(2) == 0 {
				ms += uint64(r.Intn(100000))
				seq = 0
			} else {
				seq += 1 + uint64(r.Intn(5))
			}
		}
		node := BuildStreamListpack(entries)
		el, err := lpWalk(node.Listpack)
		if err != nil {
			t.Fatalf("round %d: %v", round, err)
		}
		got, err := streamItems(node.MasterID, el)
		if err != nil {
			t.Fatalf("round %d: %v", round, err)
		}
		if len(got) != len(entries) {
			t.Fatalf("round %d: %d entries, want %d", round, len(got), len(entries))
		}
		for i := range got {
			a, b := got[i], entries[i]
			if a.Ms != b.Ms || a.Seq != b.Seq || a.Deleted != b.Deleted ||
				!Equal(Value{Kind: "hash", Hash: a.Fields}, Value{Kind: "hash", Hash: b.Fields}) || len(a.Fields) != len(b.Fields) {
				t.Fatalf("round %d entry %d: got %+v want %+v", round, i, a, b)
			}
		}
		// The node embeds in a stream body that DecodeValue measures correctly.
		body := BuildStream(StreamSpec{Listpacks: []StreamListpack{node}, Length: uint64(len(entries)), LastMs: ms, LastSeq: seq}, LenCanonical)
		decodeAll(t, TStream, body)
	}
}
