package rdbref

import (
	"encoding/binary"
	"fmt"
)

// WalkOp is one record of an RDB file as the reference reader sees it.
type WalkOp struct {
	Op    string // "sel", "exms", "exs", "idle", "freq", "aux", "resize", "modaux", "key"
	N     uint64 // sel: db; exms/exs: the time as written; idle/freq: the value
	Key   []byte // key: its name (materialised: integer / LZF forms resolved)
	Type  byte   // key: type byte
	Body  []byte // key: the serialised value exactly as in the file
	Value Value  // key: the logical value
}

// Walk reads a whole RDB file with the reference reader: header, records, EOF and (version >= 5,
// non-zero) checksum.  It returns the format version and the records in file order.
func Walk(b []byte) (version int, ops []WalkOp, err error) {
	if len(b) < 9 || string(b[:5]) != "REDIS" {
		return 0, nil, fmt.Errorf("bad magic")
	}
	fmt.Sscanf(string(b[5:9]), "%d", &version)
	r := &reader{b: b, p: 9}
	for {
		op, err := r.u8()
		if err != nil {
			return version, ops, fmt.Errorf("no EOF opcode")
		}
		switch op {
		case OpEOF:
			if version >= 5 {
				if r.remaining() != 8 {
					return version, ops, fmt.Errorf("%d bytes after EOF", r.remaining())
				}
				sum := binary.LittleEndian.Uint64(b[r.p:])
				if sum != 0 && sum != CRC64(0, b[:r.p]) {
					return version, ops, fmt.Errorf("file checksum mismatch")
				}
			}
			return version, ops, nil
		case OpAux:
			if _, err = r.str(); err == nil {
				_, err = r.str()
			}
			ops = append(ops, WalkOp{Op: "aux"})
		case OpSelectDB:
			var n uint64
			n, err = r.length()
			ops = append(ops, WalkOp{Op: "sel", N: n})
		case OpResizeDB:
			if _, err = r.length(); err == nil {
				_, err = r.length()
			}
			ops = append(ops, WalkOp{Op: "resize"})
		case OpExpireMs:
			var n uint64
			n, err = r.u64le()
			ops = append(ops, WalkOp{Op: "exms", N: n})
		case OpExpireSec:
			var t []byte
			if t, err = r.take(4); err == nil {
				ops = append(ops, WalkOp{Op: "exs", N: uint64(binary.LittleEndian.Uint32(t))})
			}
		case OpIdle:
			var n uint64
			n, err = r.length()
			ops = append(ops, WalkOp{Op: "idle", N: n})
		case OpFreq:
			var c byte
			c, err = r.u8()
			ops = append(ops, WalkOp{Op: "freq", N: uint64(c)})
		case OpModuleAux:
			return version, ops, fmt.Errorf("module aux not walked")
		default:
			var k []byte
			if k, err = r.str(); err != nil {
				break
			}
			v, n, derr := DecodeValue(op, b[r.p:])
			if derr != nil {
				return version, ops, fmt.Errorf("key %q type %d: %v", k, op, derr)
			}
			ops = append(ops, WalkOp{Op: "key", Key: k, Type: op, Body: b[r.p : r.p+n], Value: v})
			r.p += n
		}
		if err != nil {
			return version, ops, err
		}
	}
}
