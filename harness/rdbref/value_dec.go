package rdbref

import (
	"bytes"
	"fmt"
	"math"
	"strconv"
)

// DecodeValue parses one value body of the given RDB type from the start of body and returns
// the logical value Redis itself would materialise from it plus the number of bytes consumed.
func DecodeValue(typ byte, body []byte) (v Value, consumed int, err error) {
	r := &reader{b: body}
	switch typ {
	case TString:
		v.Kind = "string"
		v.Str, err = r.str()
	case TList:
		v.Kind = "list"
		v.List, err = decStrings(r)
	case TSet:
		v.Kind = "set"
		v.Set, err = decStrings(r)
	case TZSet, TZSet2:
		v.Kind = "zset"
		v.ZSet, err = decZSet(r, typ == TZSet2)
	case THash:
		v.Kind = "hash"
		v.Hash, err = decHash(r)
	case THashZipmap:
		v.Kind = "hash"
		var blob []byte
		if blob, err = r.str(); err == nil {
			v.Hash, err = parseZipmap(blob)
		}
	case TListZiplist:
		v.Kind = "list"
		var blob []byte
		if blob, err = r.str(); err == nil {
			v.List, err = parseZiplist(blob)
		}
	case TSetIntset:
		v.Kind = "set"
		var blob []byte
		if blob, err = r.str(); err == nil {
			v.Set, err = parseIntset(blob)
		}
	case TZSetZiplist:
		v.Kind = "zset"
		var blob []byte
		if blob, err = r.str(); err == nil {
			v.ZSet, err = decZSetZiplist(blob)
		}
	case THashZiplist:
		v.Kind = "hash"
		var blob []byte
		if blob, err = r.str(); err == nil {
			v.Hash, err = decHashZiplist(blob)
		}
	case TQuicklist:
		v.Kind = "list"
		v.List, err = decQuicklist(r)
	case TStream:
		v.Kind = "stream"
		if err = skipStream(r); err == nil {
			v.Stream = append([]byte{}, body[:r.p]...)
		}
	default:
		err = fmt.Errorf("rdbref: cannot decode RDB type %d", typ)
	}
	if err != nil {
		return Value{}, 0, err
	}
	return v, r.p, nil
}

// count reads a collection length and a safe pre-allocation size for it: every element
// occupies at least minBytes bytes, so a bogus huge count cannot trigger a huge allocation.
func (r *reader) count(minBytes int) (n uint64, alloc int, err error) {
	n, err = r.length()
	if err != nil {
		return 0, 0, err
	}
	alloc = r.remaining() / minBytes
	if n < uint64(alloc) {
		alloc = int(n)
	}
	return n, alloc, nil
}

func decStrings(r *reader) ([][]byte, error) {
	n, alloc, err := r.count(1)
	if err != nil {
		return nil, err
	}
	out := make([][]byte, 0, alloc)
	for i := uint64(0); i < n; i++ {
		s, err := r.str()
		if err != nil {
			return nil, fmt.Errorf("element %d of %d: %v", i, n, err)
		}
		out = append(out, s)
	}
	return out, nil
}

func decHash(r *reader) ([]HF, error) {
	n, alloc, err := r.count(2)
	if err != nil {
		return nil, err
	}
	out := make([]HF, 0, alloc)
	for i := uint64(0); i < n; i++ {
		f, err := r.str()
		if err != nil {
			return nil, fmt.Errorf("field %d of %d: %v", i, n, err)
		}
		val, err := r.str()
		if err != nil {
			return nil, fmt.Errorf("value %d of %d: %v", i, n, err)
		}
		out = append(out, HF{Field: f, Value: val})
	}
	return out, nil
}

func decZSet(r *reader, binary bool) ([]ZM, error) {
	n, alloc, err := r.count(2)
	if err != nil {
		return nil, err
	}
	out := make([]ZM, 0, alloc)
	for i := uint64(0); i < n; i++ {
		m, err := r.str()
		if err != nil {
			return nil, fmt.Errorf("member %d of %d: %v", i, n, err)
		}
		var score float64
		if binary {
			u, err := r.u64le()
			if err != nil {
				return nil, fmt.Errorf("score %d of %d: %v", i, n, err)
			}
			score = math.Float64frombits(u)
		} else {
			if score, err = decScoreASCII(r); err != nil {
				return nil, fmt.Errorf("score %d of %d: %v", i, n, err)
			}
		}
		out = append(out, ZM{Member: m, Score: score})
	}
	return out, nil
}

// decScoreASCII reads a type-3 score: <len> text, or a marker byte.
func decScoreASCII(r *reader) (float64, error) {
	c, err := r.u8()
	if err != nil {
		return 0, err
	}
	switch c {
	case 253:
		return math.NaN(), nil
	case 254:
		return math.Inf(1), nil
	case 255:
		return math.Inf(-1), nil
	}
	s, err := r.take(uint64(c))
	if err != nil {
		return 0, err
	}
	return parseScore(s)
}

// parseScore converts score text to a double the way C's strtod / sscanf("%lg") would for
// the texts Redis itself produces ("%.17g" output, plain integers, "inf", "-inf", "nan").
// Anything else (empty text, blanks, hex floats, digit separators, trailing junk) is
// rejected rather than guessed at.
func parseScore(s []byte) (float64, error) {
	t := bytes.ToLower(s)
	if len(t) > 0 && (t[0] == '+' || t[0] == '-') {
		t = t[1:]
	}
	named := bytes.Equal(t, []byte("inf")) || bytes.Equal(t, []byte("infinity")) || bytes.Equal(t, []byte("nan"))
	if !named {
		if len(t) == 0 {
			return 0, fmt.Errorf("rdbref: invalid score text %q", s)
		}
		for _, c := range t {
			if !(c >= '0' && c <= '9') && c != '.' && c != 'e' && c != '+' && c != '-' {
				return 0, fmt.Errorf("rdbref: invalid score text %q", s)
			}
		}
	}
	f, err := strconv.ParseFloat(string(s), 64)
	if err != nil {
		// Out-of-range magnitudes saturate exactly as strtod does (+-Inf, or 0 on underflow).
		if ne, ok := err.(*strconv.NumError); ok && ne.Err == strconv.ErrRange {
			return f, nil
		}
		return 0, fmt.Errorf("rdbref: invalid score text %q", s)
	}
	return f, nil
}

func decZSetZiplist(blob []byte) ([]ZM, error) {
	elems, err := parseZiplist(blob)
	if err != nil {
		return nil, err
	}
	if len(elems)%2 != 0 {
		return nil, fmt.Errorf("rdbref: zset ziplist has an odd number of entries (%d)", len(elems))
	}
	out := make([]ZM, 0, len(elems)/2)
	for i := 0; i < len(elems); i += 2 {
		// An integer entry was rendered in decimal; parsing that text gives the same
		// correctly rounded double as converting the integer directly.
		f, err := parseScore(elems[i+1])
		if err != nil {
			return nil, err
		}
		out = append(out, ZM{Member: elems[i], Score: f})
	}
	return out, nil
}

func decHashZiplist(blob []byte) ([]HF, error) {
	elems, err := parseZiplist(blob)
	if err != nil {
		return nil, err
	}
	if len(elems)%2 != 0 {
		return nil, fmt.Errorf("rdbref: hash ziplist has an odd number of entries (%d)", len(elems))
	}
	out := make([]HF, 0, len(elems)/2)
	for i := 0; i < len(elems); i += 2 {
		out = append(out, HF{Field: elems[i], Value: elems[i+1]})
	}
	return out, nil
}

func decQuicklist(r *reader) ([][]byte, error) {
	n, _, err := r.count(1)
	if err != nil {
		return nil, err
	}
	var out [][]byte
	for i := uint64(0); i < n; i++ {
		blob, err := r.str()
		if err != nil {
			return nil, fmt.Errorf("quicklist node %d of %d: %v", i, n, err)
		}
		elems, err := parseZiplist(blob)
		if err != nil {
			return nil, fmt.Errorf("quicklist node %d of %d: %v", i, n, err)
		}
		out = append(out, elems...)
	}
	return out, nil
}
