// Package rdbref is an INDEPENDENT reference implementation of the Redis RDB value
// serialisation (writer and reader), the DUMP payload trailer, CRC-64/Jones, CRC16/XMODEM
// and an RDB file builder.  It must never import github.com/alibaba/RedisShake: it is the
// oracle the verification harness compares the tool against.
package rdbref

// RDB type bytes.
const (
	TString      = 0
	TList        = 1
	TSet         = 2
	TZSet        = 3
	THash        = 4
	TZSet2       = 5
	TModule      = 6
	TModule2     = 7
	THashZipmap  = 9
	TListZiplist = 10
	TSetIntset   = 11
	TZSetZiplist = 12
	THashZiplist = 13
	TQuicklist   = 14
	TStream      = 15
)

// RDB opcodes.
const (
	OpModuleAux = 247
	OpIdle      = 248
	OpFreq      = 249
	OpAux       = 250
	OpResizeDB  = 251
	OpExpireMs  = 252
	OpExpireSec = 253
	OpSelectDB  = 254
	OpEOF       = 255
)

// ZM is one sorted-set member.
type ZM struct {
	Member []byte
	Score  float64
}

// HF is one hash field.
type HF struct {
	Field []byte
	Value []byte
}

// Value is a logical Redis value.  Kind is one of "string", "list", "set", "zset", "hash",
// "stream".  Collections keep the order in which the elements appear in the serialisation
// (for sets/hashes/zsets this order is not semantically relevant; use Equal to compare).
type Value struct {
	Kind   string
	Str    []byte
	List   [][]byte
	Set    [][]byte
	ZSet   []ZM
	Hash   []HF
	Stream []byte // opaque: the raw serialised body for streams (not materialised)
}

// LenForm selects how a length is written.
type LenForm int

const (
	LenCanonical LenForm = iota // shortest form Redis would emit (6 / 14 / 32 / 64 bit)
	Len14                       // force the 14-bit form (value must fit)
	Len32                       // force the 0x80 + 4-byte big-endian form (value must fit)
	Len64                       // force the 0x81 + 8-byte big-endian form
)

// StrForm selects how a string is written.
type StrForm int

const (
	StrRaw  StrForm = iota // length-prefixed raw bytes
	StrInt                 // int8/16/32 encoding when the string is a canonical integer that fits, else raw
	StrLZF                 // LZF-compressed form (always, even if it does not shrink), produced by our own compressor
	StrAuto                // what Redis would do: int if possible, LZF if > 20 bytes and it shrinks, else raw
)

// Enc describes the concrete encoding to produce for a value.
type Enc struct {
	Type    byte    // one of the T* constants, must be compatible with Value.Kind
	Len     LenForm // form for collection lengths and raw string lengths
	Str     StrForm // form for element / string payloads (for the plain types 0-5)
	IntSize int     // intset element width 2, 4 or 8 (0 = smallest that fits)
	// For ziplist-based encodings: when true, integer-looking elements are stored with the
	// ziplist integer encodings (4-bit immediate, int8, int16, int24, int32, int64), otherwise
	// always as strings (6 / 14 / 32-bit string headers).
	ZipInts bool
	// QuicklistNode is the number of elements per quicklist node (0 = 4). BlobLZF compresses
	// every ziplist/intset/zipmap blob (the outer string) with LZF.
	QuicklistNode int
	BlobLZF       bool
	// ZipPrevlen5 forces every ziplist entry to use the 5-byte prevlen form (0xFE + u32 LE)
	// even when the previous entry is shorter than 254 bytes.  Real Redis leaves such entries
	// behind after a cascade update, so readers must accept them.
	ZipPrevlen5 bool
	// ZipmapFree is the number of unused "free" bytes (0..255) left after every zipmap value.
	ZipmapFree int
}
