package rdbref

import (
	"errors"
	"fmt"
)

// Dump wraps typ+body as a DUMP payload: typ | body | version (2 bytes LE) | CRC-64 (8 bytes LE).
func Dump(typ byte, body []byte, version uint16) []byte {
	out := make([]byte, 0, 1+len(body)+10)
	out = append(out, typ)
	out = append(out, body...)
	out = append(out, byte(version), byte(version>>8))
	return appendU64LE(out, CRC64(0, out))
}

// ParseDump verifies length, trailer CRC and splits a DUMP payload.  The returned body
// aliases p.  No policy is applied to the version number.
func ParseDump(p []byte) (typ byte, body []byte, version uint16, err error) {
	// type byte + 2 version bytes + 8 CRC bytes; the body may in principle be empty.
	if len(p) < 11 {
		return 0, nil, 0, fmt.Errorf("rdbref: DUMP payload of %d bytes is too short", len(p))
	}
	crcAt := len(p) - 8
	var stored uint64
	for i := 7; i >= 0; i-- {
		stored = stored<<8 | uint64(p[crcAt+i])
	}
	if CRC64(0, p[:crcAt]) != stored {
		return 0, nil, 0, errors.New("rdbref: DUMP payload checksum mismatch")
	}
	version = uint16(p[crcAt-2]) | uint16(p[crcAt-1])<<8
	return p[0], p[1 : crcAt-2], version, nil
}
