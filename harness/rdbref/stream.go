package rdbref

// Stream (RDB type 15) body layout (rdb.c, rdbSaveObject / rdbLoadObject):
//
//	<listpacks: len>
//	    { <master id: 16-byte string (ms, seq big-endian)> <listpack: string> }...
//	<length: len> <last id ms: len> <last id seq: len>
//	<groups: len>
//	    { <name: string> <last id ms: len> <last id seq: len>
//	      <global PEL: len>
//	          { <id: 16 raw bytes> <delivery time: 8 bytes LE> <delivery count: len> }...
//	      <consumers: len>
//	          { <name: string> <seen time: 8 bytes LE>
//	            <consumer PEL: len> { <id: 16 raw bytes> }... }...
//	    }...

// StreamListpack is one radix-tree node of a stream: the master ID key and the listpack.
type StreamListpack struct {
	MasterID [16]byte
	Listpack []byte // stored verbatim as an RDB string; not interpreted
}

// StreamPEL is one entry of a consumer group's global pending-entries list.
type StreamPEL struct {
	ID            [16]byte
	DeliveryTime  uint64
	DeliveryCount uint64
}

// StreamConsumer is one consumer of a group; PEL lists the IDs pending for it.
type StreamConsumer struct {
	Name     []byte
	SeenTime uint64
	PEL      [][16]byte
}

// StreamGroup is one consumer group.
type StreamGroup struct {
	Name      []byte
	LastMs    uint64
	LastSeq   uint64
	PEL       []StreamPEL
	Consumers []StreamConsumer
}

// StreamSpec describes a whole type-15 body.
type StreamSpec struct {
	Listpacks []StreamListpack
	Length    uint64
	LastMs    uint64
	LastSeq   uint64
	Groups    []StreamGroup
}

// StreamID renders a stream ID as the 16-byte big-endian key used for master IDs and PELs.
func StreamID(ms, seq uint64) [16]byte {
	var id [16]byte
	for i := 0; i < 8; i++ {
		id[i] = byte(ms >> (56 - 8*uint(i)))
		id[8+i] = byte(seq >> (56 - 8*uint(i)))
	}
	return id
}

func appendU64LE(dst []byte, v uint64) []byte {
	return append(dst, byte(v), byte(v>>8), byte(v>>16), byte(v>>24),
		byte(v>>32), byte(v>>40), byte(v>>48), byte(v>>56))
}

// BuildStream produces a type-15 value body.  Every length-encoded number (counts, IDs,
// string lengths) is written in the given form; form is a minimum width: a number that does
// not fit is written in the next wider form that holds it.
func BuildStream(s StreamSpec, form LenForm) []byte {
	num := func(dst []byte, n uint64) []byte { return appendLenWiden(dst, n, form) }
	str := func(dst, b []byte) []byte { return append(num(dst, uint64(len(b))), b...) }

	var out []byte
	out = num(out, uint64(len(s.Listpacks)))
	for _, lp := range s.Listpacks {
		out = str(out, lp.MasterID[:])
		out = str(out, lp.Listpack)
	}
	out = num(out, s.Length)
	out = num(out, s.LastMs)
	out = num(out, s.LastSeq)
	out = num(out, uint64(len(s.Groups)))
	for _, g := range s.Groups {
		out = str(out, g.Name)
		out = num(out, g.LastMs)
		out = num(out, g.LastSeq)
		out = num(out, uint64(len(g.PEL)))
		for _, p := range g.PEL {
			out = append(out, p.ID[:]...)
			out = appendU64LE(out, p.DeliveryTime)
			out = num(out, p.DeliveryCount)
		}
		out = num(out, uint64(len(g.Consumers)))
		for _, c := range g.Consumers {
			out = str(out, c.Name)
			out = appendU64LE(out, c.SeenTime)
			out = num(out, uint64(len(c.PEL)))
			for _, id := range c.PEL {
				out = append(out, id[:]...)
			}
		}
	}
	return out
}

// skipStream advances r over one stream body, checking only its structure.
func skipStream(r *reader) error {
	nodes, err := r.length()
	if err != nil {
		return err
	}
	for i := uint64(0); i < nodes; i++ {
		key, err := r.str()
		if err != nil {
			return err
		}
		if len(key) != 16 {
			return r.errf("stream node key is %d bytes, want 16", len(key))
		}
		if _, err := r.str(); err != nil {
			return err
		}
	}
	for i := 0; i < 3; i++ { // length, last id ms, last id seq
		if _, err := r.length(); err != nil {
			return err
		}
	}
	groups, err := r.length()
	if err != nil {
		return err
	}
	for g := uint64(0); g < groups; g++ {
		if _, err := r.str(); err != nil { // name
			return err
		}
		for i := 0; i < 2; i++ { // last delivered id
			if _, err := r.length(); err != nil {
				return err
			}
		}
		pel, err := r.length()
		if err != nil {
			return err
		}
		for i := uint64(0); i < pel; i++ {
			if _, err := r.take(16 + 8); err != nil { // id, delivery time
				return err
			}
			if _, err := r.length(); err != nil { // delivery count
				return err
			}
		}
		consumers, err := r.length()
		if err != nil {
			return err
		}
		for c := uint64(0); c < consumers; c++ {
			if _, err := r.str(); err != nil { // name
				return err
			}
			if _, err := r.take(8); err != nil { // seen time
				return err
			}
			cpel, err := r.length()
			if err != nil {
				return err
			}
			if cpel > uint64(r.remaining())/16 {
				return errShort
			}
			if _, err := r.take(16 * cpel); err != nil {
				return err
			}
		}
	}
	return nil
}
