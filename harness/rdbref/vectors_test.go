package rdbref

import (
	"bytes"
	"math"
	"strings"
	"testing"
)

// Hand-written byte vectors.  Nothing here is produced by the package's own writer unless
// the test explicitly compares the writer against the hand-written bytes.

func cat(parts ...[]byte) []byte {
	var out []byte
	for _, p := range parts {
		out = append(out, p...)
	}
	return out
}

func rep(c byte, n int) []byte { return bytes.Repeat([]byte{c}, n) }

func strs(ss ...string) [][]byte {
	out := make([][]byte, len(ss))
	for i, s := range ss {
		out[i] = []byte(s)
	}
	return out
}

// decodeAll decodes body, requires it to be consumed entirely, and returns the value.
func decodeAll(t *testing.T, typ byte, body []byte) Value {
	t.Helper()
	v, n, err := DecodeValue(typ, body)
	if err != nil {
		t.Fatalf("type %d % x: %v", typ, body, err)
	}
	if n != len(body) {
		t.Fatalf("type %d: consumed %d of %d", typ, n, len(body))
	}
	return v
}

func wantCanon(t *testing.T, v Value, want string) {
	t.Helper()
	if got := v.Canon(); got != want {
		t.Fatalf("got  %s\nwant %s", got, want)
	}
}

func wantBytes(t *testing.T, what string, got, want []byte) {
	t.Helper()
	if !bytes.Equal(got, want) {
		t.Fatalf("%s:\n got  % x\n want % x", what, got, want)
	}
}

func encode(t *testing.T, v Value, enc Enc) []byte {
	t.Helper()
	typ, body, err := EncodeValue(v, enc)
	if err != nil {
		t.Fatalf("EncodeValue(%+v): %v", enc, err)
	}
	if typ != enc.Type {
		t.Fatalf("type %d", typ)
	}
	return body
}

func TestVectorLengthForms(t *testing.T) {
	abc := `string "abc"`
	wantCanon(t, decodeAll(t, 0, []byte{0x03, 'a', 'b', 'c'}), abc)
	wantCanon(t, decodeAll(t, 0, []byte{0x40, 0x03, 'a', 'b', 'c'}), abc) // non-canonical 14-bit
	wantCanon(t, decodeAll(t, 0, []byte{0x80, 0, 0, 0, 3, 'a', 'b', 'c'}), abc)
	wantCanon(t, decodeAll(t, 0, []byte{0x81, 0, 0, 0, 0, 0, 0, 0, 3, 'a', 'b', 'c'}), abc)
	v := decodeAll(t, 0, cat([]byte{0x41, 0x00}, rep('x', 256)))
	if len(v.Str) != 256 {
		t.Fatalf("14-bit length gave %d bytes", len(v.Str))
	}
	v = decodeAll(t, 0, cat([]byte{0x7F, 0xFF}, rep('x', 16383)))
	if len(v.Str) != 16383 {
		t.Fatalf("max 14-bit length gave %d bytes", len(v.Str))
	}
	for _, bad := range [][]byte{{0x82, 0, 0, 0, 0}, {0xBF}, {0x80, 0, 0, 0}, {0x81, 0, 0, 0, 0, 0, 0, 0}, {0x40}, {},
		{0x81, 0xFF, 0xFF, 0xFF, 0xFF, 0xFF, 0xFF, 0xFF, 0xFF, 'a'}, {0x05, 'a'}} {
		if _, _, err := DecodeValue(0, bad); err == nil {
			t.Errorf("accepted % x", bad)
		}
	}

	// Writer: canonical boundaries.
	s := func(n int) Value { return Value{Kind: "string", Str: rep('x', n)} }
	wantBytes(t, "63", encode(t, s(63), Enc{})[:1], []byte{0x3F})
	wantBytes(t, "64", encode(t, s(64), Enc{})[:2], []byte{0x40, 0x40})
	wantBytes(t, "16383", encode(t, s(16383), Enc{})[:2], []byte{0x7F, 0xFF})
	wantBytes(t, "16384", encode(t, s(16384), Enc{})[:5], []byte{0x80, 0x00, 0x00, 0x40, 0x00})
	abcV := Value{Kind: "string", Str: []byte("abc")}
	wantBytes(t, "Len14", encode(t, abcV, Enc{Len: Len14}), []byte{0x40, 0x03, 'a', 'b', 'c'})
	wantBytes(t, "Len32", encode(t, abcV, Enc{Len: Len32}), []byte{0x80, 0, 0, 0, 3, 'a', 'b', 'c'})
	wantBytes(t, "Len64", encode(t, abcV, Enc{Len: Len64}), []byte{0x81, 0, 0, 0, 0, 0, 0, 0, 3, 'a', 'b', 'c'})
	if _, _, err := EncodeValue(s(16384), Enc{Len: Len14}); err == nil {
		t.Error("Len14 accepted 16384")
	}
	if b, err := appendLen(nil, 1<<32, LenCanonical); err != nil || !bytes.Equal(b, []byte{0x81, 0, 0, 0, 1, 0, 0, 0, 0}) {
		t.Errorf("2^32 canonical: % x %v", b, err)
	}
	if b, err := appendLen(nil, 0xFFFFFFFF, LenCanonical); err != nil || !bytes.Equal(b, []byte{0x80, 0xFF, 0xFF, 0xFF, 0xFF}) {
		t.Errorf("2^32-1 canonical: % x %v", b, err)
	}
	if _, err := appendLen(nil, 1<<32, Len32); err == nil {
		t.Error("Len32 accepted 2^32")
	}
	// Collection lengths use the same forms.
	wantBytes(t, "list Len64", encode(t, Value{Kind: "list", List: strs("a")}, Enc{Type: TList, Len: Len64}),
		[]byte{0x81, 0, 0, 0, 0, 0, 0, 0, 1, 0x81, 0, 0, 0, 0, 0, 0, 0, 1, 'a'})
	wantCanon(t, decodeAll(t, TList, []byte{0x81, 0, 0, 0, 0, 0, 0, 0, 2, 0x40, 0x01, 'a', 0x80, 0, 0, 0, 0}), `list ["a", ""]`)
}

func TestVectorIntStrings(t *testing.T) {
	dec := []struct {
		b    []byte
		want string
	}{
		{[]byte{0xC0, 0xFF}, "-1"},
		{[]byte{0xC0, 0x7F}, "127"},
		{[]byte{0xC0, 0x80}, "-128"},
		{[]byte{0xC0, 0x00}, "0"},
		{[]byte{0xC1, 0x00, 0x80}, "-32768"},
		{[]byte{0xC1, 0x39, 0x30}, "12345"},
		{[]byte{0xC2, 0x00, 0x00, 0x00, 0x80}, "-2147483648"},
		{[]byte{0xC2, 0x15, 0xCD, 0x5B, 0x07}, "123456789"},
		{[]byte{0xC2, 0xFF, 0xFF, 0xFF, 0x7F}, "2147483647"},
	}
	for _, c := range dec {
		if v := decodeAll(t, 0, c.b); string(v.Str) != c.want {
			t.Errorf("% x -> %q, want %q", c.b, v.Str, c.want)
		}
	}
	for _, bad := range [][]byte{{0xC0}, {0xC1, 0}, {0xC2, 0, 0, 0}, {0xC4, 0}, {0xFF}} {
		if _, _, err := DecodeValue(0, bad); err == nil {
			t.Errorf("accepted % x", bad)
		}
	}
	raw := func(s string) []byte { return cat([]byte{byte(len(s))}, []byte(s)) }
	enc := []struct {
		s    string
		want []byte
	}{
		{"0", []byte{0xC0, 0x00}},
		{"127", []byte{0xC0, 0x7F}},
		{"-128", []byte{0xC0, 0x80}},
		{"128", []byte{0xC1, 0x80, 0x00}},
		{"-129", []byte{0xC1, 0x7F, 0xFF}},
		{"32767", []byte{0xC1, 0xFF, 0x7F}},
		{"32768", []byte{0xC2, 0x00, 0x80, 0x00, 0x00}},
		{"-32769", []byte{0xC2, 0xFF, 0x7F, 0xFF, 0xFF}},
		{"2147483647", []byte{0xC2, 0xFF, 0xFF, 0xFF, 0x7F}},
		{"-2147483648", []byte{0xC2, 0x00, 0x00, 0x00, 0x80}},
		{"2147483648", raw("2147483648")},
		{"-2147483649", raw("-2147483649")},
		{"007", raw("007")},
		{"-0", raw("-0")},
		{"+1", raw("+1")},
		{" 1", raw(" 1")},
		{"1 ", raw("1 ")},
		{"", raw("")},
		{"1.0", raw("1.0")},
		{"abc", raw("abc")},
	}
	for _, c := range enc {
		for _, sf := range []StrForm{StrInt, StrAuto} {
			wantBytes(t, c.s, encode(t, Value{Kind: "string", Str: []byte(c.s)}, Enc{Str: sf}), c.want)
		}
		wantBytes(t, c.s+" raw", encode(t, Value{Kind: "string", Str: []byte(c.s)}, Enc{Str: StrRaw}), raw(c.s))
	}
	// Element strings of plain collections follow Enc.Str too.
	wantBytes(t, "list", encode(t, Value{Kind: "list", List: strs("a", "5", "300")}, Enc{Type: TList, Str: StrInt}),
		[]byte{0x03, 0x01, 'a', 0xC0, 0x05, 0xC1, 0x2C, 0x01})
	wantCanon(t, decodeAll(t, TList, []byte{0x02, 0x01, 'a', 0xC0, 0x05}), `list ["a", "5"]`)
	wantCanon(t, decodeAll(t, TSet, []byte{0x02, 0xC1, 0x2C, 0x01, 0x00}), `set {"", "300"}`)
	wantCanon(t, decodeAll(t, THash, []byte{0x01, 0x01, 'f', 0xC0, 0xFE}), `hash {"f": "-2"}`)
}

func TestVectorLZFString(t *testing.T) {
	// clen 5, ulen 10: literal 'a', then a 9-byte back reference at distance 1.
	b := []byte{0xC3, 0x05, 0x0A, 0x00, 'a', 0xE0, 0x00, 0x00}
	wantCanon(t, decodeAll(t, 0, b), `string "aaaaaaaaaa"`)
	// Same with wide length forms.
	b = []byte{0xC3, 0x40, 0x05, 0x80, 0, 0, 0, 0x0A, 0x00, 'a', 0xE0, 0x00, 0x00}
	wantCanon(t, decodeAll(t, 0, b), `string "aaaaaaaaaa"`)
	// As a hash value.
	wantCanon(t, decodeAll(t, THash, cat([]byte{0x01, 0x01, 'k'}, []byte{0xC3, 0x05, 0x0A, 0x00, 'a', 0xE0, 0x00, 0x00})),
		`hash {"k": "aaaaaaaaaa"}`)
	for _, bad := range [][]byte{
		{0xC3, 0x05, 0x0B, 0x00, 'a', 0xE0, 0x00, 0x00}, // declared length too long
		{0xC3, 0x05, 0x09, 0x00, 'a', 0xE0, 0x00, 0x00}, // declared length too short
		{0xC3, 0x06, 0x0A, 0x00, 'a', 0xE0, 0x00, 0x00}, // compressed bytes missing
		{0xC3, 0x00, 0x00},       // empty: Redis cannot load it
		{0xC3, 0xC0, 0x0A, 0x00}, // length is a string marker
	} {
		if _, _, err := DecodeValue(0, bad); err == nil {
			t.Errorf("accepted % x", bad)
		}
	}
	// Writer: StrLZF always compresses (except the empty string), StrAuto only when it pays.
	long := Value{Kind: "string", Str: rep('z', 50)}
	for _, sf := range []StrForm{StrLZF, StrAuto} {
		body := encode(t, long, Enc{Str: sf})
		if body[0] != 0xC3 || body[2] != 50 || int(body[1]) != len(body)-3 {
			t.Fatalf("StrForm %d: % x", sf, body)
		}
		if got := decodeAll(t, 0, body); !Equal(got, long) {
			t.Fatal("LZF round trip")
		}
	}
	short := Value{Kind: "string", Str: rep('z', 20)}
	if body := encode(t, short, Enc{Str: StrAuto}); body[0] != 20 {
		t.Fatalf("StrAuto compressed a 20-byte string: % x", body)
	}
	if body := encode(t, short, Enc{Str: StrLZF}); body[0] != 0xC3 {
		t.Fatalf("StrLZF did not compress: % x", body)
	}
	noise := Value{Kind: "string", Str: []byte("q8Zp1!mK@x7Lw#4Rt$9Vb&2Ny*5Hc(0Gd)3Jf")}
	if body := encode(t, noise, Enc{Str: StrAuto}); int(body[0]) != len(noise.Str) {
		t.Fatalf("StrAuto compressed noise: % x", body)
	}
	if body := encode(t, noise, Enc{Str: StrLZF}); body[0] != 0xC3 {
		t.Fatalf("StrLZF must compress even incompressible data: % x", body)
	} else if got := decodeAll(t, 0, body); !Equal(got, noise) {
		t.Fatal("incompressible round trip")
	}
	wantBytes(t, "empty LZF", encode(t, Value{Kind: "string"}, Enc{Str: StrLZF}), []byte{0x00})
}

func TestVectorZSetScores(t *testing.T) {
	// Type 3: marker bytes and ASCII scores.
	b := cat([]byte{0x05},
		[]byte{0x01, 'a', 253},
		[]byte{0x01, 'b', 254},
		[]byte{0x01, 'c', 255},
		[]byte{0x01, 'd', 0x03, '1', '.', '5'},
		[]byte{0x01, 'e', 0x13}, []byte("0.10000000000000001"))
	v := decodeAll(t, TZSet, b)
	wantCanon(t, v, `zset {"a": nan, "b": +Inf, "c": -Inf, "d": 1.5, "e": 0.1}`)
	// The writer produces exactly those bytes.
	wantBytes(t, "type 3", encode(t, v, Enc{Type: TZSet}), b)

	more := []struct {
		text string
		want float64
	}{
		{"-0", math.Copysign(0, -1)}, {"0", 0}, {"3", 3}, {"-1e+100", -1e100}, {"4.9406564584124654e-324", 5e-324},
		{"1.7976931348623157e+308", math.MaxFloat64}, {"inf", math.Inf(1)}, {"-inf", math.Inf(-1)},
		{"1e999", math.Inf(1)}, {"1e-999", 0}, {"17", 17}, {"9007199254740993", 9007199254740992},
	}
	for _, c := range more {
		v := decodeAll(t, TZSet, cat([]byte{0x01, 0x01, 'm', byte(len(c.text))}, []byte(c.text)))
		if got := v.ZSet[0].Score; math.Float64bits(got) != math.Float64bits(c.want) {
			t.Errorf("score %q -> %v, want %v", c.text, got, c.want)
		}
	}
	for _, bad := range []string{"", "abc", "1.5x", " 1", "0x10", "1_0", "1e"} {
		if _, _, err := DecodeValue(TZSet, cat([]byte{0x01, 0x01, 'm', byte(len(bad))}, []byte(bad))); err == nil {
			t.Errorf("score text %q accepted", bad)
		}
	}
	for _, f := range []float64{0.1, 1.0 / 3, 1e21, 1e-7, 123456789.125, -2.5e-300, 1 << 60} {
		body := encode(t, Value{Kind: "zset", ZSet: []ZM{{[]byte("m"), f}}}, Enc{Type: TZSet})
		if got := decodeAll(t, TZSet, body).ZSet[0].Score; got != f {
			t.Errorf("%v -> %q -> %v", f, body[3:], got)
		}
	}
	wantBytes(t, "%.17g of 1e21", encode(t, Value{Kind: "zset", ZSet: []ZM{{[]byte("m"), 1e21}}}, Enc{Type: TZSet})[3:],
		cat([]byte{5}, []byte("1e+21")))
	wantBytes(t, "%.17g of 1e-5", encode(t, Value{Kind: "zset", ZSet: []ZM{{[]byte("m"), 1e-5}}}, Enc{Type: TZSet})[3:],
		cat([]byte{22}, []byte("1.0000000000000001e-05")))
	wantBytes(t, "%.17g of 100", encode(t, Value{Kind: "zset", ZSet: []ZM{{[]byte("m"), 100}}}, Enc{Type: TZSet})[3:],
		cat([]byte{3}, []byte("100")))

	// Type 5: binary little-endian doubles.
	b = cat([]byte{0x02},
		[]byte{0x01, 'a', 0, 0, 0, 0, 0, 0, 0xF8, 0x3F}, // 1.5
		[]byte{0x01, 'b', 0, 0, 0, 0, 0, 0, 0x00, 0x80}) // -0
	v = decodeAll(t, TZSet2, b)
	wantCanon(t, v, `zset {"a": 1.5, "b": -0}`)
	wantBytes(t, "type 5", encode(t, v, Enc{Type: TZSet2}), b)
	if _, _, err := DecodeValue(TZSet2, b[:len(b)-1]); err == nil {
		t.Error("truncated double accepted")
	}
}

// zl assembles a ziplist blob from complete, hand-written entries (prevlen included).
func zl(entries ...[]byte) []byte {
	body := cat(entries...)
	total := 10 + len(body) + 1
	tail := 10
	if len(entries) > 0 {
		tail = total - 1 - len(entries[len(entries)-1])
	}
	hdr := []byte{byte(total), byte(total >> 8), byte(total >> 16), byte(total >> 24),
		byte(tail), byte(tail >> 8), byte(tail >> 16), byte(tail >> 24),
		byte(len(entries)), byte(len(entries) >> 8)}
	return cat(hdr, body, []byte{0xFF})
}

// blob wraps b as a raw RDB string with a one- or two-byte length.
func blob(b []byte) []byte {
	if len(b) < 64 {
		return cat([]byte{byte(len(b))}, b)
	}
	return cat([]byte{0x40 | byte(len(b)>>8), byte(len(b))}, b)
}

func TestVectorZiplist(t *testing.T) {
	// Fully literal: ["a", 5].
	lit := []byte{
		0x10, 0, 0, 0, // zlbytes 16
		0x0D, 0, 0, 0, // zltail 13
		0x02, 0, // zllen
		0x00, 0x01, 'a', // prevlen 0, 1-byte string
		0x03, 0xF6, // prevlen 3, immediate 5
		0xFF,
	}
	wantCanon(t, decodeAll(t, TListZiplist, blob(lit)), `list ["a", "5"]`)
	a5 := Value{Kind: "list", List: strs("a", "5")}
	wantBytes(t, "writer ZipInts", encode(t, a5, Enc{Type: TListZiplist, ZipInts: true}), blob(lit))
	litStr := []byte{0x11, 0, 0, 0, 0x0D, 0, 0, 0, 0x02, 0, 0x00, 0x01, 'a', 0x03, 0x01, '5', 0xFF}
	wantBytes(t, "writer strings", encode(t, a5, Enc{Type: TListZiplist}), blob(litStr))
	wantBytes(t, "writer empty", encode(t, Value{Kind: "list"}, Enc{Type: TListZiplist}),
		[]byte{0x0B, 0x0B, 0, 0, 0, 0x0A, 0, 0, 0, 0, 0, 0xFF})
	wantCanon(t, decodeAll(t, TListZiplist, []byte{0x0B, 0x0B, 0, 0, 0, 0x0A, 0, 0, 0, 0, 0, 0xFF}), `list []`)

	// One entry per encoding.
	entries := [][]byte{
		{0x00, 0x01, 'a'},                    // 3 bytes: 6-bit string
		{0x03, 0xF1},                         // 2: immediate 0
		{0x02, 0xFD},                         // 2: immediate 12
		{0x02, 0xFE, 0xFF},                   // 3: int8 -1
		{0x03, 0xC0, 0xD4, 0xFE},             // 4: int16 -300
		{0x04, 0xF0, 0x56, 0x34, 0x12},       // 5: int24 0x123456
		{0x05, 0xF0, 0x00, 0x00, 0x80},       // 5: int24 -8388608
		{0x05, 0xD0, 0x00, 0x00, 0x00, 0x80}, // 6: int32 min
		{0x06, 0xE0, 0xFF, 0xFF, 0xFF, 0xFF, 0xFF, 0xFF, 0xFF, 0x7F}, // 10: int64 max
		cat([]byte{0x0A, 0x40, 0x40}, rep('x', 64)),                  // 67: 14-bit string
		{0xFE, 0x43, 0, 0, 0, 0x80, 0, 0, 0, 2, 'h', 'i'},            // 5-byte prevlen, 32-bit string header
		{0x0C, 0xFE, 0x0D}, // int8 13
		{0x03, 0x00},       // empty string
	}
	want := strs("a", "0", "12", "-1", "-300", "1193046", "-8388608", "-2147483648", "9223372036854775807",
		strings.Repeat("x", 64), "hi", "13", "")
	v := decodeAll(t, TListZiplist, blob(zl(entries...)))
	if !Equal(v, Value{Kind: "list", List: want}) {
		t.Fatalf("got %s", v.Canon())
	}
	// The writer picks exactly these encodings for the first ten elements.
	wantBytes(t, "writer encodings",
		encode(t, Value{Kind: "list", List: want[:10]}, Enc{Type: TListZiplist, ZipInts: true}), blob(zl(entries[:10]...)))
	// Further boundaries of the writer's choice.
	for _, c := range []struct {
		s    string
		want []byte
	}{
		{"13", []byte{0xFE, 0x0D}}, {"127", []byte{0xFE, 0x7F}}, {"-128", []byte{0xFE, 0x80}},
		{"128", []byte{0xC0, 0x80, 0x00}}, {"-129", []byte{0xC0, 0x7F, 0xFF}}, {"32767", []byte{0xC0, 0xFF, 0x7F}},
		{"32768", []byte{0xF0, 0x00, 0x80, 0x00}}, {"-32769", []byte{0xF0, 0xFF, 0x7F, 0xFF}},
		{"8388607", []byte{0xF0, 0xFF, 0xFF, 0x7F}}, {"8388608", []byte{0xD0, 0x00, 0x00, 0x80, 0x00}},
		{"-8388609", []byte{0xD0, 0xFF, 0xFF, 0x7F, 0xFF}}, {"2147483647", []byte{0xD0, 0xFF, 0xFF, 0xFF, 0x7F}},
		{"2147483648", []byte{0xE0, 0x00, 0x00, 0x00, 0x80, 0, 0, 0, 0}},
		{"-9223372036854775808", []byte{0xE0, 0, 0, 0, 0, 0, 0, 0, 0x80}},
		{"9223372036854775808", cat([]byte{19}, []byte("9223372036854775808"))},
		{"-0", []byte{2, '-', '0'}}, {"01", []byte{2, '0', '1'}}, {"", []byte{0}},
	} {
		got := encode(t, Value{Kind: "list", List: strs(c.s)}, Enc{Type: TListZiplist, ZipInts: true})
		wantBytes(t, "element "+c.s, got, blob(zl(cat([]byte{0x00}, c.want))))
		if v := decodeAll(t, TListZiplist, got); string(v.List[0]) != c.s {
			t.Errorf("%q decoded as %q", c.s, v.List[0])
		}
	}
	// An entry of 254+ bytes forces a 5-byte prevlen on its successor.
	bigList := Value{Kind: "list", List: [][]byte{rep('y', 300), []byte("z")}}
	wantBytes(t, "big prevlen", encode(t, bigList, Enc{Type: TListZiplist}),
		blob(zl(cat([]byte{0x00, 0x41, 0x2C}, rep('y', 300)), []byte{0xFE, 0x2F, 0x01, 0, 0, 0x01, 'z'})))
	// 253-byte entry: still a 1-byte prevlen.  (1 + 2 + 250 = 253)
	wantBytes(t, "prevlen 253", encode(t, Value{Kind: "list", List: [][]byte{rep('y', 250), []byte("z")}}, Enc{Type: TListZiplist}),
		blob(zl(cat([]byte{0x00, 0x40, 0xFA}, rep('y', 250)), []byte{0xFD, 0x01, 'z'})))
	// Forced 5-byte prevlens.
	wantBytes(t, "ZipPrevlen5", encode(t, a5, Enc{Type: TListZiplist, ZipInts: true, ZipPrevlen5: true}),
		blob(zl([]byte{0xFE, 0, 0, 0, 0, 0x01, 'a'}, []byte{0xFE, 0x07, 0, 0, 0, 0xF6})))

	// zllen 0xFFFF means "count by walking".
	unk := zl(entries[0], entries[1])
	unk[8], unk[9] = 0xFF, 0xFF
	wantCanon(t, decodeAll(t, TListZiplist, blob(unk)), `list ["a", "0"]`)

	// Garbled ziplists.
	mutate := func(f func(b []byte) []byte) []byte { return blob(f(append([]byte{}, lit...))) }
	bad := map[string][]byte{
		"zlbytes":      mutate(func(b []byte) []byte { b[0]++; return b }),
		"zltail":       mutate(func(b []byte) []byte { b[4]--; return b }),
		"zllen":        mutate(func(b []byte) []byte { b[8] = 3; return b }),
		"prevlen":      mutate(func(b []byte) []byte { b[13] = 2; return b }),
		"encoding":     mutate(func(b []byte) []byte { b[14] = 0xC1; return b }),
		"no end":       mutate(func(b []byte) []byte { b[15] = 0x00; return b }),
		"early end":    mutate(func(b []byte) []byte { b[13] = 0xFF; return b }),
		"string over":  mutate(func(b []byte) []byte { b[11] = 0x09; return b }),
		"short":        blob(lit[:10]),
		"int overrun":  blob(zl([]byte{0x00, 0xE0, 1, 2, 3})),
		"str32 over":   blob(zl([]byte{0x00, 0x80, 0xFF, 0xFF, 0xFF, 0xFF, 'a'})),
		"prevlen5 cut": blob(zl([]byte{0xFE, 0, 0})),
	}
	for name, b := range bad {
		if _, _, err := DecodeValue(TListZiplist, b); err == nil {
			t.Errorf("garbled ziplist (%s) accepted", name)
		}
	}
}

func TestVectorZiplistZSetHash(t *testing.T) {
	z := zl(
		[]byte{0x00, 0x01, 'm'}, []byte{0x03, 0xF4}, // m -> 3 (immediate)
		[]byte{0x02, 0x01, 'n'}, []byte{0x03, 0x03, '1', '.', '5'}, // n -> "1.5"
		[]byte{0x05, 0x01, 'o'}, []byte{0x03, 0x04, '-', 'i', 'n', 'f'}, // o -> "-inf"
		[]byte{0x06, 0xF2}, []byte{0x02, 0xC0, 0x18, 0xFC}, // member 1 -> -1000 (int16)
		[]byte{0x04, 0x01, 'p'}, []byte{0x03, 0x02, '-', '0'}, // p -> "-0"
		[]byte{0x04, 0x01, 'q'}, []byte{0x03, 0x03, 'n', 'a', 'n'},
		[]byte{0x05, 0x01, 'r'}, []byte{0x03, 0xE0, 0x01, 0, 0, 0, 0, 0, 0x20, 0}, // 2^53+1: rounds to 2^53
	)
	v := decodeAll(t, TZSetZiplist, blob(z))
	wantCanon(t, v, `zset {"1": -1000, "m": 3, "n": 1.5, "o": -Inf, "p": -0, "q": nan, "r": 9.007199254740992e+15}`)
	// Writer with integer encodings reproduces the first five pairs byte for byte.
	first := Value{Kind: "zset", ZSet: []ZM{{[]byte("m"), 3}, {[]byte("n"), 1.5}, {[]byte("o"), math.Inf(-1)},
		{[]byte("1"), -1000}, {[]byte("p"), math.Copysign(0, -1)}, {[]byte("q"), math.NaN()}}}
	full := encode(t, first, Enc{Type: TZSetZiplist, ZipInts: true})
	got := decodeAll(t, TZSetZiplist, full)
	if !Equal(got, first) {
		t.Fatalf("zset ziplist round trip: %s", got.Canon())
	}
	// The entry bytes (after the 10-byte header, before the last pair and terminator) match.
	inner := full[1+10:]
	wantBytes(t, "zset entries", inner[:len(inner)-1], z[10:10+len(inner)-1])
	// Without ZipInts the integral score is the string "3".
	wantBytes(t, "score string", encode(t, Value{Kind: "zset", ZSet: []ZM{{[]byte("m"), 3}}}, Enc{Type: TZSetZiplist}),
		blob(zl([]byte{0x00, 0x01, 'm'}, []byte{0x03, 0x01, '3'})))

	if _, _, err := DecodeValue(TZSetZiplist, blob(zl([]byte{0x00, 0x01, 'm'}))); err == nil {
		t.Error("odd zset ziplist accepted")
	}
	if _, _, err := DecodeValue(TZSetZiplist, blob(zl([]byte{0x00, 0x01, 'm'}, []byte{0x03, 0x01, 'x'}))); err == nil {
		t.Error("non-numeric score accepted")
	}

	h := zl([]byte{0x00, 0x01, 'f'}, []byte{0x03, 0xFE, 0x64}, []byte{0x03, 0xF2}, []byte{0x02, 0x00})
	wantCanon(t, decodeAll(t, THashZiplist, blob(h)), `hash {"1": "", "f": "100"}`)
	wantBytes(t, "hash ziplist", encode(t, Value{Kind: "hash", Hash: []HF{{[]byte("f"), []byte("100")}, {[]byte("1"), []byte("")}}},
		Enc{Type: THashZiplist, ZipInts: true}), blob(h))
	if _, _, err := DecodeValue(THashZiplist, blob(zl([]byte{0x00, 0x01, 'f'}))); err == nil {
		t.Error("odd hash ziplist accepted")
	}
}

func TestVectorZipmap(t *testing.T) {
	zm := []byte{
		0x02,      // zmlen
		0x01, 'a', // key
		0x02, 0x01, 'x', 'y', 0x00, // value len 2, 1 free byte, value, the free byte
		0x03, 'f', 'o', 'o',
		0x00, 0x00, // empty value, no free bytes
		0xFF,
	}
	wantCanon(t, decodeAll(t, THashZipmap, blob(zm)), `hash {"a": "xy", "foo": ""}`)
	// Writer, one free byte after every value (filler byte 0xA5).
	two := Value{Kind: "hash", Hash: []HF{{[]byte("a"), []byte("xy")}, {[]byte("foo"), []byte("")}}}
	wantBytes(t, "zipmap free=1", encode(t, two, Enc{Type: THashZipmap, ZipmapFree: 1}),
		blob([]byte{0x02, 0x01, 'a', 0x02, 0x01, 'x', 'y', 0xA5, 0x03, 'f', 'o', 'o', 0x00, 0x01, 0xA5, 0xFF}))
	wantBytes(t, "zipmap free=0", encode(t, two, Enc{Type: THashZipmap}),
		blob([]byte{0x02, 0x01, 'a', 0x02, 0x00, 'x', 'y', 0x03, 'f', 'o', 'o', 0x00, 0x00, 0xFF}))
	wantBytes(t, "zipmap empty", encode(t, Value{Kind: "hash"}, Enc{Type: THashZipmap}), []byte{0x02, 0x00, 0xFF})

	// 4-byte lengths (little-endian), here non-minimal, and zmlen 254 = "count by walking".
	zm = cat([]byte{0xFE},
		[]byte{0xFE, 0x03, 0, 0, 0, 'k', 'e', 'y'}, []byte{0xFE, 0x01, 0, 0, 0, 0x02, 'v', 0xFF, 0xFF},
		[]byte{0x01, 'b'}, []byte{0x00, 0x00},
		[]byte{0xFF})
	wantCanon(t, decodeAll(t, THashZipmap, blob(zm)), `hash {"b": "", "key": "v"}`)

	// Lengths 253 / 254 straddle the one-byte limit; 300 pairs overflow zmlen.
	big := Value{Kind: "hash", Hash: []HF{{rep('k', 253), rep('v', 254)}}}
	body := encode(t, big, Enc{Type: THashZipmap})
	wantBytes(t, "zipmap 253/254", body, cat([]byte{0x42, 0x04}, // 1+1+253+5+1+254+1 = 516 bytes
		[]byte{0x01, 0xFD}, rep('k', 253), []byte{0xFE, 0xFE, 0, 0, 0, 0x00}, rep('v', 254), []byte{0xFF}))
	if !Equal(decodeAll(t, THashZipmap, body), big) {
		t.Fatal("zipmap 253/254 round trip")
	}
	many := Value{Kind: "hash"}
	for i := 0; i < 300; i++ {
		many.Hash = append(many.Hash, HF{[]byte{'f', byte(i), byte(i >> 8)}, []byte{byte(i)}})
	}
	body = encode(t, many, Enc{Type: THashZipmap})
	if body[2] != 254 {
		t.Fatalf("zmlen byte %d for 300 pairs", body[2])
	}
	if !Equal(decodeAll(t, THashZipmap, body), many) {
		t.Fatal("zipmap 300 pairs round trip")
	}

	for name, b := range map[string][]byte{
		"zmlen":        {0x03, 0x01, 'a', 0x00, 0x00, 0xFF},
		"no end":       {0x01, 0x01, 'a', 0x00, 0x00},
		"trailing":     {0x01, 0x01, 'a', 0x00, 0x00, 0xFF, 0x00},
		"key overrun":  {0x01, 0x09, 'a', 0x00, 0x00, 0xFF},
		"free overrun": {0x01, 0x01, 'a', 0x01, 0x09, 'v', 0xFF},
		"value is end": {0x01, 0x01, 'a', 0xFF},
		"biglen cut":   {0x01, 0xFE, 0x01, 0x00},
		"tiny":         {0x00},
	} {
		if _, _, err := DecodeValue(THashZipmap, blob(b)); err == nil {
			t.Errorf("garbled zipmap (%s) accepted", name)
		}
	}
}

func TestVectorIntset(t *testing.T) {
	i16 := []byte{2, 0, 0, 0, 3, 0, 0, 0, 0x00, 0x80, 0xFF, 0xFF, 0x05, 0x00}
	i32 := []byte{4, 0, 0, 0, 2, 0, 0, 0, 0x00, 0x00, 0x00, 0x80, 0x40, 0x42, 0x0F, 0x00}
	i64 := []byte{8, 0, 0, 0, 3, 0, 0, 0,
		0, 0, 0, 0, 0, 0, 0, 0x80,
		0xFF, 0xFF, 0xFF, 0xFF, 0xFF, 0xFF, 0xFF, 0xFF,
		0x00, 0x00, 0x00, 0x80, 0, 0, 0, 0}
	wantCanon(t, decodeAll(t, TSetIntset, blob(i16)), `set {"-1", "-32768", "5"}`)
	wantCanon(t, decodeAll(t, TSetIntset, blob(i32)), `set {"-2147483648", "1000000"}`)
	wantCanon(t, decodeAll(t, TSetIntset, blob(i64)), `set {"-1", "-9223372036854775808", "2147483648"}`)
	if v := decodeAll(t, TSetIntset, blob(i16)); string(v.Set[0]) != "-32768" || string(v.Set[2]) != "5" {
		t.Fatalf("intset order: %q", v.Set)
	}
	set := func(ss ...string) Value { return Value{Kind: "set", Set: strs(ss...)} }
	// The writer sorts and picks the narrowest width.
	wantBytes(t, "intset16", encode(t, set("5", "-1", "-32768"), Enc{Type: TSetIntset}), blob(i16))
	wantBytes(t, "intset32", encode(t, set("1000000", "-2147483648"), Enc{Type: TSetIntset}), blob(i32))
	wantBytes(t, "intset64", encode(t, set("2147483648", "-1", "-9223372036854775808"), Enc{Type: TSetIntset}), blob(i64))
	wantBytes(t, "empty", encode(t, set(), Enc{Type: TSetIntset}), blob([]byte{2, 0, 0, 0, 0, 0, 0, 0}))
	// Forced widths.
	wantBytes(t, "forced 4", encode(t, set("1", "-1"), Enc{Type: TSetIntset, IntSize: 4}),
		blob([]byte{4, 0, 0, 0, 2, 0, 0, 0, 0xFF, 0xFF, 0xFF, 0xFF, 1, 0, 0, 0}))
	wantBytes(t, "forced 8", encode(t, set("1"), Enc{Type: TSetIntset, IntSize: 8}),
		blob([]byte{8, 0, 0, 0, 1, 0, 0, 0, 1, 0, 0, 0, 0, 0, 0, 0}))
	for name, c := range map[string]struct {
		v   Value
		enc Enc
	}{
		"non-int":   {set("1", "a"), Enc{Type: TSetIntset}},
		"non-canon": {set("01"), Enc{Type: TSetIntset}},
		"overflow":  {set("9223372036854775808"), Enc{Type: TSetIntset}},
		"too wide":  {set("32768"), Enc{Type: TSetIntset, IntSize: 2}},
		"bad width": {set("1"), Enc{Type: TSetIntset, IntSize: 3}},
		"duplicate": {set("1", "1"), Enc{Type: TSetIntset}},
	} {
		if _, _, err := EncodeValue(c.v, c.enc); err == nil {
			t.Errorf("intset writer accepted %s", name)
		}
	}
	for name, b := range map[string][]byte{
		"width":    {3, 0, 0, 0, 0, 0, 0, 0},
		"count":    {2, 0, 0, 0, 2, 0, 0, 0, 1, 0},
		"extra":    {2, 0, 0, 0, 1, 0, 0, 0, 1, 0, 2},
		"unsorted": {2, 0, 0, 0, 2, 0, 0, 0, 2, 0, 1, 0},
		"dup":      {2, 0, 0, 0, 2, 0, 0, 0, 1, 0, 1, 0},
		"short":    {2, 0, 0, 0},
	} {
		if _, _, err := DecodeValue(TSetIntset, blob(b)); err == nil {
			t.Errorf("garbled intset (%s) accepted", name)
		}
	}
}

func TestVectorQuicklist(t *testing.T) {
	n1 := zl([]byte{0x00, 0x01, 'a'}, []byte{0x03, 0xF3})
	n2 := zl([]byte{0x00, 0x01, 'b'})
	body := cat([]byte{0x03}, blob(n1), blob(zl()), blob(n2))
	wantCanon(t, decodeAll(t, TQuicklist, body), `list ["a", "2", "b"]`)

	// A node compressed with LZF, written by hand: ziplist holding one 40 x 'a' string.
	// Blob: 10 header + (00 28 + 40 bytes) + FF = 53 bytes (0x35), tail at 10.
	lz := cat(
		[]byte{0x0C}, []byte{0x35, 0, 0, 0, 0x0A, 0, 0, 0, 0x01, 0, 0x00, 0x28, 'a'}, // 13 literals
		[]byte{0xE0, 0x1E, 0x00}, // back reference: distance 1, length 7+30+2 = 39
		[]byte{0x00, 0xFF},       // literal terminator
	)
	body = cat([]byte{0x02}, []byte{0xC3, byte(len(lz)), 0x35}, lz, blob(n2))
	wantCanon(t, decodeAll(t, TQuicklist, body), `list ["`+strings.Repeat("a", 40)+`", "b"]`)

	// Writer: node size and count.
	five := Value{Kind: "list", List: strs("a", "2", "b", "c", "d")}
	wantBytes(t, "quicklist 2/node", encode(t, five, Enc{Type: TQuicklist, QuicklistNode: 2, ZipInts: true}),
		cat([]byte{0x03}, blob(n1), blob(zl([]byte{0x00, 0x01, 'b'}, []byte{0x03, 0x01, 'c'})), blob(zl([]byte{0x00, 0x01, 'd'}))))
	if b := encode(t, five, Enc{Type: TQuicklist}); b[0] != 2 { // default 4 per node
		t.Fatalf("default node size: %d nodes", b[0])
	}
	wantBytes(t, "empty quicklist", encode(t, Value{Kind: "list"}, Enc{Type: TQuicklist}), []byte{0x00})
	lzBody := encode(t, Value{Kind: "list", List: [][]byte{rep('a', 40)}}, Enc{Type: TQuicklist, BlobLZF: true})
	if lzBody[0] != 1 || lzBody[1] != 0xC3 || lzBody[3] != 0x35 {
		t.Fatalf("BlobLZF quicklist: % x", lzBody)
	}
	if _, _, err := DecodeValue(TQuicklist, []byte{0x02, 0x0B, 0x0B, 0, 0, 0, 0x0A, 0, 0, 0, 0, 0, 0xFF}); err == nil {
		t.Error("quicklist with a missing node accepted")
	}
}

func TestVectorStream(t *testing.T) {
	id := func(ms, seq byte) []byte { return []byte{0, 0, 0, 0, 0, 0, 0, ms, 0, 0, 0, 0, 0, 0, 0, seq} }
	hand := cat(
		[]byte{0x01}, // one listpack node
		[]byte{0x10}, id(5, 1), []byte{0x03, 'l', 'p', '!'},
		[]byte{0x02, 0x05, 0x02},                                                                     // length 2, last id 5-2
		[]byte{0x01},                                                                                 // one group
		[]byte{0x01, 'g', 0x05, 0x01},                                                                // name, last delivered 5-1
		[]byte{0x01}, id(5, 1), []byte{0x88, 0x77, 0x66, 0x55, 0x44, 0x33, 0x22, 0x11}, []byte{0x03}, // global PEL
		[]byte{0x01}, []byte{0x01, 'c'}, []byte{0x01, 0x02, 0x03, 0x04, 0x05, 0x06, 0x07, 0x08}, // consumer
		[]byte{0x01}, id(5, 1),
	)
	spec := StreamSpec{
		Listpacks: []StreamListpack{{MasterID: StreamID(5, 1), Listpack: []byte("lp!")}},
		Length:    2, LastMs: 5, LastSeq: 2,
		Groups: []StreamGroup{{
			Name: []byte("g"), LastMs: 5, LastSeq: 1,
			PEL:       []StreamPEL{{ID: StreamID(5, 1), DeliveryTime: 0x1122334455667788, DeliveryCount: 3}},
			Consumers: []StreamConsumer{{Name: []byte("c"), SeenTime: 0x0807060504030201, PEL: [][16]byte{StreamID(5, 1)}}},
		}},
	}
	wantBytes(t, "BuildStream", BuildStream(spec, LenCanonical), hand)

	v, n, err := DecodeValue(TStream, cat(hand, []byte{0xFF, 0x00}))
	if err != nil || n != len(hand) || v.Kind != "stream" || !bytes.Equal(v.Stream, hand) {
		t.Fatalf("stream decode: n=%d err=%v", n, err)
	}
	typ, body, err := EncodeValue(v, Enc{Type: TStream})
	if err != nil || typ != TStream || !bytes.Equal(body, hand) {
		t.Fatalf("stream encode: %v", err)
	}
	for cut := 0; cut < len(hand); cut++ {
		if _, _, err := DecodeValue(TStream, hand[:cut]); err == nil {
			t.Fatalf("stream prefix %d accepted", cut)
		}
	}
	// Forced wide forms parse to the same extent.
	for _, form := range []LenForm{Len14, Len32, Len64} {
		b := BuildStream(spec, form)
		if len(b) <= len(hand) {
			t.Fatalf("form %d not wider", form)
		}
		decodeAll(t, TStream, b)
	}
	if b := BuildStream(StreamSpec{LastMs: 1 << 40}, Len14); !bytes.Equal(b,
		[]byte{0x40, 0, 0x40, 0, 0x81, 0, 0, 1, 0, 0, 0, 0, 0, 0x40, 0, 0x40, 0}) {
		t.Fatalf("widening: % x", b)
	}
	// A node key that is not 16 bytes long is rejected.
	if _, _, err := DecodeValue(TStream, []byte{0x01, 0x02, 'a', 'b', 0x01, 'x', 0, 0, 0, 0}); err == nil {
		t.Error("short stream node key accepted")
	}
	wantBytes(t, "empty stream", BuildStream(StreamSpec{}, LenCanonical), []byte{0, 0, 0, 0, 0})
}
