package rdbref

import (
	"bytes"
	"encoding/hex"
	"math"
	"sort"
	"strconv"
	"strings"
)

// scoreKey maps a score to the identity Equal compares: every NaN is the same value, any
// other double is identified by its bit pattern (so +0 and -0 differ).
func scoreKey(f float64) uint64 {
	if math.IsNaN(f) {
		return math.Float64bits(math.NaN())
	}
	return math.Float64bits(f)
}

// Equal compares two logical values: strings and lists by content and order; sets, hashes
// and sorted sets as mathematical sets / maps (order-insensitive; zset scores compared with
// ==, NaN equal to NaN, +0 equal to -0 only if sign bits match).
//
// Unordered kinds are compared as multisets of members / (field, value) pairs / (member,
// score) pairs.  For well-formed values (distinct members, fields) that is exactly set / map
// equality; a malformed value carrying a repeated member is only equal to a value repeating
// it the same number of times.  nil and empty slices are not distinguished.
func Equal(a, b Value) bool {
	if a.Kind != b.Kind {
		return false
	}
	switch a.Kind {
	case "string":
		return bytes.Equal(a.Str, b.Str)
	case "stream":
		return bytes.Equal(a.Stream, b.Stream)
	case "list":
		if len(a.List) != len(b.List) {
			return false
		}
		for i := range a.List {
			if !bytes.Equal(a.List[i], b.List[i]) {
				return false
			}
		}
		return true
	case "set":
		if len(a.Set) != len(b.Set) {
			return false
		}
		seen := make(map[string]int, len(a.Set))
		for _, m := range a.Set {
			seen[string(m)]++
		}
		for _, m := range b.Set {
			if seen[string(m)] == 0 {
				return false
			}
			seen[string(m)]--
		}
		return true
	case "hash":
		if len(a.Hash) != len(b.Hash) {
			return false
		}
		type pair struct{ f, v string }
		seen := make(map[pair]int, len(a.Hash))
		for _, p := range a.Hash {
			seen[pair{string(p.Field), string(p.Value)}]++
		}
		for _, p := range b.Hash {
			k := pair{string(p.Field), string(p.Value)}
			if seen[k] == 0 {
				return false
			}
			seen[k]--
		}
		return true
	case "zset":
		if len(a.ZSet) != len(b.ZSet) {
			return false
		}
		type pair struct {
			m string
			s uint64
		}
		seen := make(map[pair]int, len(a.ZSet))
		for _, p := range a.ZSet {
			seen[pair{string(p.Member), scoreKey(p.Score)}]++
		}
		for _, p := range b.ZSet {
			k := pair{string(p.Member), scoreKey(p.Score)}
			if seen[k] == 0 {
				return false
			}
			seen[k]--
		}
		return true
	}
	return true // unknown kinds carry no comparable payload
}

func quote(b []byte) string { return strconv.QuoteToASCII(string(b)) }

// canonScore renders a score injectively: "nan" for every NaN, otherwise the shortest
// decimal text that parses back to the same double ("-0" for negative zero, "+Inf", "-Inf").
func canonScore(f float64) string {
	if math.IsNaN(f) {
		return "nan"
	}
	return strconv.FormatFloat(f, 'g', -1, 64)
}

// Canon is a deterministic, human-readable rendering of the value: the kind followed by the
// elements, byte strings as ASCII-only Go string literals, sets / hashes / sorted sets in
// sorted order, stream bodies in hex.  a.Canon() == b.Canon() exactly when Equal(a, b).
func (v Value) Canon() string {
	var sb strings.Builder
	sb.WriteString(v.Kind)
	switch v.Kind {
	case "string":
		sb.WriteByte(' ')
		sb.WriteString(quote(v.Str))
	case "stream":
		sb.WriteByte(' ')
		sb.WriteString(hex.EncodeToString(v.Stream))
	case "list":
		sb.WriteString(" [")
		for i, e := range v.List {
			if i > 0 {
				sb.WriteString(", ")
			}
			sb.WriteString(quote(e))
		}
		sb.WriteByte(']')
	case "set":
		items := make([]string, len(v.Set))
		for i, m := range v.Set {
			items[i] = string(m)
		}
		sort.Strings(items)
		sb.WriteString(" {")
		for i, m := range items {
			if i > 0 {
				sb.WriteString(", ")
			}
			sb.WriteString(strconv.QuoteToASCII(m))
		}
		sb.WriteByte('}')
	case "hash":
		items := make([]HF, len(v.Hash))
		copy(items, v.Hash)
		sort.Slice(items, func(i, j int) bool {
			if c := bytes.Compare(items[i].Field, items[j].Field); c != 0 {
				return c < 0
			}
			return bytes.Compare(items[i].Value, items[j].Value) < 0
		})
		sb.WriteString(" {")
		for i, p := range items {
			if i > 0 {
				sb.WriteString(", ")
			}
			sb.WriteString(quote(p.Field))
			sb.WriteString(": ")
			sb.WriteString(quote(p.Value))
		}
		sb.WriteByte('}')
	case "zset":
		items := make([]ZM, len(v.ZSet))
		copy(items, v.ZSet)
		sort.Slice(items, func(i, j int) bool {
			if c := bytes.Compare(items[i].Member, items[j].Member); c != 0 {
				return c < 0
			}
			return scoreKey(items[i].Score) < scoreKey(items[j].Score)
		})
		sb.WriteString(" {")
		for i, p := range items {
			if i > 0 {
				sb.WriteString(", ")
			}
			sb.WriteString(quote(p.Member))
			sb.WriteString(": ")
			sb.WriteString(canonScore(p.Score))
		}
		sb.WriteByte('}')
	default:
		return "unknown(" + strconv.QuoteToASCII(v.Kind) + ")"
	}
	return sb.String()
}
