package rdbref

import (
	"errors"
	"fmt"
)

// RDB length prefix:
//
//	00xxxxxx                     6-bit length
//	01xxxxxx yyyyyyyy            14-bit length, big-endian
//	10000000 + 4 bytes           32-bit length, big-endian
//	10000001 + 8 bytes           64-bit length, big-endian
//	11xxxxxx                     "encoded" marker: the low 6 bits select a special string
//	                             encoding (0 int8, 1 int16, 2 int32, 3 LZF)

// ---------------------------------------------------------------------------------------
// writer side

// appendLen appends n in the requested form; a forced form that cannot hold n is an error.
func appendLen(dst []byte, n uint64, form LenForm) ([]byte, error) {
	switch form {
	case LenCanonical:
		switch {
		case n < 1<<6:
			form = -1
		case n < 1<<14:
			form = Len14
		case n <= 0xFFFFFFFF:
			form = Len32
		default:
			form = Len64
		}
	case Len14:
		if n >= 1<<14 {
			return dst, fmt.Errorf("rdbref: length %d does not fit the 14-bit form", n)
		}
	case Len32:
		if n > 0xFFFFFFFF {
			return dst, fmt.Errorf("rdbref: length %d does not fit the 32-bit form", n)
		}
	case Len64:
	default:
		return dst, fmt.Errorf("rdbref: unknown LenForm %d", int(form))
	}
	switch form {
	case -1:
		return append(dst, byte(n)), nil
	case Len14:
		return append(dst, 0x40|byte(n>>8), byte(n)), nil
	case Len32:
		return append(dst, 0x80, byte(n>>24), byte(n>>16), byte(n>>8), byte(n)), nil
	default:
		return append(dst, 0x81,
			byte(n>>56), byte(n>>48), byte(n>>40), byte(n>>32),
			byte(n>>24), byte(n>>16), byte(n>>8), byte(n)), nil
	}
}

// appendLenWiden is appendLen for builders without an error return: form is treated as a
// minimum width and silently widened (14 -> 32 -> 64 bit) when n does not fit.
func appendLenWiden(dst []byte, n uint64, form LenForm) []byte {
	for {
		out, err := appendLen(dst, n, form)
		if err == nil {
			return out
		}
		switch form {
		case Len14:
			form = Len32
		case Len32:
			form = Len64
		default:
			form = LenCanonical
		}
	}
}

// ---------------------------------------------------------------------------------------
// reader side

// reader is a bounds-checked cursor over a byte slice.  It never panics.
type reader struct {
	b []byte
	p int
}

var errShort = errors.New("rdbref: unexpected end of data")

func (r *reader) remaining() int { return len(r.b) - r.p }

func (r *reader) errf(format string, a ...interface{}) error {
	return fmt.Errorf("rdbref: offset %d: %s", r.p, fmt.Sprintf(format, a...))
}

func (r *reader) u8() (byte, error) {
	if r.p >= len(r.b) {
		return 0, errShort
	}
	c := r.b[r.p]
	r.p++
	return c, nil
}

// take returns the next n bytes as a sub-slice of the input (no copy).
func (r *reader) take(n uint64) ([]byte, error) {
	if n > uint64(r.remaining()) {
		return nil, errShort
	}
	s := r.b[r.p : r.p+int(n)]
	r.p += int(n)
	return s, nil
}

func (r *reader) u64le() (uint64, error) {
	s, err := r.take(8)
	if err != nil {
		return 0, err
	}
	var v uint64
	for i := 7; i >= 0; i-- {
		v = v<<8 | uint64(s[i])
	}
	return v, nil
}

// lenOrEnc reads a length prefix.  When special is true the returned number is the code of
// a special string encoding rather than a length.
func (r *reader) lenOrEnc() (n uint64, special bool, err error) {
	c, err := r.u8()
	if err != nil {
		return 0, false, err
	}
	switch c >> 6 {
	case 0:
		return uint64(c & 0x3f), false, nil
	case 1:
		d, err := r.u8()
		if err != nil {
			return 0, false, err
		}
		return uint64(c&0x3f)<<8 | uint64(d), false, nil
	case 3:
		return uint64(c & 0x3f), true, nil
	}
	var width uint64
	switch c {
	case 0x80:
		width = 4
	case 0x81:
		width = 8
	default:
		r.p--
		return 0, false, r.errf("unknown length encoding byte 0x%02x", c)
	}
	s, err := r.take(width)
	if err != nil {
		return 0, false, err
	}
	for _, d := range s {
		n = n<<8 | uint64(d)
	}
	return n, false, nil
}

// length reads a plain length (a special-encoding marker is an error here).
func (r *reader) length() (uint64, error) {
	n, special, err := r.lenOrEnc()
	if err != nil {
		return 0, err
	}
	if special {
		r.p--
		return 0, r.errf("string-encoding marker 0x%02x where a length is required", 0xC0|byte(n))
	}
	return n, nil
}
